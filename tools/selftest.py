#!/usr/bin/env python3
"""Mutation self-test: for every seeded change under seeded/<name>/ (patch.diff + meta.json naming the
property), copy /repo's sources to a scratch directory, apply the patch there and run the property's
quick check against the copy (VERIF_REPO); the check must report a VIOLATION.  Nothing in /repo or in
evidence/ is touched.  Usage: tools/selftest.py [name ...] [--tier quick|thorough] [--keep]"""
import json
import os
import shutil
import subprocess
import sys
import time

V = os.path.dirname(os.path.dirname(os.path.abspath(__file__)))


def main():
    args = [a for a in sys.argv[1:] if not a.startswith("--")]
    tier = "quick"
    if "--tier" in sys.argv:
        tier = sys.argv[sys.argv.index("--tier") + 1]
        args = [a for a in args if a != tier]
    names = args or sorted(os.listdir(os.path.join(V, "seeded")))
    results = []
    details = []
    for name in names:
        d = os.path.join(V, "seeded", name)
        if not os.path.exists(os.path.join(d, "patch.diff")):
            continue
        meta = json.load(open(os.path.join(d, "meta.json")))
        pid = meta["property"]
        checks = meta.get("checks", [pid])
        scratch = "/dev/shm/verif-selftest-%d-%s" % (os.getpid(), name)
        shutil.rmtree(scratch, ignore_errors=True)
        os.makedirs(scratch)
        subprocess.run(["rsync", "-a", "--exclude", "_build", "--exclude", ".git", "/repo/", scratch + "/repo/"], check=True)
        r = subprocess.run(["patch", "-p1", "-s", "-d", scratch + "/repo", "-i", os.path.join(d, "patch.diff")], stdout=subprocess.PIPE, stderr=subprocess.STDOUT, universal_newlines=True)
        if r.returncode != 0:
            print("%-28s PATCH DOES NOT APPLY: %s" % (name, r.stdout[-300:]))
            results.append((name, "noapply"))
            details.append([])
            shutil.rmtree(scratch, ignore_errors=True)
            continue
        env = dict(os.environ)
        env.update({"VERIF_REPO": scratch + "/repo", "VERIF_BUILD": scratch + "/build", "VERIF_EVIDENCE_DIR": scratch + "/evidence", "VERIF_REPLAY_DIR": scratch + "/replays"})
        caught = []
        t0 = time.time()
        for c in checks:
            cmd = [os.path.join(V, "check"), c, "--tier", tier]
            unit = meta.get("unit")
            if unit:
                cmd += ["--unit", unit]
            r = subprocess.run(cmd, cwd=V, env=env, stdout=subprocess.PIPE, stderr=subprocess.STDOUT, universal_newlines=True)
            viol = [l for l in r.stdout.splitlines() if l.startswith("VIOLATION")]
            sigs = [l.strip() for l in r.stdout.splitlines() if l.strip().startswith("signature:")]
            if r.returncode == 1 and viol:
                caught.append((c, sigs[:2]))
            elif r.returncode not in (0, 1):
                print("   check %s exit %d: %s" % (c, r.returncode, r.stdout[-600:]))
        status = "CAUGHT" if caught else "MISSED"
        print("%-28s %-7s %5.0fs %s" % (name, status, time.time() - t0, "; ".join("%s %s" % (c, s) for c, s in caught)[:400]), flush=True)
        results.append((name, status))
        details.append([{"check": c, "signatures": [x.replace("signature: ", "")[:200] for x in sg]} for c, sg in caught])
        if "--keep" not in sys.argv:
            shutil.rmtree(scratch, ignore_errors=True)
    # merge into the committed results table (one entry per seed: last outcome)
    rp = os.path.join(V, "seeded", "selftest_results.json")
    table = json.load(open(rp)) if os.path.exists(rp) else {}
    for (n, st), det in zip(results, details):
        table[n] = {"status": st, "tier": tier, "caught_by": det}
    json.dump(table, open(rp, "w"), indent=1, sort_keys=True)
    missed = [n for n, s in results if s != "CAUGHT"]
    print("selftest: %d seeded changes, %d caught, missed: %s" % (len(results), len(results) - len(missed), missed))
    return 1 if missed else 0


if __name__ == "__main__":
    sys.exit(main())
