#!/bin/bash
# process_seeds.sh <worktree prefix, e.g. /tmp/s2-> <tag, e.g. r2> <ID ...> : import seeds, confirm them, run the self-test on the confirmed ones
PFX=$1; TAG=$2; shift 2
cd /verif
NAMES=""
for id in "$@"; do for i in 1 2 3; do
  src=${PFX}${id}/seed$i
  [ -f $src/patch.diff ] || continue
  name=$id-$TAG-seed$i
  mkdir -p seeded/$name; cp -r $src/* seeded/$name/
  if tools/confirm_seed.sh seeded/$name 2>&1 | tail -1 | grep -q "^CONFIRMED"; then echo "CONFIRMED $name"; NAMES="$NAMES $name"; else echo "NOT CONFIRMED $name (removed)"; rm -rf seeded/$name; fi
done; done
python3 tools/selftest.py $NAMES
