#!/usr/bin/env python3
"""Runs every registered check (MANIFEST.json) at the given tier, sequentially, and prints one line each.
Usage: tools/run_all.py [quick|thorough] [ID ...]"""
import json
import os
import subprocess
import sys
import time

V = os.path.dirname(os.path.dirname(os.path.abspath(__file__)))
tier = "quick"
ids = []
for a in sys.argv[1:]:
    if a in ("quick", "thorough"):
        tier = a
    else:
        ids.append(a)
m = json.load(open(os.path.join(V, "MANIFEST.json")))
os.makedirs(os.path.join(V, "build", "logs"), exist_ok=True)
bad = 0
for c in m["checks"]:
    pid = c["property_id"]
    if ids and pid not in ids:
        continue
    cmd = c["quick_cmd"] if tier == "quick" else c.get("thorough_cmd", c["quick_cmd"])
    t0 = time.time()
    r = subprocess.run(cmd, shell=True, cwd=V, stdout=subprocess.PIPE, stderr=subprocess.STDOUT, universal_newlines=True)
    open(os.path.join(V, "build", "logs", "%s.%s.log" % (pid, tier)), "w").write(r.stdout)
    last = [l for l in r.stdout.splitlines() if l.startswith("check ")]
    known = len([l for l in r.stdout.splitlines() if l.startswith("KNOWN-FINDING")])
    print("%s exit=%d %5.0fs known=%d %s" % (pid, r.returncode, time.time() - t0, known, last[-1][:220] if last else r.stdout[-300:]), flush=True)
    if r.returncode != 0:
        bad += 1
sys.exit(1 if bad else 0)
