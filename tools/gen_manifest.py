#!/usr/bin/env python3
"""Regenerates MANIFEST.json from the table below (run from /verif)."""
import json
import os
import subprocess

V = os.path.dirname(os.path.dirname(os.path.abspath(__file__)))
props = [json.loads(l) for l in open(os.path.join(V, "properties.jsonl"))]

E1 = "mcsched"
E2 = "seqmc"
E3 = "gridmc"

# id -> (engine, technique, level text, level note, design ref)
CHECKS = {
    "C03": (E1, "stateless model checking of the real code: exhaustive deviation-bounded (iterative context/delay bounding) enumeration of thread schedules under a controlled scheduler; monitor + deadlock/livelock + happens-before race + lifetime oracles on every execution",
            "Every schedule of the controller thread against the loop thread (and pool worker) with at most d deviations from the canonical schedule is executed on the real AsyncLoop.h, for every start/stop script up to length 3 (thorough 4) and both launch methods; the monitor checks stop()/start()/destructor guarantees on each. This is the right level because the property quantifies over interleavings with windows a few instructions wide: only controlled scheduling reaches them, and exhaustive enumeration up to a bound gives a coverage statement.",
            "Sequential consistency; completeness only up to the completed deviation bound (evidence names it); g++ TSan instrumentation reports every atomic/plain access; scripts longer than 4 calls not covered.", "DESIGN.md 2.1, 4 C03"),
    "C12": (E1, "stateless model checking of the real code: exhaustive deviation-bounded enumeration of producer/consumer schedules; linearizability-style oracle on batches and values plus a vector-clock happens-before race detector on every plain access",
            "All schedules of 1-3 producers against a consumer (TransactionalBuffer) and of one producer against one consumer (TransactionalValue) up to the completed deviation bound, on the real headers; loss/duplication/order/torn-size are checked per execution and 'no data race' is decided by the happens-before detector, which reports a race in every schedule containing both accesses.",
            "Sequential consistency; 2-3 operations per thread; up to 3 producers (the statement's 1..8 is covered for <=3 only); bound named in the evidence.", "DESIGN.md 2.1, 4 C12"),
    "C01": (E1, "stateless model checking of the real enkiTS scheduler and pipe: exhaustive deviation-bounded enumeration of caller/worker schedules with exactly-once, happens-before (join/visibility) and lifetime oracles; plus exhaustive enumeration of a declared input set (counts x 7 index types x block sizes) on all four backend builds",
            "parallel_for / parallel_foreach / parallel_in_blocks_of on the internal backend are executed under every schedule up to the completed deviation bound for pools of 1-3 threads, n in {-1,0..6}, nesting, 1- and 2-slot pipes (pipe-full path) and the lock-less pipe is driven directly with 1 writer and 1-2 readers; bodies write plain cells, so a missing join or a doubly executed index is a reported race or a wrong count. For TBB, OpenMP, internal and debug builds every count of a boundary-heavy set x every accepted index type x block sizes 1..64 x n in [-3,70] is executed free-running. Schedules are what the property quantifies over and what the suite samples once; inputs/configurations are enumerable.",
            "Sequential consistency (enkiTS volatile = SC atomic); TBB/libgomp scheduling not owned, so for those backends the verdict is exhaustive over inputs but observational over schedules; pool sizes > 3 and n > 6 under the controlled scheduler not covered.", "DESIGN.md 2.1, 4 C01"),
    "C13": (E2, "bounded-exhaustive exploration of initialisation histories on all four backend builds (fresh process per history, reference model of the reported count) plus stateless model checking of the concurrency bound on the internal backend (deviation-bounded schedule enumeration with an in-body occupancy assertion)",
            "Every sequence of initTaskingSystem(n) calls up to length 3 (thorough 4) over n in {-1,0,1,2,3,5,2*hw} is executed per backend and numTaskingThreads() compared with the model after each call; the never-exceeded part is decided on every schedule up to the bound for the internal backend (pools of 1-3, nested loops) and probed with a rendezvous body on TBB/OpenMP.",
            "The occupancy bound on TBB and OpenMP is observational over their schedules; hardware thread count of this sandbox (16).", "DESIGN.md 2.1, 2.2, 4 C13"),
    "C02": (E1, "stateless model checking of the real code: exhaustive deviation-bounded enumeration of schedules of the caller against the executing worker/detached thread, for every controller script; exactly-once, value, happens-before race and quarantine lifetime oracles on every execution",
            "schedule(), async() and AsyncTask<T> (int, heap-owning std::string, lifetime-instrumented payload) are executed on the real headers and the real enkiTS scheduler under every schedule up to the completed deviation bound, for the internal backend with 2 and with 1 pool threads, the std::thread based OpenMP configuration and the serial debug backend; every {finished,get,wait} script up to length 3 followed by destruction. The property is about a window a few instructions wide (task start vs. member construction) and about memory touched after release: both need every schedule plus instrumentation, which this gives up to the bound.",
            "Sequential consistency; TBB's own scheduling is not owned (TBB backend not claimed for the schedule quantifier); bursts larger than 3 tasks not covered; bound named in the evidence.", "DESIGN.md 2.1, 4 C02"),
    "C04": (E3, "bounded-exhaustive input enumeration against the real vec.h overloads: every operand tuple over a per-type value alphabet (A^(2N)) for every overload family x 10 element types x 4 shapes, per-component scalar oracle",
            "Every overload family of vec.h is executed on every operand tuple of a small alphabet chosen so that all components can differ pairwise, for all element types and shapes, and compared with the scalar definition applied per component under the promotion the overload's return type implies. vec.h has no value-dependent control flow, so the wrong-component / wrong-overload class of defect is decided by such a grid.",
            "Values outside the alphabet are not covered; float sums and rsqrt/rcp based results are compared with a small ulp tolerance; signed overflow and division by zero excluded as in the statement.", "DESIGN.md 2.3, 4 C04"),
    "C05": (E3, "bounded-exhaustive input enumeration: every box pair x every point of a coordinate grid (dimensions 1-4, int and float), all grid rays and a grid of affine maps, against an exact point-membership / rational slab oracle",
            "All boxes and points over a 5-value coordinate grid (incl. the default empty box, degenerate, touching, nested, per-axis overlapping) are enumerated for every set operation of range.h/box.h and compared with point membership evaluated exactly; rays and xfmBounds against exact slab intervals and corner images. Boundary inclusivity and per-axis mix-ups only show on inputs exactly on a boundary or differing per axis - a complete small grid contains all of them.",
            "Inverted boxes other than the default empty box are outside the domain; intersectRayBox compared within the rcp contract (2^-18 relative); grid coordinates only.", "DESIGN.md 2.3, 4 C05"),
    "C06": (E3, "bounded-exhaustive input enumeration: every 2x2/3x3 matrix over a small entry set with condition number <= 64, every axis x angle pair of a 26 x 49 grid, unit quaternion pairs and slerp factors, against an independent long double re-implementation of the algebra",
            "Every identity of the statement is evaluated on every grid element for LinearSpace2f/3f/3fa, AffineSpace2f/3f/3fa, quatf and quatd and compared with the same algebra in long double within 32*kappa*eps; all four branches of the matrix-to-quaternion constructor are counted. A sign or index slip changes results by O(1), far above the tolerance.",
            "Finite grid of a continuum: the claim is 'every grid point'; tolerance derived from the condition number.", "DESIGN.md 2.3, 4 C06"),
    "C07": (E3, "exhaustive enumeration of all 2^32 float bit patterns (two builds: SIMD and RKCOMMON_NO_SIMD) for the unary kernels against a double-precision oracle; bounded-exhaustive boundary grids for the binary/ternary kernels, the packing functions and the distributions",
            "rcp, rsqrt, rcp_safe, sign, deg2rad, cvt_uint32 and the sRGB packing are decided for every float there is, in both builds; clamp/divRoundUp/lerp/madd, the vec packing and the random distributions are enumerated over complete boundary-heavy grids (and every 32-bit seed for the first draw). The claim about every float is enumerable, so it is decided by exhaustion rather than sampled.",
            "rcpss/rsqrtss estimates of this CPU; double 1/x and sqrt as reference; three exotic-range classes of uniform_real_distribution are known findings (known_findings.json).", "DESIGN.md 2.3, 4 C07"),
    "C08": (E2, "bounded-exhaustive exploration of operation histories on real IntrusivePtr handles against a reference count model under ASan/UBSan, plus stateless model checking (deviation-bounded schedule enumeration, lifetime and race oracles) of threads sharing references",
            "Every history up to depth 5 (thorough 6) over create/refInc/refDec/copy/move/convert/raw/assign/null/destroy/compare on 2 objects and 3 handle slots is replayed on fresh real objects and useCount(), destruction time and identity comparisons are compared with the model after every step; 2-3 threads copying/assigning/dropping shared references are explored on every schedule up to the completed bound.",
            "Histories deeper than the bound and more than 3 threads are not covered; sequential consistency for the threaded unit.", "DESIGN.md 2.1, 2.2, 4 C08"),
    "C09": (E2, "bounded-exhaustive exploration of operation histories on real Optional<T>/Any objects (payloads int, std::string, lifetime-instrumented, over-aligned placements) against value-type reference models, in forked shards under ASan/UBSan with crash attribution",
            "Every history up to depth 4 (thorough 5) over the full alphabet of constructors, assignments (engaged and empty sources, converting forms), emplace/reset/value_or/comparisons is replayed on fresh objects; has_value/value, copy independence, exception behaviour and the payload lifetime registry are checked after every step. Lifetime errors with trivial payloads have no visible effect - they need the instrumented payload plus every engaged/empty combination, which histories enumerate.",
            "Depth bound; payload types listed in the evidence.", "DESIGN.md 2.2, 4 C09"),
    "C10": (E2, "bounded-exhaustive exploration of operation histories on real FlatMap / ParameterizedObject against an insertion-ordered reference map, step-by-step comparison of every return value, exception and the full ordered contents",
            "Every history up to depth 6 (thorough 7) over 3 keys x 2 values (and parameter names x 3 types) is replayed on fresh real containers and compared with a vector-of-pairs model after every step, including order after erase, duplicate suppression, type change of a parameter and the query flag.",
            "Depth and alphabet bound.", "DESIGN.md 2.2, 4 C10"),
    "C11": (E2, "bounded-exhaustive exploration of operation histories on real array wrappers (construct/assign/reset/resize/copy/destroy of wrappers and of their source buffers) against a contents model, every element read under ASan after every step",
            "Every history up to depth 4 (thorough 5) over ArrayView, OwnedArray, FixedArray, FixedArrayView and DataView operations incl. copy-then-destroy-original and reallocating resize is replayed; size/data/at/iteration and every element are compared with the model, and ASan turns any dangling pointer into a report attributed to the history.",
            "Depth bound; element types of size 1/2/4/8.", "DESIGN.md 2.2, 4 C11"),
    "C14": (E2, "bounded-exhaustive exploration of allocation histories (alignedMalloc/alignedFree over a boundary-heavy size x alignment set, AlignedVector operation sequences) against a live-block pattern model, two allocator back ends",
            "Every history up to depth 5 (thorough 6) of malloc/free over 10 sizes x 13 alignments and 3 slots, and of AlignedVector operations for 5 element sizes, is executed on the real code for both back ends (TBB scalable allocator, _mm_malloc under ASan); alignment, usability of the full extent, pattern integrity, disjointness and the length_error contract are checked after every step.",
            "Depth bound; allocator internals beyond what patterns/ASan can see are trusted.", "DESIGN.md 2.2, 4 C14"),
    "C15": (E2, "bounded-exhaustive exploration of typed value sequences, of every truncation point of each stream, and of raw cursor / FixedBufferWriter operation histories against byte-exact reference models under ASan",
            "Every sequence up to length 3 (thorough 4) over a value alphabet covering every streaming overload is written, size-predicted and read back; every prefix of every stream is read from an exactly-sized buffer (must throw, ASan silent); every history of read/getView sizes incl. SIZE_MAX and of write/reserve against capacities 0..6 is compared with the cursor model.",
            "Sequence length and alphabet bound.", "DESIGN.md 2.2, 4 C15"),
    "C16": (E3, "exhaustive enumeration of all byte strings up to length 6 (thorough 7) over a 12-symbol XML alphabet, of all small document trees and of every truncation / single-byte substitution of those documents, through the public file reader under ASan with a hang oracle",
            "readXML is executed on every short byte string over the characters its scanner branches on, on every generated tree of the documented subset (compared node by node), and on every truncation and every one-byte mutation of those documents; totality (returns or std::runtime_error), memory safety (ASan, buffer of exactly numBytes+1) and termination are checked on each.",
            "Strings longer than 7 bytes only as mutations of generated documents (<= 60 bytes); nesting depth bounded by construction.", "DESIGN.md 2.3, 4 C16"),
    "C17": (E3, "exhaustive enumeration of every extent up to 5^3 (every coordinate and index), a grid of large extents against an __int128 oracle, all sub-regions for for_each and all shifts / clip boxes / slice counts for the Array3D adaptors",
            "flatten/reshape/longIndex/coordsOf are checked to be mutually inverse bijections in flattened order on every coordinate of every small extent and on boundary coordinates of extents whose products exceed 2^31, 2^32 and 2^62; iteration visits each coordinate once in order; every adaptor returns the cell its definition names for every coordinate incl. out-of-range ones; getValueRange equals brute-force min/max.",
            "Extent bounds as stated in the evidence.", "DESIGN.md 2.3, 4 C17"),
    "C19": (E2, "bounded-exhaustive exploration of create/destroy/notify/poll histories on real Observable/Observer objects against a pending-flag model under ASan, plus stateless model checking (deviation-bounded schedule enumeration) of concurrent TimeStamp creation/renewal",
            "Every history up to depth 6 (thorough 7) over 2 observables and 3 observer slots incl. both destruction orders is replayed and wasNotified() compared with the model at every poll; 2-4 threads creating/renewing/copying TimeStamps are explored on every schedule up to the completed bound and all gathered values must be pairwise distinct and per-thread increasing.",
            "Depth bound; sequential consistency for the threaded unit.", "DESIGN.md 2.1, 2.2, 4 C19"),
    "C20": (E3, "exhaustive enumeration of image sizes x formats x fill patterns with exactly-sized input buffers under ASan and an independent decoder; bounded-exhaustive enumeration of well-nested trace event sequences, chunk-boundary lengths and thread counts with a strict JSON parser as oracle",
            "Every (w,h) in [1,4]^2 x every writer x 256 fill patterns is written and decoded independently; every well-nested event sequence up to length 6 plus the chunk-edge lengths, nesting depths 0..4 and 1..8 recording threads is saved and the file parsed strictly: per thread exactly the recorded events in order with matching begin/end nesting.",
            "Pixel values beyond the fill patterns are not enumerated (the writers copy bytes without value-dependent control flow); image sizes up to 4x4.", "DESIGN.md 2.2, 2.3, 4 C20"),
    "C18": (E3, "bounded-exhaustive input enumeration against the real functions: every string/argument vector/URL component list of a declared finite space, independent naive oracle per case",
            "Every string up to length 6 (thorough 8) over alphabets that make delimiters, dots, separators and 0/1-character tokens frequent, every small URL / path / argv, and every decade and branch-constant neighbourhood of the pretty printers is executed against the real code under ASan/UBSan and compared with naive definitions of the decomposition laws. Exhaustive over the declared space; says nothing beyond it.",
            "The naive oracles are the intended definitions; longer strings behave like shorter ones (the code has no length-dependent control flow beyond token length 0/1/2).", "DESIGN.md 2.3, 4 C18"),
}

# properties whose check has been built, run end to end on the current tree and reviewed
ENABLED = {"C%02d" % i for i in range(1, 21)}

REASON_PENDING = "check under construction in this session (harness not yet registered); see DESIGN.md section 4"

def main():
    hooks_commits = subprocess.run(["git", "-C", "/repo", "log", "--format=%h %s"], stdout=subprocess.PIPE, universal_newlines=True).stdout.splitlines()
    hook_ids = [l.split()[0] for l in hooks_commits if l.split(" ", 1)[1].startswith("verif hooks")]
    m = {
        "version": 1,
        "setup_cmd": "cd /verif && python3 tools/setup.py",
        "hooks": {
            "guard": "RKCOMMON_VERIF",
            "enable": "every check compiles the rkcommon sources it needs itself with -DRKCOMMON_VERIF (plus -DRKCOMMON_VERIF_PIPESIZE_LOG2=<n> / -DRKCOMMON_VERIF_SPIN_COUNT=<n> for the enkiTS units); no CMake option is involved",
            "baseline_off_cmd": "cd /repo && cmake --build _build && ctest --test-dir _build -j8 --timeout 900",
            "source_commits": hook_ids,
            "add_only": True,
        },
        "engines": [
            {"name": E1, "path": "engine/mcsched", "serves_properties": ["C01", "C02", "C03", "C08", "C12", "C13", "C19", "C20"],
             "kind_free_text": "stateless model checker for real threads: cooperative scheduler over compiler-inserted (TSan) and interposed (pthread/sem/futex) visible operations, level-wise deviation-bounded exploration, fork per execution, HB race detector and quarantine lifetime oracle"},
            {"name": E2, "path": "engine/common", "serves_properties": ["C08", "C09", "C10", "C11", "C13", "C14", "C15", "C19", "C20"],
             "kind_free_text": "bounded-exhaustive operation-history exploration of real objects against reference models, forked shards under ASan/UBSan with crash attribution"},
            {"name": E3, "path": "engine/common", "serves_properties": ["C04", "C05", "C06", "C07", "C16", "C17", "C18", "C20"],
             "kind_free_text": "exhaustive enumeration of declared finite input spaces (up to all 2^32 floats) against independent wider-precision / naive oracles"},
        ],
        "checks": [],
        "not_applicable": [],
        "notes": "All checks: ./check <ID> --tier quick|thorough. Replays: ./check <ID> --replay <file>. Known findings: known_findings.json.",
    }
    for p in props:
        pid = p["id"]
        if pid in CHECKS and pid in ENABLED:
            eng, tech, text, note, ref = CHECKS[pid]
            m["checks"].append({
                "property_id": pid,
                "quick_cmd": "./check %s --tier quick" % pid,
                "thorough_cmd": "./check %s --tier thorough" % pid,
                "evidence_file": "/verif/evidence/%s.json" % pid,
                "replay_cmd_template": "./check %s --replay {path}" % pid,
                "engine": eng,
                "level_claimed": {"category": "model_checking", "text": text, "design_ref": ref},
                "level_note": note,
                "technique": tech,
            })
        else:
            m["not_applicable"].append({"property_id": pid, "reason": REASON_PENDING})
    json.dump(m, open(os.path.join(V, "MANIFEST.json"), "w"), indent=1)
    print("checks:", [c["property_id"] for c in m["checks"]])

if __name__ == "__main__":
    main()
