#!/usr/bin/env python3
"""Regenerates MANIFEST.json from the table below (run from /verif)."""
import json
import os
import subprocess

V = os.path.dirname(os.path.dirname(os.path.abspath(__file__)))
props = [json.loads(l) for l in open(os.path.join(V, "properties.jsonl"))]

E1 = "mcsched"
E2 = "seqmc"
E3 = "gridmc"

# id -> (engine, technique, level text, level note, design ref)
CHECKS = {
    "C03": (E1, "stateless model checking of the real code: exhaustive deviation-bounded (iterative context/delay bounding) enumeration of thread schedules under a controlled scheduler; monitor + deadlock/livelock + happens-before race + lifetime oracles on every execution",
            "Every schedule of the controller thread against the loop thread (and pool worker) with at most d deviations from the canonical schedule is executed on the real AsyncLoop.h, for every start/stop script up to length 3 (thorough 4) and both launch methods; the monitor checks stop()/start()/destructor guarantees on each. This is the right level because the property quantifies over interleavings with windows a few instructions wide: only controlled scheduling reaches them, and exhaustive enumeration up to a bound gives a coverage statement.",
            "Sequential consistency; completeness only up to the completed deviation bound (evidence names it); g++ TSan instrumentation reports every atomic/plain access; scripts longer than 4 calls not covered.", "DESIGN.md 2.1, 4 C03"),
    "C12": (E1, "stateless model checking of the real code: exhaustive deviation-bounded enumeration of producer/consumer schedules; linearizability-style oracle on batches and values plus a vector-clock happens-before race detector on every plain access",
            "All schedules of 1-3 producers against a consumer (TransactionalBuffer) and of one producer against one consumer (TransactionalValue) up to the completed deviation bound, on the real headers; loss/duplication/order/torn-size are checked per execution and 'no data race' is decided by the happens-before detector, which reports a race in every schedule containing both accesses.",
            "Sequential consistency; 2-3 operations per thread; up to 3 producers (the statement's 1..8 is covered for <=3 only); bound named in the evidence.", "DESIGN.md 2.1, 4 C12"),
    "C01": (E1, "stateless model checking of the real enkiTS scheduler and pipe: exhaustive deviation-bounded enumeration of caller/worker schedules with exactly-once, happens-before (join/visibility) and lifetime oracles; plus exhaustive enumeration of a declared input set (counts x 7 index types x block sizes) on all four backend builds",
            "parallel_for / parallel_foreach / parallel_in_blocks_of on the internal backend are executed under every schedule up to the completed deviation bound for pools of 1-3 threads, n in {-1,0..6}, nesting, 1- and 2-slot pipes (pipe-full path) and the lock-less pipe is driven directly with 1 writer and 1-2 readers; bodies write plain cells, so a missing join or a doubly executed index is a reported race or a wrong count. For TBB, OpenMP, internal and debug builds every count of a boundary-heavy set x every accepted index type x block sizes 1..64 x n in [-3,70] is executed free-running. Schedules are what the property quantifies over and what the suite samples once; inputs/configurations are enumerable.",
            "Sequential consistency (enkiTS volatile = SC atomic); TBB/libgomp scheduling not owned, so for those backends the verdict is exhaustive over inputs but observational over schedules; pool sizes > 3 and n > 6 under the controlled scheduler not covered.", "DESIGN.md 2.1, 4 C01"),
    "C13": (E2, "bounded-exhaustive exploration of initialisation histories on all four backend builds (fresh process per history, reference model of the reported count) plus stateless model checking of the concurrency bound on the internal backend (deviation-bounded schedule enumeration with an in-body occupancy assertion)",
            "Every sequence of initTaskingSystem(n) calls up to length 3 (thorough 4) over n in {-1,0,1,2,3,5,2*hw} is executed per backend and numTaskingThreads() compared with the model after each call; the never-exceeded part is decided on every schedule up to the bound for the internal backend (pools of 1-3, nested loops) and probed with a rendezvous body on TBB/OpenMP.",
            "The occupancy bound on TBB and OpenMP is observational over their schedules; hardware thread count of this sandbox (16).", "DESIGN.md 2.1, 2.2, 4 C13"),
    "C02": (E1, "stateless model checking of the real code: exhaustive deviation-bounded enumeration of schedules of the caller against the executing worker/detached thread, for every controller script; exactly-once, value, happens-before race and quarantine lifetime oracles on every execution",
            "schedule(), async() and AsyncTask<T> (int, heap-owning std::string, lifetime-instrumented payload) are executed on the real headers and the real enkiTS scheduler under every schedule up to the completed deviation bound, for the internal backend with 2 and with 1 pool threads, the std::thread based OpenMP configuration and the serial debug backend; every {finished,get,wait} script up to length 3 followed by destruction. The property is about a window a few instructions wide (task start vs. member construction) and about memory touched after release: both need every schedule plus instrumentation, which this gives up to the bound.",
            "Sequential consistency; TBB's own scheduling is not owned (TBB backend not claimed for the schedule quantifier); bursts larger than 3 tasks not covered; bound named in the evidence.", "DESIGN.md 2.1, 4 C02"),
    "C18": (E3, "bounded-exhaustive input enumeration against the real functions: every string/argument vector/URL component list of a declared finite space, independent naive oracle per case",
            "Every string up to length 6 (thorough 8) over alphabets that make delimiters, dots, separators and 0/1-character tokens frequent, every small URL / path / argv, and every decade and branch-constant neighbourhood of the pretty printers is executed against the real code under ASan/UBSan and compared with naive definitions of the decomposition laws. Exhaustive over the declared space; says nothing beyond it.",
            "The naive oracles are the intended definitions; longer strings behave like shorter ones (the code has no length-dependent control flow beyond token length 0/1/2).", "DESIGN.md 2.3, 4 C18"),
}

REASON_PENDING = "check under construction in this session (harness not yet registered); see DESIGN.md section 4"

def main():
    hooks_commits = subprocess.run(["git", "-C", "/repo", "log", "--format=%h %s"], stdout=subprocess.PIPE, universal_newlines=True).stdout.splitlines()
    hook_ids = [l.split()[0] for l in hooks_commits if l.split(" ", 1)[1].startswith("verif hooks")]
    m = {
        "version": 1,
        "setup_cmd": "cd /verif && python3 tools/setup.py",
        "hooks": {
            "guard": "RKCOMMON_VERIF",
            "enable": "every check compiles the rkcommon sources it needs itself with -DRKCOMMON_VERIF (plus -DRKCOMMON_VERIF_PIPESIZE_LOG2=<n> / -DRKCOMMON_VERIF_SPIN_COUNT=<n> for the enkiTS units); no CMake option is involved",
            "baseline_off_cmd": "cd /repo && cmake --build _build && ctest --test-dir _build -j8 --timeout 900",
            "source_commits": hook_ids,
            "add_only": True,
        },
        "engines": [
            {"name": E1, "path": "engine/mcsched", "serves_properties": ["C01", "C02", "C03", "C08", "C12", "C13", "C19", "C20"],
             "kind_free_text": "stateless model checker for real threads: cooperative scheduler over compiler-inserted (TSan) and interposed (pthread/sem/futex) visible operations, level-wise deviation-bounded exploration, fork per execution, HB race detector and quarantine lifetime oracle"},
            {"name": E2, "path": "engine/common", "serves_properties": ["C08", "C09", "C10", "C11", "C13", "C14", "C15", "C19", "C20"],
             "kind_free_text": "bounded-exhaustive operation-history exploration of real objects against reference models, forked shards under ASan/UBSan with crash attribution"},
            {"name": E3, "path": "engine/common", "serves_properties": ["C04", "C05", "C06", "C07", "C16", "C17", "C18", "C20"],
             "kind_free_text": "exhaustive enumeration of declared finite input spaces (up to all 2^32 floats) against independent wider-precision / naive oracles"},
        ],
        "checks": [],
        "not_applicable": [],
        "notes": "All checks: ./check <ID> --tier quick|thorough. Replays: ./check <ID> --replay <file>. Known findings: known_findings.json.",
    }
    for p in props:
        pid = p["id"]
        if pid in CHECKS:
            eng, tech, text, note, ref = CHECKS[pid]
            m["checks"].append({
                "property_id": pid,
                "quick_cmd": "./check %s --tier quick" % pid,
                "thorough_cmd": "./check %s --tier thorough" % pid,
                "evidence_file": "/verif/evidence/%s.json" % pid,
                "replay_cmd_template": "./check %s --replay {path}" % pid,
                "engine": eng,
                "level_claimed": {"category": "model_checking", "text": text, "design_ref": ref},
                "level_note": note,
                "technique": tech,
            })
        else:
            m["not_applicable"].append({"property_id": pid, "reason": REASON_PENDING})
    json.dump(m, open(os.path.join(V, "MANIFEST.json"), "w"), indent=1)
    print("checks:", [c["property_id"] for c in m["checks"]])

if __name__ == "__main__":
    main()
