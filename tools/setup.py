#!/usr/bin/env python3
"""setup_cmd: verify the toolchain and pre-build the engine runtime (everything else is built by each check)."""
import os
import shutil
import subprocess
import sys

V = os.path.dirname(os.path.dirname(os.path.abspath(__file__)))
for tool in ["g++", "clang++", "addr2line", "python3"]:
    if not shutil.which(tool):
        print("missing tool:", tool)
        sys.exit(1)
os.makedirs(os.path.join(V, "build"), exist_ok=True)
os.makedirs(os.path.join(V, "evidence"), exist_ok=True)
r = subprocess.run(["g++", "-std=c++11", "-O1", "-g", "-fno-pie", "-I", os.path.join(V, "engine"), "-c",
                    os.path.join(V, "engine", "mcsched", "mc.cpp"), "-o", os.path.join(V, "build", "mc_probe.o")])
sys.exit(r.returncode)
