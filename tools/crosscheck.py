#!/usr/bin/env python3
"""Supplementary, NOT a registered check: builds the mcsched harness bodies against the real
ThreadSanitizer runtime and runs every scenario free-running N times (sampling).  Usage:
tools/crosscheck.py [--runs N] [ID ...]"""
import os
import subprocess
import sys

V = os.path.dirname(os.path.dirname(os.path.abspath(__file__)))
sys.path.insert(0, os.path.join(V, "lib"))
import vcheck  # noqa
import units  # noqa

runs = "100"
ids = []
a = sys.argv[1:]
while a:
    x = a.pop(0)
    if x == "--runs":
        runs = a.pop(0)
    else:
        ids.append(x)
vcheck.ensure_version_h()
rc = 0
for pid, us in sorted(units.UNITS.items()):
    if ids and pid not in ids:
        continue
    for u in us:
        if not u.mcsched:
            continue
        out = os.path.join(vcheck.BUILD, "crosscheck", pid, u.name)
        os.makedirs(out, exist_ok=True)
        srcs = [os.path.join(V, s) for s in u.src] + [os.path.join(vcheck.REPO, s) for s in u.repo_src] + [os.path.join(V, "engine", "mcsched", "mc_free.cpp")]
        exe = os.path.join(out, "free")
        # enkiTS synchronises through volatile accesses, which the real ThreadSanitizer (correctly, by the letter of
        # the C++ memory model) reports as races on every run; the internal-backend and pipe units are therefore
        # cross-checked under AddressSanitizer (lifetime errors), the others under ThreadSanitizer
        san = "address" if (any("TASKING_INTERNAL" in d for d in u.defs) or u.name == "pipe") else "thread"
        cmd = ["g++", "-std=c++11", "-O1", "-g", "-fsanitize=" + san, "-I", vcheck.REPO, "-I", os.path.join(vcheck.BUILD, "include"), "-I", os.path.join(V, "engine"),
               "-I", os.path.join(V, "harness"), "-DRKCOMMON_VERIF", "-w"] + ["-D" + d for d in u.defs] + srcs + ["-o", exe] + u.libs + ["-lpthread", "-ldl"]
        r = subprocess.run(cmd, stdout=subprocess.PIPE, stderr=subprocess.STDOUT, universal_newlines=True)
        if r.returncode != 0:
            print("build failed for %s/%s:\n%s" % (pid, u.name, r.stdout[-2000:]))
            rc = 2
            continue
        args = [exe, "--runs", runs]
        for t in u.args.get("quick", []):
            args.append(t)
        env = dict(os.environ)
        env["TSAN_OPTIONS"] = "halt_on_error=1:exitcode=66:report_thread_leaks=0"
        env["ASAN_OPTIONS"] = "detect_leaks=0:exitcode=67"
        r = subprocess.run(args, stdout=subprocess.PIPE, stderr=subprocess.STDOUT, universal_newlines=True, env=env)
        last = [l for l in r.stdout.splitlines() if l.startswith("free-running") or l.startswith("FREE-RUN")]
        print("%s/%s (%s sanitizer): %s" % (pid, u.name, san, "; ".join(last[-3:])), flush=True)
        if r.returncode != 0:
            rc = 1
            open(os.path.join(out, "log.txt"), "w").write(r.stdout)
sys.exit(rc)
