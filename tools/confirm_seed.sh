#!/bin/bash
# confirm_seed.sh <seed dir with patch.diff, build_and_run.sh> : verifies in a scratch worktree that the
# change compiles, passes the existing test suite, and that its demonstration fails with / passes without it.
set -u
SEED=$(realpath "$1"); NAME=$(basename "$SEED")
WT=/tmp/confirm-$NAME-$$
git -C /repo worktree add -q "$WT" HEAD || exit 2
cleanup() { git -C /repo worktree remove --force "$WT" >/dev/null 2>&1; }
trap cleanup EXIT
echo "== demo without patch"; (cd "$SEED" && timeout 900 bash ./build_and_run.sh "$WT" >/tmp/confirm-$$.clean.log 2>&1); CLEAN=$?
git -C "$WT" apply "$SEED/patch.diff" || { echo "PATCH DOES NOT APPLY"; exit 2; }
echo "== build + ctest with patch"
(cmake -G Ninja -S "$WT" -B "$WT/_build" -DCMAKE_BUILD_TYPE=RelWithDebInfo >/dev/null 2>&1 && cmake --build "$WT/_build" >/tmp/confirm-$$.build.log 2>&1); BUILD=$?
TESTS=99; [ $BUILD -eq 0 ] && { ctest --test-dir "$WT/_build" -j8 --timeout 900 >/tmp/confirm-$$.ctest.log 2>&1; TESTS=$?; }
BI=0
if git -C "$WT" diff --name-only | grep -qE "TaskSys|enkiTS|schedule.inl|parallel_for.inl|async_task.inl|tasking_system_init"; then
  (cmake -G Ninja -S "$WT" -B "$WT/_bi" -DCMAKE_BUILD_TYPE=RelWithDebInfo -DRKCOMMON_TASKING_SYSTEM=Internal -DBUILD_TESTING=OFF >/dev/null 2>&1 && cmake --build "$WT/_bi" >/tmp/confirm-$$.bi.log 2>&1); BI=$?
fi
echo "== demo with patch"; (cd "$SEED" && timeout 900 bash ./build_and_run.sh "$WT" >/tmp/confirm-$$.patched.log 2>&1); PATCHED=$?
echo "RESULT $NAME build=$BUILD internal_build=$BI tests=$TESTS demo_clean_exit=$CLEAN demo_patched_exit=$PATCHED"
if [ $BUILD -eq 0 ] && [ $BI -eq 0 ] && [ $TESTS -eq 0 ] && [ $CLEAN -eq 0 ] && [ $PATCHED -ne 0 ]; then echo "CONFIRMED $NAME"; rm -f /tmp/confirm-$$.*; exit 0; fi
echo "NOT CONFIRMED $NAME (logs /tmp/confirm-$$.*)"; exit 1
