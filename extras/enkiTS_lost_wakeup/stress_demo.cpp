// C02 / seed2: a function handed to schedule() must be executed eventually,
// with no further action required from the caller.
//
// Internal (enkiTS) backend, pool of main + 1 worker. The caller schedules ONE
// task at the moment the worker is on its way to sleep (it has found all pipes
// empty but is not blocked on the semaphore yet) and then only watches a flag.
// build_and_run.sh widens that window by compiling a temporary copy of
// TaskScheduler.cpp with a usleep() inserted between the worker's pipe check
// and the rest of WaitForTasks(); the library source itself is unchanged.
//
// With "stress" as argv[1] no delay is needed: the demo simply tries many times
// with a random phase (see build_and_run.sh for how that mode is built).
#include <atomic>
#include <chrono>
#include <cstdio>
#include <cstdlib>
#include <cstring>
#include <thread>

#include "rkcommon/tasking/schedule.h"
#include "rkcommon/tasking/tasking_system_init.h"

using namespace rkcommon::tasking;
using clk = std::chrono::steady_clock;

static std::atomic<int> g_flag{0};

static bool runOne(std::chrono::microseconds phase, std::chrono::milliseconds timeout)
{
  // let the worker run out of work and head for WaitForTasks()
  const auto t0 = clk::now();
  while (clk::now() - t0 < phase)
    ;

  g_flag = 0;
  schedule([]() { g_flag = 1; });

  // no further action: in particular no wait/parallel_for/schedule that would
  // make the calling thread run the task itself or post the semaphore again
  const auto deadline = clk::now() + timeout;
  while (g_flag.load() == 0) {
    if (clk::now() > deadline)
      return false;
    std::this_thread::yield();
  }
  return true;
}

int main(int argc, char **argv)
{
  const bool stress = argc > 1 && !std::strcmp(argv[1], "stress");
  initTaskingSystem(2);
  // let the freshly started worker settle (it goes to sleep right away)
  std::this_thread::sleep_for(std::chrono::milliseconds(50));

  if (!stress) {
    // forced window: the worker dwells ~3ms between "pipes are empty" and
    // going to sleep; schedule 0.3 .. 2.4ms after the previous task finished
    for (int i = 0; i < 40; ++i) {
      const auto phase = std::chrono::microseconds(300 + 300 * (i % 8));
      if (!runOne(phase, std::chrono::milliseconds(1500))) {
        std::printf(
            "FAIL: iteration %d: scheduled task not executed after 1.5s "
            "(worker went to sleep without seeing it)\n",
            i);
        return 1;
      }
    }
  } else {
    const int iters = argc > 2 ? std::atoi(argv[2]) : 300000;
    unsigned rng = 12345;
    for (int i = 0; i < iters; ++i) {
      rng = rng * 1664525u + 1013904223u;
      const auto phase = std::chrono::microseconds(5) +
                         std::chrono::nanoseconds((rng >> 8) % 60000);
      if (!runOne(std::chrono::duration_cast<std::chrono::microseconds>(phase),
                  std::chrono::milliseconds(1500))) {
        std::printf("FAIL: iteration %d: scheduled task not executed after 1.5s\n", i);
        return 1;
      }
    }
  }

  std::printf("PASS\n");
  return 0;
}
