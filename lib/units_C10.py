"""C10: FlatMap and ParameterizedObject against an insertion-ordered unique-key reference map (seqmc)."""
from vcheck import Unit, ASAN, ASAN_ENV

UNITS_LOCAL = {"C10": [
    Unit("maps", ["harness/C10_maps.cpp"],
         repo_src=["rkcommon/utility/ParameterizedObject.cpp", "rkcommon/utility/demangle.cpp"],
         flags=ASAN, env=ASAN_ENV, opt="-O1", engine="seqmc",
         budget={"quick": 100, "thorough": 1000},
         rule=("every history of 6 (thorough 7) mutating operations, each replayed on a fresh object inside a forked ASan+UBSan shard (every shorter history is a checked prefix). "
               "FlatMap<int,int> and FlatMap<string,string> (one key and one value longer than the small-string buffer) over 3 keys x 2 values, alphabet of 18: "
               "m[k]=v (6), erase(k) (3), read m[k] which inserts a default (3), clear, at(k)=v (3, throws for absent k), reserve(8), at_index(0).second=v; "
               "after every step of every history: contents through begin/end, const begin/end, cbegin/cend and the three reverse ranges, size/empty, at_index(i) for all i, "
               "contains(k) and at(k) const/non-const for the 3 keys and a never inserted key (exception type checked), then the contents again (queries must not mutate) - "
               "all compared with a std::vector<pair> find-or-append reference. "
               "ParameterizedObject through a subclass exposing params_begin/end, names {a,b}, alphabet of 17: setParam<int> (2 values), setParam<float>, setParam<string>, "
               "getParam<int|float|string> with a default, removeParam, resetAllParamQueryStatus; after every step the ordered (name, exact type, value, query flag) list is compared, "
               "and hasParam(a,b,c) and getParam<double|long|bool|unsigned> must answer absent/default without changing anything. "
               "Two histories are distinct when their operation sequences differ; distinct outcomes = distinct (operation, result, resulting ordered contents)."),
         assumptions=["setParam on an existing name keeps its query flag (the statement resets it only through resetAllParamQueryStatus); a removed and re-set name starts unqueried",
                      "at_index(i) with i >= size() is outside the statement: only exercised under the sanitizers",
                      "copying a FlatMap / ParameterizedObject is outside the statement",
                      "the const overload of FlatMap::operator[] (does not compile when instantiated) is not part of the alphabet"]),
]}
