"""C10: FlatMap and ParameterizedObject against an insertion-ordered unique-key reference map (seqmc)."""
from vcheck import Unit, ASAN, ASAN_ENV

# exploration without symbolizer (a replay re-executes itself with symbolize=1, see harness/C10_seqmc.h)
_ENV = dict(ASAN_ENV, ASAN_OPTIONS=ASAN_ENV["ASAN_OPTIONS"] + ":symbolize=0")

UNITS_LOCAL = {"C10": [
    Unit("maps", ["harness/C10_maps.cpp"],
         repo_src=["rkcommon/utility/ParameterizedObject.cpp", "rkcommon/utility/demangle.cpp"],
         flags=ASAN, env=_ENV, opt="-O1", engine="seqmc",
         budget={"quick": 100, "thorough": 1000},
         rule=("every history of 1..D mutating operations, shortest first, each replayed on a fresh object inside a forked ASan+UBSan shard and torn down afterwards. "
               "FlatMap<int,int> with D=6 (thorough 7) and FlatMap<string,string> (one key and one value longer than the small-string buffer) with D=5 (6), "
               "3 keys x 2 values, alphabet of 15: m[k]=v (6), erase(k) (3), read m[k] which inserts a default (3), clear, at(k1)=v (throws for an absent key), reserve(8); "
               "after the last step of every history (= after every step of every history, as all prefixes are histories too): contents through begin/end, const begin/end, cbegin/cend and the three reverse ranges, "
               "size/empty, at_index(i) const/non-const for all i, contains(k) for the 3 keys and a never inserted key, at(k) const/non-const for every present key, const at(k) must throw "
               "std::out_of_range for the absent key the operation touched (for every absent key after clear and in histories of length <= 3), then the contents again (queries must not mutate) - "
               "all compared with an array find-or-append reference. "
               "ParameterizedObject through a subclass exposing params_begin/end, D=5 (thorough 6; one less than before name c was added), names {a,b,c}, alphabet of 17: setParam<int> (a: 2 values, b, c: 1), setParam<float> (a,b), setParam<string> (a), "
               "getParam<int> (a,b,c), getParam<float> (a,b), getParam<string> (a), removeParam (a,b,c), resetAllParamQueryStatus - so three parameters can be present and the first / a middle / the last one removed (4 operations); "
               "every return value is compared, the ordered (name, exact type, value, query flag) list is compared after every step, "
               "and hasParam(a,b,c,d) and getParam<double|long>(a,b,c,d) must answer absent/default without changing anything. "
               "Two histories are distinct when their operation sequences differ; distinct outcomes = distinct (operation, result, resulting ordered contents)."),
         assumptions=["setParam on an existing name keeps its query flag (the statement changes it only through a successful read and resetAllParamQueryStatus); a removed and re-set name starts unqueried",
                      "at_index(i) with i >= size() is outside the statement and not called",
                      "copying a FlatMap / ParameterizedObject is outside the statement",
                      "the const overload of FlatMap::operator[] (it calls push_back on a const vector, so it cannot be instantiated) is not part of the alphabet"]),
]}
