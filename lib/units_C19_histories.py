"""C19, sequential part: Observer/Observable histories and single-thread TimeStamp histories (seqmc).  The threaded unit lives elsewhere."""
from vcheck import Unit, ASAN, ASAN_ENV

# exploration without symbolizer (a replay re-executes itself with symbolize=1, see harness/C10_seqmc.h)
_ENV = dict(ASAN_ENV, ASAN_OPTIONS=ASAN_ENV["ASAN_OPTIONS"] + ":symbolize=0")

UNITS_LOCAL = {"C19": [
    Unit("histories", ["harness/C19_histories.cpp"],
         repo_src=["rkcommon/utility/TimeStamp.cpp"],
         flags=ASAN, env=_ENV, opt="-O1", engine="seqmc",
         budget={"quick": 100, "thorough": 1000},
         rule=("obs: every history of 1..7 (thorough 1..8) enabled operations, shortest first, over 2 heap observables (both alive at the start) and 3 heap observer slots, alphabet of 18: create observer i on observable k, "
               "notifyObservers k, wasNotified i, destroy observer i, destroy observable k, create a new observable in slot k; reference model = one pending flag per observer (set by its observable's notify, "
               "cleared by its own poll, false for ever once its observable is destroyed); every poll result is compared; teardown of every history destroys the remaining observables first, polls every "
               "remaining observer once more (must be false) and destroys it (observers-first order is part of the alphabet). "
               "obsx: the obs histories of 1..5 (thorough 1..6) operations again with every second operation executed on a thread of its own, started and joined inside the step (who notifies and who polls are different threads, nothing overlaps). "
               "ts: every history of 1..6 (thorough 1..7) enabled operations over 3 heap TimeStamp slots on one thread, alphabet of 39: construct, renew, copy-/move-construct i from j, copy-/move-assign i=j (incl. i=i), destroy; "
               "each constructed/renewed value must exceed every value obtained earlier in the history, a copy/move target must read its source's value, all other live stamps must be unchanged. "
               "Every history is replayed on fresh objects inside a forked ASan+UBSan shard. "
               "Two histories are distinct when their operation sequences differ; distinct outcomes = distinct (operation, result, resulting model state) resp. (operation, order pattern of the live stamps)."),
         assumptions=["copying an Observer/Observable is outside the statement and not in the alphabet",
                      "a moved-from TimeStamp may read any value (re-read after the move); it stays usable as a copy source",
                      "TimeStamp::global is process-wide and keeps counting across the histories run in one shard process; 'fresh objects' means fresh stamps/observers, not a reset counter"]),
]}
