"""Unit table: property id -> list of harness executables (see vcheck.Unit)."""
from vcheck import Unit, ASAN, ASAN_ENV, TSAN_INSTR

UNITS = {}

UNITS["C18"] = [
    Unit("strings", ["harness/C18_strings.cpp"],
         repo_src=["rkcommon/utility/PseudoURL.cpp", "rkcommon/os/FileName.cpp", "rkcommon/common.cpp", "rkcommon/os/library.cpp"],
         flags=ASAN, env=ASAN_ENV, engine="gridmc",
         rule="every string of length <= 6 (thorough 8) over {a,b,delimiter(s)} for split/tokenize; all pairs of strings <= 4 over {a,b} for the prefix functions; every (type, file, parameter list of length <= 3 (4)) for PseudoURL; every string <= 6 (8) over {a . /} for FileName and all pairs <= 3 for operator+; every argv of length <= 5 over {-a,-b,x,1} x every remove range x consumers taking 0/1/2 parameters; prettyDouble/prettyNumber on 12 mantissas x decades 1e-15..1e21 and +-32 ulp around every branch constant. distinct = distinct observable results",
         assumptions=["the naive oracles in harness/C18_strings.cpp (maximal delimiter-free runs, last-component decomposition) are the intended definitions", "POSIX path separator"]),
]

# per-property unit files lib/units_<ID>*.py each define UNITS_LOCAL = {pid: [Unit...]}
import glob as _glob
import importlib.util as _ilu
import os as _os
for _p in sorted(_glob.glob(_os.path.join(_os.path.dirname(_os.path.abspath(__file__)), "units_*.py"))):
    _spec = _ilu.spec_from_file_location(_os.path.basename(_p)[:-3], _p)
    _m = _ilu.module_from_spec(_spec)
    _spec.loader.exec_module(_m)
    for _k, _v in getattr(_m, "UNITS_LOCAL", {}).items():
        UNITS.setdefault(_k, []).extend(_v)
