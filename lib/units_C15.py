from vcheck import Unit, ASAN, ASAN_ENV

_SRC = ["rkcommon/networking/DataStreaming.cpp"]
_ASSUME = [
    "a sanitizer abort is attributed to the case that was running (vr::run_sharded); what the shard had found before is carried over to its restart",
    "a sequence / history that violated is not extended",
]

UNITS_LOCAL = {"C15": [
    Unit("roundtrip", ["harness/C15_roundtrip.cpp"], repo_src=_SRC,
         flags=ASAN, env=ASAN_ENV, engine="seqmc", opt="-O1",
         budget={"quick": 100, "thorough": 900},
         rule="every sequence of length <= 3 (thorough 4) over 18 typed values {int8, int32, double, a POD struct, strings of length 0/1/40, const char*, vector<int> {} and {1,2,3}, vector<string>, vector<vector<int>>, OwnedArray<int> of 4 (directly and through a const AbstractArray<int>&) and of 0, FixedArray<uint8_t>, ArrayView<double>, FixedArrayView<uint8_t>} written through BufferWriter and WriteSizeCalculator and read back through BufferReader; the same sequence written through a FixedBufferWriter of exactly the predicted size; then every proper prefix length of each stream, read from a heap block of exactly that length. distinct = distinct stream lengths",
         assumptions=_ASSUME + ["an array wrapper is read back as the AbstractArray<T> overload of operator<< documents the format: element count as size_t, then the raw elements (the library has no operator>> for the wrapper types)",
                                "values are compared field-wise (struct padding is not compared), doubles bit-wise"]),
    Unit("reader", ["harness/C15_cursor.cpp"], repo_src=_SRC,
         flags=ASAN, env=ASAN_ENV, engine="seqmc", opt="-O1",
         args={"quick": ["--part", "reader"], "thorough": ["--part", "reader"], "replay": ["--part", "reader"]},
         budget={"quick": 60, "thorough": 600},
         rule="BufferReader over heap blocks of exactly 0..6 bytes x every history of length <= 4 (thorough 5) over read(size) and getView<uint8_t>(count) with sizes {0,1,2,remaining,remaining+1,SIZE_MAX-1,SIZE_MAX}; cursor model: accepted iff size <= remaining, delivers exactly buffer[cursor,cursor+size), otherwise throws and changes nothing; cursor and end() compared after every step. distinct = distinct (buffer size, last operation, threw, cursor, end()) observations",
         assumptions=_ASSUME + ["read() is given a destination block of exactly `size` bytes; for SIZE_MAX-1 and SIZE_MAX no such block can exist and the destination is nullptr, which read() treats as 'skip'"]),
    Unit("fixedwriter", ["harness/C15_cursor.cpp"], repo_src=_SRC,
         flags=ASAN, env=ASAN_ENV, engine="seqmc", opt="-O1",
         args={"quick": ["--part", "fixedwriter"], "thorough": ["--part", "fixedwriter"], "replay": ["--part", "fixedwriter"]},
         budget={"quick": 60, "thorough": 600},
         rule="FixedBufferWriter of capacity 0..6 x every history of length <= 4 (thorough 6) over write(n) and reserve(n), n in {0,1,2,3}; model: accepted iff cursor+n <= capacity, a rejected call throws and writes nothing; available(), capacity(), cursor, getWrittenView() (size and bytes) and the whole buffer image compared after every step. distinct = distinct (capacity, last operation, threw, cursor) observations",
         assumptions=_ASSUME),
    Unit("stream", ["harness/C15_cursor.cpp"], repo_src=_SRC,
         flags=ASAN, env=ASAN_ENV, engine="seqmc", opt="-O1",
         args={"quick": ["--part", "stream"], "thorough": ["--part", "stream"], "replay": ["--part", "stream"]},
         budget={"quick": 60, "thorough": 600},
         rule="one BufferWriter and one BufferReader on ONE shared buffer (the reader is constructed from writer.buffer): every history of length <= 5 (thorough 6) over 19 operations {writer.write of 0/1/2 fresh bytes, attach a new reader (cursor 0) at any point, read(size) and getView<uint8_t>(count) with sizes {0,1,2,remaining,remaining+1,SIZE_MAX}, shrink the shared OwnedArray by resize(size-1), resize(0), reset() while the reader is alive}; model = bytes currently in the buffer + cursor: a call of size >= 1 is accepted iff cursor+size <= current size (delivering exactly those bytes / a view starting at the cursor), otherwise it throws and the cursor stays; end() == (cursor >= current size) after every step incl. writer steps. distinct = distinct (last operation, threw, cursor, buffer size, end()) observations",
         assumptions=_ASSUME + ["'the written data' of the statement is what the shared buffer holds at the time of the call (data appended after the reader was attached is readable; data removed by a shrink/reset is not)",
                                "a size-0 read/view at a cursor that lies beyond a shrunken buffer is observed but not judged (the statement only speaks of reads extending past the data); it must not move the cursor",
                                "a call the model rejects is given a null destination, a call it accepts a heap destination of exactly `size` bytes"]),
]}
