from vcheck import Unit, TSAN_INSTR
UNITS_LOCAL = {"C20": [
    Unit("threads", ["harness/C20_threads.cpp"], repo_src=["rkcommon/tracing/Tracing.cpp"], cxx="g++", flags=TSAN_INSTR, mcsched=True, engine="mcsched",
         rule="every schedule (<= d deviations) of 2-4 threads that register with the global trace recorder (setThreadName) and record begin/end/marker/counter events through the "
              "global API concurrently, are joined, and then saveLog; the file is parsed strictly and must hold, per thread name, exactly the recorded events in order; "
              "the thread registry is watched by the happens-before race detector",
         assumptions=["sequentially consistent interleavings only", "clock and rusage are the engine's deterministic logical clock", "bound named in the evidence"]),
]}
