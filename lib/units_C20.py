"""C20: image and trace writers (sequential parts: units "images" and "trace")."""
from vcheck import Unit, ASAN, ASAN_ENV

# expected sanitizer aborts are frequent here (one per exact-size writePFM<float> case): do not symbolize
_ENV = dict(ASAN_ENV)
_ENV["ASAN_OPTIONS"] = ASAN_ENV["ASAN_OPTIONS"] + ":symbolize=0"

UNITS_LOCAL = {"C20": [
    Unit("images", ["harness/C20_images.cpp"], repo_src=[],
         flags=ASAN, env=_ENV, opt="-O1", engine="gridmc",
         budget={"quick": 300, "thorough": 900},
         rule="every (writer in {writePPM, writePGM, writePFM<float>, writePFM<vec3f>, writePFM<vec3fa>, writePFM<vec4f>}) x (w,h) in [1,4]^2 (thorough [1,6]^2) "
              "x fill pattern byte[p] = (p*k + t + 91*(p>>8)) mod 256 for t in 0..255, k = 37 (thorough k in {37,255}) "
              "x placement {heap block of exactly w*h pixels, the same pixels inside a block with 64 filler bytes on each side}; "
              "the file is decoded by the harness (magic, dimensions, maxval/scale, payload length, every selected component; rows bottom-up for PPM/PGM, as given for PFM). "
              "plus wide/tall images (one side up to 4097); plus call SEQUENCES in one forked process on one thread (state carried between calls): the same writer with every ordered pair "
              "(thorough: also every ordered triple) of the sizes {1x1,2x1,4x1,1x3,3x2,4x4,17x2} - equal, increasing and decreasing widths/heights - and every ordered pair of two different writers "
              "(thorough: f1,f2,f1) on 3 size patterns, both placements; every file of a sequence is decoded. "
              "distinct = distinct file contents",
         assumptions=["writePGM's grey value is component 3 (the top byte) of the RGBA8 pixel, as the writer's 1-of-4 component selection does; "
                      "writePPM takes components 0..2, writePFM<vec3fa> components 0..2 of 4",
                      "whitespace after the payload is accepted (the writers append a newline)",
                      "pixel values are not enumerated beyond the 256 (512) fill patterns: the writer copies components without value-dependent control flow"]),
    Unit("trace", ["harness/C20_trace.cpp"], repo_src=["rkcommon/tracing/Tracing.cpp"],
         flags=ASAN, env=_ENV, opt="-O2", engine="seqmc",
         budget={"quick": 400, "thorough": 1500},
         rule="histories = (API in {TraceRecorder object + ThreadEventList methods, global functions}) x (processName null / non-null) x (thread names set / not set) x per-thread event words: "
              "(0) nothing recorded at all; (1) every well-nested word over {begin,end,marker,counter} (end only inside an open begin; open begins may remain) of length <= 5 (thorough 6), "
              "recorded by T in {1,2,8} (thorough 1..8) threads where thread k records word (i + k*stride) mod N, so every word is seen in every thread position (quick, and thorough for T >= 3: thread naming - and for thorough T >= 3 also processName - alternates with the case index instead of being crossed); "
              "(1s) SEQUENTIAL threads (start, record, join, then the next; a finished thread's std::thread::id is then reused, counted as thread_id_reused_groups): T in {2,3} (thorough 2..4) threads over every word of length <= 4 (thorough 5), both APIs, names set/not set, "
              "and 4 triples whose concatenation crosses a chunk edge; threads that printed the same id are one thread for the oracle: the id must carry the concatenation of their events; "
              "(2) chunk edges: lengths {0,1,8191,8192,8193,16385} of the periodic pattern lead*marker (begin^d marker counter end^d)* for depth d in 0..4, lead 0 (thorough: for 1 and 2 threads every lead < 2d+2, i.e. every phase of the pattern against the 8192-event chunk), "
              "T in {1,2,8} (thorough 1..8) threads with thread k using length index li+k, depth d+k, lead o+k. Thread 0 is the process's main thread, the others are std::threads joined before saveLog; every history runs in a forked child. "
              "The log is parsed by a strict RFC 8259 parser; per thread (matched through the thread_name metadata) the non-metadata, non-built-in events must equal the recorded ones (phase, name, category when given, counter value) in order. "
              "distinct = distinct (parse result, element count, matched prefix lengths)",
         assumptions=["event names and categories are static literals without characters that need JSON escaping (the statement does not quantify over names)",
                      "the writer's own cpuUtilization counters (ph C, cat builtin) and ph M metadata are filtered before comparison",
                      "threads record concurrently on real threads, each into its own ThreadEventList; no interleaving of registration is enumerated here (that is the threaded unit's job)",
                      "wall clock and getrusage are the real ones: timestamps and cpuUtilization values are not compared"]),
]}
