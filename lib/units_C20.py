"""C20: image and trace writers (sequential parts: units "images" and "trace")."""
from vcheck import Unit, ASAN, ASAN_ENV

# expected sanitizer aborts are frequent here (one per exact-size writePFM<float> case): do not symbolize
_ENV = dict(ASAN_ENV)
_ENV["ASAN_OPTIONS"] = ASAN_ENV["ASAN_OPTIONS"] + ":symbolize=0"

UNITS_LOCAL = {"C20": [
    Unit("images", ["harness/C20_images.cpp"], repo_src=[],
         flags=ASAN, env=_ENV, opt="-O1", engine="gridmc",
         budget={"quick": 60, "thorough": 600},
         rule="every (writer in {writePPM, writePGM, writePFM<float>, writePFM<vec3f>, writePFM<vec3fa>, writePFM<vec4f>}) x (w,h) in [1,4]^2 (thorough [1,6]^2) "
              "x fill pattern byte[p] = (p*k + t + 91*(p>>8)) mod 256 for t in 0..255, k = 37 (thorough k in {1,37,101,255}) "
              "x placement {heap block of exactly w*h pixels, the same pixels inside a block with 64 filler bytes on each side}; "
              "the file is decoded by the harness (magic, dimensions, maxval/scale, payload length, every selected component; rows bottom-up for PPM/PGM, as given for PFM). "
              "distinct = distinct file contents",
         assumptions=["writePGM's grey value is component 3 (the top byte) of the RGBA8 pixel, as the writer's 1-of-4 component selection does; "
                      "writePPM takes components 0..2, writePFM<vec3fa> components 0..2 of 4",
                      "whitespace after the payload is accepted (the writers append a newline)",
                      "pixel values are not enumerated beyond the 256 (1024) fill patterns: the writer copies components without value-dependent control flow"]),
]}
