from vcheck import Unit

_RULE = ("gridmc over declared finite grids, each point run through the real rkcommon code and compared with the same algebra in "
         "long double (tolerance 32*kappa*eps_T*scale, +2^-20*scale where the approximate float rcp/rsqrt enters; kappa = 2-norm "
         "condition number computed in long double). 2x2: all 7^4 matrices over {-2,-1,-1/2,0,1/2,1,2} with kappa<=64 "
         "(LinearSpace2f: inverse/rcp/transposed/adjoint/rows/orthogonal(); det and composition on ALL ordered pairs; AffineSpace2f: "
         "x 16 translations {-2,0,1,3}^2 x 4 partner maps). 3x3 (LinearSpace3f and 3fa): all matrices over {-1,0,1/2,2}^9 (quick) / "
         "{-2,-1,-1/2,0,1/2,1,2}^9 = 40.4M (thorough) with kappa<=64, each paired in both orders with 4 (2) fixed partner matrices and 2 points; "
         "AffineSpace3f/3fa: kept linear parts over {-1,0,1/2,2}^9 (quick) / {-2,-1,0,1/2,1}^9 (thorough) x 64 translations {-2,0,1,3}^3 x 2 "
         "partner maps x 2 points. Rotations: 26 unit axes of {-1,0,1}^3 x angles k*pi/12, k in [-24,24] for L3::rotate, A::rotate "
         "(x 64 centre points), quatf/quatd::rotate, matrix<-quaternion, quaternion<-matrix (branch decided by the harness, counted per "
         "branch), conj/rcp/normalize; all 1274^2 ordered quaternion pairs: product, quaternion<-matrix of the composed rotation, slerp at "
         "t in {0,1/4,1/2,3/4,1}; yaw/pitch/roll: all 49^3 angle triples; frame(N), frame(N,up): 26 x (1+26); lookat: 64 x 63 eye/point "
         "pairs x 26 up vectors; scale/translate: {-2,1/2,1,3}^n. Operators: on every 2x2 ordered pair, every kept 3x3 matrix (both orders with one of the "
         "4 partners, chosen by the entries), every affine map (x one of the 4 partner maps chosen by the translation; 2D: all 4) and every quaternion pair: "
         "unary +/-, map+map, map-map, scalar*map, map/scalar, map*map and map/map against the reference; A op= B (*=, /=; quaternions also +=, -= "
         "with scalar and quaternion operands) leaves A equal to A op B and returns A itself; ==/!= including operands differing in one column / "
         "the offset / one component; clamp, row-major / converting / component constructors, operator L*(), xfmBounds, mixed-type scalar*quaternion; "
         "partner maps have a non-trivial linear part AND a non-zero translation. distinct = distinct bit patterns of the library results")

_ASSUME = ["the grids are finite subsets of a continuum: the claim is 'every grid point', not 'every real'",
           "condition number = 2-norm condition number of the linear part, evaluated in long double; matrices with kappa > 64 or singular are outside the domain",
           "long double (x87, 64-bit mantissa) evaluation of the textbook definitions in harness/C06_ref.h is the reference; its own rounding error (< 2^-60 relative on these inputs) is negligible against 32*eps_T",
           "float code compiled with -ffp-contract=off; SIMD build (rcp/rsqrt are Newton-refined hardware approximations, contract 2^-20)",
           "lookat's 'right-handed coordinate system' is read as: right = forward x up in a right-handed world, so (vx,vy,vz) = (right, up, forward)",
           "frame(N,up) with |dot(up,N)| > 0.99 and slerp with |dot| > 0.9995 take their documented fallbacks; only the fallback's own contract is demanded there"]

UNITS_LOCAL = {"C06": [
    Unit("algebra", ["harness/C06_algebra.cpp"],
         cxx="clang++", flags=["-ffp-contract=off", "-pthread"], opt="-O2", engine="gridmc",
         budget={"quick": 110, "thorough": 1100},
         rule=_RULE, assumptions=_ASSUME),
]}
