from vcheck import Unit, TSAN_INSTR, ASAN, ASAN_ENV

UNITS_LOCAL = {"C12": [
    Unit("transactional", ["harness/C12_transactional.cpp"], cxx="g++", flags=TSAN_INSTR, mcsched=True, engine="mcsched",
         budget={"quick": 200, "thorough": 1500},
         rule=("every schedule of 1-3 producer threads (2-3 push_back each, int and heap-owning std::string payloads, both overloads) against a "
               "consumer doing consume/size/empty/consume and a final consume after the joins; and of one producer assigning 2-3 values to a "
               "TransactionalValue against a consumer doing (update,get)x3 plus a final round after the join; visible operations = every mutex, "
               "thread and atomic operation; at most d deviations from the canonical non-preemptive schedule, d iterated 0..bound; plain accesses are "
               "checked by the happens-before race detector in every execution; distinct = distinct (result, batch sizes/order or value sequence)"),
         assumptions=["sequentially consistent interleavings only", "g++ -fsanitize=thread instruments every plain access of the header-only containers",
                      "executions needing more deviations than the completed bound are not covered"]),
    Unit("bursts", ["harness/C12_bursts.cpp"], cxx="clang++", flags=ASAN, env=ASAN_ENV, engine="seqmc",
         rule="one thread alternately producing and consuming: every history of <= 8 (thorough 9) operations over {assign 0/1/2, update()} "
              "with repeating values (int and heap-owning payloads); every burst length 0..600 and the boundaries 1023..1025, 32767/8, 65535..65537, 131072, 196608 of assignments "
              "between two update() calls (int and heap-owning payloads, several rounds), and every batch size of the same set between two consume() calls",
         assumptions=["single-threaded histories; the interleavings are decided by the transactional unit"]),
]}
