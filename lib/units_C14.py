"""C14: aligned allocation.  One harness source, two allocator back ends = two units."""
from vcheck import Unit, ASAN, ASAN_ENV

# a systematic sanitizer abort (one per history) must stay cheap: do not symbolize
_ENV = dict(ASAN_ENV)
_ENV["ASAN_OPTIONS"] = ASAN_ENV["ASAN_OPTIONS"] + ":symbolize=0"

_RULE = ("alignedMalloc/alignedFree: every history of D operations (every shorter history is a checked prefix) over "
         "{malloc(size, align) into the lowest free of 3 slots, free(s) for each occupied slot s}; "
         "full alphabet size in {0,1,7,8,63,64,65,4095,4096,4097} x align in {1,2,4,..,4096} with D=3 (thorough 4), "
         "reduced alphabet size in {0,1,64,4097} x align in {1,8,64,4096} with D=5 (thorough 6); every history starts with no live harness block "
         "(the allocator's own state carries over inside a shard process). "
         "AlignedVector<T>, sizeof(T) in {1,4,8,24,72} plus a 16-byte type with an initializer-list constructor over its own kind: every history of D=5 (thorough 6) operations over {push_back, resize(0/1/17/500, x), reserve(200), "
         "shrink_to_fit, assign(9,x), swap with a second vector, clear, copy-construct + copy-assign into the second vector} against std::vector<T>. "
         "aligned_allocator<T>::allocate(n) for n on a boundary grid (small, max_size()-3..+3, SIZE_MAX/2+-3, SIZE_MAX-3..SIZE_MAX, further multiples of 2^64/sizeof(T)). "
         "Two histories are distinct when their operation sequences differ; distinct outcomes = distinct sequences of (null?, alignment class) resp. (size, capacity).")

_ASSUME = ["null is an acceptable result of alignedMalloc for any request (the statement allows it); the number of null results is reported as a statistic",
           "the oracle fill pattern is (serial*89 + i*7 + (i>>8)*13 + 1) mod 256 per block; a corruption that reproduces the same bytes is invisible",
           "symmetry pruning: malloc always uses the lowest free slot (slots are only names in the harness)"]

UNITS_LOCAL = {"C14": [
    Unit("mm_asan", ["harness/C14_alloc.cpp"], repo_src=["rkcommon/memory/malloc.cpp"],
         flags=ASAN, env=_ENV, opt="-O1", engine="seqmc",
         budget={"quick": 400, "thorough": 1500},
         rule="_mm_malloc/_mm_free back end under ASan+UBSan+LSan. " + _RULE,
         assumptions=_ASSUME + ["ASan replaces malloc/posix_memalign/free below _mm_malloc: extent and release are judged on ASan's allocator, alignment arithmetic is rkcommon's/_mm_malloc's own"]),
    Unit("tbb", ["harness/C14_alloc.cpp"], repo_src=["rkcommon/memory/malloc.cpp"],
         defs=["RKCOMMON_TASKING_TBB"], libs=["-ltbb", "-ltbbmalloc"], flags=[], opt="-O1", engine="seqmc", cxx="g++",
         budget={"quick": 300, "thorough": 1200},
         rule="TBB scalable_aligned_malloc/scalable_aligned_free back end, no sanitizer: fill-pattern, disjointness, scalable_msize >= size, "
              "and 256 MiB worth of malloc/free cycles of one block (9 size/align pairs) grow the address space by <= 128 MiB. " + _RULE,
         assumptions=_ASSUME + ["no sanitizer interposes on tbbmalloc: an out-of-extent write is only seen when it damages another live harness block"]),
]}
