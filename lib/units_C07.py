"""C07: scalar math kernels - units (see harness/C07_*.cpp)."""
from vcheck import Unit, ASAN, ASAN_ENV

_SWEEP_RULE = (
    "every one of the 2^32 float bit patterns, enumerated in value order by 16 std::threads in 256 chunks of 2^24 "
    "(both tiers): rcp and rsqrt (x>0) against 1/x and 1/sqrt(x) in double with relative error <= 2^-20 on "
    "2^-126 <= |x| < 2^126 (4 227 858 432 / 2 113 929 216 patterns); rcp_safe finite and not of the opposite sign "
    "for all 4 278 190 082 finite patterns; sign for all non-NaN; deg2rad vs x*pi/180 in double within two float "
    "roundings; cvt_uint32(x) and cvt_uint32(linear_to_srgb(x)) <= 255, 0 for x <= 0, 255 for x >= 1 and "
    "non-decreasing from each float to the next (NaN excluded); plus every 32-bit seed x {[0,1],[-1,1]} (thorough: 6 "
    "ranges) for the first draw of pcg32_biased_float_distribution (inside the range to one rounding step, "
    "bit-identical on a second construction) and every 32-bit index of makeRandomColor (components in [0,1]). "
    "distinct = (function, input exponent / result byte / position bucket, error-magnitude bucket) classes observed")

_SWEEP_ASSUME = [
    "x86-64 host: the SIMD build uses the rcpss/rsqrtss estimates of THIS cpu (the estimate tables are "
    "implementation-specific; Intel and AMD both guarantee |relative error| <= 1.5*2^-12 before the Newton-Raphson step)",
    "the double-precision 1.0/x, sqrt and the libm powf of this machine are correct to well below 2^-20",
    "'one rounding step' for a range [lower,upper] = the float spacing at max(|lower|,|upper|,|upper-lower|)",
    "rcp_safe: 'not of the opposite sign' is a numeric comparison, so a zero result or a zero argument never violates it",
]

UNITS_LOCAL = {"C07": [
    Unit("sweep_simd", ["harness/C07_sweep.cpp"],
         flags=["-ffp-contract=off"], opt="-O2", engine="gridmc",
         budget={"quick": 100, "thorough": 600},
         rule="default (SSE) build: " + _SWEEP_RULE, assumptions=_SWEEP_ASSUME),
    Unit("sweep_nosimd", ["harness/C07_sweep.cpp"],
         flags=["-ffp-contract=off"], defs=["RKCOMMON_NO_SIMD"], opt="-O2", engine="gridmc",
         budget={"quick": 100, "thorough": 600},
         rule="-DRKCOMMON_NO_SIMD build: " + _SWEEP_RULE, assumptions=_SWEEP_ASSUME),
]}
