"""C07: scalar math kernels - units (see harness/C07_*.cpp)."""
from vcheck import Unit, ASAN, ASAN_ENV

_SWEEP_RULE = (
    "every one of the 2^32 float bit patterns, enumerated in value order by 16 std::threads in 256 chunks of 2^24 "
    "(both tiers): rcp and rsqrt (x>0) against 1/x and 1/sqrt(x) in double with relative error <= 2^-20 on "
    "2^-126 <= |x| < 2^126 (4 227 858 432 / 2 113 929 216 patterns); rcp_safe finite and not of the opposite sign "
    "for all 4 278 190 080 finite patterns; sign for all 4 278 190 082 non-NaN; deg2rad vs x*pi/180 in double within two float "
    "roundings; cvt_uint32(x) and cvt_uint32(linear_to_srgb(x)) <= 255, 0 for x <= 0, 255 for x >= 1 and "
    "non-decreasing from each float to the next (NaN excluded); plus every 32-bit seed x {[0,1],[-3,-1]} (thorough: 6 "
    "ranges) for the first draw of pcg32_biased_float_distribution (inside the range to one rounding step, "
    "bit-identical on a second construction) and every 32-bit index of makeRandomColor (components in [0,1]). "
    "distinct = (function, input exponent / result byte / position bucket, error-magnitude bucket) classes observed")

_SWEEP_ASSUME = [
    "x86-64 host: the SIMD build uses the rcpss/rsqrtss estimates of THIS cpu (the estimate tables are "
    "implementation-specific; Intel and AMD both guarantee |relative error| <= 1.5*2^-12 before the Newton-Raphson step)",
    "the double-precision 1.0/x, sqrt and the libm powf of this machine are correct to well below 2^-20",
    "'one rounding step' for a range [lower,upper] = the float spacing at max(|lower|,|upper|,|upper-lower|)",
    "rcp_safe: 'not of the opposite sign' is a numeric comparison, so a zero result or a zero argument never violates it",
]

_GRID_RULE = (
    "ASan+UBSan build. clamp<T>: every (x, lower<=upper) triple over the type's boundary alphabet (48 floats, 61 doubles, "
    "~50-90 integers incl. min/max; T = float, double, int, unsigned, long, unsigned char) and clamp(x) with the default "
    "bounds; divRoundUp<T>: every (a,b) with a,b <= 300 (thorough 1024) plus every pair of the boundary alphabet, filtered "
    "to a >= 0, b > 0, a+b-1 representable (T = int, unsigned, long, size_t, short, unsigned short; unsigned char and signed "
    "char completely), oracle = least q with q*b >= a in __int128; lerp<float>, madd: all 49^3 triples over 48 floats + NaN, "
    "lerp<double>, lerp<vec3f>, deg2rad<double> likewise, reference in long double with a rounding-count tolerance; "
    "cvt_uint32(vec4f) / linear_to_srgba / linear_to_srgba8: all 24^4 (thorough 48^4) vec4f, every output channel equals the "
    "scalar kernel of the same input channel and is unchanged when the other channels change, monotone and saturating over the "
    "sorted alphabet; pcg32_biased_float_distribution: 6 seeds x 4 sequences x 12 ranges x first 4096 draws (in range to one "
    "rounding step, second construction identical, unaffected by interleaved use of another object); "
    "uniform_real_distribution<float|double>: 4 seeds x {pcg32, mt19937, minstd_rand, mt19937_64} x 12/17 ranges x 4096 draws, "
    "and a stub generator returning min, max, mid and every 2^k-1/2^k/2^k+1 offset for 11 generator spans. "
    "distinct = distinct observed results")

_GRID_ASSUME = [
    "'one rounding step' for a range [lower,upper] = the float (double) spacing at max(|lower|,|upper|,|upper-lower|)",
    "lerp/madd/deg2rad 'match their definitions' = within the accumulated rounding error of the operations in the definition "
    "(one ulp per operation), reference evaluated in 80-bit long double; tuples where a finite intermediate can overflow are "
    "not judged",
    "ranges whose width upper-lower is not representable (e.g. [-FLT_MAX,FLT_MAX]) and divRoundUp arguments whose a+b-1 "
    "is not representable are outside the declared domain",
    "NaN is excluded from the packing functions (cvt_uint32(NaN) converts NaN to an integer)",
]

# UBSan in recover mode: a report is attributed to the case being judged through __ubsan_on_report (see the harness),
# so one undefined operation does not end the enumeration.  ASan errors still abort.
_GRID_FLAGS = ["-fsanitize=address,undefined", "-fsanitize-recover=undefined", "-fno-omit-frame-pointer", "-ffp-contract=off"]
_GRID_ENV = dict(ASAN_ENV)
_GRID_ENV["UBSAN_OPTIONS"] = "print_stacktrace=0:halt_on_error=0"

UNITS_LOCAL = {"C07": [
    Unit("sweep_simd", ["harness/C07_sweep.cpp"],
         flags=["-ffp-contract=off"], opt="-O2", engine="gridmc",
         budget={"quick": 600, "thorough": 1200},
         rule="default (SSE) build: " + _SWEEP_RULE, assumptions=_SWEEP_ASSUME),
    Unit("sweep_nosimd", ["harness/C07_sweep.cpp"],
         flags=["-ffp-contract=off"], defs=["RKCOMMON_NO_SIMD"], opt="-O2", engine="gridmc",
         # the seed / colour-index sweeps do not depend on RKCOMMON_NO_SIMD: quick runs them in the default build only
         args={"quick": ["--parts", "1"], "thorough": [], "replay": []},
         budget={"quick": 600, "thorough": 1200},
         rule="-DRKCOMMON_NO_SIMD build (quick: the float sweep only; thorough: also the seed and index sweeps): " + _SWEEP_RULE,
         assumptions=_SWEEP_ASSUME),
    Unit("grid", ["harness/C07_grid.cpp"],
         flags=_GRID_FLAGS, env=_GRID_ENV, opt="-O1", engine="gridmc",
         budget={"quick": 600, "thorough": 1200},
         rule=_GRID_RULE, assumptions=_GRID_ASSUME),
]}
