from vcheck import Unit, TSAN_INSTR, ASAN_ENV

_AS = ["-fsanitize=address", "-fno-omit-frame-pointer"]
_BURST = ("free-running threads of the named backend under AddressSanitizer: bursts of n in {1,2,255,256,257,1000} (thorough also 100000; OpenMP <= 1000) closures owning heap state via schedule(), "
          "async() returning heap-owning strings, and AsyncTask<std::string> objects that are polled / read / destroyed unasked; exactly-once counters and returned values. "
          "Exhaustive over the burst sizes, observational over the backend schedules")

_RULE = ("every schedule (<= d deviations, d iterated 0..bound) of the calling thread against the thread(s) executing the task for: schedule() of 1-3 closures "
         "owning heap state; async() with int / heap-owning std::string / lifetime-instrumented results, 1-2 futures; AsyncTask<T> for the same result types "
         "under every controller script over {finished,get,wait} of length <= 3 (<= 2 for int/Tracked) followed by destruction. Oracles per execution: "
         "exactly-once counters, returned value, destructor waits, happens-before race detector on the result member / closure / task object, quarantine "
         "lifetime oracle (use-after-free, double free), deadlock = a scheduled function never runs. distinct = distinct (result, event trace)")
_ASSUME = ["sequentially consistent interleavings only", "TBB's and libgomp's internal scheduling is not owned: the schedule quantifier is decided for the internal backend, the std::thread based configuration and the serial debug backend",
           "executions needing more deviations than the completed bound are not covered"]
_INT = ["rkcommon/tasking/detail/tasking_system_init.cpp", "rkcommon/tasking/detail/TaskSys.cpp", "rkcommon/tasking/detail/enkiTS/TaskScheduler.cpp"]

UNITS_LOCAL = {"C02": [
    Unit("tasks_internal_t2", ["harness/C02_tasks.cpp"], repo_src=_INT, cxx="g++", flags=TSAN_INSTR,
         defs=["RKCOMMON_TASKING_INTERNAL", "RKCOMMON_VERIF_SPIN_COUNT=2", "C02_POOL_THREADS=2"], mcsched=True, engine="mcsched",
         budget={"quick": 240, "thorough": 1500}, rule="internal backend, pool of 2: " + _RULE, assumptions=_ASSUME),
    Unit("tasks_internal_pipe1", ["harness/C02_tasks.cpp"], repo_src=_INT, cxx="g++", flags=TSAN_INSTR,
         defs=["RKCOMMON_TASKING_INTERNAL", "RKCOMMON_VERIF_SPIN_COUNT=2", "RKCOMMON_VERIF_PIPESIZE_LOG2=0", "C02_POOL_THREADS=2"], mcsched=True, engine="mcsched",
         args={"quick": ["--only-prefix", "schedule_", "--only-prefix", "async_int"], "thorough": ["--only-prefix", "schedule_", "--only-prefix", "async_"]},
         budget={"quick": 120, "thorough": 900}, rule="internal backend, pool of 2, 1-slot pipes (hook H2: the pipe wraps and fills with 2-3 scheduled tasks): " + _RULE, assumptions=_ASSUME),
    Unit("tasks_internal_tso", ["harness/C02_tasks.cpp"], repo_src=_INT, cxx="g++", flags=TSAN_INSTR,
         defs=["RKCOMMON_TASKING_INTERNAL", "RKCOMMON_VERIF_SPIN_COUNT=2", "C02_POOL_THREADS=2"], mcsched=True, engine="mcsched",
         args={"quick": ["--tso-volatile", "--only-prefix", "schedule_x_1", "--only-prefix", "schedule_x_2", "--only-prefix", "async_int_1"],
               "thorough": ["--tso-volatile", "--only-prefix", "schedule_x_", "--only-prefix", "async_int", "--only-prefix", "repend_x_22"],
               "replay": ["--tso-volatile"]},
         budget={"quick": 200, "thorough": 1200},
         rule="internal backend, pool of 2, with store buffering ALSO for enkiTS's volatile stores (x86-TSO: a store may stay behind while its thread performs loads; "
              "holding a store back costs one deviation): " + _RULE, assumptions=_ASSUME),
    Unit("tasks_internal_t1", ["harness/C02_tasks.cpp"], repo_src=_INT, cxx="g++", flags=TSAN_INSTR,
         defs=["RKCOMMON_TASKING_INTERNAL", "RKCOMMON_VERIF_SPIN_COUNT=2", "C02_POOL_THREADS=1"], mcsched=True, engine="mcsched",
         budget={"quick": 120, "thorough": 600}, rule="internal backend, pool of 1 (no worker threads): " + _RULE, assumptions=_ASSUME),
    Unit("tasks_stdthread", ["harness/C02_tasks.cpp"], repo_src=["rkcommon/tasking/detail/tasking_system_init.cpp"], cxx="g++", flags=TSAN_INSTR,
         defs=["RKCOMMON_TASKING_OMP"], libs=["-lgomp"], mcsched=True, engine="mcsched",
         budget={"quick": 240, "thorough": 1500}, rule="OpenMP configuration (schedule/async/AsyncTask are std::thread based there): " + _RULE, assumptions=_ASSUME),
    Unit("tasks_debug", ["harness/C02_tasks.cpp"], repo_src=["rkcommon/tasking/detail/tasking_system_init.cpp"], cxx="g++", flags=TSAN_INSTR,
         mcsched=True, engine="mcsched", budget={"quick": 120, "thorough": 300},
         rule="serial debug backend (one schedule per scenario): " + _RULE, assumptions=_ASSUME),
    Unit("bursts_tbb", ["harness/C02_bursts.cpp"], repo_src=["rkcommon/tasking/detail/tasking_system_init.cpp"], cxx="g++", flags=_AS, env=ASAN_ENV,
         defs=["RKCOMMON_TASKING_TBB", 'BACKEND="tbb"'], libs=["-ltbb"], engine="gridmc", budget={"quick": 120, "thorough": 600}, rule=_BURST, assumptions=_ASSUME),
    Unit("bursts_openmp", ["harness/C02_bursts.cpp"], repo_src=["rkcommon/tasking/detail/tasking_system_init.cpp"], cxx="g++", flags=_AS + ["-fopenmp"], env=ASAN_ENV,
         defs=["RKCOMMON_TASKING_OMP", 'BACKEND="openmp"'], engine="gridmc", budget={"quick": 120, "thorough": 600}, rule=_BURST, assumptions=_ASSUME),
    Unit("bursts_internal", ["harness/C02_bursts.cpp"], repo_src=_INT, cxx="g++", flags=_AS, env=ASAN_ENV,
         defs=["RKCOMMON_TASKING_INTERNAL", 'BACKEND="internal"'], engine="gridmc", budget={"quick": 120, "thorough": 600}, rule=_BURST, assumptions=_ASSUME),
]}
