"""C04: every vec_t operator is the component-wise lifting of its scalar definition (engine gridmc).

One executable; the template-heavy families are instantiated per (group, element type) in 50 small
translation units (harness/C04_t_<group>_<type>.cpp) that the driver compiles in parallel."""
from vcheck import Unit

_TYPES = ["u8", "i8", "u16", "i16", "u32", "i32", "u64", "i64", "f32", "f64"]
_GROUPS = ["basic", "bin", "mix", "cmp", "conv"]
# slowest translation units first so the 16 compile jobs pack well
_SRC = ["harness/C04_t_%s_%s.cpp" % (g, t) for g in ["mix", "cmp", "conv", "bin", "basic"] for t in _TYPES] + ["harness/C04_main.cpp"]

UNITS_LOCAL = {"C04": [
    Unit("vec", _SRC,
         cxx="clang++", flags=["-ffp-contract=off", "-g0"], opt="-O0", engine="gridmc",
         budget={"quick": 150, "thorough": 1100},
         rule="for each of 10 element types x 4 shapes (vec2, vec3, padded vec3, vec4) and each overload family of vec.h "
              "(item = family x element type(s) x shape(s)): ALL |A|^K operand tuples, K = number of scalar operands "
              "(2N for vec-vec, N+1 for vec-scalar, 9 for madd; interpolate_uv: f in A^3 x three of the |A| cyclic rotations "
              "of the alphabet), |A| = 4 quick / 6 thorough, letters pairwise distinct; total (non-overflowing) families are "
              "additionally run on an alphabet of extremes; mixed-type binary operators for all 90 ordered (T,U) pairs in the "
              "vec-vec, vec-scalar and scalar-vec forms, compound assignments for all 100 (T,U) pairs with vector and scalar "
              "right-hand sides, conversions/constructors for all 100 (T,OT) pairs. states = operand tuples with at least one "
              "oracle comparison, transitions = oracle comparisons (one per result component), distinct = distinct result "
              "digests per item (capped at 192 per chunk)",
         assumptions=[
             "the scalar definitions written in harness/C04_fam.h (built-in C++ operators on the element types with the usual "
             "arithmetic conversions, std::sin/cos/sqrt/abs/min/max, rkmath.h's scalar rcp/rcp_safe/madd/divRoundUp) are the "
             "intended ones",
             "domain excludes signed overflow in the promoted type, integral division by zero, and floating->integral "
             "conversions of unrepresentable values (undefined behaviour in the scalar definition itself)",
             "floating-point sums/products (dot, cross, sum, product, length, interpolate_uv, madd, divRoundUp) and results "
             "built on the approximate rsqrt/rcp are accepted within 4 ulp of a long double evaluation; everything else "
             "(integers, single float operations) must match exactly (NaN equals NaN, signed zeros distinguished)",
             "built with clang -O0 -ffp-contract=off on x86-64 (SSE scalar arithmetic, no FMA contraction)"]),
]}
