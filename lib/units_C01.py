from vcheck import Unit, TSAN_INSTR, ASAN, ASAN_ENV

_INT = ["rkcommon/tasking/detail/tasking_system_init.cpp", "rkcommon/tasking/detail/TaskSys.cpp", "rkcommon/tasking/detail/enkiTS/TaskScheduler.cpp"]
_ASSUME = ["sequentially consistent interleavings only (enkiTS's volatile accesses are treated as SC atomics, its own x86 assumption)",
           "TBB's and libgomp's internal scheduling cannot be owned: for those two backends the check is exhaustive over inputs and configurations but only observational over schedules",
           "executions needing more deviations than the completed bound are not covered"]
_RULE = ("every schedule (<= d deviations from the canonical non-preemptive schedule, d iterated 0..bound) of the calling thread against the enkiTS pool workers for "
         "parallel_for(n) with pool sizes T in {1,2,3}, n in {-1,0..5}, index types int/unsigned char/size_t/long long, nested 2x2 / 2x3 loops, parallel_foreach over vector and "
         "iterator range, parallel_in_blocks_of<2>, two consecutive loops on one pool; bodies write plain cells with guard regions; oracles: exactly-once counts, no stray index, "
         "happens-before race detector (join/visibility), lifetime oracle, deadlock/livelock; distinct = distinct (result, event trace)")

# AddressSanitizer only: parallel_foreach forms &*begin of an empty range, which UBSan reports although nothing is read (observation, not alarmed)
_AS = ["-fsanitize=address", "-fno-omit-frame-pointer"]
_SWEEP = ("free-running threads of the named backend (one build per backend): parallel_for(n) for n in {INT_MIN,-32768,-7,-1,0,1,2,3,4,5,9,63,64,65,127,255,256,257,1000,32767,100000} "
          "(those representable) x 7 index types (unsigned char, short, int, unsigned, long, long long, unsigned long long = size_t), LONG_MIN/LLONG_MIN; "
          "parallel_in_blocks_of<B> for B in {1,2,3,4,7,8,64} x n in [-3,70] x 5 index types; nested loops o x i for o,i in 0..5; parallel_foreach over vectors and "
          "sub-ranges of 0..70 elements; thorough adds n = 2^32+3 for 64-bit index types (internal, TBB, debug). Per-index atomic counters + stray log read after return. "
          "Exhaustive over that input set; observational over the backend's schedules. distinct = distinct (input, number of calls)")

UNITS_LOCAL = {"C01": [
    Unit("pfor_internal", ["harness/C01_pfor_mc.cpp"], repo_src=_INT, cxx="g++", flags=TSAN_INSTR,
         defs=["RKCOMMON_TASKING_INTERNAL", "RKCOMMON_VERIF_SPIN_COUNT=2"], mcsched=True, engine="mcsched",
         budget={"quick": 200, "thorough": 2400}, rule="default pipe (256 slots): " + _RULE, assumptions=_ASSUME),
    Unit("pfor_internal_pipe1", ["harness/C01_pfor_mc.cpp"], repo_src=_INT, cxx="g++", flags=TSAN_INSTR,
         defs=["RKCOMMON_TASKING_INTERNAL", "RKCOMMON_VERIF_SPIN_COUNT=2", "RKCOMMON_VERIF_PIPESIZE_LOG2=0"], mcsched=True, engine="mcsched",
         args={"quick": ["--only-prefix", "pf_T2", "--only-prefix", "spf_T2"], "thorough": ["--only-prefix", "pf_T2", "--only-prefix", "spf_T2"]},
         budget={"quick": 150, "thorough": 1500}, rule="1-slot pipes (hook H2) with a pool of 2, so the pipe-full run-inline path of SplitAndAddTask is taken: " + _RULE, assumptions=_ASSUME),
    Unit("pfor_internal_pipe2", ["harness/C01_pfor_mc.cpp"], repo_src=_INT, cxx="g++", flags=TSAN_INSTR,
         defs=["RKCOMMON_TASKING_INTERNAL", "RKCOMMON_VERIF_SPIN_COUNT=2", "RKCOMMON_VERIF_PIPESIZE_LOG2=1"], mcsched=True, engine="mcsched",
         args={"quick": ["--only-prefix", "pf_T3", "--only-prefix", "spf_T3"], "thorough": ["--only-prefix", "pf_T3", "--only-prefix", "spf_T3"]},
         budget={"quick": 150, "thorough": 1500}, rule="2-slot pipes (hook H2) with a pool of 3 (6 partitions), pipe-full path: " + _RULE, assumptions=_ASSUME),
    Unit("pfor_internal_tso", ["harness/C01_pfor_mc.cpp"], repo_src=_INT, cxx="g++", flags=TSAN_INSTR,
         defs=["RKCOMMON_TASKING_INTERNAL", "RKCOMMON_VERIF_SPIN_COUNT=2"], mcsched=True, engine="mcsched",
         args={"quick": ["--tso-volatile", "--bound", "2", "--only-prefix", "pf_T2_n1", "--only-prefix", "pf_T2_n2", "--only-prefix", "pf_T2_n3", "--only-prefix", "spf_T2_n3"],
               "thorough": ["--tso-volatile", "--bound", "3", "--only-prefix", "pf_T2", "--only-prefix", "spf_T2", "--only-prefix", "nest_T2_2x2"],
               "replay": ["--tso-volatile"]},
         budget={"quick": 200, "thorough": 1500},
         rule="store buffering also for enkiTS's volatile stores (x86-TSO; holding a store back costs one deviation), pool of 2: " + _RULE, assumptions=_ASSUME),
    Unit("pipe_tso", ["harness/C01_pipe_mc.cpp"], cxx="g++", flags=TSAN_INSTR, mcsched=True, engine="mcsched",
         args={"quick": ["--tso-volatile", "--bound", "2"], "thorough": ["--tso-volatile", "--bound", "3"], "replay": ["--tso-volatile"]},
         budget={"quick": 150, "thorough": 900},
         rule="the lock-less pipe driven directly with store buffering for its volatile stores (x86-TSO): one writer against 1-2 readers, every schedule with <= d deviations",
         assumptions=_ASSUME),
    Unit("pipe", ["harness/C01_pipe_mc.cpp"], cxx="g++", flags=TSAN_INSTR, mcsched=True, engine="mcsched",
         budget={"quick": 150, "thorough": 900},
         rule="LockLessMultiReadPipe<1|2, Item> driven directly: one writer (3-5 writes, one read-front) against 1-2 readers (2-3 read-backs each), then drained; every schedule with <= d deviations",
         assumptions=_ASSUME),
    Unit("sweep_tbb", ["harness/C01_sweep.cpp"], repo_src=["rkcommon/tasking/detail/tasking_system_init.cpp"], cxx="g++", flags=_AS, env=ASAN_ENV,
         defs=["RKCOMMON_TASKING_TBB", 'BACKEND="tbb"', "C01_HUGE"], libs=["-ltbb"], engine="gridmc", budget={"quick": 120, "thorough": 900}, rule=_SWEEP, assumptions=_ASSUME),
    Unit("sweep_openmp", ["harness/C01_sweep.cpp"], repo_src=["rkcommon/tasking/detail/tasking_system_init.cpp"], cxx="g++", flags=_AS + ["-fopenmp"], env=ASAN_ENV,
         defs=["RKCOMMON_TASKING_OMP", 'BACKEND="openmp"'], engine="gridmc", budget={"quick": 120, "thorough": 900}, rule=_SWEEP, assumptions=_ASSUME),
    Unit("sweep_internal", ["harness/C01_sweep.cpp"], repo_src=_INT, cxx="g++", flags=_AS, env=ASAN_ENV,
         defs=["RKCOMMON_TASKING_INTERNAL", 'BACKEND="internal"', "C01_HUGE"], engine="gridmc", budget={"quick": 120, "thorough": 900}, rule=_SWEEP, assumptions=_ASSUME),
    Unit("sweep_debug", ["harness/C01_sweep.cpp"], repo_src=["rkcommon/tasking/detail/tasking_system_init.cpp"], cxx="g++", flags=_AS, env=ASAN_ENV,
         defs=['BACKEND="debug"', "C01_HUGE"], engine="gridmc", budget={"quick": 120, "thorough": 900}, rule=_SWEEP, assumptions=_ASSUME),
]}
