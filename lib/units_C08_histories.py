"""C08, sequential part: IntrusivePtr / RefCountedObject operation histories (seqmc).  The threaded unit lives elsewhere."""
from vcheck import Unit, ASAN, ASAN_ENV

# exploration without symbolizer (a replay re-executes itself with symbolize=1, see harness/C10_seqmc.h)
_ENV = dict(ASAN_ENV, ASAN_OPTIONS=ASAN_ENV["ASAN_OPTIONS"] + ":symbolize=0")

UNITS_LOCAL = {"C08": [
    Unit("histories", ["harness/C08_histories.cpp"],
         flags=ASAN, env=_ENV, opt="-O1", engine="seqmc",
         budget={"quick": 100, "thorough": 1000},
         rule=("every history of 1..6 (thorough 1..7) enabled operations, shortest first, over a pool of 2 heap objects (obj0 a Node:Base, obj1 a Derived:Base, both counting destructor runs and both "
               "owning a member handle `IntrusivePtr<Base> next`) and 3 heap-allocated handle slots (h0,h1 IntrusivePtr<Base>, h2 Ref<Derived>), each replayed on fresh objects inside a forked ASan+UBSan shard; alphabet of 75: "
               "create object k, creator refDec / refInc (creator holds 0..2 references), per slot default-construct, construct from raw k / from null raw, copy-construct from the other Base slot, move-construct, "
               "converting construct Base<-Derived handle, copy-assign (incl. to itself), move-assign (incl. to itself), assign converted Derived handle, assign raw k, assign null, destroy slot; "
               "objects owning handles: h_i = new obj_k with the creator reference dropped (the handle is the only owner), obj_k.next = h_j (both j) / = null, "
               "h_i = h_j->next for all i,j in {0,1} (i==j is the list walk that releases the object holding the source handle), h_i = h_j->next.ptr likewise, copy-construct and move-construct h_i from h_j->next. "
               "obj0 (the Node) also owns a member handle of the derived type, `IntrusivePtr<Derived> dnext`: obj0.dnext = h2 / = null, h_i = h_j->dnext for all i,j in {0,1} with h_j pointing at obj0 "
               "(Base handle assigned from a Derived member handle, i==j releases the object holding the source), converting copy-construct h_i from h_j->dnext. "
               "Reference model: count = creator references + slots + member handles (next and dnext) of live objects pointing at the object; an object whose count reaches 0 dies and releases its member (cascade, cycles stay alive). "
               "After every step: destructor-run counters say destroyed exactly once and exactly at the step where the model count reached 0 (directly or by cascade), useCount() == model count for every live object, "
               "every slot's ptr / -> / bool / * and every live object's member name the object the model says, and (per newly reached history) ==, !=, < of all Base handle pairs agree with pointer identity. "
               "Teardown of every history (creator re-takes a reference to each live object, clears the members, destroys the slots, releases its references) is checked the same way and must destroy everything. "
               "Symmetry pruning: while h0 and h1 are both unconstructed only h0 may be constructed (they are two names for the same kind of slot). "
               "Two histories are distinct when their operation sequences differ; distinct outcomes = distinct (operation, resulting model state, which objects died)."),
         assumptions=["the creator only calls refDec for references it holds (creation or its own refInc); releasing somebody else's reference is misuse outside the statement",
                      "moving a handle onto itself may leave it null or unchanged (the statement fixes neither); likewise a moved-from handle may be null or keep its object as long as useCount() agrees; the enumeration follows 'null', which is what the tree does - a tree that keeps the object is reported as a cut history, not a violation",
                      "MOVE-assignment from a handle stored inside the object being released is outside the statement and not in the alphabet (copy-assignment and raw-pointer assignment from such a handle are)",
                      "a member handle is only assigned while its object has an owner outside the member handles (creator reference or slot): otherwise the assignment could release the object the destination lives in, which is outside the statement",
                      "comparisons are checked between the two IntrusivePtr<Base> slots and of the Derived handle with itself"]),
]}
