from vcheck import Unit, ASAN, ASAN_ENV

UNITS_LOCAL = {"C17": [
    Unit("index", ["harness/C17_index.cpp"],
         flags=ASAN, env=ASAN_ENV, engine="gridmc", opt="-O1",
         budget={"quick": 100, "thorough": 900},
         rule=("multidim_index_sequence<2|3>: every extent in [0,5]^N with every coordinate and every index "
               "(flatten, reshape, both compositions, strict monotonicity, range-for and postfix++ iteration: count and order), "
               "plus every extent tuple over {1,2,3,1000,46341,65536,2^21,2^22,2^31-1,2^32,2^32+1,2^40} whose product fits 64 bits, "
               "with coordinates {0,1,mid,dim-2,dim-1} per axis and indices at the ends / middle / row and slice boundaries, "
               "against unsigned __int128 arithmetic; longProduct/longIndex/coordsOf/ActualArray3D::indexOf/numElements: the same "
               "sets in vec3i (extents <= 2^31-1); for_each(lower,upper | box3i | size): every lower, upper in [-1,3]^3 (thorough [-1,4]^3) "
               "(visit list compared with the z,y,x-ordered cell list); ActualArray3D<int|float|uchar|double>: every extent in [1,4]^3 (thorough [1,5]^3, also for the adaptors), "
               "own and external memory, clear, two rounds of set at every cell with a whole-array frame check after each set, "
               "linear layout of the external buffer, get on every coordinate of [-2,dim+1]^3 = clamped cell; "
               "IndexShiftedArray3D: every shift in [-dim,2*dim)^3 x every cell; SubBoxArray3D: every clip box "
               "0<=lower<=upper<=dims x every cell of it; Array3DAccessor int->float and float->int; MultiSliceArray3D: 1-3 slices "
               "of every extent in [1,4]^2 (thorough [1,5]^2) x {1,2}; each adaptor both over a filled ActualArray3D (value of the named cell) and over a "
               "harness-implemented Array3D whose get() reports the coordinate it was asked for; getValueRange: every extent in "
               "[1,3]^3 (thorough [1,4]^3) x (8 corner patterns + a single maximum and a single minimum at every cell) x every "
               "non-empty region [begin,end), on ActualArray3D, a harness-implemented Array3D and a full SubBoxArray3D, against brute force. "
               "Every case runs in its own forked child under ASan+UBSan (for_each cases in chunks of one lower corner). "
               "distinct = distinct per-case digests of all observed results"),
         assumptions=[
             "extent tuples whose product does not fit size_t are outside the domain ([0,total) must be representable)",
             "adaptor get() is only judged for coordinates inside the adaptor's own extent; getValueRange only for non-empty regions inside the array",
             "the large-extent part is a declared grid (5 coordinates per axis), not every coordinate",
         ]),
]}
