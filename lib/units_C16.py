"""C16: XML reading is total, memory-safe, and faithful on its supported subset."""
from vcheck import Unit, ASAN, ASAN_ENV

_SRC = ["harness/C16_xml.cpp"]
_REPO = ["rkcommon/xml/XML.cpp", "rkcommon/os/FileName.cpp"]
_ASSUME = [
    "files live on tmpfs (/dev/shm); readXML is given a regular file whose size ftell reports exactly",
    "ASan redzones are the memory oracle: readXML's buffer is numBytes+1 bytes, so the first byte past the terminator is reported",
    "nesting depth is bounded by construction (<= 8); the statement excludes unbounded nesting",
    "supported subset = elements with identifier names, name=quoted-value properties (either quote), one text run per element, <!-- --> comments between items, optional <?xml ...?> header first; whitespace only where the reader skips it (not inside a closing tag)",
]

UNITS_LOCAL = {"C16": [
    Unit("bytes", _SRC, repo_src=_REPO, flags=ASAN, env=ASAN_ENV, engine="gridmc", opt="-O1",
         args={"quick": ["--part", "bytes"], "thorough": ["--part", "bytes"]},
         budget={"quick": 300, "thorough": 2400},
         rule="(i) every byte string of length <= 6 (thorough 7) over the 12 symbols < > / a = \" ' space ! - ? \\ written to a file and given to readXML; verdict per input: returned / std::runtime_error (ok) vs other exception, sanitizer report, signal, 10 s alarm (violation). distinct = distinct returned trees and error messages",
         assumptions=_ASSUME),
    Unit("trees", _SRC, repo_src=_REPO, flags=ASAN, env=ASAN_ENV, engine="gridmc", opt="-O1",
         args={"quick": ["--part", "trees"], "thorough": ["--part", "trees"]},
         budget={"quick": 300, "thorough": 2400},
         rule="(ii) every document of the tree space: root element + 0..2 leaf children, names {a,b_1}; root property sets: none, k, k l in all four quote-style combinations, empty value after a non-empty one and before one (each in both quote styles), two attributes with equal values (12 sets; children use 4 of them: none, k='v', k=\"v\" l='w x', k=\"v\" l=\"\"; thorough: root 16 sets adding both-empty, the other quote inside, markup characters inside, three attributes non-empty/empty/equal; children 5); body self-closing / empty open-close / text / children with text before or after them; header {none, <?xml version=\"1.0\"?>} (thorough: + <?xml?>, two-property header); comment patterns over the slots before/between/after items: none, body 'c' in every / even / odd slots, and in every slot the bodies 'a-' (<!--a--->), 'a--', '-' (only a dash), and one containing -- -> > < and quotes (thorough: + 'a-' in even / odd slots, bodies '--', '---', empty, '-x', more masks); layouts compact / pretty LF (thorough: CRLF+tabs); plus nesting chains of depth 1..8; plus the control-whitespace text family: layout x {no comments, c in every slot} x root name x {text only, text then child, child then text, text inside the child} x 16 texts made of or framed by \\t \\n \\r \\v \\f and space (for the 9 texts with \\v or \\f at an end the reader's leading/trailing trimming rules disagree, so only totality and the runtime_error contract are judged; for the others the content must equal the text trimmed of space \\t \\n \\r). Parsed tree compared node by node (name, property map, trimmed content, child order). distinct = distinct returned trees",
         assumptions=_ASSUME),
    Unit("mutations", _SRC, repo_src=_REPO, flags=ASAN, env=ASAN_ENV, engine="gridmc", opt="-O1",
         args={"quick": ["--part", "mutations"], "thorough": ["--part", "mutations"]},
         budget={"quick": 300, "thorough": 2400},
         rule="(iii) every document of the (ii) space restricted to its mutation-base option lists (root property sets: the 7 non-empty ones + k=\"v\" l=\"\"; children: 4 sets; comment patterns: none, c in every/even/odd slots, a- in every slot; 2 headers, 2 layouts) of at most 34 bytes (thorough 60): every truncation (prefix of every length) and every single byte replaced by every other byte of the 12-symbol alphabet extended by the control whitespace bytes \\t \\n \\r \\v \\f (17 bytes); for the documents of at most 24 (thorough 36) bytes also every truncation with its last byte replaced by every other symbol; verdict as in (i). distinct = distinct returned trees, error messages and deaths",
         assumptions=_ASSUME),
]}
