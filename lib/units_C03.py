from vcheck import Unit, TSAN_INSTR

_RULE = ("every schedule of the controller thread against the loop thread (visible operations = every atomic access, mutex, "
         "condition-variable, semaphore, thread and yield operation of AsyncLoop.h and of the monitor) with at most d deviations "
         "from the canonical non-preemptive schedule, d iterated 0..bound, for every script over {start,stop} of length <= 3 "
         "(thorough <= 4) followed by destruction; distinct = distinct (result, event trace) pairs")
_ASSUME = ["sequentially consistent interleavings only (no weak-memory reorderings)",
           "g++ -fsanitize=thread instruments every atomic/plain access of the harness and rkcommon translation units",
           "executions needing more deviations than the completed bound are not covered"]

UNITS_LOCAL = {"C03": [
    Unit("asyncloop_stdthread", ["harness/C03_asyncloop.cpp"],
         repo_src=["rkcommon/tasking/detail/tasking_system_init.cpp"],
         cxx="g++", flags=TSAN_INSTR, defs=["RKCOMMON_TASKING_OMP"], libs=["-lgomp"], mcsched=True, engine="mcsched",
         budget={"quick": 200, "thorough": 1500},
         rule="std::thread configuration (THREAD launch = owned std::thread, TASK launch = detached std::thread): " + _RULE, assumptions=_ASSUME),
    Unit("asyncloop_internal", ["harness/C03_asyncloop.cpp"],
         repo_src=["rkcommon/tasking/detail/tasking_system_init.cpp", "rkcommon/tasking/detail/TaskSys.cpp",
                   "rkcommon/tasking/detail/enkiTS/TaskScheduler.cpp"],
         cxx="g++", flags=TSAN_INSTR, defs=["RKCOMMON_TASKING_INTERNAL", "RKCOMMON_VERIF_SPIN_COUNT=2"], mcsched=True, engine="mcsched",
         args={"quick": ["--only-prefix", "task_"], "thorough": ["--only-prefix", "task_"]},
         budget={"quick": 200, "thorough": 1500},
         rule="internal (enkiTS) backend, TASK launch on a 2-thread pool: " + _RULE, assumptions=_ASSUME),
]}
