from vcheck import Unit, ASAN, ASAN_ENV

_COMMON_ASSUMPTIONS = [
    "a state is the operation history; every history is replayed on fresh objects and checked after its last operation, so a prefix is checked as its own (shorter) history",
    "a history that violated, or whose last operation is not enabled in the model state (e.g. copying from an empty slot, pointing a view at a destroyed source), is not extended",
    "a non-owning view is only read while the buffer it was pointed at still exists (a view whose source was replaced or destroyed is checked for size()/at() only)",
    "at(i) is probed (i = size, size+1, SIZE_MAX must throw; every i < size must not) on the wrappers the last operation of the history involved; a wrapper it did not involve was probed in the shorter history ending with the operation that did, and still has its size(), data(), iteration and every element compared",
    "ASan is queried (__asan_region_is_poisoned) for the whole element range before the elements are read, so a dangling range is reported as a violation of that history instead of killing the shard; any other sanitizer abort is attributed to the history by vr::run_sharded",
]

UNITS_LOCAL = {"C11": [
    Unit("views", ["harness/C11_views.cpp"],
         flags=ASAN, env=ASAN_ENV, engine="seqmc", opt="-O1",
         budget={"quick": 100, "thorough": 1000},
         rule="every history of length <= 4 (thorough 5) over 36 operations on two ArrayView<int> slots (construct from vector/array/pointer ranges/nullptr, make_ArrayView, reset(), reset(p,n), reset onto a sub-range of the data the view already shows, construction onto a sub-range of the other view, assign vector/array, copy-construct, copy-assign, write through the view, destroy), two heap source vectors (replace by a fresh buffer of 0/3/4 elements, write, destroy) and a std::array; the same with depth-1 for uint8_t and double. distinct = distinct (last operation, per-view size/null-ness/readability) observations",
         assumptions=_COMMON_ASSUMPTIONS),
    Unit("owned", ["harness/C11_owned.cpp"],
         flags=ASAN, env=ASAN_ENV, engine="seqmc", opt="-O1",
         budget={"quick": 100, "thorough": 1000},
         rule="every history of length <= 4 (thorough 5) over 46 operations on two OwnedArray<int> slots (ALIASING arguments: resize(size+1 / size+8, a[0] / a[size-1]) with the fill value inside the array (growth within and beyond the capacity), reset(a.data()+k, m) with a range inside the array itself, reset / construction from a range inside the other OwnedArray, self-assignment; construct from vector/array/pointer ranges/nullptr, assign vector/array, reset(), reset(p,n), resize(n,val) for n in {0,1,3,9} incl. growth that reallocates, copy-construct, copy-assign, self-assign, write an element, destroy) and the source buffers (replace/write/destroy); depth-1 for uint8_t and double. Owning arrays are compared with the model after their source was written, replaced or destroyed and after the array they were copied from was destroyed/resized/written. distinct = distinct (last operation, per-array size/null-ness) observations",
         assumptions=_COMMON_ASSUMPTIONS),
    Unit("fixed", ["harness/C11_fixed.cpp"],
         flags=ASAN, env=ASAN_ENV, engine="seqmc", opt="-O1",
         budget={"quick": 100, "thorough": 1000},
         rule="every history of length <= 4 (thorough 5) over 48 operations on two shared_ptr<FixedArray<int>> handles (ALIASING arguments: self-assignment, assignment from a vector built over its own data, construction from a range inside the array it replaces / inside the other array, a view re-assigned onto a sub-range of the array it views; default/size/pointer incl. null/vector incl. empty/array constructors, assign vector/array, copy-construct, copy-assign, write an element, drop the handle), two FixedArrayView<int> slots ((offset,size) sub-ranges (0,size),(1,size-1),(size,0) of either array, copy, write through the view, destroy) and the source buffers; depth-1 for uint8_t and double. A view is read after the handle it was made from was dropped and after its FixedArray was re-assigned (the class comment promises it keeps the data alive); an element is not written while two different FixedArray objects share the buffer (whether a copy sees later writes is not specified). distinct = distinct (last operation, per-wrapper size/null-ness) observations",
         assumptions=_COMMON_ASSUMPTIONS + ["elements of a FixedArray(size) are uninitialised: they are read (for ASan) but not compared until written"]),
    Unit("dataview", ["harness/C11_dataview.cpp"],
         flags=ASAN, env=ASAN_ENV, engine="seqmc", opt="-O1",
         budget={"quick": 60, "thorough": 300},
         rule="DataView<T> for T of size 1/2/4/8 and 12 (uint8_t, uint16_t, float, double, a 12-byte struct of 4-byte alignment): every history of length <= 3 (thorough 4) over {default construct, construct(data,stride), construct(data) with the default stride, reset(data,stride), reset(data), free a block} x 2 heap blocks x base offsets {0, alignof(T)} x strides {0, alignof(T), sizeof(T), sizeof(T)+alignof(T), 2*sizeof(T), 3*sizeof(T)} (every stride 0..4 for 1-byte elements), 43-59 operations per type; after the last operation operator[](i) for i in 0..3 must return a reference to exactly byte offset i*stride (address, and value compared with the model's copy of the bytes); each block is a heap allocation of exactly offset+3*stride+sizeof(T) bytes so ASan sees any access outside it. distinct = distinct (last operation kind, offset, stride, element size) observations",
         assumptions=["strides are multiples of alignof(T) and bases are aligned (anything else is undefined behaviour in the caller)"]),
]}
