from vcheck import Unit, TSAN_INSTR
UNITS_LOCAL = {"C08": [
    Unit("threads", ["harness/C08_threads.cpp"], cxx="g++", flags=TSAN_INSTR, mcsched=True, engine="mcsched",
         rule="every schedule (<= d deviations) of 2-3 threads that each own handles to two shared objects and copy / move / assign / refInc+refDec / drop them while the creator "
              "and the main thread's handles release concurrently; oracles: destroyed exactly once after the last release, quarantine lifetime oracle on every access, "
              "happens-before race detector (a non-atomic counter is a reported race)",
         assumptions=["sequentially consistent interleavings only", "bound named in the evidence"]),
]}
