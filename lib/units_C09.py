from vcheck import Unit, ASAN, ASAN_ENV

_OPT_SRC = ["harness/C09_optional.cpp", "harness/C09_opt_int.cpp", "harness/C09_opt_string.cpp",
            "harness/C09_opt_tracked.cpp", "harness/C09_opt_doubleoff.cpp", "harness/C09_opt_trackedoff.cpp"]

_ENV = dict(ASAN_ENV)
_ENV["ASAN_OPTIONS"] = ASAN_ENV["ASAN_OPTIONS"] + ":symbolize=0"   # replays re-exec themselves with symbolize=1

UNITS_LOCAL = {"C09": [
    Unit("optional", _OPT_SRC, flags=ASAN, env=_ENV, engine="seqmc",
         budget={"quick": 100, "thorough": 1000},
         rule="TODO",
         assumptions=[]),
    Unit("any", ["harness/C09_any.cpp"], repo_src=["rkcommon/utility/demangle.cpp"], flags=ASAN, env=_ENV, engine="seqmc",
         budget={"quick": 100, "thorough": 1000},
         rule="TODO",
         assumptions=[]),
]}
