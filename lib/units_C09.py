from vcheck import Unit, ASAN, ASAN_ENV

# exploration runs with symbolize=0 (a symbolised sanitizer report costs ~200 ms per crashed
# history); --replay re-executes itself with symbolize=1
_ENV = dict(ASAN_ENV)
_ENV["ASAN_OPTIONS"] = ASAN_ENV["ASAN_OPTIONS"] + ":symbolize=0"

_OPT_SRC = ["harness/C09_optional.cpp", "harness/C09_opt_int.cpp", "harness/C09_opt_string.cpp",
            "harness/C09_opt_tracked.cpp", "harness/C09_opt_doubleoff.cpp", "harness/C09_opt_trackedoff.cpp",
            "harness/C09_opt_a32.cpp", "harness/C09_opt_a64.cpp", "harness/C09_opt_a32off.cpp",
            "harness/C09_opt_a64off.cpp", "harness/C09_opt_a32arr.cpp", "harness/C09_opt_a64arr.cpp"]

_PRUNE = ("Declared reductions, all exhaustive over the stated alphabet: (1) constructions target the lowest "
          "absent slot (slots are interchangeable fresh heap blocks); (2) observer operations occur only as the "
          "last operation of a history (after it the complete state is compared again, so an observer that "
          "changed state is caught there); (3) a history that violated or crashed is not extended (every "
          "extension would replay the same failing prefix); (4) the complete state comparison runs after the "
          "last operation of each history - every proper prefix is itself an enumerated history.")

UNITS_LOCAL = {"C09": [
    Unit("optional", _OPT_SRC, flags=ASAN, env=_ENV, engine="seqmc",
         budget={"quick": 100, "thorough": 1000},
         rule="every history of <= 4 (thorough 5) operations over 3 Optional<T> slots, replayed on fresh heap objects "
              "in forked shards, for T = int, std::string (short and heap-long values), Tracked (live-address "
              "registry), double / Tracked inside struct{char; Optional<T>}, and the over-aligned Tracked-like payloads "
              "alignas(32) / alignas(64) in three layouts: alone in a heap block, inside struct{char; Optional<T>}, and as "
              "the middle element of Optional<T> a[3] (11 configurations; a configuration whose "
              "alignof(Optional<T>) < alignof(T) - reported statically - is explored to depth 2 only). Every holder is "
              "placement-constructed at the least aligned address its own alignof permits (odd multiple of alignof), "
              "so UBSan's alignment check sees every payload placement-new and &*o of every engaged payload must be a "
              "multiple of alignof(T). Mutators: default/value/copy/move/"
              "converting-copy/converting-move construction, destroy, assign value (lvalue and rvalue), copy-/move-"
              "assign from every slot incl. itself, converting copy/move assign from Optional<U> empty and engaged "
              "(short->int, const char*->string, float->double, int->Tracked), emplace, reset, assignment through "
              "operator*. Observers: value_or, * / -> / value(), the six comparisons on every ordered pair of slots "
              "and against Optional<U>, toString. Plus getEnvVar<int|float|string> on 13 environment settings. "
              "Two histories are distinct when their operation sequences differ; distinct outcomes = distinct "
              "(last operation, observed state digest). " + _PRUNE,
         assumptions=["a moved-from Optional still reports a value (as std::optional does); that value is unspecified and not compared",
                      "what a relational operator returns when an operand is empty is recorded, not judged (the statement only demands that it does not crash); two engaged wrappers must compare like their values",
                      "ASan fills fresh heap blocks with 0xbe, so 'uninitialised storage' is deterministic"]),
    Unit("any", ["harness/C09_any.cpp"], repo_src=["rkcommon/utility/demangle.cpp"], flags=ASAN, env=_ENV, engine="seqmc",
         budget={"quick": 100, "thorough": 1000},
         rule="every history of <= 4 (thorough 5) operations over 3 Any slots holding int / std::string (short, "
              "heap-long) / Tracked. Mutators: construct empty / from int / string / Tracked, copy-construct from every "
              "slot, assign Any from every slot incl. itself, assign int / string / Tracked, assign through get<T>(), "
              "destroy. Observers: == and != on every ordered pair (every engaged/empty combination, self "
              "included), toString. After the last operation, on every slot: valid(), is<T>() and get<T>() const and "
              "non-const for T in {int, string, Tracked, char} (right type returns the stored value, every other type "
              "and every empty Any throws std::runtime_error), Tracked registry and heap balance. " + _PRUNE,
         assumptions=["operator== of two engaged Any objects means same stored type and equal values; with an empty operand only 'does not crash' is demanded"]),
]}
