from vcheck import Unit, TSAN_INSTR
UNITS_LOCAL = {"C19": [
    Unit("threads", ["harness/C19_threads.cpp"], repo_src=["rkcommon/utility/TimeStamp.cpp"], cxx="g++", flags=TSAN_INSTR, mcsched=True, engine="mcsched",
         rule="every schedule (<= d deviations) of 2-4 threads each constructing, renewing, copying and assigning TimeStamps; all values gathered after the joins: "
              "pairwise distinct, increasing per thread, copies equal their source",
         assumptions=["sequentially consistent interleavings only", "bound named in the evidence"]),
]}
