from vcheck import Unit, TSAN_INSTR

_INT = ["rkcommon/tasking/detail/tasking_system_init.cpp", "rkcommon/tasking/detail/TaskSys.cpp", "rkcommon/tasking/detail/enkiTS/TaskScheduler.cpp"]
_TI = ["rkcommon/tasking/detail/tasking_system_init.cpp"]
_RULE = ("every history of initTaskingSystem(n) calls of length <= 3 (thorough 4) over n in {-1,0,1,2,3,5,2*hardware threads}, each in a fresh process; "
         "numTaskingThreads() is compared with the model before the first and after every call; after the last call a rendezvous probe in parallel_for "
         "counts the threads simultaneously inside the body. distinct = distinct (history, reported counts)")
_ASSUME = ["the concurrency probe on TBB and OpenMP is observational over their schedules (free-running threads, 1.5 ms rendezvous)",
           "for the internal backend the concurrency bound is decided over schedules by the mcsched unit"]

UNITS_LOCAL = {"C13": [
    Unit("init_tbb", ["harness/C13_init.cpp"], repo_src=_TI, cxx="g++", opt="-O1", defs=["RKCOMMON_TASKING_TBB", 'BACKEND="tbb"'], libs=["-ltbb"],
         engine="seqmc", rule="TBB backend: " + _RULE, assumptions=_ASSUME),
    Unit("init_openmp", ["harness/C13_init.cpp"], repo_src=_TI, cxx="g++", opt="-O1", flags=["-fopenmp"], defs=["RKCOMMON_TASKING_OMP", 'BACKEND="openmp"'],
         engine="seqmc", rule="OpenMP backend: " + _RULE, assumptions=_ASSUME),
    Unit("init_internal", ["harness/C13_init.cpp"], repo_src=_INT, cxx="g++", opt="-O1", defs=["RKCOMMON_TASKING_INTERNAL", 'BACKEND="internal"'],
         engine="seqmc", rule="internal backend: " + _RULE, assumptions=_ASSUME),
    Unit("init_debug", ["harness/C13_init.cpp"], repo_src=_TI, cxx="g++", opt="-O1", defs=['BACKEND="debug"'],
         engine="seqmc", rule="serial debug backend: " + _RULE, assumptions=_ASSUME),
    Unit("concurrency_internal", ["harness/C13_mc.cpp"], repo_src=_INT, cxx="g++", flags=TSAN_INSTR,
         defs=["RKCOMMON_TASKING_INTERNAL", "RKCOMMON_VERIF_SPIN_COUNT=2"], mcsched=True, engine="mcsched",
         rule="internal backend under the controlled scheduler: parallel_for(n) and a nested loop with pools of 1-3 threads; the body asserts that the number of threads "
              "inside it never exceeds the pool size, on every schedule with <= d deviations",
         assumptions=["sequentially consistent interleavings only", "bound named in the evidence"]),
]}
