from vcheck import Unit

_SETS_SRC = ["harness/C05_sets.cpp", "harness/C05_sets_a.cpp", "harness/C05_sets_b.cpp",
             "harness/C05_sets_c.cpp", "harness/C05_sets_d.cpp"]

UNITS_LOCAL = {"C05": [
    Unit("sets", _SETS_SRC,
         flags=[], engine="gridmc", opt="-O2",
         budget={"quick": 120, "thorough": 600},
         rule=("range_t<int|float|double> (N=1), box2i/2f/2d, box3i/3f/3fa/3d, box4i/4f: coordinates from G={-2..2} (int) or G/2 (floating), "
               "N=4 on {-1,0,1} / {-.5,0,.5} (quick: box3d on the 3-value grid); boxes = ALL lower<=upper pairs over G^N plus the "
               "default-constructed empty box (N=3: 3376); points = ALL of G^N.  Every box: contains on every point, empty(), "
               "size/center/area/volume by definition (integer center may be either neighbouring integer), clamp of every point = "
               "nearest contained point by brute force, extend(point) for every point = hull, box*s and s*box for every scale "
               "vector over {0,(1/2),1,2}^N (bounds and images of all points), box+t and t+box for every grid vector t.  Every "
               "ordered box pair: a.extend(b) = hull of the union (empty box = identity), ==/!=, and for N>=2 intersectionOf "
               "evaluated with contains on every point = common points, intersectionOf.empty() <=> no common point <=> disjoint "
               "<=> !touchingOrOverlapping (N=2,3).  distinct = per-box digests of everything observed in the box's row"),
         assumptions=[
             "boxes with upper < lower other than the default-constructed empty box are outside the domain; hence scale factors are non-negative",
             "all bounds are grid values, so 'no common grid point' is equivalent to an empty intersection",
             "size/center/area/volume/clamp/scale/translate are only judged on non-empty boxes",
         ]),
    Unit("xfm", ["harness/C05_xfm.cpp"],
         flags=[], engine="gridmc", opt="-O2",
         budget={"quick": 120, "thorough": 900},
         rule=("xfmBounds for AffineSpace3f and AffineSpace3fa: ALL rank-3 3x3 matrices with entries from {-1,0,1/2,2} (quick; 4^9 candidates) or "
               "{-1,0,1/2,1,2} (thorough; 5^9), translation (1,-2,1/2) resp. 0, x ALL non-empty boxes over {-1,0,1}^3 (216; thorough 3f: over "
               "{-1,-1/2,0,1/2,1}^3 = 3375) x every grid point of the box (corners, edge/face points, interior): the exact image "
               "x*vx+y*vy+z*vz+p (double, exact for these dyadic values) lies inside the result.  Tightness (every face touched by a "
               "corner image) is measured and reported as a note only.  distinct = digests of the results per block of 256 maps"),
         assumptions=[
             "singular matrices are skipped (the design asks for rank 3: 'affine maps of moderate condition')",
             "the empty box is not transformed (it has no points)",
         ]),
    Unit("ray", ["harness/C05_ray.cpp"],
         flags=[], engine="gridmc", opt="-O2",
         budget={"quick": 120, "thorough": 900},
         rule=("intersectRayBox<float|double, N=2|3>: origins = ALL of {-1.5..1.5 step 1/2}^2 (N=2) / {-1..1 step 1/2}^3 (N=3; thorough "
               "{-1.5..1.5}^3); directions = ALL non-zero vectors over {-1,-1/2,0,1/2,1}^N; boxes = ALL non-empty boxes over "
               "{-1..1 step 1/2}^N incl. flat ones (quick double N=3: over {-1,0,1}^3); tRange = default argument, [1/4,3/2], "
               "[1,3] (N=2 and thorough also explicit [0,inf) and [1/2,1/2]; quick float N=3 the first two).  Oracle 1: exact slab interval "
               "(double = exact rational for these inputs), relative tolerance 2^-18 (float, approximate rcp) / 2^-45 (double); for a ray "
               "parallel to an axis with the origin exactly in that slab's plane the result must lie between the 'tie outside' and "
               "'tie inside' intervals.  Oracle 2: for t=k/4 the exact point strictly inside the box and tRange => covered, strictly "
               "outside either => not covered.  distinct = digests of returned intervals per (origin, direction)"),
         assumptions=[
             "recorded decision: rcp_safe(+-0) may have either sign, so a parallel ray lying exactly in a slab plane is a tie (not demanded either way); such cases are counted and the first is written to the notes",
             "tRange.lower >= 0 (the statement's 'default and positive tRange')",
         ]),
]}
