// C01 (input x configuration part): parallel_for / parallel_foreach / parallel_in_blocks_of on
// each tasking backend (one build of this file per backend), free-running threads:
// exhaustive over the declared input set, observational over the backend's own schedules.
#include "common/vreport.h"

#include "rkcommon/tasking/parallel_for.h"
#include "rkcommon/tasking/parallel_foreach.h"
#include "rkcommon/tasking/tasking_system_init.h"

#include <atomic>
#include <mutex>
#include <thread>
#include <unistd.h>
#include <climits>
#include <limits>
#include <memory>
#include <typeinfo>

using namespace rkcommon::tasking;

#ifndef BACKEND
#define BACKEND "debug"
#endif
static const int T = 4;

static void viol(const std::string &sig, const std::string &replay, const std::string &detail)
{
  vr::violation(std::string(BACKEND) + "|" + sig, replay, detail);
  if (vr::replaying())
    printf("VIOLATED %s :: %s\n", sig.c_str(), detail.c_str());
}

// "joined before returning" includes returning at all: vr::CaseWatch turns a call that does not come back
// within the limit into a violation carrying the case's replay string (the remaining cases are not run)
struct CaseGuard : vr::CaseWatch
{
  static std::string what(const std::string &rp)
  {
    const std::string kind = rp.substr(0, rp.find(':'));
    return std::string(BACKEND) + "|" + (kind == "blk" ? "parallel_in_blocks_of" : kind == "each" ? "parallel_foreach" : kind == "nest" ? "nested parallel_for" : "parallel_for");
  }
  CaseGuard(const std::string &rp, double limit_s = 60) : vr::CaseWatch(what(rp), rp, limit_s) {}
};

template <typename I>
struct Name;
#define NAME(t, s)                      \
  template <>                           \
  struct Name<t>                        \
  {                                     \
    static const char *n() { return s; } \
  };
NAME(unsigned char, "uchar")
NAME(short, "short")
NAME(int, "int")
NAME(unsigned, "uint")
NAME(long, "long")
NAME(long long, "llong")
NAME(unsigned long long, "ullong")

// clip a requested count into the index type (negative -> 0 for unsigned types: not a valid request)
template <typename I>
static bool representable(long long n)
{
  if (n < 0 && !std::numeric_limits<I>::is_signed)
    return false;
  if (n > 0 && (unsigned long long)n > (unsigned long long)std::numeric_limits<I>::max())
    return false;
  if (n < 0 && n < (long long)std::numeric_limits<I>::min())
    return false;
  return true;
}

template <typename I>
static void one_for(long long n)
{
  if (!representable<I>(n))
    return;
  const long long cnt = n > 0 ? n : 0;
  CaseGuard guard(std::string("for:") + Name<I>::n() + ":" + std::to_string(n));
  std::unique_ptr<std::atomic<unsigned char>[]> hits(new std::atomic<unsigned char>[cnt + 1]);
  for (long long i = 0; i <= cnt; i++)
    hits[i].store(0, std::memory_order_relaxed);
  std::atomic<long long> stray(0), calls(0);
  parallel_for((I)n, [&](I i) {
    calls.fetch_add(1, std::memory_order_relaxed);
    if ((long long)i < 0 || (long long)i >= cnt)
      stray.fetch_add(1, std::memory_order_relaxed);
    else
      hits[(long long)i].fetch_add(1, std::memory_order_relaxed);
  });
  // effects visible at return: plain reads of what relaxed increments wrote
  long long wrong = 0, first = -1;
  for (long long i = 0; i < cnt; i++)
    if (hits[i].load(std::memory_order_relaxed) != 1) {
      wrong++;
      if (first < 0)
        first = i;
    }
  std::string rp = std::string("for:") + Name<I>::n() + ":" + std::to_string(n);
  vr::stat("states");
  vr::stat("transitions", cnt + 1);
  vr::outcome(rp + ":" + std::to_string(calls.load()));
  vr::sample("parallel_for<" + std::string(Name<I>::n()) + ">(" + std::to_string(n) + ") -> " + std::to_string(calls.load()) + " calls", std::string("for") + Name<I>::n());
  if (stray.load() || wrong || calls.load() != cnt)
    viol(std::string("parallel_for|") + (n <= 0 ? "count <= 0 invoked the body" : (wrong ? "an index not executed exactly once" : "stray index")), rp,
        "n=" + std::to_string(n) + " calls=" + std::to_string(calls.load()) + " stray=" + std::to_string(stray.load()) + " wrong=" + std::to_string(wrong) + " first=" +
            std::to_string(first));
  if (vr::replaying())
    printf("parallel_for<%s>(%lld): calls=%lld stray=%lld wrong=%lld\n", Name<I>::n(), n, calls.load(), stray.load(), wrong);
}

// counter-only body for huge counts
template <typename I>
static void huge_for(unsigned long long n)
{
  std::atomic<unsigned long long> calls(0), sum(0), stray(0);
  CaseGuard guard(std::string("huge:") + Name<I>::n() + ":" + std::to_string(n), 3000);
  parallel_for((I)n, [&](I i) {
    calls.fetch_add(1, std::memory_order_relaxed);
    sum.fetch_add((unsigned long long)i, std::memory_order_relaxed);
    if ((unsigned long long)i >= n)
      stray.fetch_add(1, std::memory_order_relaxed);
  });
  unsigned long long want = (n % 2 == 0) ? (n / 2) * (n - 1) : n * ((n - 1) / 2);  // mod 2^64
  std::string rp = std::string("huge:") + Name<I>::n() + ":" + std::to_string(n);
  vr::stat("states");
  vr::stat("transitions", 1);
  vr::outcome(rp);
  vr::sample("parallel_for<" + std::string(Name<I>::n()) + ">(" + std::to_string(n) + ") counter-only -> " + std::to_string(calls.load()) + " calls", "huge");
  if (calls.load() != n || sum.load() != want || stray.load())
    viol("parallel_for|count beyond 32 bits not executed once each", rp, "calls=" + std::to_string(calls.load()) + " want " + std::to_string(n));
  if (vr::replaying())
    printf("huge parallel_for<%s>(%llu): calls=%llu\n", Name<I>::n(), n, calls.load());
}

template <int B, typename I>
static void one_blocks(long long n)
{
  if (!representable<I>(n) || !representable<I>(n + B))
    return;
  const long long cnt = n > 0 ? n : 0;
  std::unique_ptr<std::atomic<unsigned char>[]> hits(new std::atomic<unsigned char>[cnt + 1]);
  for (long long i = 0; i <= cnt; i++)
    hits[i].store(0);
  std::atomic<long long> bad(0), nblocks(0);
  CaseGuard guard(std::string("blk:") + Name<I>::n() + ":" + std::to_string(B) + ":" + std::to_string(n));
  parallel_in_blocks_of<B>((I)n, [&](I b, I e) {
    nblocks.fetch_add(1);
    long long lb = (long long)b, le = (long long)e;
    if (le <= lb || le - lb > B || lb % B != 0 || lb < 0 || le > cnt)
      bad.fetch_add(1);
    else
      for (long long i = lb; i < le; i++)
        hits[i].fetch_add(1);
  });
  long long wrong = 0;
  for (long long i = 0; i < cnt; i++)
    if (hits[i].load() != 1)
      wrong++;
  std::string rp = std::string("blk:") + Name<I>::n() + ":" + std::to_string(B) + ":" + std::to_string(n);
  vr::stat("states");
  vr::stat("transitions", nblocks.load() + 1);
  vr::outcome(rp + ":" + std::to_string(nblocks.load()));
  long long wantblocks = (cnt + B - 1) / B;
  if (bad.load() || wrong || nblocks.load() != wantblocks)
    viol("parallel_in_blocks_of|blocks do not exactly partition [0,n) with size <= block size", rp,
        "B=" + std::to_string(B) + " n=" + std::to_string(n) + " blocks=" + std::to_string(nblocks.load()) + " bad=" + std::to_string(bad.load()) + " wrong=" + std::to_string(wrong));
  if (vr::replaying())
    printf("parallel_in_blocks_of<%d,%s>(%lld): blocks=%lld bad=%lld wrong=%lld\n", B, Name<I>::n(), n, nblocks.load(), bad.load(), wrong);
}

static void one_nested(int outer, int inner)
{
  std::vector<std::atomic<int>> hits(outer * inner);
  for (auto &h : hits)
    h.store(0);
  CaseGuard guard("nest:" + std::to_string(outer) + ":" + std::to_string(inner));
  parallel_for(outer, [&](int o) { parallel_for(inner, [&, o](int i) { hits[o * inner + i].fetch_add(1); }); });
  int wrong = 0;
  for (auto &h : hits)
    if (h.load() != 1)
      wrong++;
  std::string rp = "nest:" + std::to_string(outer) + ":" + std::to_string(inner);
  vr::stat("states");
  vr::stat("transitions", outer * inner);
  vr::outcome(rp);
  if (wrong)
    viol("nested parallel_for|an index not executed exactly once", rp, "wrong=" + std::to_string(wrong));
  if (vr::replaying())
    printf("nested %dx%d wrong=%d\n", outer, inner, wrong);
}

static void one_foreach(int n)
{
  std::vector<int> v(n, 0);
  CaseGuard guard("each:" + std::to_string(n));
  parallel_foreach(v, [&](int &x) { __atomic_fetch_add(&x, 1, __ATOMIC_RELAXED); });
  int wrong = 0;
  for (int x : v)
    if (x != 1)
      wrong++;
  std::vector<int> w(n + 2, 0);
  if (n > 0)
    parallel_foreach(w.begin() + 1, w.begin() + 1 + n, [&](int &x) { __atomic_fetch_add(&x, 1, __ATOMIC_RELAXED); });
  if (w[0] != 0 || w[n + 1] != 0)
    wrong++;
  for (int i = 1; i <= n; i++)
    if (w[i] != 1)
      wrong++;
  std::string rp = "each:" + std::to_string(n);
  vr::stat("states");
  vr::stat("transitions", 2 * n + 1);
  vr::outcome(rp);
  if (wrong)
    viol("parallel_foreach|an element not visited exactly once (or one outside the range)", rp, "wrong=" + std::to_string(wrong));
  if (vr::replaying())
    printf("foreach n=%d wrong=%d\n", n, wrong);
}

template <typename I>
static void all_for(const std::vector<long long> &ns)
{
  for (long long n : ns)
    one_for<I>(n);
}
template <int B>
static void all_blocks()
{
  for (long long n = -3; n <= 70; n++) {
    one_blocks<B, int>(n);
    one_blocks<B, unsigned>(n);
    one_blocks<B, long>(n);
    one_blocks<B, long long>(n);
    one_blocks<B, unsigned long long>(n);
  }
}

static void dispatch_for(const std::string &ty, long long n)
{
  if (ty == "uchar") one_for<unsigned char>(n);
  else if (ty == "short") one_for<short>(n);
  else if (ty == "int") one_for<int>(n);
  else if (ty == "uint") one_for<unsigned>(n);
  else if (ty == "long") one_for<long>(n);
  else if (ty == "llong") one_for<long long>(n);
  else if (ty == "ullong") one_for<unsigned long long>(n);
}
template <typename I>
static void dispatch_blk(int B, long long n)
{
  switch (B) {
  case 1: one_blocks<1, I>(n); break;
  case 2: one_blocks<2, I>(n); break;
  case 3: one_blocks<3, I>(n); break;
  case 4: one_blocks<4, I>(n); break;
  case 7: one_blocks<7, I>(n); break;
  case 8: one_blocks<8, I>(n); break;
  case 64: one_blocks<64, I>(n); break;
  }
}

int main(int argc, char **argv)
{
  vr::init(argc, argv);
  initTaskingSystem(T);
  if (vr::replaying()) {
    std::vector<std::string> f;
    std::stringstream ss(vr::S().replay);
    std::string item;
    while (std::getline(ss, item, ':'))
      f.push_back(item);
    if (f[0] == "for")
      dispatch_for(f[1], atoll(f[2].c_str()));
    else if (f[0] == "huge") {
      if (f[1] == "ullong") huge_for<unsigned long long>(strtoull(f[2].c_str(), 0, 10));
      else if (f[1] == "llong") huge_for<long long>(strtoull(f[2].c_str(), 0, 10));
      else huge_for<long>(strtoull(f[2].c_str(), 0, 10));
    } else if (f[0] == "blk") {
      int B = atoi(f[2].c_str());
      long long n = atoll(f[3].c_str());
      if (f[1] == "int") dispatch_blk<int>(B, n);
      else if (f[1] == "uint") dispatch_blk<unsigned>(B, n);
      else if (f[1] == "long") dispatch_blk<long>(B, n);
      else if (f[1] == "llong") dispatch_blk<long long>(B, n);
      else dispatch_blk<unsigned long long>(B, n);
    } else if (f[0] == "nest")
      one_nested(atoi(f[1].c_str()), atoi(f[2].c_str()));
    else if (f[0] == "each")
      one_foreach(atoi(f[1].c_str()));
    vr::flush();
    return vr::S().viols.empty() ? 0 : 1;
  }
  std::vector<long long> ns = {INT_MIN, -32768, -7, -1, 0, 1, 2, T - 1, T, T + 1, 2 * T + 1, 63, 64, 65, 127, 255, 256, 257, 1000, 32767, 100000};
  all_for<unsigned char>(ns);
  all_for<short>(ns);
  all_for<int>(ns);
  all_for<unsigned>(ns);
  all_for<long>(ns);
  all_for<long long>(ns);
  all_for<unsigned long long>(ns);
  one_for<long long>(LLONG_MIN);
  one_for<long>(LONG_MIN);
  all_blocks<1>();
  all_blocks<2>();
  all_blocks<3>();
  all_blocks<4>();
  all_blocks<7>();
  all_blocks<8>();
  all_blocks<64>();
  for (int o = 0; o <= 5; o++)
    for (int i = 0; i <= 5; i++)
      one_nested(o, i);
  one_nested(T + 1, 2 * T + 1);
  for (int n = 0; n <= 70; n++)
    one_foreach(n);
  vr::note(std::string("backend ") + BACKEND + ": numTaskingThreads()=" + std::to_string(numTaskingThreads()) +
      "; parallel_in_blocks_of is not instantiable for unsigned char / short (std::min(int, INDEX_T&) deduction fails) - no executions exist for those two");
#ifdef C01_HUGE
  if (vr::thorough()) {
    // counts beyond 2^32: (2^32 + 3) trivial calls per type
    huge_for<unsigned long long>((1ull << 32) + 3);
    if (std::string(BACKEND) == "debug")
      huge_for<long long>((1ull << 32) + 3);
  }
#endif
  vr::stat("traces", vr::S().stats["states"]);
  return vr::finish();
}
