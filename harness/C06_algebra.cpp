// C06: linear, affine and quaternion transforms obey their algebra and agree.
// Engine gridmc: every element of the declared finite input grids is run through the real rkcommon
// code and compared with the same algebra evaluated independently in long double (C06_ref.h).
#include "C06_matrix.h"
#include "C06_ops.h"
#include "C06_rot.h"

static const LD VALS7[7] = {-2, -1, -0.5L, 0, 0.5L, 1, 2};
static const LD VALS5[5] = {-2, -1, 0, 0.5L, 1};
static const LD VALS4[4] = {-1, 0, 0.5L, 2};

static std::vector<Partner> P2, P3;

static long long ipow(long long b, int e)
{
  long long r = 1;
  while (e--)
    r *= b;
  return r;
}
static void digits(long long idx, int nv, const LD *vals, int cnt, LD *e)
{
  for (int i = cnt - 1; i >= 0; i--) {
    e[i] = vals[idx % nv];
    idx /= nv;
  }
}
static Case case_of(const char *kind, const char *type, const LD *e, int n, const ref::V *t = nullptr, int nt = 0)
{
  Case c = mkcase(kind, type);
  for (int i = 0; i < n; i++)
    c << e[i];
  for (int i = 0; i < nt; i++)
    c << t->v[i];
  return c;
}

// ---------------------------------------------------------------- 3x3: one kept matrix, one instantiation
template <class L>
static void lin3_one(Rep &R, const LD *e, const Pre &a, int npartners)
{
  Case c = case_of("lin3", Nm<L>::lin(), e, 9);
  check_linear<L>(R, c, a);
  for (int k = 0; k < npartners; k++) {
    check_pair<L>(R, c, a, P3[k].pre);
    check_pair<L>(R, c, P3[k].pre, a);
  }
  check_linear_xfm<L>(R, c, a, P3[0].pre);
  // remaining operators, with the partner selected by the entries (all 4 partners occur over the grid)
  const int k = ((int)(2 * (e[0] + e[4] + e[8])) + 12 + (int)(2 * e[1]) + 4) % 4;
  check_linear_ops<L>(R, c, a, P3[k].pre);
  check_linear_ops<L>(R, c, P3[k].pre, a);
}
template <class L>
static void aff3_one(Rep &R, const LD *e, const Pre &a, const ref::V &t, int np)
{
  Case c = case_of("aff3", Nm<L>::aff(), e, 9, &t, 3);
  check_affine<L>(R, c, a, t, P3, np);
  check_affine_xfm<L>(R, c, a, t);
  const int k = ((int)(t.v[0] + 2 * t.v[1] + 3 * t.v[2]) + 12) % 4;
  check_affine_ops<L>(R, c, a, t, P3[k]);
}
static void lin2_one(Rep &R, const LD *e, const Pre &a)
{
  Case c = case_of("lin2", "LinearSpace2f", e, 4);
  check_linear<LinearSpace2f>(R, c, a);
  check_orthogonal2(R, c, a);
}
static void lin2_pair(Rep &R, const LD *ea, const Pre &a, const LD *eb, const Pre &b)
{
  LD e[8];
  for (int i = 0; i < 4; i++)
    e[i] = ea[i], e[4 + i] = eb[i];
  Case c = case_of("lin2pair", "LinearSpace2f", e, 8);
  check_pair<LinearSpace2f>(R, c, a, b);
  check_linear_ops<LinearSpace2f>(R, c, a, b);
}
static void aff2_one(Rep &R, const LD *e, const Pre &a, const ref::V &t)
{
  Case c = case_of("aff2", "AffineSpace2f", e, 4, &t, 2);
  check_affine<LinearSpace2f>(R, c, a, t, P2, 4);
  for (int k = 0; k < 4; k++)
    check_affine_ops<LinearSpace2f>(R, c, a, t, P2[k]);
}
template <class L>
static void st_one(Rep &R, const ref::V &s)
{
  Case c = mkcase("st", Nm<L>::aff());
  for (int i = 0; i < Nm<L>::dim(); i++)
    c << s.v[i];
  check_scale_translate<L>(R, c, s);
}

// ---------------------------------------------------------------- sweeps
static bool sweep_lin3(const LD *vals, int nv, int npartners, const char *label)
{
  const long long total = ipow(nv, 9);
  bool done = par_blocks(total, 4096, false, [&](Rep &R, long long b, long long e_) {
    for (long long idx = b; idx < e_; idx++) {
      LD e[9];
      digits(idx, nv, vals, 9, e);
      Pre a;
      R.count("grid_points_3x3");
      int why = prepare(mat_from(3, e), a);
      if (why) {
        R.count(why == 1 ? "skipped_singular_3x3" : "skipped_condition_gt_64_3x3");
        continue;
      }
      R.count("kept_3x3");
      lin3_one<LinearSpace3f>(R, e, a, npartners);
      lin3_one<LinearSpace3fa>(R, e, a, npartners);
      lin3_one<LinearSpace3d>(R, e, a, npartners);
    }
  });
  if (!done)
    vr::capped(std::string("3x3 linear sweep over ") + label + " stopped by the deadline");
  return done;
}
static bool sweep_aff3(const LD *vals, int nv, int np, const char *label)
{
  const long long total = ipow(nv, 9);
  bool done = par_blocks(total, 512, false, [&](Rep &R, long long b, long long e_) {
    for (long long idx = b; idx < e_; idx++) {
      LD e[9];
      digits(idx, nv, vals, 9, e);
      Pre a;
      if (prepare(mat_from(3, e), a))
        continue;
      R.count("affine_linear_parts_3x3");
      for (int ti = 0; ti < NTRANS; ti++) {
        const ref::V t = trans64(ti);
        aff3_one<LinearSpace3f>(R, e, a, t, np);
        aff3_one<LinearSpace3fa>(R, e, a, t, np);
        if (ti % 8 == 0)
          aff3_one<LinearSpace3d>(R, e, a, t, np);
      }
    }
  });
  if (!done)
    vr::capped(std::string("3x3 affine sweep over ") + label + " stopped by the deadline");
  return done;
}
struct Kept2
{
  LD e[4];
  Pre pre;
};
static bool sweep_2d()
{
  std::vector<Kept2> kept;
  long long sing = 0, ill = 0;
  for (long long idx = 0; idx < ipow(7, 4); idx++) {
    Kept2 k;
    digits(idx, 7, VALS7, 4, k.e);
    int why = prepare(mat_from(2, k.e), k.pre);
    if (why == 1)
      sing++;
    else if (why == 2)
      ill++;
    else
      kept.push_back(k);
  }
  vr::stat("grid_points_2x2", ipow(7, 4));
  vr::stat("skipped_singular_2x2", sing);
  vr::stat("skipped_condition_gt_64_2x2", ill);
  vr::stat("kept_2x2", (long long)kept.size());
  const long long n = (long long)kept.size();
  bool done = par_blocks(n, 8, false, [&](Rep &R, long long b, long long e_) {
    for (long long i = b; i < e_; i++) {
      lin2_one(R, kept[i].e, kept[i].pre);
      for (long long j = 0; j < n; j++)
        lin2_pair(R, kept[i].e, kept[i].pre, kept[j].e, kept[j].pre);
      for (int ti = 0; ti < 16; ti++)
        aff2_one(R, kept[i].e, kept[i].pre, trans16(ti));
    }
  });
  if (!done)
    vr::capped("2x2 sweep stopped by the deadline");
  return done;
}
static void sweep_scale_translate()
{
  static const LD SV[4] = {-2, 0.5L, 1, 3};
  Rep R;
  check_constants<LinearSpace2f>(R);
  check_constants<LinearSpace3f>(R);
  check_constants<LinearSpace3fa>(R);
  for (int i = 0; i < 64; i++) {
    ref::V s = ref::vec(SV[i / 16], SV[(i / 4) % 4], SV[i % 4]);
    st_one<LinearSpace3f>(R, s);
    st_one<LinearSpace3fa>(R, s);
    if (i < 16)
      st_one<LinearSpace2f>(R, ref::vec(SV[i / 4], SV[i % 4], 0));
  }
  R.merge_into_global();
}
static bool sweep_rotations()
{
  bool done = par_blocks((long long)NAXES * NANG, 8, false, [&](Rep &R, long long b, long long e_) {
    for (long long i = b; i < e_; i++) {
      int ai = (int)(i / NANG), k = (int)(i % NANG) - KMAX;
      check_rotate3<LinearSpace3f>(R, ai, k);
      check_rotate3<LinearSpace3fa>(R, ai, k);
      check_quat<float>(R, ai, k);
      check_quat<double>(R, ai, k);
      if (ai == 0)
        check_rotate2(R, k);
    }
  });
  if (!done)
    vr::capped("axis/angle sweep stopped by the deadline");
  return done;
}
static bool sweep_qpairs()
{
  const long long n = (long long)NAXES * NANG;
  bool done = par_blocks(n * n, 2048, false, [&](Rep &R, long long b, long long e_) {
    for (long long i = b; i < e_; i++) {
      long long ia = i / n, ib = i % n;
      int ai = (int)(ia / NANG), ka = (int)(ia % NANG) - KMAX, bi = (int)(ib / NANG), kb = (int)(ib % NANG) - KMAX;
      check_qpair<float>(R, ai, ka, bi, kb);
      check_qpair<double>(R, ai, ka, bi, kb);
    }
  });
  if (!done)
    vr::capped("quaternion pair sweep stopped by the deadline");
  return done;
}
static bool sweep_ypr()
{
  const long long n = NANG;
  bool done = par_blocks(n * n * n, 512, false, [&](Rep &R, long long b, long long e_) {
    for (long long i = b; i < e_; i++) {
      int ky = (int)(i / (n * n)) - KMAX, kp = (int)((i / n) % n) - KMAX, kr = (int)(i % n) - KMAX;
      check_ypr<float>(R, ky, kp, kr);
      check_ypr<double>(R, ky, kp, kr);
    }
  });
  if (!done)
    vr::capped("yaw/pitch/roll sweep stopped by the deadline");
  return done;
}
static bool sweep_frames()
{
  bool ok = par_blocks((long long)NAXES * (NAXES + 1), 16, false, [&](Rep &R, long long b, long long e_) {
    for (long long i = b; i < e_; i++) {
      int ni = (int)(i / (NAXES + 1)), upi = (int)(i % (NAXES + 1)) - 1;
      check_frame<LinearSpace3f>(R, ni, upi);
      check_frame<LinearSpace3fa>(R, ni, upi);
    }
  });
  ok = par_blocks((long long)NTRANS * NTRANS * NAXES, 1024, false, [&](Rep &R, long long b, long long e_) {
    for (long long i = b; i < e_; i++) {
      int upi = (int)(i % NAXES), pi = (int)((i / NAXES) % NTRANS), ei = (int)(i / ((long long)NAXES * NTRANS));
      if (ei == pi)
        continue;
      check_lookat<LinearSpace3f>(R, ei, pi, upi);
      check_lookat<LinearSpace3fa>(R, ei, pi, upi);
    }
  }) && ok;
  if (!ok)
    vr::capped("frame/lookat sweep stopped by the deadline");
  return ok;
}

// ---------------------------------------------------------------- replay
static bool prep_or_say(const ref::M &A, Pre &a)
{
  int why = prepare(A, a);
  if (why)
    printf("input is outside the domain: %s\n", why == 1 ? "singular" : "condition number > 64");
  else
    printf("condition number (2-norm, long double) %.6Lg\n", a.kappa);
  return why == 0;
}
static void replay_one(const std::string &r)
{
  size_t c1 = r.find(':'), c2 = r.find(':', c1 + 1);
  if (c1 == std::string::npos || c2 == std::string::npos) {
    printf("malformed replay '%s' (want kind:type:v0,v1,...)\n", r.c_str());
    return;
  }
  const std::string kind = r.substr(0, c1), type = r.substr(c1 + 1, c2 - c1 - 1);
  std::vector<LD> v;
  {
    std::stringstream ss(r.substr(c2 + 1));
    std::string item;
    while (std::getline(ss, item, ','))
      v.push_back(strtold(item.c_str(), nullptr));
  }
  v.resize(24, 0);
  const bool fa = type.size() > 2 && type.compare(type.size() - 2, 2, "fa") == 0;
  const bool dbl = type == "quatd";
  const bool d3 = type == "LinearSpace3d" || type == "AffineSpace3d";
  Rep R;
  R.verbose = true;
  Pre a, b;
  auto iv = [&](int i) { return (int)v[i]; };
  if (kind == "lin3") {
    if (prep_or_say(mat_from(3, v.data()), a))
      d3 ? lin3_one<LinearSpace3d>(R, v.data(), a, 4) : fa ? lin3_one<LinearSpace3fa>(R, v.data(), a, 4) : lin3_one<LinearSpace3f>(R, v.data(), a, 4);
  } else if (kind == "aff3") {
    ref::V t = ref::vec(v[9], v[10], v[11]);
    if (prep_or_say(mat_from(3, v.data()), a))
      d3 ? aff3_one<LinearSpace3d>(R, v.data(), a, t, 4) : fa ? aff3_one<LinearSpace3fa>(R, v.data(), a, t, 4) : aff3_one<LinearSpace3f>(R, v.data(), a, t, 4);
  } else if (kind == "lin2") {
    if (prep_or_say(mat_from(2, v.data()), a))
      lin2_one(R, v.data(), a);
  } else if (kind == "lin2pair") {
    if (prep_or_say(mat_from(2, v.data()), a) && prep_or_say(mat_from(2, v.data() + 4), b))
      lin2_pair(R, v.data(), a, v.data() + 4, b);
  } else if (kind == "aff2") {
    if (prep_or_say(mat_from(2, v.data()), a))
      aff2_one(R, v.data(), a, ref::vec(v[4], v[5], 0));
  } else if (kind == "st") {
    if (type == "AffineSpace2f")
      st_one<LinearSpace2f>(R, ref::vec(v[0], v[1], 0));
    else
      fa ? st_one<LinearSpace3fa>(R, ref::vec(v[0], v[1], v[2])) : st_one<LinearSpace3f>(R, ref::vec(v[0], v[1], v[2]));
  } else if (kind == "rot3") {
    fa ? check_rotate3<LinearSpace3fa>(R, iv(0), iv(1)) : check_rotate3<LinearSpace3f>(R, iv(0), iv(1));
  } else if (kind == "rot2") {
    check_rotate2(R, iv(0));
  } else if (kind == "quat") {
    dbl ? check_quat<double>(R, iv(0), iv(1)) : check_quat<float>(R, iv(0), iv(1));
  } else if (kind == "qpair") {
    dbl ? check_qpair<double>(R, iv(0), iv(1), iv(2), iv(3)) : check_qpair<float>(R, iv(0), iv(1), iv(2), iv(3));
  } else if (kind == "ypr") {
    dbl ? check_ypr<double>(R, iv(0), iv(1), iv(2)) : check_ypr<float>(R, iv(0), iv(1), iv(2));
  } else if (kind == "frame") {
    fa ? check_frame<LinearSpace3fa>(R, iv(0), iv(1)) : check_frame<LinearSpace3f>(R, iv(0), iv(1));
  } else if (kind == "lookat") {
    fa ? check_lookat<LinearSpace3fa>(R, iv(0), iv(1), iv(2)) : check_lookat<LinearSpace3f>(R, iv(0), iv(1), iv(2));
  } else
    printf("unknown replay kind '%s'\n", kind.c_str());
  printf("%lld comparisons, %lld violated\n", R.comps, R.bad);
  R.merge_into_global();
}

int main(int argc, char **argv)
{
  vr::init(argc, argv);
  P2 = partners(2);
  P3 = partners(3);
  if (vr::replaying()) {
    replay_one(vr::S().replay);
    vr::flush();
    return vr::S().viols.empty() ? 0 : 1;
  }
  const bool th = vr::thorough();
  double t0 = vr::now_s();
  auto lap = [&](const char *what) {
    char b[128];
    snprintf(b, sizeof b, "%s: %.1f s", what, vr::now_s() - t0);
    vr::note(b);
    t0 = vr::now_s();
  };
  sweep_scale_translate();
  sweep_rotations();
  lap("axis/angle sweep");
  sweep_frames();
  lap("frame/lookat sweep");
  sweep_ypr();
  lap("yaw/pitch/roll sweep");
  sweep_qpairs();
  lap("quaternion pair sweep");
  sweep_2d();
  lap("2x2 sweep");
  if (th) {
    sweep_lin3(VALS7, 7, 2, "{-2,-1,-1/2,0,1/2,1,2}^9");
    lap("3x3 linear sweep");
    sweep_aff3(VALS5, 5, 2, "{-2,-1,0,1/2,1}^9 x {-2,0,1,3}^3");
    lap("3x3 affine sweep");
  } else {
    sweep_lin3(VALS4, 4, 4, "{-1,0,1/2,2}^9");
    lap("3x3 linear sweep");
    sweep_aff3(VALS4, 4, 2, "{-1,0,1/2,2}^9 x {-2,0,1,3}^3");
    lap("3x3 affine sweep");
  }
  vr::sample("lin3:LinearSpace3f:1,2,-0.5,0,1,2,-1,0.5,1  (M*inverse(M)=I, rcp, transposed, adjoint, rows, det(A*B), (A*B)x=A(Bx), xfmPoint/Vector/Normal against long double)");
  vr::sample("aff3:AffineSpace3fa:2,-1,0,0.5,1,-2,1,0,0.5,3,0,-2  (rcp(A)*A, A*rcp(A), composition with 2 partner maps in both orders, xfm*)");
  vr::sample("rot3:LinearSpace3fa:25,-17  (axis (1,1,1)/sqrt3, angle -17pi/12: fixes axis, turns perpendiculars right-handed, orthonormal, det +1; A::rotate(p,u,r) for 64 points p)");
  vr::sample("quat:quatd:13,8  (axis index 13, angle 8pi/12 = the trace-zero boundary of the matrix->quaternion constructor)");
  vr::sample("qpair:quatf:0,5,25,-24  (Hamilton product, composed rotation -> quaternion, slerp at t in {0,1/4,1/2,3/4,1})");
  vr::sample("ypr:quatf:3,-7,24  (Q(yaw,pitch,roll) against R_y R_x R_z)");
  vr::sample("frame:vec3fa:4,21 and lookat:AffineSpace3f:5,40,10  (axes, origin, orthonormality, orientation)");
  vr::sample("lin2pair:LinearSpace2f:1,2,-0.5,1,2,-1,0.5,1  (all ordered pairs of kept 2x2 matrices)");
  vr::note("observation (not alarmed, not a run-time behaviour): AffineSpaceT::rotate(const Vector &p, const QuaternionT &q) does not compile when instantiated - 'translate(+p) * L(q) * translate(-p)' has no AffineSpaceT*LinearSpace3 operator; rotate(p,u,r) and rotate(q) are covered instead");
  vr::note("observation (not alarmed, not run-time behaviours): these declared operators cannot be instantiated on this tree - AffineSpaceT/scalar, AffineSpaceT*=scalar, AffineSpaceT/=scalar (no AffineSpaceT*scalar operator for 'a * rcp(b)' / 'a * b'); LinearSpace2/3::operator Scalar*() (static_cast from Vector* to Scalar*); double*quatf and quatf*double (no QuaternionT<double>(QuaternionT<float>) constructor). Every other operator of the three headers is exercised.");
  vr::note("largest error relative to its tolerance: " + std::to_string(vr::S().stats["max_err_permille_of_tolerance"] / 10.0) + " % at " + global_worst());
  vr::stat("traces", vr::S().stats["states"]);
  return vr::finish();
}
