// Executes one Any history on fresh rkcommon::utility::Any objects next to the model.
#pragma once
#include "C09_anymodel.h"
#include "C09_tracked.h"
#include "C09_optrun.h"  // struct Result

#include "rkcommon/utility/Any.h"

namespace c09 {

typedef rkcommon::utility::Any Any;

static const int IVAL[] = {5, -6, 9};
static const char *SVAL[] = {"s", "a-heap-allocated-string-value-of-more-than-32-characters", "mutated-in-place-through-get<std::string>()-long-enough"};
static const long long TVAL[] = {101, 0, 303};

struct AnyRunner
{
  Any *h[3];
  AModel m;
  uint64_t digest;
  bool verbose;

  void mix(uint64_t v) { digest = vr::fnv(&v, sizeof v, digest); }
  static void *mem() { return malloc(sizeof(Any)); }

  void apply(const Op &o)
  {
    const int a = o.a, b = o.b;
    if (is(o, "ne"))
      h[a] = new (mem()) Any;
    else if (is(o, "ni"))
      h[a] = new (mem()) Any(IVAL[b]);
    else if (is(o, "ns"))
      h[a] = new (mem()) Any(std::string(SVAL[b]));
    else if (is(o, "nt"))
      h[a] = new (mem()) Any(Tracked((int)TVAL[0]));
    else if (is(o, "cp"))
      h[a] = new (mem()) Any(const_cast<const Any &>(*h[b]));
    else if (is(o, "aa"))
      *h[a] = const_cast<const Any &>(*h[b]);
    else if (is(o, "cr") || is(o, "ar")) {
      // the tag of the source BEFORE the model is advanced is what counts; apply() runs before the model update
      int *ri = nullptr;
      std::string *rs = nullptr;
      Tracked *rt = nullptr;
      switch (m.s[b].tag) {
      case TAG_INT: ri = &h[b]->get<int>(); break;
      case TAG_STR: rs = &h[b]->get<std::string>(); break;
      case TAG_TRK: rt = &h[b]->get<Tracked>(); break;
      }
      if (is(o, "cr"))
        h[a] = new (mem()) Any(const_cast<const Any &>(*h[b]));
      else
        *h[a] = const_cast<const Any &>(*h[b]);
      if (ri)
        *ri = IVAL[2];
      if (rs)
        *rs = SVAL[2];
      if (rt)
        *rt = Tracked((int)TVAL[2]);
    } else if (is(o, "ai"))
      *h[a] = IVAL[b];
    else if (is(o, "as"))
      *h[a] = std::string(SVAL[b]);
    else if (is(o, "at"))
      *h[a] = Tracked((int)TVAL[0]);
    else if (is(o, "mg")) {
      switch (m.s[a].tag) {
      case TAG_INT: h[a]->get<int>() = IVAL[2]; break;
      case TAG_STR: h[a]->get<std::string>() = SVAL[2]; break;
      case TAG_TRK: h[a]->get<Tracked>() = Tracked((int)TVAL[2]); break;
      }
    } else if (is(o, "de")) {
      h[a]->~Any();
      free(h[a]);
      h[a] = nullptr;
    } else if (is(o, "eq")) {
      const Any &x = *h[a], &y = *h[b];
      bool e = x == y, n = x != y;
      mix((e ? 1 : 0) | (n ? 2 : 0) | m.s[a].tag << 2 | m.s[b].tag << 4);
      if (verbose)
        printf("    == %d  != %d\n", e, n);
      // the statement demands no crash; for two engaged wrappers the result is also judged
      // (same stored type and equal values), an empty operand's result is only recorded
      if (m.s[a].tag && m.s[b].tag) {
        bool want = m.s[a].tag == m.s[b].tag && m.s[a].k == m.s[b].k;
        if (e != want || n == e)
          fail_set("comparison of two engaged wrappers differs from (same type and equal values)",
              std::string("== gave ") + (e ? "true" : "false") + ", != gave " + (n ? "true" : "false"));
      }
    } else if (is(o, "ts")) {
      const Any &x = *h[a];
      std::string s = x.toString();
      mix(s.size());
      if (verbose)
        printf("    toString -> '%s'\n", s.c_str());
    }
  }

  // get<T>() on slot i, const and non-const: right type -> the value, otherwise std::runtime_error
  template <typename T, typename EQ>
  void probe(int i, bool right, const char *tname, EQ equal)
  {
    for (int c = 0; c < 2; c++) {
      bool threw = false, other = false, same = false;
      try {
        if (c == 0)
          same = equal(const_cast<const Any &>(*h[i]).get<T>());
        else
          same = equal(h[i]->get<T>());
      } catch (const std::runtime_error &) {
        threw = true;
      } catch (...) {
        other = true;
      }
      mix(threw ? 1 : same ? 2 : 3);
      if (verbose && c == 0)
        printf(" get<%s>:%s", tname, threw ? "throws" : same ? "value ok" : "WRONG VALUE");
      if (other)
        fail_set("get<T>() throws something else than std::runtime_error", tname);
      else if (right && threw)
        fail_set("get<T>() throws for the exact stored type", tname);
      else if (right && !same)
        fail_set("get<T>() returns a value different from the value last stored", tname);
      else if (!right && !threw)
        fail_set(m.s[i].tag ? "get<T>() succeeds for a type that is not the stored type" : "get<T>() succeeds on an empty Any", tname);
    }
  }

  void check_all()
  {
    int tracked = 0;
    for (int i = 0; i < 3; i++) {
      const ASlot &s = m.s[i];
      if (!s.present) {
        mix(9);
        continue;
      }
      const Any &x = *h[i];
      bool v = x.valid();
      bool ii = x.is<int>(), is_ = x.is<std::string>(), it = x.is<Tracked>(), ic = x.is<char>();
      mix(v | ii << 1 | is_ << 2 | it << 3 | ic << 4 | s.k << 5);
      if (verbose)
        printf("    slot %d: valid=%d is<int>=%d is<string>=%d is<Tracked>=%d (model %s)", i, v, ii, is_, it,
            s.tag == 0 ? "empty" : s.tag == 1 ? "int" : s.tag == 2 ? "string" : "Tracked");
      if (v != (s.tag != TAG_NONE))
        fail_set(v ? "valid() is true although the last operation left the Any empty" : "valid() is false although the last operation stored a value",
            "slot " + std::to_string(i));
      else if (ii != (s.tag == TAG_INT) || is_ != (s.tag == TAG_STR) || it != (s.tag == TAG_TRK) || ic)
        fail_set("is<T>() does not identify exactly the stored type", "slot " + std::to_string(i));
      const int k = s.k;
      probe<int>(i, s.tag == TAG_INT, "int", [k](const int &g) { return g == IVAL[k]; });
      probe<std::string>(i, s.tag == TAG_STR, "string", [k](const std::string &g) { return g == SVAL[k]; });
      probe<Tracked>(i, s.tag == TAG_TRK, "Tracked", [k](const Tracked &g) { return g.read() == TVAL[k]; });
      probe<char>(i, false, "char", [](const char &) { return true; });
      if (verbose)
        printf("\n");
      if (s.tag == TAG_TRK)
        tracked++;
      if (fail().set)
        return;
    }
    if (reg().n != tracked)
      fail_set(reg().n > tracked ? "lifetime|more live payload objects than wrappers holding one (a payload was not destroyed)"
                                 : "lifetime|fewer live payload objects than wrappers holding one (copies share a payload)",
          std::to_string(reg().n) + " live, " + std::to_string(tracked) + " held");
  }

  Result run(const std::vector<Op> &hist, bool verb);
};

}  // namespace c09
