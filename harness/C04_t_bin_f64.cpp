// C04: instantiates the "bin" families for element type double (see C04_groups.h)
#include "C04_groups.h"
void c04_reg_bin_f64(c04::Reg &r)
{
  c04::reg_bin<double>(r);
}
