// Executes one history on fresh rkcommon::utility::Optional objects next to the model and
// compares every observable after every operation.
#pragma once
#include "C09_optmodel.h"
#include "C09_payloads.h"

#include "rkcommon/utility/Optional.h"

#include <new>
#include <sanitizer/asan_interface.h>

namespace c09 {

// layouts: 0 = the Optional alone in its heap block, 1 = struct{char; Optional}, 2 = the middle
// element of Optional<T> a[3]
template <typename T, int OFFSET>
struct Holder;
template <typename T>
struct Holder<T, 0>
{
  rkcommon::utility::Optional<T> o;
  Holder() {}  // user-provided: default-initialises o, the bytes stay as malloc left them
  template <typename A>
  explicit Holder(A &&a) : o(std::forward<A>(a))
  {
  }
};
template <typename T>
struct Holder<T, 1>
{
  char c;  // puts the Optional at the first offset its own alignment allows
  rkcommon::utility::Optional<T> o;
  Holder() {}
  template <typename A>
  explicit Holder(A &&a) : o(std::forward<A>(a))
  {
  }
};

template <typename T>
struct Holder<T, 2>
{
  typedef rkcommon::utility::Optional<T> Opt;
  Opt a[3];  // a[0] and a[2] stay empty; the slot is a[1], at offset sizeof(Optional<T>)
  Opt &o;
  Holder() : o(a[1]) {}
  template <typename A>
  explicit Holder(A &&x) : o(a[1])
  {
    a[1].~Opt();
    new (&a[1]) Opt(std::forward<A>(x));
  }
};

template <typename P, int OFFSET>
struct Exec
{
  typedef typename P::T T;
  typedef typename P::U U;
  typedef rkcommon::utility::Optional<T> Opt;
  typedef rkcommon::utility::Optional<U> OptU;
  typedef Holder<T, OFFSET> H;

  H *h[3];
  Model m;
  uint64_t digest;
  bool verbose;

  static std::string tag()
  {
    return std::string("Optional<") + P::name() + ">" + (OFFSET == 1 ? "@{char,Optional}" : OFFSET == 2 ? "@Optional[3]" : "");
  }

  // The holder goes to the least aligned address its own alignof permits: an odd multiple of
  // alignof(H) (block aligned to 2*alignof(H), object at +alignof(H)).  If alignof(Optional<T>)
  // is smaller than alignof(T) the payload is then misaligned and UBSan sees the placement-new.
  // ASan: redzone behind the block, the slack in front is poisoned, fresh bytes are 0xbe.
  static void *mem()
  {
    void *raw = nullptr;
    const size_t al = alignof(H) < sizeof(void *) ? sizeof(void *) : alignof(H);
    if (posix_memalign(&raw, 2 * al, sizeof(H) + al) != 0)
      abort();
    ASAN_POISON_MEMORY_REGION(raw, al);
    return (char *)raw + al;
  }
  static void unmem(void *p)
  {
    const size_t al = alignof(H) < sizeof(void *) ? sizeof(void *) : alignof(H);
    void *raw = (char *)p - al;
    ASAN_UNPOISON_MEMORY_REGION(raw, al);
    free(raw);
  }
  static void fillU(OptU &u, int s)
  {
    if (s)
      u.emplace(P::uval());
  }
  void mix(uint64_t v)
  {
    digest = vr::fnv(&v, sizeof v, digest);
  }

  // ------------------------------------------------------------ apply one operation
  void apply(const Op &o)
  {
    const int a = o.a, b = o.b;
    if (is(o, "dc"))
      h[a] = new (mem()) H;
    else if (is(o, "vc")) {
      const T v = P::val(b);
      h[a] = new (mem()) H(v);
    } else if (is(o, "cc"))
      h[a] = new (mem()) H(const_cast<const Opt &>(h[b]->o));
    else if (is(o, "mc"))
      h[a] = new (mem()) H(std::move(h[b]->o));
    else if (is(o, "xc")) {
      OptU u;
      fillU(u, b);
      h[a] = new (mem()) H(const_cast<const OptU &>(u));
    } else if (is(o, "xm")) {
      OptU u;
      fillU(u, b);
      h[a] = new (mem()) H(std::move(u));
    } else if (is(o, "de")) {
      h[a]->~H();
      unmem(h[a]);
      h[a] = nullptr;
    } else if (is(o, "av")) {
      if (b == 0) {
        const T v = P::val(b);
        h[a]->o = v;
      } else
        h[a]->o = P::val(b);
    } else if (is(o, "em")) {
      const T v = P::val(b);
      T &r = h[a]->o.emplace(v);
      if (&r != &h[a]->o.value())
        fail_set("emplace returns a reference to something else than the held value", "");
    } else if (is(o, "rs"))
      h[a]->o.reset();
    else if (is(o, "ca"))
      h[a]->o = const_cast<const Opt &>(h[b]->o);
    else if (is(o, "ma"))
      h[a]->o = std::move(h[b]->o);
    else if (is(o, "xa")) {
      OptU u;
      fillU(u, b);
      h[a]->o = const_cast<const OptU &>(u);
    } else if (is(o, "xv")) {
      OptU u;
      fillU(u, b);
      h[a]->o = std::move(u);
    } else if (is(o, "da")) {
      const T v = P::val(2);
      *h[a]->o = v;
    } else
      observe(o);
  }

  // ------------------------------------------------------------ observers
  void observe(const Op &o)
  {
    const int a = o.a, b = o.b;
    const MSlot &ma = m.s[a];
    if (is(o, "vo")) {
      const T d = P::val(2);
      const Opt &c = h[a]->o;
      T r = c.value_or(d);
      int want = ma.eng ? ma.k : 2;
      if (verbose)
        printf("    value_or -> %s, want %s\n", P::show(r).c_str(), want >= 0 ? P::show(P::val(want)).c_str() : "(unspecified)");
      if (want >= 0 && !P::same(r, want))
        fail_set(ma.eng ? "value_or on an engaged wrapper does not return the held value" : "value_or on an empty wrapper does not return the default",
            "got " + P::show(r));
      mix(want >= 0 ? P::same(r, want) : 2);
    } else if (is(o, "dr")) {
      Opt &n = h[a]->o;
      const Opt &c = n;
      bool ok = P::same(*c, ma.k) && P::same(*n, ma.k) && P::same(c.value(), ma.k) && P::same(n.value(), ma.k);
      bool same_obj = c.operator->() == &*c && n.operator->() == &*n && &c.value() == &*n;
      if (verbose)
        printf("    *o -> %s, want %s\n", P::show(*c).c_str(), P::show(P::val(ma.k)).c_str());
      if (!ok)
        fail_set("operator*/value() do not return the held value", "got " + P::show(*c));
      else if (!same_obj)
        fail_set("operator-> and operator* name different objects", "");
      mix(ok);
    } else if (is(o, "cm")) {
      const Opt &x = h[a]->o, &y = h[b]->o;
      bool r[6] = {x == y, x != y, x < y, x <= y, x > y, x >= y};
      judge_cmp(r, ma, m.s[b].eng, m.s[b].k, false);
    } else if (is(o, "cx")) {
      OptU u;
      fillU(u, b);
      const Opt &x = h[a]->o;
      const OptU &y = u;
      bool r[6] = {x == y, x != y, x < y, x <= y, x > y, x >= y};
      judge_cmp(r, ma, b == 1, 3, true);
    } else if (is(o, "ts")) {
      std::string s = h[a]->o.toString();
      if (verbose)
        printf("    toString -> '%s'\n", s.c_str());
      mix(s.size());
    }
  }

  // The statement only demands that comparisons never crash; what a comparison with an empty
  // operand returns is recorded, not judged.  Two engaged wrappers with known values compare
  // like their values (the wrapper "returns that value").
  void judge_cmp(const bool r[6], const MSlot &x, bool yeng, int yk, bool withU)
  {
    unsigned bits = 0;
    for (int i = 0; i < 6; i++)
      bits |= (r[i] ? 1u : 0u) << i;
    mix(bits | (x.eng ? 64 : 0) | (yeng ? 128 : 0));
    if (verbose)
      printf("    == %d  != %d  < %d  <= %d  > %d  >= %d\n", r[0], r[1], r[2], r[3], r[4], r[5]);
    if (!(x.eng && yeng) || x.k < 0 || yk < 0)
      return;
    const T vx = P::val(x.k), vy = P::val(yk);
    bool w[6] = {vx == vy, vx != vy, vx < vy, vx <= vy, vx > vy, vx >= vy};
    for (int i = 0; i < 6; i++)
      if (r[i] != w[i]) {
        static const char *nm[] = {"==", "!=", "<", "<=", ">", ">="};
        fail_set("comparison of two engaged wrappers differs from the comparison of their values",
            std::string("operator") + nm[i] + " gave " + (r[i] ? "true" : "false"));
        return;
      }
  }
};

}  // namespace c09
