// One history = fresh objects, replay, full comparison with the model after every operation,
// teardown, lifetime and heap balance.
#pragma once
#include "C09_optexec.h"

namespace c09 {

template <typename T>
struct LiveCount
{
  static int n() { return -1; }
};
template <>
struct LiveCount<Tracked>
{
  static int n() { return reg().n; }
};
template <int N>
struct LiveCount<TrackedA<N>>
{
  static int n() { return reg().n; }
};

struct Result
{
  bool failed = false;
  std::string sig, detail;
  uint64_t digest = 0;
  long ops = 0;
};

template <typename P, int OFFSET>
struct Runner : Exec<P, OFFSET>
{
  typedef Exec<P, OFFSET> E;
  typedef typename P::T T;
  typedef typename E::H H;
  using E::h;
  using E::m;

  void check_all()
  {
    int engaged = 0;
    for (int i = 0; i < 3; i++) {
      const MSlot &s = m.s[i];
      if (!s.present) {
        E::mix(7);
        continue;
      }
      const typename E::Opt &o = h[i]->o;
      bool hv = o.has_value(), bv = (bool)o;
      E::mix((hv ? 1 : 0) | (s.k + 1) << 1);
      if (E::verbose)
        printf("    slot %d: has_value=%d (model %d)", i, hv, s.eng);
      if (hv != bv)
        fail_set("operator bool disagrees with has_value()", "slot " + std::to_string(i));
      if (hv != s.eng) {
        if (E::verbose)
          printf("\n");
        fail_set(hv ? "has_value() is true although the last operation left the wrapper empty"
                    : "has_value() is false although the last operation gave the wrapper a value",
            "slot " + std::to_string(i));
        return;
      }
      if (s.eng) {
        engaged++;
        const T &v = o.value();
        if ((uintptr_t)&v % alignof(T) != 0)
          fail_set("alignment|address of the engaged payload is not a multiple of alignof(T)",
              "slot " + std::to_string(i) + ": &*o = " + addr(&v) + ", alignof(T) = " + std::to_string(alignof(T)));
        bool ok = P::same(v, s.k >= 0 ? s.k : 0);  // also touches a moved-from value
        if (E::verbose)
          printf(" value=%s (model %s)", P::show(v).c_str(), s.k >= 0 ? P::show(P::val(s.k)).c_str() : "unspecified, moved-from");
        if (s.k >= 0 && !ok)
          fail_set("held value differs from the value the wrapper was last given",
              "slot " + std::to_string(i) + " holds " + P::show(v) + " want " + P::show(P::val(s.k)));
      }
      if (E::verbose)
        printf("\n");
    }
    int live = LiveCount<T>::n();
    if (live >= 0 && live != engaged)
      fail_set(live > engaged ? "lifetime|more live payload objects than engaged wrappers (a payload was not destroyed)"
                              : "lifetime|fewer live payload objects than engaged wrappers",
          std::to_string(live) + " live, " + std::to_string(engaged) + " engaged");
  }

  Result run(const std::vector<Op> &hist, bool verbose)
  {
    Result r;
    char cls[160] = "";
    E::verbose = verbose;
    E::digest = 1469598103934665603ull;
    fail_reset();
    reg().clear();
    m = Model();
    h[0] = h[1] = h[2] = nullptr;
    const size_t heap0 = heap_now();
    for (size_t n = 0; n < hist.size(); n++) {
      const Op &o = hist[n];
      snprintf(cls, sizeof cls, "%s", op_class(m, o).c_str());
      if (verbose)
        printf("  %-8s %s\n", op_text(o).c_str(), cls);
      try {
        E::apply(o);
      } catch (...) {
        fail_set("unexpected exception", "");
      }
      r.ops++;
      model_apply(m, o);
      // The complete comparison runs after the history's last operation: every proper prefix is
      // itself an enumerated history and was compared completely at its own end (a history that
      // failed is never extended), and replay on fresh objects is deterministic.
      if (!fail().set && (n + 1 == hist.size() || verbose))
        check_all();
      if (fail().set)
        break;
    }
    if (!fail().set) {
      for (int i = 0; i < 3; i++)
        if (h[i]) {
          h[i]->~H();
          E::unmem(h[i]);
          h[i] = nullptr;
        }
      if (LiveCount<T>::n() > 0)
        fail_set("lifetime|payload objects still alive after every wrapper was destroyed", std::to_string(reg().n) + " alive");
      else if (LiveCount<T>::n() == 0 && reg().constructed != reg().destroyed)
        fail_set("lifetime|constructions and destructions do not balance", "");
      else if (heap_now() != heap0)
        fail_set("heap|bytes still allocated after every wrapper was destroyed",
            std::to_string((long long)heap_now() - (long long)heap0) + " bytes");
      if (fail().set)
        snprintf(cls, sizeof cls, "%s", ("teardown after " + std::string(cls)).c_str());
    }
    // a failed history's objects are abandoned, not destroyed (one defect, one signature)
    r.digest = E::digest;
    if (fail().set) {
      r.failed = true;
      r.sig = E::tag() + "|" + cls + "|" + fail().what;
      r.detail = fail().detail;
    }
    return r;
  }
};

}  // namespace c09
