// C09 (Optional part): every operation history of bounded depth over three Optional<T> slots,
// for five payload configurations, against a {engaged, value} model under ASan+UBSan; plus the
// getEnvVar<T>() front end (returns an Optional through the move constructor).
// Engine seqmc.  Replay syntax:  <payload>:<op>;<op>;...   |  align:<payload>  |  env:<type>:<case>
#include "C09_optmodel.h"
#include "C09_tracked.h"
#include "C09_optexplore_decl.h"

#include "rkcommon/utility/getEnvVar.h"

using namespace c09;

// ------------------------------------------------------------------ getEnvVar
static const char *ENVNAME = "C09_VERIF_ENV_VAR";
static const char *ENV_INT[] = {nullptr, "42", "-7", "", "abc"};
static const char *ENV_FLT[] = {nullptr, "1.5", "-0.25", "1e3"};
static const char *ENV_STR[] = {nullptr, "", "a", "a-value-that-is-longer-than-the-small-string-buffer-of-libstdc++"};

template <typename T>
static int env_judge(const char *type, int k, const char *setting, const rkcommon::utility::Optional<T> &got, const T &want,
    const std::string &gotText, const std::string &wantText)
{
  std::string replay = std::string("env:") + type + ":" + std::to_string(k);
  std::string cls = std::string("getEnvVar<") + type + ">(" + (setting ? "variable set" : "variable not set") + ")";
  vr::stat("states");
  vr::stat("traces");
  vr::stat("transitions");
  vr::outcome(cls + (got.has_value() ? gotText : "-"));
  if (vr::replaying())
    printf("%s '%s': has_value=%d value=%s want has_value=%d value=%s\n", cls.c_str(), setting ? setting : "(unset)",
        got.has_value(), got.has_value() ? gotText.c_str() : "-", setting != nullptr, setting ? wantText.c_str() : "-");
  if (got.has_value() != (setting != nullptr)) {
    report(cls + "|has_value() wrong", replay, got.has_value() ? "reports a value for an unset variable" : "reports no value for a set variable");
    return 1;
  }
  if (setting && !(got.value() == want)) {
    report(cls + "|value differs from the variable's content", replay, "got " + gotText + " want " + wantText);
    return 1;
  }
  return 0;
}

static int env_case(const std::string &type, int k)
{
  using namespace rkcommon::utility;
  const char *s = type == "int" ? ENV_INT[k] : type == "float" ? ENV_FLT[k] : ENV_STR[k];
  if (s)
    setenv(ENVNAME, s, 1);
  else
    unsetenv(ENVNAME);
  if (type == "int") {
    Optional<int> o = getEnvVar<int>(ENVNAME);
    int want = s ? (int)strtol(s, nullptr, 10) : 0;
    return env_judge<int>("int", k, s, o, want, o.has_value() ? std::to_string(*o) : "", std::to_string(want));
  } else if (type == "float") {
    Optional<float> o = getEnvVar<float>(ENVNAME);
    float want = s ? (float)strtod(s, nullptr) : 0.f;
    return env_judge<float>("float", k, s, o, want, o.has_value() ? std::to_string(*o) : "", std::to_string(want));
  } else {
    Optional<std::string> o = getEnvVar<std::string>(ENVNAME);
    std::string want = s ? s : "";
    return env_judge<std::string>("string", k, s, o, want, o.has_value() ? "'" + *o + "'" : "", "'" + want + "'");
  }
}

static void env_all()
{
  struct C { const char *t; int k; };
  std::vector<C> cases;
  for (int k = 0; k < 5; k++)
    cases.push_back({"int", k});
  for (int k = 0; k < 4; k++)
    cases.push_back({"float", k});
  for (int k = 0; k < 4; k++)
    cases.push_back({"string", k});
  vr::run_sharded(1, [&](int shard, long long resume_after) {
    partial_enter(1000000, resume_after);
    for (size_t i = 0; i < cases.size(); i++) {
      if ((long long)i <= resume_after)
        continue;
      const char *s = std::string(cases[i].t) == "int" ? ENV_INT[cases[i].k] : std::string(cases[i].t) == "float" ? ENV_FLT[cases[i].k] : ENV_STR[cases[i].k];
      vr::begin_case((long long)i, std::string("getEnvVar<") + cases[i].t + ">(" + (s ? "variable set" : "variable not set") + ")",
          std::string("env:") + cases[i].t + ":" + std::to_string(cases[i].k));
      env_case(cases[i].t, cases[i].k);
    }
  });
}

// ------------------------------------------------------------------ multi-argument construction forms
// emplace(args...) and make_optional<T>(args...) (the variadic constructor is compiled out in the library) must build the payload T(args...): payloads
// with an initializer_list constructor tell T(args...) from T{args...}
static const int NFORM = 12;
static int form_case(int k)
{
  using rkcommon::utility::Optional;
  using rkcommon::utility::make_optional;
  typedef std::vector<int> VI;
  std::string what, got, want;
  auto show = [](const VI &v) {
    std::string s = "{";
    for (size_t i = 0; i < v.size(); i++)
      s += (i ? "," : "") + std::to_string(v[i]);
    return s + "}";
  };
  switch (k) {
  case 0: { what = "make_optional<vector<int>>(3, 7)"; auto o = make_optional<VI>(3, 7); got = o.has_value() ? show(*o) : "empty"; want = show(VI(3, 7)); break; }
  case 1: { what = "make_optional<vector<int>>(4)"; auto o = make_optional<VI>(4); got = o.has_value() ? show(*o) : "empty"; want = show(VI(4)); break; }
  // (make_optional<string>(3, 'x') is left out on purpose: under T{args...} it would not compile (narrowing), and a
  // harness that stops compiling reports nothing)
  case 2: { what = "make_optional<vector<int>>(2, 0)"; auto o = make_optional<VI>(2, 0); got = o.has_value() ? show(*o) : "empty"; want = show(VI(2, 0)); break; }
  case 3: { what = "Optional<vector<int>>::emplace(3, 7)"; Optional<VI> o; o.emplace(3, 7); got = o.has_value() ? show(*o) : "empty"; want = show(VI(3, 7)); break; }
  case 4: { what = "Optional<vector<int>>::emplace(4) on an engaged wrapper"; Optional<VI> o(VI{1, 2}); o.emplace(4); got = o.has_value() ? show(*o) : "empty"; want = show(VI(4)); break; }
  case 5: { what = "Optional<string>::emplace(3, 'x')"; Optional<std::string> o; o.emplace(3, 'x'); got = o.has_value() ? *o : "empty"; want = std::string(3, 'x'); break; }
  case 6: { what = "Optional<vector<int>>(vector<int>(3, 7))"; Optional<VI> o(VI(3, 7)); got = o.has_value() ? show(*o) : "empty"; want = show(VI(3, 7)); break; }
  case 7: { what = "make_optional<int>(5)"; auto o = make_optional<int>(5); got = o.has_value() ? std::to_string(*o) : "empty"; want = "5"; break; }
  case 9: { what = "Optional<long long>(2^53+1).value_or(0.0)"; Optional<long long> o(9007199254740993LL); long long r = o.value_or(0.0); got = std::to_string(r); want = "9007199254740993"; break; }
  case 10: { what = "Optional<int>(2^24+1).value_or(0.5f)"; Optional<int> o(16777217); int r = o.value_or(0.5f); got = std::to_string(r); want = "16777217"; break; }
  case 11: { what = "empty Optional<int>.value_or(7.9)"; Optional<int> o; int r = o.value_or(7.9); got = std::to_string(r); want = "7"; break; }
  default: { what = "make_optional<string>(\"abc\")"; auto o = make_optional<std::string>("abc"); got = o.has_value() ? *o : "empty"; want = "abc"; break; }
  }
  vr::stat("states");
  vr::stat("traces");
  vr::stat("transitions");
  vr::outcome("form:" + what + ":" + got);
  if (vr::replaying())
    printf("%s holds %s want %s\n", what.c_str(), got.c_str(), want.c_str());
  if (got != want) {
    report(std::string(k >= 9 && k <= 11 ? "Optional|value_or with a default of another arithmetic type|" : "Optional|multi-argument construction does not build T(args...)|") + what.substr(0, what.find('(')), "form:" + std::to_string(k), what + " holds " + got + " want " + want);
    return 1;
  }
  return 0;
}
static void form_all()
{
  vr::run_sharded(1, [&](int, long long resume_after) {
    partial_enter(2000000, resume_after);
    for (int k = 0; k < NFORM; k++) {
      if (k <= resume_after)
        continue;
      vr::begin_case(k, "Optional|multi-argument construction", "form:" + std::to_string(k));
      form_case(k);
    }
  });
}

// ------------------------------------------------------------------ driver
int main(int argc, char **argv)
{
  vr::init(argc, argv);
  int depth = vr::thorough() ? 5 : 4;
  std::string only;
  for (int i = 1; i < argc; i++) {
    if (!strcmp(argv[i], "--depth") && i + 1 < argc)
      depth = atoi(argv[++i]);
    else if (!strcmp(argv[i], "--payload") && i + 1 < argc)
      only = argv[++i];
  }
  std::vector<PayloadEntry> ps = {entry_int(), entry_string(), entry_tracked(), entry_doubleoff(), entry_trackedoff(),
      entry_a32(), entry_a64(), entry_a32off(), entry_a64off(), entry_a32arr(), entry_a64arr()};

  if (vr::replaying()) {
    reexec_symbolized(argv);
    const std::string r = vr::S().replay;
    int rc = 2;
    if (r.compare(0, 5, "form:") == 0) {
      rc = form_case(atoi(r.c_str() + 5));
    } else if (r.compare(0, 4, "env:") == 0) {
      size_t c = r.find(':', 4);
      rc = env_case(r.substr(4, c - 4), atoi(r.c_str() + c + 1));
    } else if (r.compare(0, 6, "align:") == 0) {
      for (auto &p : ps)
        if (r.substr(6) == std::string(p.name).substr(0, std::string(p.name).find('@')))
          p.statics(), rc = vr::S().viols.empty() ? 0 : 1;
    } else {
      std::string payload;
      std::vector<Op> h;
      if (!parse_hist(r, payload, h)) {
        printf("cannot parse replay '%s'\n", r.c_str());
        return 2;
      }
      for (auto &p : ps)
        if (payload == p.name)
          rc = p.replay(h);
      if (rc == 2)
        printf("unknown payload or inapplicable history '%s'\n", r.c_str());
    }
    vr::flush();
    fflush(stdout);
    _exit(rc);  // a violating history abandons its objects: no leak report wanted here
  }

  partial_setup();
  for (auto &p : ps) {
    if (!only.empty() && only != p.name)
      continue;
    double t0 = vr::now_s();
    long long before = vr::S().stats["states"];
    if (std::string(p.name).find('@') == std::string::npos || std::string(p.name) == "double@off")
      p.statics();
    p.explore(depth, depth >= 5 ? 3 : 2);
    partial_merge();
    vr::note(std::string("payload ") + p.name + ": depth <= " + std::to_string(depth) + " requested, " + std::to_string(vr::S().stats["states"] - before) +
        " histories, " + std::to_string((int)(vr::now_s() - t0)) + " s");
  }
  if (only.empty()) {
    env_all();
    form_all();
  }
  partial_merge();
  partial_cleanup();
  return vr::finish();
}
