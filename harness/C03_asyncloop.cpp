// C03: AsyncLoop honours its start/stop/destroy protocol on every interleaving.
// Engine mcsched: every schedule of {controller thread, loop thread (+ pool worker)} up to a
// deviation bound, for every controller script over {start, stop} of length <= 3 (thorough 4)
// followed by destruction, for THREAD launch and TASK launch.  Script letters: S = start() and wait
// until the body has run again (lost wake-up oracle), s = start() and carry on at once, P = stop().
#include "mcsched/mcsched.h"

#include "rkcommon/tasking/AsyncLoop.h"
#include "rkcommon/tasking/schedule.h"

#include <semaphore.h>
#include <atomic>
#include <cstring>
#include <string>
#include <vector>

using namespace rkcommon::tasking;

struct Mon
{
  std::atomic<int> allowed{0};   // 1 from just before start() until just after stop()/destroy returned
  std::atomic<int> inbody{0};
  std::atomic<int> iterations{0};
  sem_t progress;
};

static void run_script(const char *script, AsyncLoop::LaunchMethod method)
{
  // monitor state is leaked on purpose: a TASK-launched loop may legitimately outlive the
  // AsyncLoop object (it holds the shared state alive) and still touch the monitor
  Mon *m = new Mon();
  sem_init(&m->progress, 0, 0);
  {
    AsyncLoop loop(
        [m]() {
          MC_CHECK(m->allowed.load() == 1, "body began while the loop was stopped",
              "a body invocation began after stop() (or the destructor) had returned and before the next start()");
          m->inbody.store(1);
          m->iterations.fetch_add(1);
          MC_CHECK(m->allowed.load() == 1, "body running after stop() returned",
              "stop() (or the destructor) returned while a body invocation was still executing");
          m->inbody.store(0);
          sem_post(&m->progress);
          mc_yield();
        },
        method);
    bool running = false;
    // the canonical schedule lets the freshly launched loop thread run until it parks in its
    // wait (the state in which real callers normally find it); starting the script against a
    // loop thread that has not parked yet costs one deviation
    mc_yield();
    for (const char *c = script; *c; c++) {
      if (*c == 's') {
        // start() without waiting for the body: the next call follows immediately
        m->allowed.store(1);
        loop.start();
        running = true;
        mc_event("start-nowait");
      } else if (*c == 'S') {
        while (sem_trywait(&m->progress) == 0) {
        }
        m->allowed.store(1);
        loop.start();
        running = true;
        mc_event("start");
        // no lost wake-up: the body must run again; if it never does the controller blocks
        // here for ever and the execution ends in "no enabled thread"
        sem_wait(&m->progress);
        mc_event("ran");
      } else {
        loop.stop();
        MC_CHECK(m->inbody.load() == 0, "stop() returned inside the body", "stop() returned while the body was between entry and exit");
        m->allowed.store(0);
        running = false;
        mc_event("stop");
      }
    }
    (void)running;
  }  // ~AsyncLoop
  if (method == AsyncLoop::THREAD) {
    MC_CHECK(m->inbody.load() == 0, "destructor returned inside the body", "the destructor joined but a body invocation is still executing");
    m->allowed.store(0);
  }
  mc_event("destroyed");
#ifdef RKCOMMON_TASKING_INTERNAL
  if (method == AsyncLoop::TASK) {
    // "destroy always terminates" for a TASK-launched loop means its task ends and gives the (single) worker back:
    // a task scheduled now must run; if the dead loop still occupies the worker the controller blocks here for ever
    sem_t *probe = new sem_t;
    sem_init(probe, 0, 0);
    rkcommon::tasking::schedule([probe]() { sem_post(probe); });
    sem_wait(probe);
    mc_event("worker-free");
  }
#endif
  // give a wrongly surviving loop the chance to show itself
  for (int i = 0; i < 3; i++)
    mc_yield();
  mc_eventf("iters" + std::to_string(m->iterations.load() > 3 ? 3 : m->iterations.load()));
}

static void scenario_entry()
{
  // name: <launch>_<script>, e.g. thread_SPS
  const char *n = mc_scenario_name();
  const char *us = strchr(n, '_');
  bool task = strncmp(n, "task", 4) == 0;
  if (task) {
#ifdef RKCOMMON_TASKING_INTERNAL
    initTaskingSystem(2);
#endif
  }
  run_script(us + 1, task ? AsyncLoop::TASK : AsyncLoop::THREAD);
}

struct Reg
{
  Reg()
  {
    std::vector<std::string> scripts;
    scripts.push_back("");
    for (size_t i = 0; i < scripts.size(); i++)
      if (scripts[i].size() < 4) {
        scripts.push_back(scripts[i] + "S");
        scripts.push_back(scripts[i] + "s");
        scripts.push_back(scripts[i] + "P");
      }
    for (auto &s : scripts) {
      bool lng = s.size() == 4;
      for (int task = 0; task < 2; task++) {
        std::string name = std::string(task ? "task_" : "thread_") + s;
        // quick: scripts up to 3 at bound 2; thorough: short scripts bound 4, length-4 scripts bound 3
        int bq = lng ? -1 : (s.size() <= 2 ? 4 : 3);
        int bt = lng ? 4 : (s.size() <= 2 ? 6 : 5);
        if (task) {  // three threads (controller, worker, loop): one level less
          bq = lng ? -1 : 3;
          bt = lng ? 3 : (s.size() <= 2 ? 5 : 4);
        }
        new McRegister(strdup(name.c_str()), scenario_entry, bq, bt, 6000);
      }
    }
  }
};
static Reg reg;
