// C18: string / URL / path / argument helpers satisfy their decomposition laws.
// Engine gridmc: every element of a finite declared input set, independent naive oracle.
#include "common/vreport.h"

#include "rkcommon/common.h"
#include "rkcommon/os/FileName.h"
#include "rkcommon/utility/ArgumentList.h"
#include "rkcommon/utility/PseudoURL.h"
#include "rkcommon/utility/StringManip.h"

#include <cmath>
#include <functional>

using namespace rkcommon;
using namespace rkcommon::utility;
typedef std::vector<std::string> SV;

static std::string join(const SV &v)
{
  std::string o = "[";
  for (size_t i = 0; i < v.size(); i++)
    o += (i ? "|" : "") + v[i];
  return o + "]";
}

// all strings of length <= L over alphabet
static void all_strings(const std::string &alpha, int L, const std::function<void(const std::string &)> &f)
{
  std::string s;
  std::function<void()> rec = [&]() {
    f(s);
    if ((int)s.size() == L)
      return;
    for (char c : alpha) {
      s.push_back(c);
      rec();
      s.pop_back();
    }
  };
  rec();
}

// maximal delimiter-free runs, with their start positions
static void runs_of(const std::string &s, const std::string &delims, SV &runs, std::vector<size_t> &starts)
{
  size_t i = 0;
  while (i < s.size()) {
    if (delims.find(s[i]) != std::string::npos) {
      i++;
      continue;
    }
    size_t b = i;
    while (i < s.size() && delims.find(s[i]) == std::string::npos)
      i++;
    runs.push_back(s.substr(b, i - b));
    starts.push_back(b);
  }
}

static void viol(const std::string &sig, const std::string &replay, const std::string &detail)
{
  vr::violation(sig, replay, detail);
  if (vr::replaying())
    printf("VIOLATED %s :: %s\n", sig.c_str(), detail.c_str());
}

// ------------------------------------------------------------------ split / tokenize
static void check_split_char(const std::string &s)
{
  SV t = split(s, ',');
  SV runs;
  std::vector<size_t> st;
  runs_of(s, ",", runs, st);
  SV nonempty;
  std::string cat, want;
  for (auto &x : t) {
    cat += x;
    if (!x.empty())
      nonempty.push_back(x);
  }
  for (char c : s)
    if (c != ',')
      want += c;
  vr::stat("states");
  vr::stat("transitions", 2);
  vr::outcome("split1:" + join(t));
  if (nonempty != runs || cat != want)
    viol("split(char)|tokens differ from the delimiter-free runs", "split1:" + s, "input '" + s + "' got " + join(t) + " want runs " + join(runs));
  if (vr::replaying())
    printf("split('%s', ',') = %s ; runs %s\n", s.c_str(), join(t).c_str(), join(runs).c_str());
}

static void check_split_set(const std::string &s)
{
  SV runs;
  std::vector<size_t> st;
  runs_of(s, ",;", runs, st);
  SV t = split(s, std::string(",;"), false);
  vr::stat("states");
  vr::stat("transitions", 2);
  vr::outcome("split2:" + join(t));
  if (t != runs)
    viol("split(set)|tokens differ from the delimiter-free runs", "split2:" + s, "input '" + s + "' got " + join(t) + " want " + join(runs));
  SV k = split(s, std::string(",;"), true);
  SV wantk;
  for (size_t i = 0; i < runs.size(); i++)
    wantk.push_back(st[i] == 0 ? runs[i] : s.substr(st[i] - 1, runs[i].size() + 1));
  vr::outcome("split2k:" + join(k));
  if (k != wantk)
    viol("split(set,keepDelim)|tokens differ from delimiter+run", "split2:" + s, "input '" + s + "' got " + join(k) + " want " + join(wantk));
  if (vr::replaying())
    printf("split('%s', ',;') = %s keepDelim %s ; want %s / %s\n", s.c_str(), join(t).c_str(), join(k).c_str(), join(runs).c_str(), join(wantk).c_str());
}

static void check_tokenize(const std::string &s)
{
  SV runs;
  std::vector<size_t> st;
  runs_of(s, ":", runs, st);
  SV t;
  tokenize(s, ':', t);
  vr::stat("states");
  vr::stat("transitions");
  vr::outcome("tok:" + join(t));
  if (t != runs) {
    // classify: are exactly the 1-character runs missing?
    SV longer;
    for (auto &r : runs)
      if (r.size() > 1)
        longer.push_back(r);
    std::string sig = (t == longer) ? "tokenize|drops tokens of length 1" : "tokenize|tokens differ from the delimiter-free runs";
    viol(sig, "tok:" + s, "input '" + s + "' got " + join(t) + " want " + join(runs));
  }
  if (vr::replaying())
    printf("tokenize('%s', ':') = %s ; want %s\n", s.c_str(), join(t).c_str(), join(runs).c_str());
}

// ------------------------------------------------------------------ prefix functions
static void check_prefix(const std::string &a, const std::string &b)
{
  size_t n = 0;
  while (n < a.size() && n < b.size() && a[n] == b[n])
    n++;
  std::string want = a.substr(0, n);
  std::string got = longestBeginningMatch(a, b);
  bool bw = beginsWith(a, b);
  bool wantbw = b.size() <= a.size() && a.compare(0, b.size(), b) == 0;
  vr::stat("states");
  vr::stat("transitions", 2);
  vr::outcome("lbm:" + got + (bw ? "+" : "-"));
  if (got != want)
    viol("longestBeginningMatch|not the longest common prefix", "prefix:" + a + "|" + b, "got '" + got + "' want '" + want + "'");
  if (bw != wantbw)
    viol("beginsWith|not the prefix relation", "prefix:" + a + "|" + b, std::string("got ") + (bw ? "true" : "false"));
  if (vr::replaying())
    printf("lbm('%s','%s')='%s' want '%s'; beginsWith=%d want %d\n", a.c_str(), b.c_str(), got.c_str(), want.c_str(), bw, wantbw);
}

// ------------------------------------------------------------------ PseudoURL
// spec: T<type-index>F<file-index>P<name><value-index>...   e.g. "T1F0Pa2Pb0"
static const char *TYPES[] = {"", "t", "ty", "#none"};  // #none: no "://" at all
static const char *FILES[] = {"f", "ff", "f.x", "d/f"};
static const char *NAMES[] = {"a", "b", "cc"};
static const char *VALUES[] = {"#absent", "", "1", "22", "x=y", "="};  // a value may contain '=': the first one separates

static void check_url(int ti, int fi, const std::vector<std::pair<int, int>> &ps)
{
  std::string url, spec = "url:" + std::to_string(ti) + "," + std::to_string(fi);
  if (ti != 3)
    url = std::string(TYPES[ti]) + "://";
  url += FILES[fi];
  for (auto &p : ps) {
    url += std::string(":") + NAMES[p.first];
    if (p.second != 0)
      url += std::string("=") + VALUES[p.second];
    spec += "," + std::to_string(p.first) + "," + std::to_string(p.second);
  }
  vr::stat("states");
  PseudoURL u(url);
  std::string obs = u.getType() + "|" + u.getFileName();
  std::string wantType = ti == 3 ? "" : TYPES[ti];
  bool bad = false;
  std::string detail;
  if (u.getType() != wantType) {
    bad = true;
    detail += " type='" + u.getType() + "'";
  }
  if (u.getFileName() != FILES[fi]) {
    bad = true;
    detail += " fileName='" + u.getFileName() + "' want '" + FILES[fi] + "'";
  }
  for (int n = 0; n < 3; n++) {
    int last = -1;
    for (auto &p : ps)
      if (p.first == n)
        last = p.second;
    vr::stat("transitions", 2);
    bool has = u.hasParam(NAMES[n]);
    obs += has ? "+" : "-";
    if (has != (last >= 0)) {
      bad = true;
      detail += std::string(" hasParam(") + NAMES[n] + ")=" + (has ? "true" : "false");
    }
    std::string got;
    bool threw = false;
    try {
      got = u.getValue(NAMES[n]);
    } catch (const std::runtime_error &) {
      threw = true;
    }
    obs += threw ? "!" : got;
    if (last < 0) {
      if (!threw) {
        bad = true;
        detail += std::string(" getValue(") + NAMES[n] + ") did not throw";
      }
    } else {
      std::string want = last == 0 ? "" : VALUES[last];
      if (threw || got != want) {
        bad = true;
        detail += std::string(" getValue(") + NAMES[n] + ")=" + (threw ? "<throws>" : "'" + got + "'") + " want '" + want + "'";
      }
    }
  }
  vr::outcome(obs);
  vr::sample("PseudoURL(\"" + url + "\") -> " + obs, "url" + std::to_string(ps.size()));
  if (bad) {
    // class: does the url contain a one-character component?
    SV runs;
    std::vector<size_t> st;
    std::string rest = ti == 3 ? url : url.substr(url.find("://") + 3);
    runs_of(rest, ":", runs, st);
    bool one = false;
    for (auto &r : runs)
      one = one || r.size() == 1;
    viol(one ? "PseudoURL|component of length 1 lost" : "PseudoURL|parts differ", spec, "url '" + url + "':" + detail);
  }
  if (vr::replaying())
    printf("PseudoURL('%s') -> %s %s\n", url.c_str(), obs.c_str(), bad ? detail.c_str() : "ok");
}

// ------------------------------------------------------------------ FileName
static std::string norm(std::string s)
{
  for (auto &c : s)
    if (c == '\\')
      c = '/';
  while (!s.empty() && s.back() == '/')
    s.pop_back();
  return s;
}

static void check_filename(const std::string &in)
{
  FileName f(in);
  std::string s = norm(in);
  size_t sl = s.rfind('/');
  std::string path = sl == std::string::npos ? "" : s.substr(0, sl + 1);
  std::string comp = sl == std::string::npos ? s : s.substr(sl + 1);
  size_t dot = comp.rfind('.');
  bool hasdot = dot != std::string::npos;
  std::string name = hasdot ? comp.substr(0, dot) : comp;
  std::string ext = hasdot ? comp.substr(dot + 1) : "";
  bool dirdot = path.find('.') != std::string::npos && !hasdot;
  vr::stat("states");
  std::string obs = f.path() + "|" + f.base() + "|" + f.name() + "|" + f.ext() + "|" + f.dropExt().str();
  vr::outcome(obs);
  auto bad = [&](const std::string &fn, const std::string &got, const std::string &want) {
    vr::stat("transitions");
    if (got != want)
      viol("FileName." + fn + (dirdot ? "|dot only in a directory component" : "|differs from the naive definition"), "file:" + in,
          "FileName('" + in + "')." + fn + " = '" + got + "' want '" + want + "'");
    if (vr::replaying())
      printf("FileName('%s').%s = '%s' want '%s'\n", in.c_str(), fn.c_str(), got.c_str(), want.c_str());
  };
  bad("str", f.str(), s);
  bad("path+base", f.path() + f.base(), s);
  bad("path", f.path(), path);
  bad("base", f.base(), comp);
  bad("name", f.name(), name);
  bad("ext", f.ext(), ext);
  bad("base=name.ext", hasdot ? f.name() + "." + f.ext() : f.name(), f.base());
  if (f.ext().find('/') != std::string::npos)
    bad("ext-has-separator", f.ext(), ext);
  bad("dropExt", f.dropExt().str(), norm(path + name));
  bad("setExt(.b)", f.setExt(".b").str(), norm(path + name + ".b"));
  bad("setExt()", f.setExt("").str(), norm(path + name));
  bad("addExt(.b)", f.addExt(".b").str(), norm(s + ".b"));
  bad("std::string", (std::string)f, s);
}

static void check_filename_plus(const std::string &a, const std::string &b)
{
  FileName fa(a), fb(b);
  std::string na = norm(a), nb = norm(b);
  std::string want = na.empty() ? nb : norm(na + "/" + nb);
  vr::stat("states");
  vr::stat("transitions", 2);
  std::string g1 = (fa + fb).str(), g2 = (fa + b).str();
  vr::outcome("plus:" + g1);
  if (g1 != want || g2 != want)
    viol("FileName.operator+|differs from a/b", "fplus:" + a + "|" + b, "'" + a + "' + '" + b + "' = '" + g1 + "' / '" + g2 + "' want '" + want + "'");
  if (vr::replaying())
    printf("FileName('%s')+FileName('%s') = '%s' / '%s' want '%s'\n", a.c_str(), b.c_str(), g1.c_str(), g2.c_str(), want.c_str());
}

// ------------------------------------------------------------------ arguments
static const char *ARGS[] = {"-a", "-b", "x", "1"};

struct Consumer : public ArgumentsParser
{
  int k;  // parameters taken by -a
  int tryConsume(ArgumentList &l, int id) override
  {
    std::string a = l[id];
    if (a == "-a")
      return std::min(1 + k, l.size() - id);
    if (a == "-b")
      return 1;
    return 0;
  }
};

static void check_args(const std::vector<int> &v)
{
  std::string spec = "args:";
  std::vector<const char *> av;
  av.push_back("app");
  for (int i : v) {
    av.push_back(ARGS[i]);
    spec += std::to_string(i);
  }
  SV all(av.begin() + 1, av.end());
  // ArgumentList basics
  {
    ArgumentList l((int)av.size(), av.data());
    vr::stat("states");
    vr::stat("transitions");
    bool ok = l.size() == (int)all.size() && l.empty() == all.empty();
    for (int i = 0; ok && i < l.size(); i++)
      ok = l[i] == all[i];
    if (!ok)
      viol("ArgumentList|constructor does not hold argv[1..]", spec, "size " + std::to_string(l.size()));
  }
  // remove(where, howMany) and removeArgs
  for (int where = 0; where <= (int)all.size(); where++)
    for (int how = 0; where + how <= (int)all.size(); how++) {
      SV want = all;
      want.erase(want.begin() + where, want.begin() + where + how);
      ArgumentList l((int)av.size(), av.data());
      l.remove(where, how);
      SV got;
      for (int i = 0; i < l.size(); i++)
        got.push_back(l[i]);
      vr::stat("states");
      vr::stat("transitions", 2);
      vr::outcome("rm:" + join(got));
      if (got != want)
        viol("ArgumentList.remove|remaining arguments differ", spec + "/rm" + std::to_string(where) + "," + std::to_string(how), join(got) + " want " + join(want));
      // removeArgs works on argv including av[0]
      std::vector<const char *> av2 = av;
      int ac = (int)av2.size();
      const char **avp = av2.data();
      removeArgs(ac, avp, where + 1, how);
      SV got2;
      for (int i = 1; i < ac; i++)
        got2.push_back(avp[i]);
      if (got2 != want || std::string(avp[0]) != "app")
        viol("removeArgs|remaining arguments differ", spec + "/rm" + std::to_string(where) + "," + std::to_string(how), join(got2) + " want " + join(want));
      if (vr::replaying())
        printf("remove(%d,%d) -> %s / %s want %s\n", where, how, join(got).c_str(), join(got2).c_str(), join(want).c_str());
    }
  // parseAndRemove with consumers taking 0/1/2 parameters
  for (int k = 0; k <= 2; k++) {
    SV want;
    for (size_t i = 0; i < all.size();) {
      if (all[i] == "-a")
        i += std::min<size_t>(1 + k, all.size() - i);
      else if (all[i] == "-b")
        i += 1;
      else
        want.push_back(all[i++]);
    }
    ArgumentList l((int)av.size(), av.data());
    Consumer c;
    c.k = k;
    c.parseAndRemove(l);
    SV got;
    for (int i = 0; i < l.size(); i++)
      got.push_back(l[i]);
    vr::stat("states");
    vr::stat("transitions");
    vr::outcome("par:" + join(got));
    vr::sample("parseAndRemove(" + join(all) + ", -a takes " + std::to_string(k) + ") -> " + join(got), "par" + std::to_string(all.size()) + std::to_string(k));
    if (got != want)
      viol("parseAndRemove|unconsumed arguments differ", spec + "/k" + std::to_string(k), join(got) + " want " + join(want));
    if (vr::replaying())
      printf("parseAndRemove k=%d -> %s want %s\n", k, join(got).c_str(), join(want).c_str());
  }
}

// ------------------------------------------------------------------ pretty printers
static int suffix_exp(char c)
{
  switch (c) {
  case 'E': return 18;
  case 'P': return 15;
  case 'T': return 12;
  case 'G': return 9;
  case 'M': return 6;
  case 'k': return 3;
  case 'm': return -3;
  case 'u': return -6;
  case 'n': return -9;
  case 'p': return -12;
  case 'f': return -15;
  }
  return 1000;
}

static void judge_pretty(const char *fn, const std::string &out, long double x, const std::string &replay)
{
  vr::stat("states");
  vr::stat("transitions");
  char *end = nullptr;
  long double m = strtold(out.c_str(), &end);
  std::string suf = end ? std::string(end) : "";
  vr::outcome(std::string(fn) + suf + (m < 10 ? "1" : m < 100 ? "2" : "3"));
  bool ok = true;
  std::string why;
  if (end == out.c_str()) {
    ok = false;
    why = "no mantissa";
  } else if (suf.empty()) {
    // plain print: the value itself
    long double tol = (std::string(fn) == "prettyNumber") ? 0.0L : 1e-6L + 2e-7L * fabsl(x);
    if (fabsl(m - x) > tol) {
      ok = false;
      why = "plain value off";
    }
    if (fabsl(x) >= 1000.5L) {
      ok = false;
      why = "no suffix for a value >= 1000";
    }
  } else if (suf.size() != 1 || suffix_exp(suf[0]) == 1000) {
    ok = false;
    why = "unknown suffix '" + suf + "'";
  } else {
    long double scale = powl(10.0L, suffix_exp(suf[0]));
    long double am = fabsl(m);
    if (am < 1.0L || am > 1000.0L) {
      ok = false;
      why = std::string("mantissa outside [1,1000] with suffix ") + suf;
    } else if (fabsl(m * scale - x) > 0.0500001L * scale + 1e-6L * fabsl(x)) {
      ok = false;
      why = std::string("mantissa*suffix differs from the input, suffix ") + suf;
    }
  }
  if (!ok)
    viol(std::string(fn) + "|" + why, replay, std::string(fn) + " printed '" + out + "'");
  if (vr::replaying())
    printf("%s(%s) = '%s' %s\n", fn, replay.c_str(), out.c_str(), ok ? "ok" : why.c_str());
}

static void check_pretty_double(double x)
{
  char b[64];
  snprintf(b, sizeof b, "pd:%a", x);
  judge_pretty("prettyDouble", prettyDouble(x), x, b);
}
static void check_pretty_number(size_t x)
{
  judge_pretty("prettyNumber", prettyNumber(x), (long double)x, "pn:" + std::to_string(x));
}

static void pretty_grid()
{
  const double mant[] = {1, 1.04, 1.05, 1.5, 2, 5, 9.94, 9.96, 99.94, 99.96, 999.94, 999.96};
  // decades 1e-15 .. 1e20 (and 1e21 itself)
  for (int e = -15; e <= 20; e++)
    for (double m : mant) {
      double x = m * pow(10.0, e);
      if (x > 1e21)
        continue;
      if (x < 1e-15)
        continue;
      check_pretty_double(x);
      check_pretty_double(-x);
      if (e >= 0 && x < 1.8e19)
        check_pretty_number((size_t)x);
    }
  check_pretty_double(1e21);
  // the 64 neighbours of every branch constant (as float constants and as decimal values)
  const float fc[] = {1e+15f, 1e+12f, 1e+09f, 1e+06f, 1e+03f, 1e-12f, 1e-09f, 1e-06f, 1e-03f, 1e-00f, 1e18f};
  const double dc[] = {1e18, 1e15, 1e12, 1e9, 1e6, 1e3, 1e-12, 1e-9, 1e-6, 1e-3, 1.0};
  std::vector<double> centers(dc, dc + 11);
  for (float f : fc)
    centers.push_back((double)f);
  for (double c : centers) {
    double lo = c, hi = c;
    check_pretty_double(c);
    for (int i = 0; i < 32; i++) {
      lo = nextafter(lo, 0.0);
      hi = nextafter(hi, INFINITY);
      check_pretty_double(lo);
      check_pretty_double(hi);
      check_pretty_double(-lo);
    }
    if (c >= 1 && c < 1.8e19)
      for (long long d = -32; d <= 32; d++)
        check_pretty_number((size_t)((long long)c + d));
  }
  for (size_t v = 0; v <= 1100; v++)
    check_pretty_number(v);
  check_pretty_number(~(size_t)0);
}

// ------------------------------------------------------------------ driver
static void replay_one(const std::string &r)
{
  size_t c = r.find(':');
  std::string kind = r.substr(0, c), arg = r.substr(c + 1);
  if (kind == "split1")
    check_split_char(arg);
  else if (kind == "split2")
    check_split_set(arg);
  else if (kind == "tok")
    check_tokenize(arg);
  else if (kind == "prefix") {
    size_t b = arg.find('|');
    check_prefix(arg.substr(0, b), arg.substr(b + 1));
  } else if (kind == "file")
    check_filename(arg);
  else if (kind == "fplus") {
    size_t b = arg.find('|');
    check_filename_plus(arg.substr(0, b), arg.substr(b + 1));
  } else if (kind == "url") {
    std::vector<int> v;
    std::stringstream ss(arg);
    std::string item;
    while (std::getline(ss, item, ','))
      v.push_back(atoi(item.c_str()));
    std::vector<std::pair<int, int>> ps;
    for (size_t i = 2; i + 1 < v.size(); i += 2)
      ps.push_back(std::make_pair(v[i], v[i + 1]));
    check_url(v[0], v[1], ps);
  } else if (kind == "args") {
    std::string digits = arg.substr(0, arg.find('/'));
    std::vector<int> v;
    for (char ch : digits)
      v.push_back(ch - '0');
    check_args(v);
  } else if (kind == "pd")
    check_pretty_double(strtod(arg.c_str(), nullptr));
  else if (kind == "pn")
    check_pretty_number((size_t)strtoull(arg.c_str(), nullptr, 10));
  else
    printf("unknown replay kind '%s'\n", kind.c_str());
}

int main(int argc, char **argv)
{
  vr::init(argc, argv);
  if (vr::replaying()) {
    replay_one(vr::S().replay);
    vr::flush();
    return vr::S().viols.empty() ? 0 : 1;
  }
  const int L = vr::thorough() ? 8 : 6;
  all_strings("ab,", L, check_split_char);
  all_strings("ab,;", L - 1, check_split_set);
  all_strings("ab:", L, check_tokenize);
  vr::sample("split/tokenize: all strings of length <= " + std::to_string(L) + " over {a,b,delimiter}, e.g. 'a,,b,'");
  {
    SV ss;
    all_strings("ab", 4, [&](const std::string &s) { ss.push_back(s); });
    for (auto &a : ss)
      for (auto &b : ss)
        check_prefix(a, b);
    vr::sample("longestBeginningMatch/beginsWith: all " + std::to_string(ss.size() * ss.size()) + " pairs of strings <= 4 over {a,b}");
  }
  // PseudoURL: every type x file x parameter list of length <= 3 (thorough: 4)
  {
    const int maxp = vr::thorough() ? 4 : 3;
    for (int ti = 0; ti < 4; ti++)
      for (int fi = 0; fi < 4; fi++) {
        std::vector<std::pair<int, int>> ps;
        std::function<void()> rec = [&]() {
          check_url(ti, fi, ps);
          if ((int)ps.size() == maxp)
            return;
          for (int n = 0; n < 3; n++)
            for (int v = 0; v < 6; v++) {
              ps.push_back(std::make_pair(n, v));
              rec();
              ps.pop_back();
            }
        };
        rec();
      }
  }
  all_strings("a./", vr::thorough() ? 8 : 6, check_filename);
  vr::sample("FileName: all strings over {a . /} e.g. 'a.a/a', '.a', 'a/.a/'");
  {
    SV ss;
    all_strings("a./", 3, [&](const std::string &s) { ss.push_back(s); });
    for (auto &a : ss)
      for (auto &b : ss)
        check_filename_plus(a, b);
  }
  {
    std::vector<int> v;
    std::function<void()> rec = [&]() {
      check_args(v);
      if (v.size() == 5)
        return;
      for (int i = 0; i < 4; i++) {
        v.push_back(i);
        rec();
        v.pop_back();
      }
    };
    rec();
  }
  pretty_grid();
  vr::sample("prettyDouble(5e15) -> '" + prettyDouble(5e15) + "', prettyNumber(123456) -> '" + prettyNumber(123456) + "'");
  vr::stat("traces", vr::S().stats["states"]);
  return vr::finish();
}
