// C04: instantiates the "bin" families for element type uint64_t (see C04_groups.h)
#include "C04_groups.h"
void c04_reg_bin_u64(c04::Reg &r)
{
  c04::reg_bin<uint64_t>(r);
}
