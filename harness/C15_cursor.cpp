// C15 units "reader" and "fixedwriter" (selected by argv: --part reader|fixedwriter).
//
// reader:      raw cursor model of BufferReader.  Buffers of N = 0..6 bytes (a heap block of exactly N
//              bytes), every history of length <= D over read(size) / getView<uint8_t>(count) with
//              sizes {0, 1, 2, remaining, remaining+1, SIZE_MAX-1, SIZE_MAX}.  Model: accepted iff
//              size <= remaining; then the bytes [cursor, cursor+size) are delivered / viewed and the
//              cursor advances; otherwise the call throws and nothing changes.  After every step
//              cursor and end() are compared.  read() gets a destination block of exactly `size`
//              bytes; for the two huge sizes no such block can exist, so the destination is nullptr
//              (which read() documents as "just skip").
// fixedwriter: FixedBufferWriter of capacity C = 0..6, every history of length <= D over write(n) /
//              reserve(n), n in {0,1,2,3}.  Model: accepted iff cursor + n <= C; a rejected call throws
//              and leaves buffer, cursor, available() unchanged.  After every step available(),
//              capacity(), cursor, getWrittenView() (size and bytes) and the whole buffer image are
//              compared with the model.
#include "C11_C15_seq.h"

#include "rkcommon/common.h"
#include "rkcommon/networking/DataStreaming.h"

#include <cstring>
#include <memory>

using namespace rkcommon;
using namespace rkcommon::utility;
using namespace rkcommon::networking;

static const size_t SMAX = ~(size_t)0;

// ------------------------------------------------------------------------------------------------
// reader
// ------------------------------------------------------------------------------------------------
static const char *SZNAME[7] = {"0", "1", "2", "remaining", "remaining+1", "SIZE_MAX-1", "SIZE_MAX"};

static size_t size_arg(int k, size_t remaining)
{
  switch (k) {
  case 0: return 0;
  case 1: return 1;
  case 2: return 2;
  case 3: return remaining;
  case 4: return remaining + 1;
  case 5: return SMAX - 1;
  default: return SMAX;
  }
}

static std::string reader_opname(int op)
{
  return std::string(op < 7 ? "read(" : "getView<uint8_t>(") + SZNAME[op % 7] + ")";
}

static int run_reader(int N, const std::vector<int> &h, const std::string &replay, bool verbose)
{
  sq::stat("states");
  sq::stat("traces");
  sq::stat("max_depth", (long long)h.size());
  std::vector<uint8_t> bytes(N);
  for (int i = 0; i < N; i++)
    bytes[i] = (uint8_t)(0xA1 + 7 * i);
  std::shared_ptr<AbstractArray<uint8_t>> buf = std::make_shared<FixedArray<uint8_t>>(bytes.data(), (size_t)N);
  BufferReader r(buf);
  size_t cur = 0;  // model cursor
  uint64_t digest = vr::fnv(&N, sizeof N);
  if (verbose)
    printf("BufferReader over %d bytes\n", N);
  if (h.empty()) {
    if (r.end() != (N == 0) || r.cursor != 0) {
      sq::viol("BufferReader|fresh reader: end()/cursor wrong", replay, "N=" + std::to_string(N));
      return sq::H_VIOL;
    }
    return sq::H_OK;
  }
  for (size_t step = 0; step < h.size(); step++) {
    const int op = h[step];
    const bool is_view = op >= 7;
    const size_t remaining = (size_t)N - cur;
    const size_t sz = size_arg(op % 7, remaining);
    const bool fits = sz <= remaining;
    const bool last = step + 1 == h.size();
    const std::string fn = is_view ? "BufferReader::getView" : "BufferReader::read";
    // equivalence class of the argument
    const char *cls = fits ? (sz == remaining ? "size == remaining" : "size < remaining") : (sz >= SMAX - 1 && cur + sz < cur ? "size > remaining and cursor+size overflows size_t" : "size > remaining");
    sq::stat("transitions");
    bool threw = false;
    std::string why, what;
    std::unique_ptr<uint8_t[]> dst;
    std::shared_ptr<ArrayView<uint8_t>> view;
    try {
      if (is_view) {
        view = r.getView<uint8_t>(sz);
      } else {
        uint8_t *mem = nullptr;
        if (sz <= 16) {
          dst.reset(new uint8_t[sz]);  // exactly sz bytes
          mem = dst.get();
          memset(mem, 0x5c, sz);
        }
        r.read(mem, sz);
      }
    } catch (const std::exception &) {
      threw = true;
    }
    if (fits) {
      if (threw)
        what = why = "threw although size <= remaining";
      else if (is_view) {
        if (view->size() != sz) {
          what = "view size differs";
          why = "view size " + std::to_string(view->size()) + " want " + std::to_string(sz);
        } else if (sz && view->data() != buf->begin() + cur)
          what = why = "view does not start at the cursor";
        else if (sz && memcmp(view->data(), bytes.data() + cur, sz) != 0)
          what = why = "view bytes differ";
      } else if (sz && memcmp(dst.get(), bytes.data() + cur, sz) != 0)
        what = why = "bytes delivered differ from buffer[cursor, cursor+size)";
      if (why.empty())
        cur += sz;
    } else if (!threw)
      what = why = "accepted a size that extends past the buffer";
    if (why.empty() && r.cursor != cur) {
      what = fits ? "cursor wrong after an accepted call" : "cursor moved by a rejected call";
      why = what + ": " + std::to_string(r.cursor) + " want " + std::to_string(cur);
    }
    if (why.empty() && r.end() != (cur == (size_t)N)) {
      what = std::string("end() is ") + (r.end() ? "true although bytes remain" : "false although the cursor is at the end");
      why = what + ": cursor " + std::to_string(cur) + " of " + std::to_string(N);
    }
    if (verbose)
      printf("op %zu: %s with size %zu (remaining %zu): %s -> %s\n", step, reader_opname(op).c_str(), sz, remaining, threw ? "threw" : "returned", why.empty() ? "as the model" : why.c_str());
    if (last) {
      uint64_t k[4] = {(uint64_t)op, (uint64_t)threw, (uint64_t)cur, (uint64_t)r.end()};
      digest = vr::fnv(k, sizeof k, digest);
      sq::outcome(digest);
    }
    if (!why.empty()) {
      sq::viol(fn + "|" + what + "|" + cls, replay, "N=" + std::to_string(N) + " cursor " + std::to_string(cur) + " " + reader_opname(op) + " = size " + std::to_string(sz) + ": " + why);
      return sq::H_VIOL;
    }
  }
  return sq::H_OK;
}

// ------------------------------------------------------------------------------------------------
// fixedwriter
// ------------------------------------------------------------------------------------------------
static std::string writer_opname(int op)
{
  return std::string(op < 4 ? "write(" : "reserve(") + std::to_string(op % 4) + ")";
}

static int run_writer(int C, const std::vector<int> &h, const std::string &replay, bool verbose)
{
  sq::stat("states");
  sq::stat("traces");
  sq::stat("max_depth", (long long)h.size());
  FixedBufferWriter w((size_t)C);
  std::vector<int> image(C, -1);  // model of the whole buffer: -1 = never written
  size_t cur = 0;
  unsigned next = 1;
  uint64_t digest = vr::fnv(&C, sizeof C);
  if (verbose)
    printf("FixedBufferWriter(%d)\n", C);
  auto observe = [&](std::string &why) {
    if (w.capacity() != (size_t)C)
      why = "capacity() = " + std::to_string(w.capacity()) + " want " + std::to_string(C);
    else if (w.cursor != cur)
      why = "cursor = " + std::to_string(w.cursor) + " want " + std::to_string(cur);
    else if (w.available() != (size_t)C - cur)
      why = "available() = " + std::to_string(w.available()) + " want " + std::to_string((size_t)C - cur);
    else {
      auto v = w.getWrittenView();
      const AbstractArray<uint8_t> &a = *v;
      if (a.size() != cur)
        why = "getWrittenView() size = " + std::to_string(a.size()) + " want " + std::to_string(cur);
      else {
        for (size_t i = 0; i < cur && why.empty(); i++)
          if ((int)a[i] != image[i])
            why = "getWrittenView()[" + std::to_string(i) + "] = " + std::to_string((int)a[i]) + " want " + std::to_string(image[i]);
      }
      for (size_t i = 0; i < (size_t)C && why.empty(); i++)
        if (image[i] >= 0 && (int)(*w.buffer)[i] != image[i])
          why = "buffer[" + std::to_string(i) + "] = " + std::to_string((int)(*w.buffer)[i]) + " want " + std::to_string(image[i]);
    }
  };
  if (h.empty()) {
    std::string why;
    observe(why);
    if (!why.empty()) {
      sq::viol("FixedBufferWriter|fresh writer: " + why.substr(0, why.find(" =")), replay, "C=" + std::to_string(C) + " " + why);
      return sq::H_VIOL;
    }
    return sq::H_OK;
  }
  for (size_t step = 0; step < h.size(); step++) {
    const int op = h[step];
    const bool is_reserve = op >= 4;
    const size_t n = (size_t)(op % 4);
    const bool fits = cur + n <= (size_t)C;
    const size_t cur_before = cur;
    const bool last = step + 1 == h.size();
    const std::string fn = is_reserve ? "FixedBufferWriter::reserve" : "FixedBufferWriter::write";
    const char *cls = cur + n == (size_t)C ? "exact fit (cursor+size == capacity)" : fits ? "cursor+size < capacity" : "cursor+size > capacity";
    sq::stat("transitions");
    // snapshot of the real buffer to see whether a rejected call wrote anything
    std::vector<uint8_t> before(w.buffer->begin(), w.buffer->begin() + C);
    uint8_t src[4];
    for (size_t i = 0; i < n; i++)
      src[i] = (uint8_t)(next++ * 29u + 3u) & 0x7f;
    bool threw = false;
    void *mem = nullptr;
    try {
      if (is_reserve)
        mem = w.reserve(n);
      else
        w.write(src, n);
    } catch (const std::exception &) {
      threw = true;
    }
    std::string why;
    if (fits) {
      if (threw)
        why = "rejected although it fits";
      else {
        if (is_reserve) {
          if (mem != (void *)(w.buffer->begin() + cur) && n > 0)
            why = "reserve() did not return buffer+cursor";
          else if (n)
            memcpy(mem, src, n);  // the caller fills the reservation
        }
        for (size_t i = 0; i < n; i++)
          image[cur + i] = src[i];
        cur += n;
      }
    } else {
      if (!threw)
        why = "accepted although it does not fit";
      else if (C && memcmp(before.data(), w.buffer->begin(), C) != 0)
        why = "a rejected call wrote to the buffer";
    }
    if (why.empty())
      observe(why);
    if (verbose)
      printf("op %zu: %s at cursor %zu of %d: %s -> %s\n", step, writer_opname(op).c_str(), cur_before, C, threw ? "threw" : "returned", why.empty() ? "as the model" : why.c_str());
    if (last) {
      uint64_t k[4] = {(uint64_t)op, (uint64_t)threw, (uint64_t)cur, (uint64_t)C};
      digest = vr::fnv(k, sizeof k, digest);
      sq::outcome(digest);
    }
    if (!why.empty()) {
      std::string what = why.substr(0, why.find(" ="));
      if (what.find("getWrittenView()[") == 0)
        what = "getWrittenView() bytes differ";
      if (what.find("buffer[") == 0)
        what = "buffer bytes differ";
      sq::viol(fn + "|" + what + "|" + cls, replay, "C=" + std::to_string(C) + " cursor " + std::to_string(cur_before) + " " + writer_opname(op) + ": " + why);
      return sq::H_VIOL;
    }
  }
  return sq::H_OK;
}

// ------------------------------------------------------------------------------------------------
int main(int argc, char **argv)
{
  vr::init(argc, argv);
  std::string part = "reader";
  for (int i = 1; i + 1 < argc; i++)
    if (std::string(argv[i]) == "--part")
      part = argv[i + 1];
  if (vr::replaying()) {
    // reader/N3:4.12   fixedwriter/C3:3
    std::string r = vr::S().replay;
    size_t sl = r.find('/'), c = r.find(':');
    std::string p = r.substr(0, sl);
    int n = atoi(r.substr(sl + 2, c - sl - 2).c_str());
    std::vector<int> h = sq::parse_ops(r.substr(c + 1));
    for (int x : h)
      if (x < 0 || x >= (p == "reader" ? 14 : 8)) {
        printf("bad op index %d\n", x);
        return 2;
      }
    int res = p == "reader" ? run_reader(n, h, r, true) : run_writer(n, h, r, true);
    printf("result: %s\n", res == sq::H_OK ? "ok" : "VIOLATION");
    vr::flush();
    return vr::S().viols.empty() ? 0 : 1;
  }
  sq::make_scratch();
  const bool reader = part == "reader";
  const int depth = reader ? (vr::thorough() ? 5 : 4) : (vr::thorough() ? 6 : 4);
  const int A = reader ? 14 : 8;
  for (int n = 0; n <= 6; n++) {
    const std::string tag = (reader ? "reader/N" : "fixedwriter/C") + std::to_string(n);
    if (reader)
      sq::explore_tree(
          tag, A, depth, 16, [n](const std::vector<int> &h, const std::string &rp) { return run_reader(n, h, rp, false); },
          [](const std::vector<int> &h) { return h.empty() ? std::string("BufferReader|crash in setup") : (h.back() < 7 ? "BufferReader::read" : "BufferReader::getView") + std::string("|crash|size ") + SZNAME[h.back() % 7]; });
    else
      sq::explore_tree(
          tag, A, depth, 16, [n](const std::vector<int> &h, const std::string &rp) { return run_writer(n, h, rp, false); },
          [](const std::vector<int> &h) { return h.empty() ? std::string("FixedBufferWriter|crash in setup") : (h.back() < 4 ? "FixedBufferWriter::write" : "FixedBufferWriter::reserve") + std::string("|crash|size ") + std::to_string(h.back() % 4); });
  }
  sq::remove_scratch();
  vr::note(part + ": alphabet " + std::to_string(A) + ", depth " + std::to_string(depth) + ", buffer sizes 0..6; a history is not extended after a violation");
  vr::sample(reader ? "reader/N3:2.10.4 = BufferReader over 3 bytes; read(2); getView<uint8_t>(remaining); read(remaining+1)" : "fixedwriter/C3:1.6.0 = FixedBufferWriter(3); write(1); reserve(2); write(0)");
  return vr::finish();
}
