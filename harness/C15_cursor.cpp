// C15 units "reader" and "fixedwriter" (selected by argv: --part reader|fixedwriter).
//
// reader:      raw cursor model of BufferReader.  Buffers of N = 0..6 bytes (a heap block of exactly N
//              bytes), every history of length <= D over read(size) / getView<uint8_t>(count) with
//              sizes {0, 1, 2, remaining, remaining+1, SIZE_MAX-1, SIZE_MAX}.  Model: accepted iff
//              size <= remaining; then the bytes [cursor, cursor+size) are delivered / viewed and the
//              cursor advances; otherwise the call throws and nothing changes.  After every step
//              cursor and end() are compared.  read() gets a destination block of exactly `size`
//              bytes; for the two huge sizes no such block can exist, so the destination is nullptr
//              (which read() documents as "just skip").
// fixedwriter: FixedBufferWriter of capacity C = 0..6, every history of length <= D over write(n) / (n also SIZE_MAX, SIZE_MAX-1)
//              reserve(n), n in {0,1,2,3}.  Model: accepted iff cursor + n <= C; a rejected call throws
//              and leaves buffer, cursor, available() unchanged.  After every step available(),
//              capacity(), cursor, getWrittenView() (size and bytes) and the whole buffer image are
//              compared with the model.
#include "C11_C15_seq.h"

#include "rkcommon/common.h"
#include "rkcommon/networking/DataStreaming.h"

#include <cstring>
#include <memory>

using namespace rkcommon;
using namespace rkcommon::utility;
using namespace rkcommon::networking;

static const size_t SMAX = ~(size_t)0;

// ------------------------------------------------------------------------------------------------
// reader
// ------------------------------------------------------------------------------------------------
static const char *SZNAME[7] = {"0", "1", "2", "remaining", "remaining+1", "SIZE_MAX-1", "SIZE_MAX"};

static size_t size_arg(int k, size_t remaining)
{
  switch (k) {
  case 0: return 0;
  case 1: return 1;
  case 2: return 2;
  case 3: return remaining;
  case 4: return remaining + 1;
  case 5: return SMAX - 1;
  default: return SMAX;
  }
}

static std::string reader_opname(int op)
{
  return std::string(op < 7 ? "read(" : "getView<uint8_t>(") + SZNAME[op % 7] + ")";
}

static int run_reader(int N, const std::vector<int> &h, const std::string &replay, bool verbose)
{
  sq::stat("states");
  sq::stat("traces");
  sq::stat("max_depth", (long long)h.size());
  std::vector<uint8_t> bytes(N);
  for (int i = 0; i < N; i++)
    bytes[i] = (uint8_t)(0xA1 + 7 * i);
  std::shared_ptr<AbstractArray<uint8_t>> buf = std::make_shared<FixedArray<uint8_t>>(bytes.data(), (size_t)N);
  BufferReader r(buf);
  size_t cur = 0;  // model cursor
  uint64_t digest = vr::fnv(&N, sizeof N);
  if (verbose)
    printf("BufferReader over %d bytes\n", N);
  if (h.empty()) {
    if (r.end() != (N == 0) || r.cursor != 0) {
      sq::viol("BufferReader|fresh reader: end()/cursor wrong", replay, "N=" + std::to_string(N));
      return sq::H_VIOL;
    }
    return sq::H_OK;
  }
  for (size_t step = 0; step < h.size(); step++) {
    const int op = h[step];
    const bool is_view = op >= 7;
    const size_t remaining = (size_t)N - cur;
    const size_t sz = size_arg(op % 7, remaining);
    const bool fits = sz <= remaining;
    const bool last = step + 1 == h.size();
    const std::string fn = is_view ? "BufferReader::getView" : "BufferReader::read";
    // equivalence class of the argument
    const char *cls = fits ? (sz == remaining ? "size == remaining" : "size < remaining") : (sz >= SMAX - 1 && cur + sz < cur ? "size > remaining and cursor+size overflows size_t" : "size > remaining");
    sq::stat("transitions");
    bool threw = false;
    std::string why, what;
    std::unique_ptr<uint8_t[]> dst;
    std::shared_ptr<ArrayView<uint8_t>> view;
    try {
      if (is_view) {
        view = r.getView<uint8_t>(sz);
      } else {
        uint8_t *mem = nullptr;
        if (sz <= 16) {
          dst.reset(new uint8_t[sz]);  // exactly sz bytes
          mem = dst.get();
          memset(mem, 0x5c, sz);
        }
        r.read(mem, sz);
      }
    } catch (const std::exception &) {
      threw = true;
    }
    if (fits) {
      if (threw)
        what = why = "threw although size <= remaining";
      else if (is_view) {
        if (view->size() != sz) {
          what = "view size differs";
          why = "view size " + std::to_string(view->size()) + " want " + std::to_string(sz);
        } else if (sz && view->data() != buf->begin() + cur)
          what = why = "view does not start at the cursor";
        else if (sz && memcmp(view->data(), bytes.data() + cur, sz) != 0)
          what = why = "view bytes differ";
      } else if (sz && memcmp(dst.get(), bytes.data() + cur, sz) != 0)
        what = why = "bytes delivered differ from buffer[cursor, cursor+size)";
      if (why.empty())
        cur += sz;
    } else if (!threw)
      what = why = "accepted a size that extends past the buffer";
    if (why.empty() && r.cursor != cur) {
      what = fits ? "cursor wrong after an accepted call" : "cursor moved by a rejected call";
      why = what + ": " + std::to_string(r.cursor) + " want " + std::to_string(cur);
    }
    if (why.empty() && r.end() != (cur == (size_t)N)) {
      what = std::string("end() is ") + (r.end() ? "true although bytes remain" : "false although the cursor is at the end");
      why = what + ": cursor " + std::to_string(cur) + " of " + std::to_string(N);
    }
    if (verbose)
      printf("op %zu: %s with size %zu (remaining %zu): %s -> %s\n", step, reader_opname(op).c_str(), sz, remaining, threw ? "threw" : "returned", why.empty() ? "as the model" : why.c_str());
    if (last) {
      uint64_t k[4] = {(uint64_t)op, (uint64_t)threw, (uint64_t)cur, (uint64_t)r.end()};
      digest = vr::fnv(k, sizeof k, digest);
      sq::outcome(digest);
    }
    if (!why.empty()) {
      sq::viol(fn + "|" + what + "|" + cls, replay, "N=" + std::to_string(N) + " cursor " + std::to_string(cur) + " " + reader_opname(op) + " = size " + std::to_string(sz) + ": " + why);
      return sq::H_VIOL;
    }
  }
  return sq::H_OK;
}

// ------------------------------------------------------------------------------------------------
// fixedwriter
// ------------------------------------------------------------------------------------------------
// ops 0..3 write(n), 4..7 reserve(n), 8/9 write/reserve(SIZE_MAX), 10/11 write/reserve(SIZE_MAX-1): with a
// non-zero cursor, cursor + size wraps around to a small number for the last four
static bool writer_is_reserve(int op) { return op < 8 ? op >= 4 : (op & 1) != 0; }
static size_t writer_size(int op) { return op < 8 ? (size_t)(op % 4) : op < 10 ? SMAX : SMAX - 1; }
static std::string writer_szname(int op) { return op < 8 ? std::to_string(op % 4) : op < 10 ? "SIZE_MAX" : "SIZE_MAX-1"; }
static std::string writer_opname(int op)
{
  return std::string(writer_is_reserve(op) ? "reserve(" : "write(") + writer_szname(op) + ")";
}

static int run_writer(int C, const std::vector<int> &h, const std::string &replay, bool verbose)
{
  sq::stat("states");
  sq::stat("traces");
  sq::stat("max_depth", (long long)h.size());
  FixedBufferWriter w((size_t)C);
  std::vector<int> image(C, -1);  // model of the whole buffer: -1 = never written
  size_t cur = 0;
  unsigned next = 1;
  uint64_t digest = vr::fnv(&C, sizeof C);
  if (verbose)
    printf("FixedBufferWriter(%d)\n", C);
  auto observe = [&](std::string &why) {
    if (w.capacity() != (size_t)C)
      why = "capacity() = " + std::to_string(w.capacity()) + " want " + std::to_string(C);
    else if (w.cursor != cur)
      why = "cursor = " + std::to_string(w.cursor) + " want " + std::to_string(cur);
    else if (w.available() != (size_t)C - cur)
      why = "available() = " + std::to_string(w.available()) + " want " + std::to_string((size_t)C - cur);
    else {
      auto v = w.getWrittenView();
      const AbstractArray<uint8_t> &a = *v;
      if (a.size() != cur)
        why = "getWrittenView() size = " + std::to_string(a.size()) + " want " + std::to_string(cur);
      else {
        for (size_t i = 0; i < cur && why.empty(); i++)
          if ((int)a[i] != image[i])
            why = "getWrittenView()[" + std::to_string(i) + "] = " + std::to_string((int)a[i]) + " want " + std::to_string(image[i]);
      }
      for (size_t i = 0; i < (size_t)C && why.empty(); i++)
        if (image[i] >= 0 && (int)(*w.buffer)[i] != image[i])
          why = "buffer[" + std::to_string(i) + "] = " + std::to_string((int)(*w.buffer)[i]) + " want " + std::to_string(image[i]);
    }
  };
  if (h.empty()) {
    std::string why;
    observe(why);
    if (!why.empty()) {
      sq::viol("FixedBufferWriter|fresh writer: " + why.substr(0, why.find(" =")), replay, "C=" + std::to_string(C) + " " + why);
      return sq::H_VIOL;
    }
    return sq::H_OK;
  }
  for (size_t step = 0; step < h.size(); step++) {
    const int op = h[step];
    const bool is_reserve = writer_is_reserve(op);
    const size_t n = writer_size(op);
    const bool fits = n <= (size_t)C - cur;
    const size_t cur_before = cur;
    const bool last = step + 1 == h.size();
    const std::string fn = is_reserve ? "FixedBufferWriter::reserve" : "FixedBufferWriter::write";
    const char *cls = n >= SMAX - 1 ? "size near SIZE_MAX (cursor+size wraps)" : cur + n == (size_t)C ? "exact fit (cursor+size == capacity)" : fits ? "cursor+size < capacity" : "cursor+size > capacity";
    sq::stat("transitions");
    // snapshot of the real buffer to see whether a rejected call wrote anything
    std::vector<uint8_t> before(w.buffer->begin(), w.buffer->begin() + C);
    uint8_t src[4];
    for (size_t i = 0; i < n && i < 4; i++)
      src[i] = (uint8_t)(next++ * 29u + 3u) & 0x7f;
    bool threw = false;
    void *mem = nullptr;
    try {
      if (is_reserve)
        mem = w.reserve(n);
      else
        w.write(n > 4 ? nullptr : src, n);  // no source block of a huge size can exist; accepting it is already the violation
    } catch (const std::exception &) {
      threw = true;
    }
    std::string why;
    if (fits) {
      if (threw)
        why = "rejected although it fits";
      else {
        if (is_reserve) {
          if (mem != (void *)(w.buffer->begin() + cur) && n > 0)
            why = "reserve() did not return buffer+cursor";
          else if (n)
            memcpy(mem, src, n);  // the caller fills the reservation
        }
        for (size_t i = 0; i < n; i++)
          image[cur + i] = src[i];
        cur += n;
      }
    } else {
      if (!threw)
        why = "accepted although it does not fit";
      else if (C && memcmp(before.data(), w.buffer->begin(), C) != 0)
        why = "a rejected call wrote to the buffer";
    }
    if (why.empty())
      observe(why);
    if (verbose)
      printf("op %zu: %s at cursor %zu of %d: %s -> %s\n", step, writer_opname(op).c_str(), cur_before, C, threw ? "threw" : "returned", why.empty() ? "as the model" : why.c_str());
    if (last) {
      uint64_t k[4] = {(uint64_t)op, (uint64_t)threw, (uint64_t)cur, (uint64_t)C};
      digest = vr::fnv(k, sizeof k, digest);
      sq::outcome(digest);
    }
    if (!why.empty()) {
      std::string what = why.substr(0, why.find(" ="));
      if (what.find("getWrittenView()[") == 0)
        what = "getWrittenView() bytes differ";
      if (what.find("buffer[") == 0)
        what = "buffer bytes differ";
      sq::viol(fn + "|" + what + "|" + cls, replay, "C=" + std::to_string(C) + " cursor " + std::to_string(cur_before) + " " + writer_opname(op) + ": " + why);
      return sq::H_VIOL;
    }
  }
  return sq::H_OK;
}

// ------------------------------------------------------------------------------------------------
// stream: a BufferWriter and a BufferReader on ONE shared buffer
// ------------------------------------------------------------------------------------------------
// The reader is constructed from the writer's `buffer` (shared_ptr<OwnedArray<uint8_t>>) at any point
// of the history; the writer keeps appending, and the shared OwnedArray is shrunk (resize to size-1 /
// to 0) or reset() while the reader is alive.  Model: the bytes currently in the buffer + the reader's
// cursor.  "The written data" of the statement is what is in the buffer *now*:
//   * a call with size >= 1 is accepted iff cursor + size <= current size, else it must throw
//     (so at a cursor that lies beyond a shrunken buffer every non-empty call must throw);
//   * end() == (cursor >= current size) after every step, writer steps included;
//   * a size-0 call at a cursor beyond a shrunken buffer: the statement speaks of reads "extending
//     past the written data"; an empty read extends nowhere and consumes nothing, so neither a throw
//     nor an acceptance contradicts it - the outcome is observed, not judged; either way the cursor
//     must not move and a returned view must be empty.
// A call the model rejects gets a null destination (read() documents that as "skip"): accepting it is
// already the violation, and an out-of-bounds memcpy would only add a process restart.  A call the
// model accepts gets a heap destination of exactly `size` bytes and the delivered bytes are compared.
enum SOp
{
  SO_WRITE0,
  SO_WRITE1,
  SO_WRITE2,
  SO_ATTACH,
  SO_READ,              // + size index 0..5
  SO_VIEW = SO_READ + 6,
  SO_SHRINK1 = SO_VIEW + 6,
  SO_RESIZE0,
  SO_RESET,
  SO_COUNT
};
static const char *SSZ[6] = {"0", "1", "2", "remaining", "remaining+1", "SIZE_MAX"};

static std::string stream_opname(int op)
{
  if (op <= SO_WRITE2)
    return "writer.write(" + std::to_string(op) + " bytes)";
  if (op == SO_ATTACH)
    return "reader = BufferReader(writer.buffer)";
  if (op < SO_VIEW)
    return std::string("reader.read(") + SSZ[op - SO_READ] + ")";
  if (op < SO_SHRINK1)
    return std::string("reader.getView<uint8_t>(") + SSZ[op - SO_VIEW] + ")";
  if (op == SO_SHRINK1)
    return "writer.buffer->resize(size-1)";
  if (op == SO_RESIZE0)
    return "writer.buffer->resize(0)";
  return "writer.buffer->reset()";
}
static std::string stream_opclass(int op)
{
  if (op <= SO_WRITE2)
    return "BufferWriter::write";
  if (op == SO_ATTACH)
    return "BufferReader()";
  if (op < SO_VIEW)
    return std::string("BufferReader::read|size ") + SSZ[op - SO_READ];
  if (op < SO_SHRINK1)
    return std::string("BufferReader::getView|size ") + SSZ[op - SO_VIEW];
  return "shared buffer shrunk/reset";
}

// crash signature context: the call and the model-state class it is made in (sizes only; from the history)
static std::string stream_crash_ctx(const std::vector<int> &h)
{
  if (h.empty())
    return "BufferWriter|crash in setup";
  size_t n = 0, cur = 0;
  bool attached = false;
  for (size_t i = 0; i + 1 < h.size(); i++) {
    const int op = h[i];
    if (op <= SO_WRITE2)
      n += (size_t)op;
    else if (op == SO_ATTACH) {
      attached = true;
      cur = 0;
    } else if (op == SO_SHRINK1)
      n -= n ? 1 : 0;
    else if (op >= SO_RESIZE0)
      n = 0;
    else if (attached) {
      const int k = op >= SO_VIEW ? op - SO_VIEW : op - SO_READ;
      const size_t rem = cur > n ? 0 : n - cur;
      const size_t sz = k == 0 ? 0 : k == 1 ? 1 : k == 2 ? 2 : k == 3 ? rem : k == 4 ? rem + 1 : SMAX;
      if (cur <= n && sz <= rem)
        cur += sz;
    }
  }
  const int op = h.back();
  if (op >= SO_READ && op < SO_SHRINK1)
    return std::string(op >= SO_VIEW ? "BufferReader::getView" : "BufferReader::read") + "|crash|" + (cur > n ? "cursor beyond a shrunken buffer" : "cursor within the buffer");
  return stream_opclass(op) + "|crash";
}

static int run_stream(const std::vector<int> &h, const std::string &replay, bool verbose)
{
  sq::stat("states");
  sq::stat("traces");
  sq::stat("max_depth", (long long)h.size());
  BufferWriter bw;
  std::unique_ptr<BufferReader> r;
  std::vector<uint8_t> bytes;  // model: what is in the buffer now
  size_t cur = 0;              // model cursor
  bool appended = false, shrunk = false;  // since the reader was attached
  unsigned next = 1;
  uint64_t digest = 1469598103934665603ull;
  for (size_t step = 0; step < h.size(); step++) {
    const int op = h[step];
    const bool last = step + 1 == h.size();
    sq::stat("transitions");
    std::string fn = "BufferWriter", what, why, szcls = "-";
    bool threw = false;
    if (op <= SO_WRITE2) {
      uint8_t src[2];
      for (int i = 0; i < op; i++) {
        src[i] = (uint8_t)(next++ * 41u + 5u);
        bytes.push_back(src[i]);
      }
      bw.write(src, (size_t)op);
      if (op)
        appended = true;
    } else if (op == SO_ATTACH) {
      std::shared_ptr<AbstractArray<uint8_t>> b = bw.buffer;
      r.reset(new BufferReader(b));
      cur = 0;
      appended = shrunk = false;
    } else if (op >= SO_SHRINK1) {
      if (op == SO_SHRINK1) {
        if (bytes.empty())
          return sq::H_DISABLED;
        bytes.pop_back();
        bw.buffer->resize(bytes.size(), 0);
      } else if (op == SO_RESIZE0) {
        if (bytes.empty())
          return sq::H_DISABLED;
        bytes.clear();
        bw.buffer->resize(0, 0);
      } else {
        bytes.clear();
        bw.buffer->reset();
      }
      shrunk = true;
    } else {
      if (!r)
        return sq::H_DISABLED;
      const bool is_view = op >= SO_VIEW;
      fn = is_view ? "BufferReader::getView" : "BufferReader::read";
      const int k = is_view ? op - SO_VIEW : op - SO_READ;
      const bool beyond = cur > bytes.size();
      const size_t remaining = beyond ? 0 : bytes.size() - cur;
      const size_t sz = k == 0 ? 0 : k == 1 ? 1 : k == 2 ? 2 : k == 3 ? remaining : k == 4 ? remaining + 1 : SMAX;
      const bool fits = !beyond && sz <= remaining;
      const bool unspecified = beyond && sz == 0;
      szcls = sz == 0 ? "size 0" : fits ? (sz == remaining ? "size == remaining" : "size < remaining") : sz == SMAX ? "size SIZE_MAX" : "size > remaining";
      std::unique_ptr<uint8_t[]> dst;
      std::shared_ptr<ArrayView<uint8_t>> view;
      try {
        if (is_view)
          view = r->getView<uint8_t>(sz);
        else {
          uint8_t *mem = nullptr;
          if (fits) {
            dst.reset(new uint8_t[sz]);
            mem = dst.get();
            memset(mem, 0x5c, sz);
          }
          r->read(mem, sz);
        }
      } catch (const std::exception &) {
        threw = true;
      }
      if (unspecified) {
        if (!threw && is_view && view->size() != 0)
          what = why = "a view of size 0 is not empty";
      } else if (fits) {
        if (threw)
          what = why = "threw although cursor + size <= current size";
        else if (is_view) {
          if (view->size() != sz)
            what = why = "view size differs";
          else if (sz && view->data() != bw.buffer->begin() + cur)
            what = why = "view does not start at the cursor";
          else if (sz && memcmp(view->data(), bytes.data() + cur, sz) != 0)
            what = why = "view bytes differ from the buffer contents";
        } else if (sz && memcmp(dst.get(), bytes.data() + cur, sz) != 0)
          what = why = "bytes delivered differ from buffer[cursor, cursor+size)";
        if (why.empty())
          cur += sz;
      } else if (!threw)
        what = why = "accepted a call that extends past the data currently in the buffer";
      if (why.empty() && r->cursor != cur) {
        what = (fits && !threw) ? "cursor wrong after an accepted call" : "cursor moved by a rejected or empty call";
        why = what + ": " + std::to_string(r->cursor) + " want " + std::to_string(cur);
      }
      if (verbose)
        printf("op %zu: %s = size %zu at cursor %zu of %zu: %s%s\n", step, stream_opname(op).c_str(), sz, cur - ((fits && !threw && why.empty()) ? sz : 0), bytes.size(), threw ? "threw" : "returned",
            unspecified ? " (empty call beyond the data: not judged)" : "");
    }
    if (verbose && (op <= SO_ATTACH || op >= SO_SHRINK1))
      printf("op %zu: %s -> buffer holds %zu bytes\n", step, stream_opname(op).c_str(), bytes.size());
    // the buffer itself
    if (why.empty() && (bw.buffer->size() != bytes.size() || (!bytes.empty() && memcmp(bw.buffer->begin(), bytes.data(), bytes.size()) != 0))) {
      fn = "BufferWriter";
      what = "buffer contents differ from the bytes written";
      why = what + ": size " + std::to_string(bw.buffer->size()) + " want " + std::to_string(bytes.size());
    }
    // end() after every step
    bool e = false;
    if (why.empty() && r) {
      e = r->end();
      const bool want = cur >= bytes.size();
      if (verbose)
        printf("        end() = %s want %s (cursor %zu, %zu bytes in the buffer)\n", e ? "true" : "false", want ? "true" : "false", cur, bytes.size());
      if (e != want) {
        fn = "BufferReader::end";
        what = e ? "true although unread bytes are in the buffer" : "false although the cursor is at or beyond the end of the data";
        why = what + ": cursor " + std::to_string(cur) + ", " + std::to_string(bytes.size()) + " bytes in the buffer";
      }
    }
    if (last) {
      uint64_t k[6] = {(uint64_t)op, (uint64_t)threw, (uint64_t)cur, (uint64_t)bytes.size(), (uint64_t)(r ? 1 : 0), (uint64_t)e};
      digest = vr::fnv(k, sizeof k, digest);
      sq::outcome(digest);
      if (h.size() >= 4 && vr::S().samples.size() < 6 && (h[0] + 3 * h[1] + h[2]) % 17 == 5 && r)
        sq::sample(replay + " = " + stream_opname(h[0]) + "; " + stream_opname(h[1]) + "; " + stream_opname(h[2]) + "; " + stream_opname(h[3]) + (h.size() > 4 ? "; ..." : ""));
    }
    if (!why.empty()) {
      const char *bufcls = !r ? "no reader" : cur > bytes.size() ? "cursor beyond a shrunken buffer" : shrunk ? "buffer shrunk/reset after the reader was attached" : appended ? "data appended after the reader was attached" : "buffer unchanged since the reader was attached";
      if (verbose)
        printf("        -> %s\n", why.c_str());
      sq::viol(fn + "|" + what + "|" + szcls + "|" + bufcls, replay, "after " + stream_opname(op) + ": " + why + " (cursor " + std::to_string(cur) + ", " + std::to_string(bytes.size()) + " bytes in the buffer)");
      return sq::H_VIOL;
    }
  }
  return sq::H_OK;
}

// ------------------------------------------------------------------------------------------------
int main(int argc, char **argv)
{
  vr::init(argc, argv);
  std::string part = "reader";
  for (int i = 1; i + 1 < argc; i++)
    if (std::string(argv[i]) == "--part")
      part = argv[i + 1];
  if (vr::replaying()) {
    // reader/N3:4.12   fixedwriter/C3:3
    std::string r = vr::S().replay;
    if (r.compare(0, 7, "stream:") == 0) {
      std::vector<int> hs = sq::parse_ops(r.substr(7));
      for (int x : hs)
        if (x < 0 || x >= SO_COUNT) {
          printf("bad op index %d\n", x);
          return 2;
        }
      int res = run_stream(hs, r, true);
      printf("result: %s\n", res == sq::H_OK ? "ok" : res == sq::H_DISABLED ? "history not enabled" : "VIOLATION");
      vr::flush();
      return vr::S().viols.empty() ? 0 : 1;
    }
    size_t sl = r.find('/'), c = r.find(':');
    std::string p = r.substr(0, sl);
    int n = atoi(r.substr(sl + 2, c - sl - 2).c_str());
    std::vector<int> h = sq::parse_ops(r.substr(c + 1));
    for (int x : h)
      if (x < 0 || x >= (p == "reader" ? 14 : 12)) {
        printf("bad op index %d\n", x);
        return 2;
      }
    int res = p == "reader" ? run_reader(n, h, r, true) : run_writer(n, h, r, true);
    printf("result: %s\n", res == sq::H_OK ? "ok" : "VIOLATION");
    vr::flush();
    return vr::S().viols.empty() ? 0 : 1;
  }
  sq::make_scratch();
  if (part == "stream") {
    const int depth = vr::thorough() ? 6 : 5;
    sq::explore_tree(
        "stream", SO_COUNT, depth, 64, [](const std::vector<int> &h, const std::string &rp) { return run_stream(h, rp, false); },
        [](const std::vector<int> &h) { return stream_crash_ctx(h); });
    sq::remove_scratch();
    vr::note("stream: alphabet " + std::to_string((int)SO_COUNT) + ", depth " + std::to_string(depth) + "; a history is not extended after a violation");
    return vr::finish();
  }
  const bool reader = part == "reader";
  const int depth = reader ? (vr::thorough() ? 5 : 4) : (vr::thorough() ? 6 : 4);
  const int A = reader ? 14 : 12;
  for (int n = 0; n <= 6; n++) {
    const std::string tag = (reader ? "reader/N" : "fixedwriter/C") + std::to_string(n);
    if (reader)
      sq::explore_tree(
          tag, A, depth, 16, [n](const std::vector<int> &h, const std::string &rp) { return run_reader(n, h, rp, false); },
          [](const std::vector<int> &h) { return h.empty() ? std::string("BufferReader|crash in setup") : (h.back() < 7 ? "BufferReader::read" : "BufferReader::getView") + std::string("|crash|size ") + SZNAME[h.back() % 7]; });
    else
      sq::explore_tree(
          tag, A, depth, 16, [n](const std::vector<int> &h, const std::string &rp) { return run_writer(n, h, rp, false); },
          [](const std::vector<int> &h) { return h.empty() ? std::string("FixedBufferWriter|crash in setup") : (writer_is_reserve(h.back()) ? "FixedBufferWriter::reserve" : "FixedBufferWriter::write") + std::string("|crash|size ") + writer_szname(h.back()); });
  }
  sq::remove_scratch();
  vr::note(part + ": alphabet " + std::to_string(A) + ", depth " + std::to_string(depth) + ", buffer sizes 0..6; a history is not extended after a violation");
  vr::sample(reader ? "reader/N3:2.10.4 = BufferReader over 3 bytes; read(2); getView<uint8_t>(remaining); read(remaining+1)" : "fixedwriter/C3:1.6.0 = FixedBufferWriter(3); write(1); reserve(2); write(0)");
  return vr::finish();
}
