// Reference model of three Optional slots and the operation alphabet.  Nothing in here knows
// anything about rkcommon: a slot is {present, engaged, which value}.
//
// Mutators (a = slot, b = argument):
//   dc a      default-construct into the lowest absent slot a
//   vc a k    construct from value val(k), k in {0,1}
//   cc a j    copy-construct from slot j           mc a j   move-construct from slot j
//   xc a s    converting copy-construct from Optional<U>, s=0 empty / s=1 engaged(uval)
//   xm a s    converting move-construct
//   de a      destroy
//   av a k    assign value (k=0: from a const lvalue, k=1: from an rvalue)
//   em a k    emplace(val(k))                      rs a     reset()
//   ca a j    copy-assign from slot j (j == a: self-assignment)
//   ma a j    move-assign from slot j (j != a)
//   xa a s    converting copy-assign from Optional<U>   xv a s   converting move-assign
//   da a      *o = val(2) (needs an engaged slot)
// Observers (explored in final position only; after them the full state is compared again):
//   vo a      value_or(val(2))        dr a   operator* / operator-> / value() (engaged only)
//   cm a j    == != < <= > >= between slots a and j (all ordered pairs, j == a included)
//   cx a s    the six comparisons against an Optional<U> (empty / engaged)
//   ts a      toString()
#pragma once
#include "C09_common.h"

namespace c09 {

struct MSlot
{
  bool present = false, eng = false;
  int k = -1;  // value index; -1 while engaged = moved-from, value unspecified
};
struct Model
{
  MSlot s[3];
};

inline bool is_observer(const Op &o)
{
  return is(o, "vo") || is(o, "dr") || is(o, "cm") || is(o, "cx") || is(o, "ts");
}
inline bool is_construct(const Op &o)
{
  return is(o, "dc") || is(o, "vc") || is(o, "cc") || is(o, "mc") || is(o, "xc") || is(o, "xm");
}

inline void enabled_ops(const Model &m, bool observers, std::vector<Op> &out)
{
  out.clear();
  int t = -1;
  for (int i = 2; i >= 0; i--)
    if (!m.s[i].present)
      t = i;
  if (t >= 0) {
    out.push_back(mk("dc", t));
    out.push_back(mk("vc", t, 0));
    out.push_back(mk("vc", t, 1));
    for (int j = 0; j < 3; j++)
      if (m.s[j].present) {
        out.push_back(mk("cc", t, j));
        out.push_back(mk("mc", t, j));
      }
    for (int s = 0; s < 2; s++) {
      out.push_back(mk("xc", t, s));
      out.push_back(mk("xm", t, s));
    }
  }
  for (int i = 0; i < 3; i++) {
    if (!m.s[i].present)
      continue;
    out.push_back(mk("rs", i));
    for (int k = 0; k < 2; k++) {
      out.push_back(mk("av", i, k));
      out.push_back(mk("em", i, k));
    }
    for (int j = 0; j < 3; j++)
      if (m.s[j].present) {
        out.push_back(mk("ca", i, j));
        if (j != i)
          out.push_back(mk("ma", i, j));
      }
    for (int s = 0; s < 2; s++) {
      out.push_back(mk("xa", i, s));
      out.push_back(mk("xv", i, s));
    }
    if (m.s[i].eng)
      out.push_back(mk("da", i));
    out.push_back(mk("de", i));
  }
  if (!observers)
    return;
  for (int i = 0; i < 3; i++) {
    if (!m.s[i].present)
      continue;
    out.push_back(mk("vo", i));
    if (m.s[i].eng && m.s[i].k >= 0)
      out.push_back(mk("dr", i));
    for (int j = 0; j < 3; j++)
      if (m.s[j].present)
        out.push_back(mk("cm", i, j));
    out.push_back(mk("cx", i, 0));
    out.push_back(mk("cx", i, 1));
    out.push_back(mk("ts", i));
  }
}

// is the operation applicable in this model state (used to validate replay strings)
inline bool op_enabled(const Model &m, const Op &o)
{
  std::vector<Op> e;
  enabled_ops(m, true, e);
  for (auto &x : e)
    if (is(x, o.kind) && x.a == o.a && x.b == o.b)
      return true;
  return false;
}

inline void model_apply(Model &m, const Op &o)
{
  MSlot &d = m.s[o.a];
  if (is(o, "dc")) {
    d.present = true;
    d.eng = false;
    d.k = -1;
  } else if (is(o, "vc") || is(o, "av") || is(o, "em")) {
    d.present = true;
    d.eng = true;
    d.k = o.b;
  } else if (is(o, "cc") || is(o, "ca")) {
    MSlot src = m.s[o.b];
    d.present = true;
    d.eng = src.eng;
    d.k = src.eng ? src.k : -1;
  } else if (is(o, "mc") || is(o, "ma")) {
    MSlot &src = m.s[o.b];
    d.present = true;
    d.eng = src.eng;
    d.k = src.eng ? src.k : -1;
    if (src.eng)
      src.k = -1;  // moved-from: still holds a (valid but unspecified) value
  } else if (is(o, "xc") || is(o, "xm") || is(o, "xa") || is(o, "xv")) {
    d.present = true;
    d.eng = o.b == 1;
    d.k = o.b == 1 ? 3 : -1;
  } else if (is(o, "de")) {
    d.present = false;
    d.eng = false;
    d.k = -1;
  } else if (is(o, "rs")) {
    d.eng = false;
    d.k = -1;
  } else if (is(o, "da")) {
    d.k = 2;
  }
  // observers leave the model unchanged
}

// equivalence class of an operation for signatures: the operation plus the engaged/empty
// state of its destination and source *before* it runs
inline std::string op_class(const Model &m, const Op &o)
{
  auto st = [&](int i) { return std::string(m.s[i].eng ? "engaged" : "empty"); };
  static const struct { const char *k, *n; } names[] = {{"dc", "default-construct"}, {"vc", "construct-from-value"},
      {"cc", "copy-construct"}, {"mc", "move-construct"}, {"xc", "converting-copy-construct"}, {"xm", "converting-move-construct"},
      {"de", "destroy"}, {"av", "assign-value"}, {"em", "emplace"}, {"rs", "reset"}, {"ca", "copy-assign"}, {"ma", "move-assign"},
      {"xa", "converting-copy-assign"}, {"xv", "converting-move-assign"}, {"da", "assign-through-operator*"}, {"vo", "value_or"},
      {"dr", "dereference"}, {"cm", "compare"}, {"cx", "compare-with-Optional<U>"}, {"ts", "toString"}};
  std::string n = o.kind;
  for (auto &e : names)
    if (is(o, e.k))
      n = e.n;
  if (is(o, "cc") || is(o, "mc"))
    return n + "(from " + st(o.b) + ")";
  if (is(o, "xc") || is(o, "xm"))
    return n + "(from " + (o.b ? "engaged" : "empty") + ")";
  if (is(o, "ca") || is(o, "ma"))
    return n + "(" + st(o.a) + " <- " + (o.a == o.b ? "itself" : st(o.b)) + ")";
  if (is(o, "xa") || is(o, "xv"))
    return n + "(" + st(o.a) + " <- " + (o.b ? "engaged" : "empty") + ")";
  if (is(o, "cm"))
    return n + "(" + st(o.a) + ", " + (o.a == o.b ? "itself" : st(o.b)) + ")";
  if (is(o, "cx"))
    return n + "(" + st(o.a) + ", " + (o.b ? "engaged" : "empty") + ")";
  if (is(o, "dc") || is(o, "vc"))
    return n;
  return n + "(" + st(o.a) + ")";
}

}  // namespace c09
