// C09: Optional explorer instantiated for one over-aligned payload / layout (own translation unit).
#include "C09_optexplore.h"
namespace c09 {
PayloadEntry entry_a64off()
{
  return Explorer<PAligned<64>, 1>::entry("Align64@off");  // must equal Explorer::pname()
}
}  // namespace c09
