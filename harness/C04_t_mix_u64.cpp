// C04: instantiates the "mix" families for element type uint64_t (see C04_groups.h)
#include "C04_groups.h"
void c04_reg_mix_u64(c04::Reg &r)
{
  c04::reg_mix<uint64_t>(r);
}
