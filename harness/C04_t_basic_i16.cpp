// C04: instantiates the "basic" families for element type int16_t (see C04_groups.h)
#include "C04_groups.h"
void c04_reg_basic_i16(c04::Reg &r)
{
  c04::reg_basic<int16_t>(r);
}
