// C06 part 1: identities over the matrix grid (LinearSpace2f/3f/3fa, AffineSpace2f/3f/3fa).
#pragma once
#include "C06_common.h"

static const LD KAPPA_MAX = 64;

struct Pre
{
  ref::M A, Ainv;
  LD kappa, fA, fAinv;
};
// 0 = kept, 1 = singular, 2 = condition number > 64
inline int prepare(const ref::M &A, Pre &p)
{
  if (ref::det(A) == 0)  // entries are small dyadic numbers: exact in long double
    return 1;
  if (!ref::inverse(A, p.Ainv))
    return 1;
  p.kappa = ref::cond2(A);
  if (!(p.kappa <= KAPPA_MAX))
    return 2;
  p.A = A;
  p.fA = ref::fro(A);
  p.fAinv = ref::fro(p.Ainv);
  return 0;
}
inline ref::M mat_from(int n, const LD *e)  // row-major entries
{
  ref::M A = ref::zero(n);
  for (int r = 0; r < n; r++)
    for (int c = 0; c < n; c++)
      A.a[r][c] = e[r * n + c];
  return A;
}

struct Partner
{
  Pre pre;
  ref::V t;
};
// fixed partner maps: well conditioned, all entries of a row/column distinguishable
inline std::vector<Partner> partners(int n)
{
  static const LD P3[4][12] = {{1, 2, -0.5L, 0, 1, 2, -1, 0.5L, 1, 1, -2, 3},
      {2, -1, 0, 0.5L, 1, -2, 1, 0, 0.5L, 3, 0, -2},
      {0, 1, -2, 2, 0.5L, 0, -1, 1, 1, -2, 1, 0},
      {-1, 0.5L, 1, 1, 2, -0.5L, 0, -2, 1, 0, 3, 1}};
  static const LD P2[4][6] = {{1, 2, -0.5L, 1, 1, -2}, {2, -1, 0.5L, 1, 3, 0}, {0, 1, -2, 0.5L, -2, 1}, {-1, 0.5L, 1, 2, 0, 3}};
  std::vector<Partner> out;
  for (int k = 0; k < 4; k++) {
    Partner p;
    const LD *e = n == 3 ? P3[k] : P2[k];
    int why = prepare(mat_from(n, e), p.pre);
    if (why != 0) {
      fprintf(stderr, "C06: partner %d of dimension %d is not well conditioned (%d)\n", k, n, why);
      exit(3);
    }
    p.t = n == 3 ? ref::vec(e[9], e[10], e[11]) : ref::vec(e[4], e[5], 0);
    out.push_back(p);
  }
  return out;
}
inline const ref::V *points(int n)
{
  static const ref::V P3[2] = {ref::vec(1, -2, 3), ref::vec(3, 1, -2)};
  static const ref::V P2[2] = {ref::vec(1, -2, 0), ref::vec(3, 1, 0)};
  return n == 3 ? P3 : P2;
}

inline ref::M rowsM(const LinearSpace2f &m)
{
  ref::M o = ref::zero(2);
  ref::V r0 = rv(m.row0()), r1 = rv(m.row1());
  for (int c = 0; c < 2; c++)
    o.a[0][c] = r0.v[c], o.a[1][c] = r1.v[c];
  return o;
}
template <class V3>
inline ref::M rowsM(const LinearSpace3<V3> &m)
{
  ref::M o = ref::zero(3);
  ref::V r0 = rv(m.row0()), r1 = rv(m.row1()), r2 = rv(m.row2());
  for (int c = 0; c < 3; c++)
    o.a[0][c] = r0.v[c], o.a[1][c] = r1.v[c], o.a[2][c] = r2.v[c];
  return o;
}

// ---------------------------------------------------------------- one matrix
template <class L>
inline void check_linear(Rep &R, const Case &c, const Pre &a)
{
  typedef typename L::Scalar S;
  const int n = a.A.n;
  const L m = mk<L>(a.A);
  const ref::M I = ref::ident(n);
  R.states++;
  const L inv = m.inverse();
  R.outcome(hbits(inv));
  const LD t1 = tolr<S>(a.kappa, 1);
  R.cmpM(c, "M*inverse(M)=I", "", rm(m * inv), I, t1);
  R.cmpM(c, "inverse(M)*M=I", "", rm(inv * m), I, t1);
  R.cmpM(c, "rcp(M)*M=I", "", rm(rcp(m) * m), I, t1);
  R.cmpM(c, "M/M=I", "", rm(m / m), I, t1);
  R.cmpM(c, "transposed() is the transpose", "", rm(m.transposed()), ref::transp(a.A), tolr<S>(a.kappa, a.fA));
  R.cmpM(c, "adjoint() is the transposed cofactor matrix", "", rm(m.adjoint()), ref::adjugate(a.A), tolr<S>(a.kappa, a.fA * a.fA));
  R.cmpM(c, "row0/row1/row2 are the rows", "", rowsM(m), a.A, tolr<S>(a.kappa, a.fA));
}

// ---------------------------------------------------------------- an ordered pair of matrices
template <class L>
inline void check_pair(Rep &R, const Case &c, const Pre &a, const Pre &b)
{
  typedef typename L::Scalar S;
  typedef typename L::Vector V;
  const int n = a.A.n;
  const L ma = mk<L>(a.A), mb = mk<L>(b.A);
  const L ab = ma * mb;
  R.states++;
  LD dscale = ref::perm_abs(ref::mul(ref::absm(a.A), ref::absm(b.A))) + ref::perm_abs(a.A) * ref::perm_abs(b.A);
  R.cmpS(c, "det(A*B)=det(A)*det(B)", "", (LD)ab.det(), (LD)ma.det() * (LD)mb.det(), tolr<S>(a.kappa, dscale));
  const ref::V *pts = points(n);
  for (int k = 0; k < 2; k++) {
    const V x = Mk<V>::v(pts[k]);
    R.cmpV(c, "(A*B)*x=A*(B*x)", "", rv(ab * x), rv(ma * (mb * x)), n, tolr<S>(a.kappa, a.fA * b.fA * ref::norm(pts[k])));
  }
}

// xfmPoint / xfmVector / xfmNormal of a LinearSpace3
template <class L>
inline void check_linear_xfm(Rep &R, const Case &c, const Pre &a, const Pre &b)
{
  typedef typename L::Scalar S;
  typedef typename L::Vector V;
  const L m = mk<L>(a.A), mb = mk<L>(b.A);
  const ref::V *pts = points(3);
  const ref::M AinvT = ref::transp(a.Ainv);
  for (int k = 0; k < 2; k++) {
    const V x = Mk<V>::v(pts[k]);
    const LD nx = ref::norm(pts[k]);
    R.cmpV(c, "xfmPoint(L,x)=L x", "", rv(xfmPoint(m, x)), ref::app(a.A, pts[k]), 3, tolx<S>(a.kappa, a.fA * nx));
    R.cmpV(c, "xfmVector(L,x)=L x", "", rv(xfmVector(m, x)), ref::app(a.A, pts[k]), 3, tolx<S>(a.kappa, a.fA * nx));
    R.cmpV(c, "xfmNormal(L,x)=inverse-transpose x", "", rv(xfmNormal(m, x)), ref::app(AinvT, pts[k]), 3, tolx<S>(a.kappa, a.fAinv * nx));
    R.cmpV(c, "xfmPoint(A*B,x)=xfmPoint(A,xfmPoint(B,x))", "", rv(xfmPoint(m * mb, x)), rv(xfmPoint(m, xfmPoint(mb, x))), 3,
        tolx<S>(a.kappa, a.fA * b.fA * nx));
  }
}

// ---------------------------------------------------------------- one affine map (and its pairing with the partners)
template <class L>
inline void check_affine(Rep &R, const Case &c, const Pre &a, const ref::V &t, const std::vector<Partner> &ps, int np)
{
  typedef typename L::Scalar S;
  typedef typename L::Vector V;
  typedef AffineSpaceT<L> A;
  const int n = a.A.n;
  const A m(mk<L>(a.A), Mk<V>::v(t));
  const ref::M I = ref::ident(n);
  const ref::V zero = ref::vec(0, 0, 0);
  const LD nt = ref::norm(t);
  R.states++;
  const A inv = rcp(m);
  R.outcome(hbits(inv.p.x, hbits(inv.p.y)));
  const A e1 = inv * m, e2 = m * inv;
  R.cmpM(c, "rcp(A)*A=identity (linear part)", "", rm(e1.l), I, tolr<S>(a.kappa, 1));
  R.cmpV(c, "rcp(A)*A=identity (origin)", "", rv(e1.p), zero, n, tolr<S>(a.kappa, a.fAinv * nt));
  R.cmpM(c, "A*rcp(A)=identity (linear part)", "", rm(e2.l), I, tolr<S>(a.kappa, 1));
  R.cmpV(c, "A*rcp(A)=identity (origin)", "", rv(e2.p), zero, n, tolr<S>(a.kappa, nt));
  const A e3 = m / m;
  R.cmpM(c, "A/A=identity (linear part)", "", rm(e3.l), I, tolr<S>(a.kappa, 1));
  R.cmpV(c, "A/A=identity (origin)", "", rv(e3.p), zero, n, tolr<S>(a.kappa, nt));
  const ref::V *pts = points(n);
  for (int k = 0; k < 2; k++) {
    const V x = Mk<V>::v(pts[k]);
    const LD nx = ref::norm(pts[k]);
    R.cmpV(c, "A applied to a point = L x + p", "", rv(applyA(m, x)), ref::add(ref::app(a.A, pts[k]), t), n, tolx<S>(a.kappa, a.fA * nx + nt));
    // undo: rcp(A) applied to A x is x
    R.cmpV(c, "rcp(A) applied to (A applied to x) = x", "", rv(applyA(inv, applyA(m, x))), pts[k], n, tolx<S>(a.kappa, a.fAinv * (a.fA * nx + nt)));
    for (int j = 0; j < np && j < (int)ps.size(); j++) {
      const Pre &b = ps[j].pre;
      const A mb(mk<L>(b.A), Mk<V>::v(ps[j].t));
      const LD ns = ref::norm(ps[j].t);
      R.cmpV(c, "(A*B) applied to x = A applied to (B applied to x)", "", rv(applyA(m * mb, x)), rv(applyA(m, applyA(mb, x))), n,
          tolx<S>(a.kappa, a.fA * (b.fA * nx + ns) + nt));
      R.cmpV(c, "(B*A) applied to x = B applied to (A applied to x)", "", rv(applyA(mb * m, x)), rv(applyA(mb, applyA(m, x))), n,
          tolx<S>(a.kappa, b.fA * (a.fA * nx + nt) + ns));
    }
  }
}
// xfmPoint / xfmVector / xfmNormal of a 3D AffineSpace
template <class L>
inline void check_affine_xfm(Rep &R, const Case &c, const Pre &a, const ref::V &t)
{
  typedef typename L::Scalar S;
  typedef typename L::Vector V;
  typedef AffineSpaceT<L> A;
  const A m(mk<L>(a.A), Mk<V>::v(t));
  const ref::V *pts = points(3);
  const ref::M AinvT = ref::transp(a.Ainv);
  const LD nt = ref::norm(t);
  for (int k = 0; k < 2; k++) {
    const V x = Mk<V>::v(pts[k]);
    const LD nx = ref::norm(pts[k]);
    R.cmpV(c, "xfmPoint(A,x)=L x + p", "", rv(xfmPoint(m, x)), ref::add(ref::app(a.A, pts[k]), t), 3, tolx<S>(a.kappa, a.fA * nx + nt));
    R.cmpV(c, "xfmVector(A,x)=L x", "", rv(xfmVector(m, x)), ref::app(a.A, pts[k]), 3, tolx<S>(a.kappa, a.fA * nx));
    R.cmpV(c, "xfmNormal(A,x)=inverse-transpose of L applied to x", "", rv(xfmNormal(m, x)), ref::app(AinvT, pts[k]), 3, tolx<S>(a.kappa, a.fAinv * nx));
  }
}

// ---------------------------------------------------------------- LinearSpace2f::orthogonal()
// "closest orthogonal matrix (a general rotation including reflection)": Q is orthogonal, keeps the
// orientation of M, and Q^T M is symmetric positive definite (the polar decomposition M = Q S, which
// characterises the closest orthogonal matrix in the Frobenius norm).
inline void check_orthogonal2(Rep &R, const Case &c, const Pre &a)
{
  const LinearSpace2f m = mk<LinearSpace2f>(a.A);
  const LinearSpace2f q = m.orthogonal();
  R.states++;
  R.outcome(hbits(q));
  const ref::M Q = rm(q);
  R.cmpM(c, "orthogonal(): Q^T Q = I", "", ref::mul(ref::transp(Q), Q), ref::ident(2), tolr<float>(a.kappa, 1));
  LD dq = ref::det(Q), dm = ref::det(a.A);
  char b[96];
  snprintf(b, sizeof b, "det(Q)=%.6Lg det(M)=%.6Lg", dq, dm);
  R.holds(c, "orthogonal(): keeps the orientation of M", "", (dq > 0) == (dm > 0), b);
  const ref::M Sm = ref::mul(ref::transp(Q), a.A);
  R.cmpS(c, "orthogonal(): Q^T M is symmetric (Q is the polar factor)", "", Sm.a[0][1], Sm.a[1][0], tolr<float>(a.kappa, a.fA));
  snprintf(b, sizeof b, "trace(Q^T M)=%.6Lg det(Q^T M)=%.6Lg", Sm.a[0][0] + Sm.a[1][1], ref::det(Sm));
  R.holds(c, "orthogonal(): Q^T M is positive definite (Q is the closest, not the farthest)", "", Sm.a[0][0] + Sm.a[1][1] > 0 && ref::det(Sm) > 0, b);
}

// ---------------------------------------------------------------- scale / translate
template <class L>
inline void check_scale_translate(Rep &R, const Case &c, const ref::V &s)
{
  typedef typename L::Scalar S;
  typedef typename L::Vector V;
  typedef AffineSpaceT<L> A;
  const int n = Nm<L>::dim();
  const V sv = Mk<V>::v(s);
  R.states++;
  ref::M D = ref::zero(n);
  for (int i = 0; i < n; i++)
    D.a[i][i] = s.v[i];
  const ref::V zero = ref::vec(0, 0, 0);
  const LD t = tolr<S>(1, ref::norm(s));
  R.cmpM(c, "L::scale(s) has the axes s_i e_i", "", rm(L::scale(sv)), D, t);
  const A as = A::scale(sv);
  R.cmpM(c, "A::scale(s) has the axes s_i e_i", "", rm(as.l), D, t);
  R.cmpV(c, "A::scale(s) keeps the origin", "", rv(as.p), zero, n, t);
  const A at = A::translate(sv);
  R.cmpM(c, "A::translate(t) has the identity as linear part", "", rm(at.l), ref::ident(n), t);
  R.cmpV(c, "A::translate(t) moves the origin to t", "", rv(at.p), s, n, t);
  const ref::V *pts = points(n);
  for (int k = 0; k < 2; k++) {
    const V x = Mk<V>::v(pts[k]);
    R.cmpV(c, "A::translate(t) applied to x = x + t", "", rv(applyA(at, x)), ref::add(pts[k], s), n, tolx<S>(1, ref::norm(s) + ref::norm(pts[k])));
    ref::V sx = ref::vec(s.v[0] * pts[k].v[0], s.v[1] * pts[k].v[1], n == 3 ? s.v[2] * pts[k].v[2] : 0);
    R.cmpV(c, "A::scale(s) applied to x = s_i x_i", "", rv(applyA(as, x)), sx, n, tolx<S>(1, ref::norm(s) * ref::norm(pts[k])));
  }
  R.outcome(hbits(at.p.x, hbits(as.l.vx.x)));
}
