// C04: instantiates the "basic" families for element type float (see C04_groups.h)
#include "C04_groups.h"
void c04_reg_basic_f32(c04::Reg &r)
{
  c04::reg_basic<float>(r);
}
