// C11 unit "fixed": every history over FixedArray<T> handles, FixedArrayView<T> slots and sources.
//
// Model: a FixedArray object designates a shared buffer (copies share it, like the shared_ptr the
// class documents); a FixedArrayView keeps "the data alive for the view's lifetime" (class comment),
// so the model lets it hold the buffer it was created on.  A view is therefore still read after the
// handle it was made from has been dropped, and after its FixedArray has been re-assigned.
#include "C11_common.h"

using namespace c11;

// environment deviation: the next array allocation fails.  Only operator new[] is replaced (the array wrappers
// allocate their buffers with new T[n]); both it and its delete go to malloc/free, so the pairing stays consistent.
static int g_fail_array_new = 0;
void *operator new[](size_t n)
{
  if (g_fail_array_new > 0 && --g_fail_array_new == 0)
    throw std::bad_alloc();
  void *p = malloc(n ? n : 1);
  if (!p)
    throw std::bad_alloc();
  return p;
}
void operator delete[](void *p) noexcept { free(p); }
void operator delete[](void *p, size_t) noexcept { free(p); }

enum Code
{
  S_SET,
  S_POKE,
  S_KILL,
  A_POKE,
  F_DEF,
  F_SIZE,
  F_PTR,
  F_NULL,
  F_VEC,
  F_ARR,
  F_ASSIGN_VEC,
  F_ASSIGN_ARR,
  F_ASSIGN_VEC_NOMEM,  // *P = S with the array allocation inside the call failing (std::bad_alloc): the array stays alive and valid
  F_COPY_CTOR,
  F_COPY_ASSIGN,
  F_SELF_ASSIGN,     // *P = *P
  F_ASSIGN_OWNVEC,   // std::vector<T> v(P->begin()+1, P->end()); *P = v   (a vector built over its own data)
  F_PTR_OWN,         // P = make_shared<FixedArray>(P->data()+1, size-1)   (built from a range of the array it replaces)
  F_PTR_OTHER,       // P = make_shared<FixedArray>(other->data()+1, othersize-1)
  F_WRITE,
  F_DROP,
  W_DEF,
  W_MAKE,
  W_COPY_CTOR,
  W_COPY_ASSIGN,
  W_ASSIGN_SUB,      // *W = FixedArrayView(P, off+1, n-1) where W already views P
  W_WRITE,
  W_DESTROY
};

struct Op
{
  Code code;
  int slot, a, b;
  std::string name, cls;
};

static std::vector<Op> make_ops()
{
  std::vector<Op> o;
  auto add = [&](Code c, int slot, int a, int b, const std::string &n, const std::string &cls) {
    Op x;
    x.code = c;
    x.slot = slot;
    x.a = a;
    x.b = b;
    x.name = n;
    x.cls = cls;
    o.push_back(x);
  };
  const char *var[3] = {"(data,size)", "(data+1,size-1)", "(data,0)"};
  const char *sub[3] = {"0,size", "1,size-1", "size,0"};
  add(F_DEF, 0, 0, 0, "P0 = make_shared<FixedArray>()", "FixedArray()");
  add(F_SIZE, 0, 2, 0, "P0 = make_shared<FixedArray>(2)", "FixedArray(size_t)");
  add(F_PTR, 0, 0, 0, std::string("P0 = make_shared<FixedArray> S0") + var[0], "FixedArray(T*,size_t)");
  add(F_PTR, 0, 0, 1, std::string("P0 = make_shared<FixedArray> S0") + var[1], "FixedArray(T*,size_t)");
  add(F_NULL, 0, 0, 0, "P0 = make_shared<FixedArray>(nullptr,0)", "FixedArray(T*,size_t)");
  add(F_NULL, 0, 2, 0, "P0 = make_shared<FixedArray>(nullptr,2)", "FixedArray(T*,size_t)");
  add(F_VEC, 0, 0, 0, "P0 = make_shared<FixedArray>(S0)", "FixedArray(vector&)");
  add(F_VEC, 0, 1, 0, "P0 = make_shared<FixedArray>(S1)", "FixedArray(vector&)");
  add(F_ARR, 0, 0, 0, "P0 = make_shared<FixedArray>(arr)", "FixedArray(array&)");
  add(F_ASSIGN_VEC, 0, 0, 0, "*P0 = S0", "operator=(vector&)");
  add(F_ASSIGN_VEC, 0, 1, 0, "*P0 = S1", "operator=(vector&)");
  add(F_ASSIGN_ARR, 0, 0, 0, "*P0 = arr", "operator=(array&)");
  add(F_ASSIGN_VEC_NOMEM, 0, 1, 0, "*P0 = S1 [operator new[] fails]", "operator=(vector&) with a failing allocation");
  add(F_COPY_CTOR, 0, 1, 0, "P0 = make_shared<FixedArray>(*P1)", "copy constructor");
  add(F_COPY_ASSIGN, 0, 1, 0, "*P0 = *P1", "copy assignment");
  add(F_SELF_ASSIGN, 0, 0, 0, "*P0 = *P0", "copy assignment");
  add(F_ASSIGN_OWNVEC, 0, 0, 0, "vector v(P0->begin()+1, P0->end()); *P0 = v", "operator=(vector&) with a vector built over its own data");
  add(F_PTR_OWN, 0, 0, 0, "P0 = make_shared<FixedArray>(P0->data()+1, size-1)", "FixedArray(T*,size_t) with a range inside the array it replaces");
  add(F_PTR_OTHER, 0, 1, 0, "P0 = make_shared<FixedArray>(P1->data()+1, P1 size-1)", "FixedArray(T*,size_t) with a range inside another FixedArray");
  add(F_WRITE, 0, 0, 0, "(*P0)[size-1] = fresh", "element write");
  add(F_DROP, 0, 0, 0, "P0.reset()", "handle dropped");
  add(F_VEC, 1, 1, 0, "P1 = make_shared<FixedArray>(S1)", "FixedArray(vector&)");
  add(F_SIZE, 1, 2, 0, "P1 = make_shared<FixedArray>(2)", "FixedArray(size_t)");
  add(F_COPY_CTOR, 1, 0, 0, "P1 = make_shared<FixedArray>(*P0)", "copy constructor");
  add(F_COPY_ASSIGN, 1, 0, 0, "*P1 = *P0", "copy assignment");
  add(F_ASSIGN_VEC, 1, 0, 0, "*P1 = S0", "operator=(vector&)");
  add(F_WRITE, 1, 0, 0, "(*P1)[size-1] = fresh", "element write");
  add(F_DROP, 1, 0, 0, "P1.reset()", "handle dropped");
  add(W_DEF, 0, 0, 0, "W0 = new FixedArrayView()", "FixedArrayView()");
  for (int p = 0; p < 2; p++)
    for (int b = 0; b < (p ? 2 : 3); b++)
      add(W_MAKE, 0, p, b, "W0 = new FixedArrayView(P" + std::to_string(p) + "," + sub[b] + ")", "FixedArrayView(shared_ptr&,offset,size)");
  add(W_COPY_ASSIGN, 0, 1, 0, "*W0 = *W1", "view copy assignment");
  add(W_ASSIGN_SUB, 0, 0, 0, "*W0 = FixedArrayView(its array, off+1, n-1)", "view re-assigned onto a sub-range of the array it views");
  add(W_WRITE, 0, 0, 0, "(*W0)[0] = fresh", "write through view");
  add(W_DESTROY, 0, 0, 0, "delete W0", "view destructor");
  add(W_MAKE, 1, 0, 0, std::string("W1 = new FixedArrayView(P0,") + sub[0] + ")", "FixedArrayView(shared_ptr&,offset,size)");
  add(W_COPY_CTOR, 1, 0, 0, "W1 = new FixedArrayView(*W0)", "view copy constructor");
  add(W_WRITE, 1, 0, 0, "(*W1)[0] = fresh", "write through view");
  add(W_DESTROY, 1, 0, 0, "delete W1", "view destructor");
  add(S_SET, 0, 0, 0, "S0 := fresh buffer of 0", "source replaced");
  add(S_SET, 0, 4, 0, "S0 := fresh buffer of 4", "source replaced");
  add(S_POKE, 0, 0, 0, "S0.back() = fresh", "source written");
  add(S_KILL, 0, 0, 0, "delete S0", "source destroyed");
  add(S_POKE, 1, 0, 0, "S1.back() = fresh", "source written");
  add(S_KILL, 1, 0, 0, "delete S1", "source destroyed");
  add(A_POKE, 0, 0, 0, "arr[2] = fresh", "source written");
  return o;
}

static const std::vector<Op> &OPS()
{
  static std::vector<Op> o = make_ops();
  return o;
}

// ---- model
struct MBuf
{
  std::vector<LL> c;
};
struct MObj  // one FixedArray object
{
  std::shared_ptr<MBuf> buf;
  size_t n = 0;
  const char *role = "";
  bool default_like = false;
};
struct MFView
{
  bool live = false;
  std::shared_ptr<MObj> obj;   // the array it was made on (kept alive by the view)
  std::shared_ptr<MBuf> buf;   // the data it was made on
  size_t off = 0, n = 0;
  bool default_like = false;
};

static const char *RF_BUILT = "built from a size or a source";
static const char *RF_COPY = "copy of another FixedArray";
static const char *RV_PLAIN = "its FixedArray alive and not re-assigned";
static const char *RV_DROPPED = "the shared_ptr it was made from was destroyed";
static const char *RV_REASSIGNED = "its FixedArray was re-assigned while the view is alive";
static const char *RV_DEFAULT = "default constructed";

template <typename T>
struct World
{
  Sources<T> S;
  std::shared_ptr<FixedArray<T>> P[2];
  FixedArrayView<T> *W[2];
  std::shared_ptr<MObj> MP[2];
  MFView MW[2];
  bool touchedP[2], touchedW[2];

  World()
  {
    W[0] = W[1] = nullptr;
  }
  ~World()
  {
    delete W[0];
    delete W[1];
  }
  static const char *kind() { return "FixedArray"; }
  static const std::vector<OpInfo> &ops()
  {
    static std::vector<OpInfo> v;
    if (v.empty())
      for (auto &o : OPS()) {
        OpInfo i;
        i.name = o.name;
        i.cls = o.cls;
        v.push_back(i);
      }
    return v;
  }

  bool ptr_variant(int k, int b, T *&p, size_t &off, size_t &n)
  {
    if (!S.alive[k])
      return false;
    size_t sz = S.size(k);
    if (b == 0) {
      off = 0;
      n = sz;
    } else if (b == 1) {
      if (sz < 1)
        return false;
      off = 1;
      n = sz - 1;
    } else {
      off = 0;
      n = 0;
    }
    p = S.data(k) + off;
    return true;
  }

  static std::shared_ptr<MObj> mobj(const std::vector<LL> &c, const char *role)
  {
    std::shared_ptr<MObj> o = std::make_shared<MObj>();
    o->buf = std::make_shared<MBuf>();
    o->buf->c = c;
    o->n = c.size();
    o->role = role;
    return o;
  }
  // in-place re-assignment of the object: a new buffer; views keep the old one
  static void reassign(MObj &o, const std::vector<LL> &c)
  {
    o.buf = std::make_shared<MBuf>();
    o.buf->c = c;
    o.n = c.size();
    o.role = RF_BUILT;
    o.default_like = false;
  }
  // Copies of a FixedArray share their buffer on the pinned tree (shared_ptr member).  The statement does
  // not say whether a copy sees later writes to the original, so a write is not in the alphabet while
  // two different FixedArray objects designate the buffer (views onto the same object do alias it).
  bool shared_between_arrays(const std::shared_ptr<MBuf> &b) const
  {
    const MObj *first = nullptr;
    const MObj *objs[4] = {MP[0].get(), MP[1].get(), MW[0].live ? MW[0].obj.get() : nullptr, MW[1].live ? MW[1].obj.get() : nullptr};
    for (const MObj *o : objs) {
      if (!o || o->buf != b)
        continue;
      if (first && first != o)
        return true;
      first = o;
    }
    return false;
  }
  std::vector<LL> src_range(int k, size_t off, size_t n) const { return std::vector<LL>(S.mv[k].begin() + off, S.mv[k].begin() + off + n); }

  bool apply(int opIndex)
  {
    const Op &op = OPS()[opIndex];
    const int s = op.slot;
    touchedP[0] = touchedP[1] = touchedW[0] = touchedW[1] = false;
    if (op.code >= F_DEF && op.code <= F_DROP) {
      touchedP[s] = true;
      if (op.code == F_COPY_CTOR || op.code == F_COPY_ASSIGN || op.code == F_PTR_OTHER)
        touchedP[op.a] = true;
    } else if (op.code >= W_DEF) {
      touchedW[s] = true;
      if (op.code == W_COPY_CTOR || op.code == W_COPY_ASSIGN)
        touchedW[op.a] = true;
    }
    T *p = nullptr;
    size_t off = 0, n = 0;
    switch (op.code) {
    case S_SET:
      S.set(s, (size_t)op.a);
      return true;
    case S_POKE:
      if (!S.can_poke(s))
        return false;
      S.poke(s);
      return true;
    case S_KILL:
      if (!S.alive[s])
        return false;
      S.kill(s);
      return true;
    case A_POKE:
      S.poke_arr();
      return true;
    case F_DEF:
      P[s] = std::make_shared<FixedArray<T>>();
      MP[s] = mobj(std::vector<LL>(), RF_BUILT);
      MP[s]->default_like = true;
      return true;
    case F_SIZE:
      P[s] = std::make_shared<FixedArray<T>>((size_t)op.a);
      MP[s] = mobj(std::vector<LL>((size_t)op.a, UNKNOWN), RF_BUILT);
      return true;
    case F_PTR:
      if (!ptr_variant(op.a, op.b, p, off, n))
        return false;
      P[s] = std::make_shared<FixedArray<T>>(p, n);
      MP[s] = mobj(src_range(op.a, off, n), RF_BUILT);
      return true;
    case F_NULL:
      P[s] = std::make_shared<FixedArray<T>>((T *)nullptr, (size_t)op.a);
      MP[s] = mobj(std::vector<LL>((size_t)op.a, UNKNOWN), RF_BUILT);
      return true;
    case F_VEC:
      if (!S.alive[op.a])
        return false;
      P[s] = std::make_shared<FixedArray<T>>(*S.v[op.a]);
      MP[s] = mobj(S.mv[op.a], RF_BUILT);
      return true;
    case F_ARR:
      P[s] = std::make_shared<FixedArray<T>>(*S.arr);
      MP[s] = mobj(S.marr, RF_BUILT);
      return true;
    case F_ASSIGN_VEC:
      if (!MP[s] || !S.alive[op.a])
        return false;
      *P[s] = *S.v[op.a];
      reassign(*MP[s], S.mv[op.a]);
      return true;
    case F_ASSIGN_VEC_NOMEM: {
      if (!MP[s] || !S.alive[op.a])
        return false;
      bool threw = false;
      g_fail_array_new = 1;
      try {
        *P[s] = *S.v[op.a];
      } catch (const std::bad_alloc &) {
        threw = true;
      }
      const bool consumed = g_fail_array_new == 0;
      g_fail_array_new = 0;
      if (!consumed || !threw)  // the call did not allocate an array (or swallowed the failure): it was an ordinary assignment
        reassign(*MP[s], S.mv[op.a]);
      // otherwise nothing was assigned: the array is as before (what the check compares it with)
      return true;
    }
    case F_ASSIGN_ARR:
      if (!MP[s])
        return false;
      *P[s] = *S.arr;
      reassign(*MP[s], S.marr);
      return true;
    case F_COPY_CTOR: {
      const int o = op.a;
      if (!MP[o])
        return false;
      P[s] = std::make_shared<FixedArray<T>>(*P[o]);
      std::shared_ptr<MObj> m = std::make_shared<MObj>(*MP[o]);  // shares the buffer
      m->role = RF_COPY;
      m->default_like = false;
      MP[s] = m;
      return true;
    }
    case F_COPY_ASSIGN: {
      const int o = op.a;
      if (!MP[s] || !MP[o])
        return false;
      *P[s] = *P[o];
      MP[s]->buf = MP[o]->buf;
      MP[s]->n = MP[o]->n;
      MP[s]->role = RF_COPY;
      MP[s]->default_like = false;
      return true;
    }
    case F_SELF_ASSIGN:
      if (!MP[s])
        return false;
      *P[s] = *P[s];
      return true;
    case F_ASSIGN_OWNVEC: {
      if (!MP[s] || MP[s]->n == 0)
        return false;
      std::vector<T> v(P[s]->begin() + 1, P[s]->end());
      std::vector<LL> c(MP[s]->buf->c.begin() + 1, MP[s]->buf->c.begin() + MP[s]->n);
      *P[s] = v;
      reassign(*MP[s], c);
      return true;
    }
    case F_PTR_OWN:
    case F_PTR_OTHER: {
      const int o = op.code == F_PTR_OWN ? s : op.a;
      if (!MP[o] || MP[o]->n == 0)
        return false;
      std::vector<LL> c(MP[o]->buf->c.begin() + 1, MP[o]->buf->c.begin() + MP[o]->n);
      P[s] = std::make_shared<FixedArray<T>>(P[o]->data() + 1, c.size());  // built before the old *P[s] is released
      MP[s] = mobj(c, RF_BUILT);
      return true;
    }
    case F_WRITE: {
      if (!MP[s] || MP[s]->n == 0 || shared_between_arrays(MP[s]->buf))
        return false;
      LL x = S.fresh();
      (*P[s])[MP[s]->n - 1] = (T)x;
      MP[s]->buf->c[MP[s]->n - 1] = x;
      return true;
    }
    case F_DROP:
      if (!MP[s])
        return false;
      P[s].reset();
      MP[s].reset();
      return true;
    case W_DEF:
      delete W[s];
      W[s] = new FixedArrayView<T>();
      MW[s] = MFView();
      MW[s].live = true;
      MW[s].default_like = true;
      return true;
    case W_MAKE: {
      const int pi = op.a;
      if (!MP[pi])
        return false;
      const size_t sz = MP[pi]->n;
      if (op.b == 0) {
        off = 0;
        n = sz;
      } else if (op.b == 1) {
        if (sz < 1)
          return false;
        off = 1;
        n = sz - 1;
      } else {
        off = sz;
        n = 0;
      }
      FixedArrayView<T> *nv = new FixedArrayView<T>(P[pi], off, n);
      delete W[s];
      W[s] = nv;
      MW[s] = MFView();
      MW[s].live = true;
      MW[s].obj = MP[pi];
      MW[s].buf = MP[pi]->buf;
      MW[s].off = off;
      MW[s].n = n;
      return true;
    }
    case W_COPY_CTOR: {
      if (!MW[op.a].live)
        return false;
      FixedArrayView<T> *nv = new FixedArrayView<T>(*W[op.a]);
      delete W[s];
      W[s] = nv;
      MW[s] = MW[op.a];
      return true;
    }
    case W_COPY_ASSIGN:
      if (!MW[s].live || !MW[op.a].live)
        return false;
      *W[s] = *W[op.a];
      MW[s] = MW[op.a];
      return true;
    case W_ASSIGN_SUB: {
      // only while the array the view was made on is still reachable through a handle and was not
      // re-assigned (otherwise the offset would refer to a different buffer)
      MFView &m = MW[s];
      if (!m.live || m.default_like || m.n == 0 || m.obj->buf != m.buf)
        return false;
      int pi = MP[0] == m.obj ? 0 : MP[1] == m.obj ? 1 : -1;
      if (pi < 0)
        return false;
      *W[s] = FixedArrayView<T>(P[pi], m.off + 1, m.n - 1);
      m.off += 1;
      m.n -= 1;
      return true;
    }
    case W_WRITE: {
      if (!MW[s].live || MW[s].n == 0 || shared_between_arrays(MW[s].buf))
        return false;
      // a write through a view whose array was re-assigned would be a write to freed memory on the
      // pinned tree; the read check of the previous step has already ended such histories
      LL x = S.fresh();
      (*W[s])[0] = (T)x;
      MW[s].buf->c[MW[s].off] = x;
      return true;
    }
    case W_DESTROY:
      if (!MW[s].live)
        return false;
      delete W[s];
      W[s] = nullptr;
      MW[s] = MFView();
      return true;
    }
    return false;
  }

  void check(Checker &c)
  {
    std::string why;
    if (!S.check(why))
      c.fail("FixedArray", "sources", "a source buffer changed without a write to it", why);
    for (int s = 0; s < 2; s++) {
      c.mix((bool)MP[s]);
      if (!MP[s])
        continue;
      Expect<T> e;
      e.kind = "FixedArray";
      e.name = s ? "P1" : "P0";
      e.role = MP[s]->role;
      e.n = MP[s]->n;
      e.want.assign(MP[s]->buf->c.begin(), MP[s]->buf->c.begin() + MP[s]->n);
      e.must_be_null = MP[s]->default_like;
      e.touched = touchedP[s];
      c.wrapper(*P[s], e);
    }
    for (int s = 0; s < 2; s++) {
      c.mix(MW[s].live);
      if (!MW[s].live)
        continue;
      const MFView &m = MW[s];
      Expect<T> e;
      e.kind = "FixedArrayView";
      e.name = s ? "W1" : "W0";
      if (m.default_like)
        e.role = RV_DEFAULT;
      else if (m.obj->buf != m.buf)
        e.role = RV_REASSIGNED;
      else if (MP[0] != m.obj && MP[1] != m.obj)
        e.role = RV_DROPPED;
      else
        e.role = RV_PLAIN;
      e.n = m.n;
      if (m.n)
        e.want.assign(m.buf->c.begin() + m.off, m.buf->c.begin() + m.off + m.n);
      e.must_be_null = m.default_like;
      e.touched = touchedW[s];
      c.wrapper(*W[s], e);
    }
  }
};

int main(int argc, char **argv)
{
  return unit_main<World>("fixed", argc, argv, 4, 5);
}
