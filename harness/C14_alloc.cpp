// C14: aligned allocation returns aligned, usable, correctly released memory.
// Engine seqmc: bounded-exhaustive operation histories executed on the real alignedMalloc /
// alignedFree / AlignedVector code and compared step by step with a boring reference model.
//
// This file is built twice (lib/units_C14.py):
//   unit "mm_asan": no tasking define -> malloc.cpp uses _mm_malloc/_mm_free; ASan+UBSan+LSan
//                   are the memory oracle (extent writable, no double/invalid free, no leak).
//   unit "tbb":     -DRKCOMMON_TASKING_TBB -> scalable_aligned_malloc/free; no interposition
//                   there, so the oracle is pattern + disjointness + scalable_msize + reuse.
//
// Parts (each a declared finite space, enumerated completely):
//   raw-full : every history of exactly D ops (every shorter history is a checked prefix) over
//              {malloc(size in SIZES, align in ALIGNS) into the lowest free of 3 slots,
//               free(slot) for every occupied slot}
//   raw-deep : the same with the reduced alphabet DSIZES x DALIGNS, deeper
//   vec      : AlignedVector<T>, 5 element types, every history of exactly D ops over 11 ops
//   alloc    : aligned_allocator<T>::allocate(n) on a boundary grid of n around max_size()
//   release  : LeakSanitizer check at the end of every shard (mm_asan) / no address-space growth over
//              256 MiB worth of malloc/free cycles (tbb)
#include <initializer_list>
#include <type_traits>
#include "common/vreport.h"

#include "rkcommon/containers/AlignedVector.h"
#include "rkcommon/memory/malloc.h"

#include <algorithm>
#include <stdexcept>
#include <vector>

#if defined(RKCOMMON_TASKING_TBB)
#include "tbb/scalable_allocator.h"
#define BACKEND "tbb"
#else
#define BACKEND "mm"
#endif

#if defined(__has_feature)
#if __has_feature(address_sanitizer)
#define HAVE_ASAN 1
#include <sanitizer/lsan_interface.h>
#endif
#endif

using namespace rkcommon;

static void viol(const std::string &sig, const std::string &replay, const std::string &detail)
{
  vr::violation(sig, replay, detail);
  if (vr::replaying())
    printf("VIOLATED %s :: %s\n", sig.c_str(), detail.c_str());
}

static void set_ctx(const char *s)
{
  vr::Slot *sl = vr::my_slot();
  if (sl)
    snprintf(sl->sig, sizeof sl->sig, "%s", s);
}

// =====================================================================================
// raw alignedMalloc / alignedFree histories
// =====================================================================================
static const size_t SIZES[] = {0, 1, 7, 8, 63, 64, 65, 4095, 4096, 4097};
static const size_t ALIGNS[] = {1, 2, 4, 8, 16, 32, 64, 128, 256, 512, 1024, 2048, 4096};
static const size_t DSIZES[] = {0, 1, 64, 4097};
static const size_t DALIGNS[] = {1, 8, 64, 4096};

struct Alphabet
{
  const char *name;
  std::vector<std::pair<size_t, size_t>> mallocs;  // (size, align)
  int nops() const
  {
    return (int)mallocs.size() + 3;
  }
};

static Alphabet make_alphabet(const char *name, const size_t *sz, int ns, const size_t *al, int na)
{
  Alphabet a;
  a.name = name;
  for (int i = 0; i < ns; i++)
    for (int j = 0; j < na; j++)
      a.mallocs.push_back(std::make_pair(sz[i], al[j]));
  return a;
}

struct Block
{
  unsigned char *p;
  size_t size, align;
  unsigned serial;
  bool occupied;
};

static inline unsigned char pat(unsigned serial, size_t i)
{
  return (unsigned char)(serial * 89u + (unsigned)i * 7u + (unsigned)(i >> 8) * 13u + 1u);
}

static std::string op_text(const Alphabet &A, int op)
{
  char b[64];
  if (op < (int)A.mallocs.size())
    snprintf(b, sizeof b, "m%zua%zu", A.mallocs[op].first, A.mallocs[op].second);
  else
    snprintf(b, sizeof b, "f%d", op - (int)A.mallocs.size());
  return b;
}

static std::string hist_text(const Alphabet &A, const int *ops, int n)
{
  std::string s = "raw:";
  for (int i = 0; i < n; i++)
    s += (i ? "," : "") + op_text(A, ops[i]);
  return s;
}

// verify patterns of all occupied blocks and their pairwise disjointness
static bool verify_blocks(Block *bl, const std::string &replay, const char *after, int step)
{
  bool ok = true;
  for (int s = 0; s < 3; s++) {
    if (!bl[s].occupied || !bl[s].p)
      continue;
    for (size_t i = 0; i < bl[s].size; i++)
      if (bl[s].p[i] != pat(bl[s].serial, i)) {
        char d[256];
        snprintf(d, sizeof d, "step %d (%s): block in slot %d (size %zu align %zu) byte %zu holds %u want %u", step, after, s,
            bl[s].size, bl[s].align, i, bl[s].p[i], pat(bl[s].serial, i));
        viol(std::string(after) + "|another live block lost its fill pattern", replay, d);
        ok = false;
        break;
      }
    for (int t = s + 1; t < 3; t++) {
      if (!bl[t].occupied || !bl[t].p || bl[s].size == 0 || bl[t].size == 0)
        continue;
      uintptr_t a = (uintptr_t)bl[s].p, b = (uintptr_t)bl[t].p;
      if (a < b + bl[t].size && b < a + bl[s].size) {
        char d[256];
        snprintf(d, sizeof d, "step %d (%s): slot %d [%p,+%zu) overlaps slot %d [%p,+%zu)", step, after, s, bl[s].p, bl[s].size, t,
            bl[t].p, bl[t].size);
        viol(std::string(after) + "|live blocks overlap", replay, d);
        ok = false;
      }
    }
  }
  return ok;
}

static long long g_nulls = 0, g_nonnull = 0;

// Executes one history from a state with no live harness blocks.  Returns ops applied.
static int run_raw(const Alphabet &A, const int *ops, int n, const std::string &replay)
{
  Block bl[3];
  memset(bl, 0, sizeof bl);
  unsigned serial = 0;
  uint64_t oh = 1469598103934665603ull;
  const int NM = (int)A.mallocs.size();
  for (int k = 0; k < n; k++) {
    int op = ops[k];
    if (op < NM) {
      int s = 0;
      while (s < 3 && bl[s].occupied)
        s++;
      size_t size = A.mallocs[op].first, align = A.mallocs[op].second;
      set_ctx(align <= 16 ? "alignedMalloc|align<=16" : "alignedMalloc|align>16");
      // both overloads: the untyped one at even steps, the typed template (elements of 1 byte, or of 4 when the size
      // allows) at odd steps - same request, same contract
      unsigned char *p = (k & 1) == 0 ? (unsigned char *)memory::alignedMalloc(size, align)
          : (size % 4 == 0 && size > 0) ? (unsigned char *)memory::alignedMalloc<uint32_t>(size / 4, align)
                                       : memory::alignedMalloc<unsigned char>(size, align);
      bl[s].p = p;
      bl[s].size = size;
      bl[s].align = align;
      bl[s].serial = ++serial;
      bl[s].occupied = true;
      if (vr::replaying())
        printf("step %d: alignedMalloc(%zu, %zu) -> %p (slot %d); want null or a multiple of %zu\n", k, size, align, p, s, align);
      if (!p) {
        g_nulls++;
        oh = vr::fnv("n", 1, oh);
      } else {
        g_nonnull++;
        int tz = 0;
        while (tz < 13 && !(((uintptr_t)p >> tz) & 1))
          tz++;
        oh = vr::fnv(&tz, sizeof tz, oh);
        if ((uintptr_t)p % align != 0) {
          char d[200];
          snprintf(d, sizeof d, "step %d: alignedMalloc(%zu, %zu) returned %p, not a multiple of %zu", k, size, align, p, align);
          viol(std::string("alignedMalloc|pointer is not a multiple of the alignment|") + (align <= 16 ? "align<=16" : "align>16"), replay, d);
        }
#if defined(RKCOMMON_TASKING_TBB)
        size_t usable = scalable_msize(p);
        if (usable < size) {
          char d[200];
          snprintf(d, sizeof d, "step %d: alignedMalloc(%zu, %zu): scalable_msize says %zu usable bytes", k, size, align, usable);
          viol("alignedMalloc|block smaller than the requested size (scalable_msize)", replay, d);
          bl[s].size = usable;  // do not write outside what the allocator gave
        }
#endif
        // the whole extent must be writable (ASan checks every byte in the mm build)
        for (size_t i = 0; i < bl[s].size; i++)
          p[i] = pat(bl[s].serial, i);
      }
      verify_blocks(bl, replay, "alignedMalloc", k);
    } else {
      int s = op - NM;
      set_ctx("alignedFree|slot occupied");
      if (vr::replaying())
        printf("step %d: alignedFree(%p) (slot %d)\n", k, bl[s].p, s);
      memory::alignedFree(bl[s].p);
      bl[s].occupied = false;
      bl[s].p = nullptr;
      oh = vr::fnv("f", 1, oh);
      verify_blocks(bl, replay, "alignedFree", k);
    }
  }
  // cleanup: release what is left, still checking the survivors
  set_ctx("alignedFree|cleanup at the end of the history");
  for (int s = 0; s < 3; s++)
    if (bl[s].occupied) {
      memory::alignedFree(bl[s].p);
      bl[s].occupied = false;
      bl[s].p = nullptr;
      verify_blocks(bl, replay, "alignedFree", n);
    }
  vr::outcome(oh);
  return n;
}

struct RawEnum
{
  const Alphabet &A;
  int D;
  long long leaf_index;
  long long resume_after;
  long long nodes, leaves, ops_applied;
  int ops[16];
  bool stop;
  std::function<bool(int)> first_ok;  // shard filter on the first op
  RawEnum(const Alphabet &a, int d) : A(a), D(d), leaf_index(-1), resume_after(-1), nodes(0), leaves(0), ops_applied(0), stop(false) {}

  void rec(int depth, int occ_mask)
  {
    if (stop)
      return;
    if (depth == D) {
      leaf_index++;
      if (leaf_index <= resume_after)
        return;
      if ((leaf_index & 1023) == 0 && vr::deadline_passed()) {
        stop = true;
        return;
      }
      std::string replay = hist_text(A, ops, D);
      vr::begin_case(leaf_index, "alignedMalloc/alignedFree history", replay);
      ops_applied += run_raw(A, ops, D, replay);
      leaves++;
      if (leaves == 1 && (ops[0] == 0 || ops[0] == (int)A.mallocs.size() - 1))
        vr::sample(std::string("[") + A.name + "] " + replay);
      return;
    }
    const int NM = (int)A.mallocs.size();
    for (int op = 0; op < NM + 3; op++) {
      int m2 = occ_mask;
      if (op < NM) {
        if (occ_mask == 7)
          continue;
        int s = 0;
        while ((occ_mask >> s) & 1)
          s++;
        m2 |= 1 << s;
      } else {
        int s = op - NM;
        if (!((occ_mask >> s) & 1))
          continue;
        m2 &= ~(1 << s);
      }
      if (depth == 0 && first_ok && !first_ok(op))
        continue;
      ops[depth] = op;
      if (leaf_index >= resume_after)  // count each node once (not again after a crash restart)
        nodes++;
      rec(depth + 1, m2);
    }
  }
};

static void leak_check(const std::string &what)
{
#if defined(HAVE_ASAN)
  set_ctx("alignedFree|leak check");
  if (__lsan_do_recoverable_leak_check()) {
    viol("alignedFree|blocks not released (LeakSanitizer)", "leak:" + what, "LeakSanitizer found unreleased blocks after " + what);
  }
#endif
}

static void raw_part(const Alphabet &A, int D)
{
  // one shard per first operation (only mallocs are enabled at depth 0)
  const int NM = (int)A.mallocs.size();
  vr::run_sharded(NM, [&](int shard, long long resume_after) {
    RawEnum e(A, D);
    e.resume_after = resume_after;
    e.first_ok = [shard](int op) { return op == shard; };
    e.rec(0, 0);
    vr::stat("states", e.nodes);
    vr::stat("transitions", e.ops_applied);
    vr::stat("traces", e.leaves);
    vr::stat(std::string("raw_") + A.name + "_histories", e.leaves);
    vr::stat("null_returns", g_nulls);
    vr::stat("nonnull_returns", g_nonnull);
    if (e.stop)
      vr::capped(std::string("raw-") + A.name + " depth " + std::to_string(D) + " shard " + std::to_string(shard) + " stopped at the deadline");
    leak_check(std::string("raw-") + A.name + " shard");
  });
}

// =====================================================================================
// release oracle for the TBB build (no LeakSanitizer there): memory that was released is not
// still held - 256 MiB worth of malloc/free cycles of one block must not grow the address space
// of the process by more than half of that.
// =====================================================================================
static size_t vm_bytes()
{
  size_t pages = 0;
  FILE *f = fopen("/proc/self/statm", "r");
  if (f) {
    if (fscanf(f, "%zu", &pages) != 1)
      pages = 0;
    fclose(f);
  }
  return pages * (size_t)sysconf(_SC_PAGESIZE);
}

static const size_t REUSE_TOTAL = (size_t)256 << 20;

static void reuse_case(size_t size, size_t align, const std::string &replay)
{
  const size_t cycles = REUSE_TOTAL / size;
  std::set<void *> seen;
  size_t before = vm_bytes(), nulls = 0;
  for (size_t c = 0; c < cycles; c++) {
    unsigned char *p = (unsigned char *)memory::alignedMalloc(size, align);
    if (p) {
      p[0] = 1;
      p[size - 1] = 2;
      if (seen.size() < 100000)
        seen.insert(p);
    } else
      nulls++;
    memory::alignedFree(p);
  }
  size_t after = vm_bytes();
  size_t growth = after > before ? after - before : 0;
  vr::stat("states");
  vr::stat("transitions", 2 * (long long)cycles);
  vr::stat("traces");
  vr::stat("reuse_cases");
  vr::outcome(replay + (growth <= REUSE_TOTAL / 2 ? ":released" : ":grows"));
  char d[300];
  snprintf(d, sizeof d, "%zu cycles of alignedMalloc(%zu,%zu)/alignedFree (%zu MiB in total, %zu null): address space grew by %zu KiB, %zu%s distinct addresses; want growth <= %zu MiB",
      cycles, size, align, REUSE_TOTAL >> 20, nulls, growth >> 10, seen.size(), seen.size() >= 100000 ? "+" : "", REUSE_TOTAL >> 21);
  if (vr::replaying())
    printf("%s\n", d);
  if (growth > REUSE_TOTAL / 2)
    viol("alignedFree|released memory is still held (address space grows with malloc/free cycles)", replay, d);
}

static void reuse_part()
{
#if defined(RKCOMMON_TASKING_TBB)
  const size_t sz[] = {64, 4097, 65536};
  const size_t al[] = {1, 64, 4096};
  vr::run_sharded(9, [&](int shard, long long resume_after) {
    if (resume_after >= 0)
      return;
    int i = shard / 3, j = shard % 3;
    char r[64];
    snprintf(r, sizeof r, "reuse:%zu,%zu", sz[i], al[j]);
    vr::begin_case(0, "alignedFree|malloc/free cycles", r);
    reuse_case(sz[i], al[j], r);
  });
#endif
}

static void replay_reuse(const std::string &arg)
{
  size_t size = strtoull(arg.c_str(), nullptr, 10), align = strtoull(arg.c_str() + arg.find(',') + 1, nullptr, 10);
  reuse_case(size, align, "reuse:" + arg);
}

// =====================================================================================
// AlignedVector histories
// =====================================================================================
struct E24
{
  uint64_t a[3];
};
struct E72
{
  uint64_t a[9];
};
// an element type that can also be built from a braced list of its own kind (like a container of
// type-erased values): copying it must copy, not wrap.  Trivially copyable, so the byte-wise model applies.
struct Nest16
{
  uint32_t id, depth, pad[2];
  Nest16() : id(0), depth(0) { pad[0] = pad[1] = 0; }
  Nest16(std::initializer_list<Nest16> l) : id(l.begin()->id), depth(l.begin()->depth + 1) { pad[0] = pad[1] = 0; }
};

template <typename T>
static T make_val(unsigned serial)
{
  T t;
  unsigned char b[sizeof(T)];
  for (size_t i = 0; i < sizeof(T); i++)
    b[i] = (unsigned char)(serial * 131u + (serial >> 8) * 29u + (unsigned)i * 17u + 3u);
  memcpy(&t, b, sizeof(T));
  return t;
}

enum VOp
{
  V_PUSH,
  V_RESIZE0,
  V_RESIZE1,
  V_RESIZE17,
  V_RESIZE500,
  V_RESERVE,
  V_SHRINK,
  V_ASSIGN,
  V_SWAP,
  V_CLEAR,
  V_COPY,
  V_NOPS
};
static const char *VOP_NAME[] = {"push_back", "resize(0)", "resize(1)", "resize(17)", "resize(500)", "reserve(200)", "shrink_to_fit", "assign(9,x)",
    "swap(slot2)", "clear", "copy"};
static const char *VOP_LETTERS = "pabcdrsgwky";

template <typename T>
struct VecCheck
{
  typedef containers::AlignedVector<T> AV;
  typedef std::vector<T> MV;

  static bool same(const AV &v, const MV &m)
  {
    if (v.size() != m.size())
      return false;
    return m.empty() || memcmp(v.data(), m.data(), m.size() * sizeof(T)) == 0;
  }

  static void check(const AV &v, const MV &m, const char *which, int op, int step, const std::string &replay)
  {
    if (vr::replaying())
      printf("  %s: size %zu capacity %zu data %p (want size %zu, data%%64==0 when capacity>0)\n", which, v.size(), v.capacity(), (const void *)v.data(),
          m.size());
    if (v.capacity() > 0 && ((uintptr_t)v.data() % 64) != 0) {
      char d[256];
      snprintf(d, sizeof d, "sizeof(T)=%zu step %d (%s): %s.data()=%p capacity %zu is not 64-byte aligned", sizeof(T), step, VOP_NAME[op], which,
          (const void *)v.data(), v.capacity());
      viol(std::string("AlignedVector|data() not 64-byte aligned|after ") + VOP_NAME[op], replay, d);
    }
    if (!same(v, m)) {
      char d[256];
      size_t i = 0;
      while (i < v.size() && i < m.size() && memcmp(&v[i], &m[i], sizeof(T)) == 0)
        i++;
      snprintf(d, sizeof d, "sizeof(T)=%zu step %d (%s): %s has size %zu want %zu; first differing element %zu", sizeof(T), step, VOP_NAME[op], which, v.size(),
          m.size(), i);
      viol(std::string("AlignedVector|contents differ from the std::vector model|after ") + VOP_NAME[op], replay, d);
    }
  }

  static int run(const int *ops, int n, const std::string &replay)
  {
    AV v, w;
    MV mv, mw;
    unsigned serial = 0;
    uint64_t oh = vr::fnv(&n, sizeof n);
    size_t szT = sizeof(T);
    oh = vr::fnv(&szT, sizeof szT, oh);
    for (int k = 0; k < n; k++) {
      int op = ops[k];
      if (vr::replaying())
        printf("step %d: %s\n", k, VOP_NAME[op]);
      vr::Slot *sl = vr::my_slot();
      if (sl)
        snprintf(sl->sig, sizeof sl->sig, "AlignedVector|%s", VOP_NAME[op]);
      switch (op) {
      case V_PUSH: {
        T x = make_val<T>(++serial);
        v.push_back(x);
        mv.push_back(x);
        break;
      }
      case V_RESIZE0:
      case V_RESIZE1:
      case V_RESIZE17:
      case V_RESIZE500: {
        size_t c = op == V_RESIZE0 ? 0 : op == V_RESIZE1 ? 1 : op == V_RESIZE17 ? 17 : 500;
        T x = make_val<T>(++serial);
        v.resize(c, x);
        mv.resize(c, x);
        break;
      }
      case V_RESERVE:
        v.reserve(200);
        mv.reserve(200);
        break;
      case V_SHRINK:
        v.shrink_to_fit();
        mv.shrink_to_fit();
        break;
      case V_ASSIGN: {
        T x = make_val<T>(++serial);
        v.assign(9, x);
        mv.assign(9, x);
        break;
      }
      case V_SWAP:
        v.swap(w);
        mv.swap(mw);
        break;
      case V_CLEAR:
        v.clear();
        mv.clear();
        break;
      case V_COPY: {
        AV c(v);
        check(c, mv, "copy", op, k, replay);
        w = c;
        mw = mv;
        break;
      }
      }
      check(v, mv, "v", op, k, replay);
      check(w, mw, "w", op, k, replay);
      size_t obs[4] = {v.size(), v.capacity(), w.size(), w.capacity()};
      oh = vr::fnv(obs, sizeof obs, oh);
    }
    vr::outcome(oh);
    return n;
  }
};

static const int VEC_SIZES[] = {1, 4, 8, 24, 72, 16};  // allocate() grid: the first five; vector histories: all six

static int run_vec(int ti, const int *ops, int n, const std::string &replay)
{
  switch (ti) {
  case 0: return VecCheck<uint8_t>::run(ops, n, replay);
  case 1: return VecCheck<uint32_t>::run(ops, n, replay);
  case 2: return VecCheck<uint64_t>::run(ops, n, replay);
  case 3: return VecCheck<E24>::run(ops, n, replay);
  case 4: return VecCheck<E72>::run(ops, n, replay);
  default: return VecCheck<Nest16>::run(ops, n, replay);
  }
}

static std::string vec_text(int ti, const int *ops, int n)
{
  std::string s = "vec:" + std::to_string(VEC_SIZES[ti]) + ":";
  for (int i = 0; i < n; i++)
    s += VOP_LETTERS[ops[i]];
  return s;
}

static void vec_part(int D)
{
  static_assert(sizeof(E24) == 24 && sizeof(E72) == 72 && sizeof(Nest16) == 16 && std::is_trivially_copyable<Nest16>::value, "element sizes");
  const int NS = 6 * V_NOPS;
  vr::run_sharded(NS, [&](int shard, long long resume_after) {
    int ti = shard / V_NOPS, first = shard % V_NOPS;
    int ops[16];
    long long idx = -1, leaves = 0, applied = 0, nodes = 0;
    bool stop = false;
    ops[0] = first;
    if (resume_after < 0)
      nodes++;
    std::function<void(int)> rec = [&](int depth) {
      if (stop)
        return;
      if (depth == D) {
        idx++;
        if (idx <= resume_after)
          return;
        if ((idx & 255) == 0 && vr::deadline_passed()) {
          stop = true;
          return;
        }
        std::string replay = vec_text(ti, ops, D);
        vr::begin_case(idx, "AlignedVector history", replay);
        applied += run_vec(ti, ops, D, replay);
        leaves++;
        if (leaves == 1 && first == V_RESIZE500 && (ti == 1 || ti == 4))
          vr::sample(replay + "  (" + VOP_NAME[ops[0]] + ", " + VOP_NAME[ops[1]] + ", ...)", "vec" + std::to_string(ti));
        return;
      }
      for (int op = 0; op < V_NOPS; op++) {
        ops[depth] = op;
        if (idx >= resume_after)
          nodes++;
        rec(depth + 1);
      }
    };
    rec(1);
    vr::stat("states", nodes);
    vr::stat("transitions", applied);
    vr::stat("traces", leaves);
    vr::stat("vec_histories", leaves);
    if (stop)
      vr::capped("vec depth " + std::to_string(D) + " shard " + std::to_string(shard) + " stopped at the deadline");
    leak_check("vec shard");
  });
}

// =====================================================================================
// aligned_allocator<T>::allocate on the max_size() boundary
// =====================================================================================
template <typename T>
static void alloc_one(size_t n, const std::string &replay)
{
  containers::aligned_allocator<T> a;
  const size_t naive_max = (~(size_t)0) / sizeof(T);  // largest n with n*sizeof(T) representable
  const bool exceeds = n > a.max_size() || n > naive_max;
  std::string got;
  T *p = nullptr;
  try {
    p = a.allocate(n);
    got = p ? "pointer" : "nullptr";
  } catch (const std::length_error &) {
    got = "length_error";
  } catch (const std::bad_alloc &) {
    got = "bad_alloc";
  } catch (...) {
    got = "other exception";
  }
  vr::stat("states");
  vr::stat("transitions");
  vr::stat("traces");
  vr::stat("alloc_cases");
  vr::outcome("alloc:" + std::to_string(sizeof(T)) + ":" + got + (exceeds ? "X" : "-"));
  std::string want = exceeds ? "length_error" : (n == 0 ? "anything" : "pointer (64-byte aligned) or bad_alloc");
  if (vr::replaying())
    printf("aligned_allocator<sizeof %zu>::allocate(%zu): max_size()=%zu -> %s ; want %s\n", sizeof(T), n, a.max_size(), got.c_str(), want.c_str());
  char d[256];
  snprintf(d, sizeof d, "sizeof(T)=%zu allocate(%zu) with max_size()=%zu: got %s want %s", sizeof(T), n, a.max_size(), got.c_str(), want.c_str());
  if (exceeds && got != "length_error")
    viol("aligned_allocator::allocate|no length_error for a request above max_size()", replay, d);
  if (!exceeds && got == "length_error")
    viol("aligned_allocator::allocate|length_error for a request within max_size()", replay, d);
  if (p && (unsigned __int128)n * sizeof(T) > ((unsigned __int128)1 << 47))
    viol("aligned_allocator::allocate|non-null pointer for a request larger than any address space", replay, d);
  if (p) {
    if ((uintptr_t)p % 64 != 0)
      viol("aligned_allocator::allocate|pointer not 64-byte aligned", replay, d);
    if (!exceeds && n * sizeof(T) <= (1u << 20))
      memset(p, 0x5a, n * sizeof(T));
    a.deallocate(p, n);
  }
}

static void alloc_dispatch(int ti, size_t n, const std::string &replay)
{
  switch (ti) {
  case 0: alloc_one<uint8_t>(n, replay); break;
  case 1: alloc_one<uint32_t>(n, replay); break;
  case 2: alloc_one<uint64_t>(n, replay); break;
  case 3: alloc_one<E24>(n, replay); break;
  default: alloc_one<E72>(n, replay); break;
  }
}

static std::vector<size_t> alloc_grid(int ti)
{
  const size_t M = ~(size_t)0, S = VEC_SIZES[ti], mx = M / S;
  std::vector<size_t> g;
  const size_t base[] = {0, 1, 2, 17, 500, 4096};
  for (size_t b : base)
    g.push_back(b);
  for (size_t d = 0; d <= 3; d++) {
    g.push_back(mx - d);  // at and just below max_size()
    if (mx + d >= mx)
      g.push_back(mx + d);  // just above: n*sizeof(T) wraps to a small number
    g.push_back(M / 2 - d);
    g.push_back(M / 2 + 1 + d);
    g.push_back(M - d);  // SIZE_MAX-3 .. SIZE_MAX
  }
  // further multiples of 2^64/sizeof(T): the product wraps to a small number again
  for (size_t j = 2; j < S && j <= 5; j++)
    for (size_t r = 0; r <= 1; r++)
      g.push_back(j * (mx + 1) + r);
  std::sort(g.begin(), g.end());
  g.erase(std::unique(g.begin(), g.end()), g.end());
  return g;
}

static void alloc_part()
{
  vr::run_sharded(5, [&](int ti, long long resume_after) {
    std::vector<size_t> g = alloc_grid(ti);
    for (size_t i = 0; i < g.size(); i++) {
      if ((long long)i <= resume_after)
        continue;
      std::string replay = "alloc:" + std::to_string(VEC_SIZES[ti]) + ":" + std::to_string(g[i]);
      vr::begin_case((long long)i, "aligned_allocator::allocate", replay);
      alloc_dispatch(ti, g[i], replay);
    }
    if (ti == 3)
      vr::sample("aligned_allocator<sizeof " + std::to_string(VEC_SIZES[ti]) + ">::allocate(n) for " + std::to_string(g.size()) + " n, e.g. max_size()+1 = "
            + std::to_string((~(size_t)0) / VEC_SIZES[ti] + 1),
        "alloc");
  });
}

// =====================================================================================
// sizes no allocator can satisfy: the result must be null ("null or usable for the full size")
// =====================================================================================
static const size_t HUGE_SIZES[] = {~(size_t)0, ~(size_t)0 - 1, ~(size_t)0 - 63, ~(size_t)0 - 4095, (~(size_t)0) / 2 + 1, (size_t)1 << 62, (size_t)1 << 48};
static void huge_one(size_t size, size_t align, const std::string &replay)
{
  void *p = memory::alignedMalloc(size, align);
  vr::stat("states");
  vr::stat("transitions");
  vr::stat("traces");
  vr::outcome(std::string("huge:") + (p ? "ptr" : "null"));
  if (vr::replaying())
    printf("alignedMalloc(%zu, %zu) -> %p ; want null (no block of that size can exist)\n", size, align, p);
  if (p) {
    char d[200];
    snprintf(d, sizeof d, "alignedMalloc(%zu, %zu) returned %p: cannot be usable for the full size", size, align, p);
    viol("alignedMalloc|non-null pointer for a size larger than any address space", replay, d);
    memory::alignedFree(p);
  }
}
static void huge_part()
{
  vr::run_sharded(1, [&](int, long long resume_after) {
    long long idx = 0;
    for (size_t size : HUGE_SIZES)
      for (size_t align : ALIGNS) {
        if (idx++ <= resume_after)
          continue;
        std::string replay = "huge:" + std::to_string(size) + ":" + std::to_string(align);
        vr::begin_case(idx - 1, "alignedMalloc|huge size", replay);
        huge_one(size, align, replay);
      }
    vr::sample("alignedMalloc(size, align) for 7 sizes between 2^48 and SIZE_MAX x 13 alignments: must return null", "huge");
  });
}

// =====================================================================================
static int type_index(int size)
{
  for (int i = 0; i < 6; i++)
    if (VEC_SIZES[i] == size)
      return i;
  return -1;
}

static int replay_one(const std::string &r)
{
  size_t c = r.find(':');
  std::string kind = r.substr(0, c), arg = c == std::string::npos ? "" : r.substr(c + 1);
  if (kind == "raw") {
    // parse with an alphabet that contains every (size, align) named in the string
    Alphabet A = make_alphabet("replay", SIZES, 10, ALIGNS, 13);
    std::vector<std::string> items;
    std::stringstream ss(arg);
    std::string item;
    while (std::getline(ss, item, ','))
      if (!item.empty())
        items.push_back(item);
    for (auto &it : items)
      if (it[0] == 'm') {
        size_t a = it.find('a');
        size_t size = strtoull(it.c_str() + 1, nullptr, 10), align = strtoull(it.c_str() + a + 1, nullptr, 10);
        bool have = false;
        for (auto &m : A.mallocs)
          have = have || (m.first == size && m.second == align);
        if (!have)
          A.mallocs.push_back(std::make_pair(size, align));
      }
    std::vector<int> ops;
    int occ = 0;
    for (auto &it : items) {
      if (it[0] == 'm') {
        size_t a = it.find('a');
        size_t size = strtoull(it.c_str() + 1, nullptr, 10), align = strtoull(it.c_str() + a + 1, nullptr, 10);
        if (occ == 7) {
          printf("malformed history: malloc with 3 occupied slots\n");
          return 2;
        }
        for (size_t i = 0; i < A.mallocs.size(); i++)
          if (A.mallocs[i].first == size && A.mallocs[i].second == align) {
            ops.push_back((int)i);
            break;
          }
        int s = 0;
        while ((occ >> s) & 1)
          s++;
        occ |= 1 << s;
      } else if (it[0] == 'f') {
        int s = atoi(it.c_str() + 1);
        if (s < 0 || s > 2 || !((occ >> s) & 1)) {
          printf("malformed history: free of an empty slot\n");
          return 2;
        }
        occ &= ~(1 << s);
        ops.push_back((int)A.mallocs.size() + s);
      } else {
        printf("malformed history item '%s'\n", it.c_str());
        return 2;
      }
    }
    run_raw(A, ops.data(), (int)ops.size(), r);
    leak_check("replayed history");
  } else if (kind == "vec") {
    size_t c2 = arg.find(':');
    int ti = type_index(atoi(arg.c_str()));
    std::string letters = arg.substr(c2 + 1);
    std::vector<int> ops;
    for (char ch : letters) {
      const char *p = strchr(VOP_LETTERS, ch);
      if (!p || ti < 0) {
        printf("malformed vec replay\n");
        return 2;
      }
      ops.push_back((int)(p - VOP_LETTERS));
    }
    run_vec(ti, ops.data(), (int)ops.size(), r);
    leak_check("replayed history");
  } else if (kind == "alloc") {
    size_t c2 = arg.find(':');
    int ti = type_index(atoi(arg.c_str()));
    if (ti < 0)
      return 2;
    alloc_dispatch(ti, strtoull(arg.c_str() + c2 + 1, nullptr, 10), r);
  } else if (kind == "huge") {
    size_t c2 = arg.find(':');
    huge_one(strtoull(arg.c_str(), nullptr, 10), strtoull(arg.c_str() + c2 + 1, nullptr, 10), r);
  } else if (kind == "reuse") {
    replay_reuse(arg);
  } else if (kind == "leak") {
    // a leak report belongs to a whole shard; reproduce it on one representative history
    printf("leak reports are per shard (%s); replaying malloc/free of three blocks and a vector history, then the leak check\n", arg.c_str());
    int rc = replay_one("raw:m4097a64,m64a4096,m1a1,f1,f0,f2");
    int vops[] = {V_RESIZE500, V_COPY, V_SHRINK, V_CLEAR};
    run_vec(4, vops, 4, "vec:72:dysk");
    leak_check("replayed histories");
    return vr::S().viols.empty() ? rc : 1;
  } else {
    printf("unknown replay kind '%s'\n", kind.c_str());
    return 2;
  }
  return vr::S().viols.empty() ? 0 : 1;
}

int main(int argc, char **argv)
{
  vr::init(argc, argv);
  if (vr::replaying()) {
    int rc = replay_one(vr::S().replay);
    vr::flush();
    return rc;
  }
  int full_d = vr::thorough() ? 4 : 3, deep_d = vr::thorough() ? 6 : 5, vec_d = vr::thorough() ? 6 : 5;
  for (int i = 1; i < argc; i++) {
    std::string a = argv[i];
    if (a == "--full-depth" && i + 1 < argc)
      full_d = atoi(argv[++i]);
    else if (a == "--deep-depth" && i + 1 < argc)
      deep_d = atoi(argv[++i]);
    else if (a == "--vec-depth" && i + 1 < argc)
      vec_d = atoi(argv[++i]);
  }
  vr::note(std::string("backend ") + BACKEND +
#if defined(HAVE_ASAN)
      " with AddressSanitizer/LeakSanitizer"
#else
      " without sanitizer (pattern, disjointness, scalable_msize and reuse oracles)"
#endif
  );
  Alphabet full = make_alphabet("full", SIZES, 10, ALIGNS, 13);
  Alphabet deep = make_alphabet("deep", DSIZES, 4, DALIGNS, 4);
  alloc_part();
  huge_part();
  vec_part(vec_d);
  raw_part(deep, deep_d);
  raw_part(full, full_d);
  reuse_part();
  return vr::finish();
}
