// C05 (part 1): ranges and boxes behave as closed axis-aligned sets - driver.
// The checks are templates in C05_sets.h; the instantiations live in C05_sets_[a-d].cpp.
#include "C05_common.h"

void run_range1i(const std::string &, int, const std::string &, const std::string &, const std::string &);
void run_range1f(const std::string &, int, const std::string &, const std::string &, const std::string &);
void run_range1d(const std::string &, int, const std::string &, const std::string &, const std::string &);
void run_box2i(const std::string &, int, const std::string &, const std::string &, const std::string &);
void run_box2f(const std::string &, int, const std::string &, const std::string &, const std::string &);
void run_box2d(const std::string &, int, const std::string &, const std::string &, const std::string &);
void run_box4i(const std::string &, int, const std::string &, const std::string &, const std::string &);
void run_box3i(const std::string &, int, const std::string &, const std::string &, const std::string &);
void run_box3d(const std::string &, int, const std::string &, const std::string &, const std::string &);
void run_box3f(const std::string &, int, const std::string &, const std::string &, const std::string &);
void run_box4f(const std::string &, int, const std::string &, const std::string &, const std::string &);
void run_box3fa(const std::string &, int, const std::string &, const std::string &, const std::string &);

struct Entry
{
  const char *name;
  int K;         // grid size per axis (quick)
  int Kthorough;
  void (*run)(const std::string &, int, const std::string &, const std::string &, const std::string &);
};

static const Entry TABLE[] = {
    {"range1i", 5, 5, run_range1i},
    {"range1f", 5, 5, run_range1f},
    {"range1d", 5, 5, run_range1d},
    {"box2i", 5, 5, run_box2i},
    {"box2f", 5, 5, run_box2f},
    {"box2d", 5, 5, run_box2d},
    {"box3i", 5, 5, run_box3i},
    {"box3f", 5, 5, run_box3f},
    {"box3fa", 5, 5, run_box3fa},
    {"box3d", 3, 5, run_box3d},
    {"box4i", 3, 3, run_box4i},
    {"box4f", 3, 3, run_box4f},
};

int main(int argc, char **argv)
{
  c05::init(argc, argv);
  const int NT = sizeof(TABLE) / sizeof(TABLE[0]);
  if (vr::replaying()) {
    // "pair <cfg> <boxA> <boxB>" | "box <cfg> <box>" ; optional trailing "K=<n>"
    std::vector<std::string> t = c05::split_ws(vr::S().replay);
    printf("replaying case %s\n", vr::S().replay.c_str());
    bool found = false;
    for (int i = 0; i < NT && t.size() >= 3; i++)
      if (t[1] == TABLE[i].name) {
        found = true;
        TABLE[i].run(t[1], TABLE[i].Kthorough, t[0], t[2], t.size() > 3 ? t[3] : "");
      }
    if (!found)
      printf("cannot parse replay spec\n");
    vr::flush();
    return vr::S().viols.empty() ? 0 : 1;
  }
  for (int i = 0; i < NT; i++) {
    if (vr::deadline_passed()) {
      vr::capped(std::string("configuration ") + TABLE[i].name + " not started: deadline");
      continue;
    }
    TABLE[i].run(TABLE[i].name, vr::thorough() ? TABLE[i].Kthorough : TABLE[i].K, "", "", "");
  }
  vr::stat("traces", vr::S().stats["states"]);
  return vr::finish();
}
