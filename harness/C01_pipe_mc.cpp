// C01 (schedule part, narrow seam): the lock-less multi-reader pipe the internal backend
// distributes partitions through, instantiated with 2 and 4 slots: one writer (write, write,
// read-front, write, ...) against one or two readers (read-back).  Oracle: every written value
// is obtained exactly once by exactly one party, nothing else is ever returned, writes fail
// only when the pipe is full; plain accesses to the slots are checked by the race detector.
#include "mcsched/mcsched.h"

#include <assert.h>
#include <string.h>
#include <atomic>
#include <cstring>
#include <string>
#include <thread>
#include <vector>

#include "rkcommon/tasking/detail/enkiTS/LockLessMultiReadPipe.h"

struct Item
{
  int id;
  int payload[3];  // plain multi-word payload: a torn or early read shows as a race or a mismatch
};

template <int LOG2>
static void pipe_scenario(int readers, int writes, int reads_each)
{
  typedef enki::LockLessMultiReadPipe<LOG2, Item> Pipe;
  Pipe *pipe = new Pipe();
  std::atomic<int> *got = new std::atomic<int>[16];
  for (int i = 0; i < 16; i++)
    got[i].store(0);
  std::atomic<int> *bad = new std::atomic<int>(0);
  auto take = [got, bad](const Item &it) {
    if (it.id < 1 || it.id > 15 || it.payload[0] != it.id * 3 || it.payload[1] != it.id * 5 || it.payload[2] != it.id * 7)
      bad->fetch_add(1);
    else
      got[it.id].fetch_add(1);
  };
  std::vector<std::thread> th;
  for (int r = 0; r < readers; r++)
    th.emplace_back([pipe, take, reads_each]() {
      for (int k = 0; k < reads_each; k++) {
        Item it;
        if (pipe->ReaderTryReadBack(&it))
          take(it);
      }
    });
  int written = 0, failed = 0, inpipe_upper = 0;
  std::string obs;
  for (int w = 1; w <= writes; w++) {
    Item it;
    it.id = w;
    it.payload[0] = w * 3;
    it.payload[1] = w * 5;
    it.payload[2] = w * 7;
    if (pipe->WriterTryWriteFront(it)) {
      written |= 1 << w;
      inpipe_upper++;
      obs += "W";
    } else {
      failed++;
      obs += "x";
      // a write may only fail when the pipe is full: everything accepted so far minus what
      // has been taken out must be the capacity (readers only ever reduce the content)
      int taken = 0;
      for (int i = 1; i < 16; i++)
        taken += got[i].load();
      MC_CHECK(inpipe_upper - taken >= (1 << LOG2) - readers - 1 || inpipe_upper >= (1 << LOG2),
          "pipe|write rejected although the pipe was not full", obs.c_str());
    }
    if (w == 2) {
      Item f;
      if (pipe->WriterTryReadFront(&f)) {
        take(f);
        obs += "F";
      } else
        obs += "f";
    }
  }
  for (auto &t : th)
    t.join();
  // drain: the writer reads everything that is left
  Item it;
  int guard = 0;
  while (!pipe->IsPipeEmpty() && guard++ < 16) {
    if (pipe->WriterTryReadFront(&it))
      take(it);
    else if (pipe->ReaderTryReadBack(&it))
      take(it);
  }
  MC_CHECK(pipe->IsPipeEmpty(), "pipe|not empty after draining", obs.c_str());
  MC_CHECK(bad->load() == 0, "pipe|a value was returned that was never written (or torn)", obs.c_str());
  for (int w = 1; w <= writes; w++) {
    int want = (written >> w) & 1;
    MC_CHECK(got[w].load() == want, "pipe|a written value was lost or delivered twice", (obs + " item " + std::to_string(w) + " count " + std::to_string(got[w].load())).c_str());
  }
  mc_eventf(obs);
}

MC_SCENARIO(pipe2_r1_w3, 4, 6) { pipe_scenario<1>(1, 3, 2); }
MC_SCENARIO(pipe2_r2_w3, 3, 4) { pipe_scenario<1>(2, 3, 2); }
MC_SCENARIO(pipe4_r1_w5, 4, 6) { pipe_scenario<2>(1, 5, 3); }
MC_SCENARIO(pipe4_r2_w5, 3, 4) { pipe_scenario<2>(2, 5, 2); }
MC_SCENARIO(pipe2_r2_w4, 3, 4) { pipe_scenario<1>(2, 4, 2); }
