// C06 part 2: rotations, quaternions, yaw/pitch/roll, slerp, frame, lookat.
#pragma once
#include "C06_common.h"
#include "C06_ops.h"

static const int NAXES = 26, KMAX = 24, NANG = 2 * KMAX + 1, NTRANS = 64;

// the 26 directions of {-1,0,1}^3 \ {0}, lexicographic
inline ref::V dir26(int i)
{
  int k = 0;
  for (int x = -1; x <= 1; x++)
    for (int y = -1; y <= 1; y++)
      for (int z = -1; z <= 1; z++) {
        if (!x && !y && !z)
          continue;
        if (k++ == i)
          return ref::vec(x, y, z);
      }
  return ref::vec(0, 0, 1);
}
// translations / points {-2,0,1,3}^3 (index digits x,y,z)
inline ref::V trans64(int i)
{
  static const LD T[4] = {-2, 0, 1, 3};
  return ref::vec(T[(i / 16) % 4], T[(i / 4) % 4], T[i % 4]);
}
inline ref::V trans16(int i)
{
  static const LD T[4] = {-2, 0, 1, 3};
  return ref::vec(T[(i / 4) % 4], T[i % 4], 0);
}
template <class S>
inline S angle(int k)
{
  return (S)(k * ref::PI / 12);
}

// ---------------------------------------------------------------- L3::rotate(axis, angle), A::rotate(...)
template <class L>
inline void check_rotate3(Rep &R, int ai, int k)
{
  typedef typename L::Scalar S;
  typedef typename L::Vector V;
  typedef AffineSpaceT<L> A;
  Case c = mkcase("rot3", Nm<L>::lin());
  c << ai << k;
  const V uT = Mk<V>::v(ref::unit(dir26(ai)));
  const ref::V u = ref::unit(rv(uT));
  const S th = angle<S>(k);
  const LD theta = th, cs = cosl(theta), sn = sinl(theta);
  const ref::V w1 = ref::perp(u), w2 = ref::cross(u, w1);
  const LD tol = tolr<S>(1, 1, true);
  R.states++;
  const L rl = L::rotate(uT, th);
  R.outcome(hbits(rl));
  const ref::M Rr = rm(rl);
  R.cmpV(c, "rotate(u,r) fixes the axis u", "", ref::app(Rr, u), u, 3, tol);
  R.cmpV(c, "rotate(u,r) turns a vector perpendicular to u by r, right-handed", "", ref::app(Rr, w1), ref::add(ref::mul(cs, w1), ref::mul(sn, w2)), 3, tol);
  R.cmpV(c, "rotate(u,r) turns a vector perpendicular to u by r, right-handed", "", ref::app(Rr, w2), ref::add(ref::mul(-sn, w1), ref::mul(cs, w2)), 3, tol);
  R.cmpM(c, "rotate(u,r) is orthonormal", "", ref::mul(ref::transp(Rr), Rr), ref::ident(3), tol);
  R.cmpS(c, "rotate(u,r) has determinant +1", "", ref::det(Rr), 1, tol);
  // the affine constructions
  const ref::M want = ref::axis_angle(u, theta);
  const ref::V zero = ref::vec(0, 0, 0);
  const A a0 = A::rotate(uT, th);
  R.cmpM(c, "A::rotate(u,r) linear part is the rotation", "", rm(a0.l), want, tol);
  R.cmpV(c, "A::rotate(u,r) keeps the origin", "", rv(a0.p), zero, 3, tol);
  for (int pi = 0; pi < NTRANS; pi++) {
    const ref::V p0 = trans64(pi);
    const LD np = ref::norm(p0);
    const A a1 = A::rotate(Mk<V>::v(p0), uT, th);
    const LD tp = tolr<S>(1, 1 + 2 * np, true);
    R.states++;
    R.cmpM(c, "A::rotate(p,u,r) linear part is the rotation", "", rm(a1.l), want, tol);
    R.cmpV(c, "A::rotate(p,u,r) fixes p", "", rv(xfmPoint(a1, Mk<V>::v(p0))), p0, 3, tp);
    const ref::V onaxis = rndv<S>(ref::add(p0, u));
    R.cmpV(c, "A::rotate(p,u,r) fixes p+u", "", rv(xfmPoint(a1, Mk<V>::v(onaxis))), onaxis, 3, tp);
    const ref::V off = rndv<S>(ref::add(p0, w1));
    const ref::V img = ref::add(p0, ref::app(want, ref::sub(off, p0)));
    R.cmpV(c, "A::rotate(p,u,r) turns p+w about the axis through p", "", rv(xfmPoint(a1, Mk<V>::v(off))), img, 3, tp);
  }
}

// ---------------------------------------------------------------- 2D rotations
inline void check_rotate2(Rep &R, int k)
{
  Case c = mkcase("rot2", "LinearSpace2f");
  c << k;
  const float th = angle<float>(k);
  const ref::M want = ref::rot2((LD)th);
  const LD tol = tolr<float>(1, 1);
  R.states++;
  const LinearSpace2f r = LinearSpace2f::rotate(th);
  R.outcome(hbits(r));
  R.cmpM(c, "rotate(r) turns e_x to (cos r, sin r) and e_y to (-sin r, cos r)", "", rm(r), want, tol);
  R.cmpS(c, "rotate(r) has determinant +1", "", ref::det(rm(r)), 1, tol);
  const AffineSpace2f a0 = AffineSpace2f::rotate(th);
  R.cmpM(c, "AffineSpace2f::rotate(r) linear part is the rotation", "", rm(a0.l), want, tol);
  R.cmpV(c, "AffineSpace2f::rotate(r) keeps the origin", "", rv(a0.p), ref::vec(0, 0, 0), 2, tol);
  for (int pi = 0; pi < 16; pi++) {
    const ref::V p0 = trans16(pi);
    const LD tp = tolr<float>(1, 1 + 2 * ref::norm(p0));
    const AffineSpace2f a1 = AffineSpace2f::rotate(Mk<vec2f>::v(p0), th);
    R.states++;
    R.cmpM(c, "AffineSpace2f::rotate(p,r) linear part is the rotation", "", rm(a1.l), want, tol);
    R.cmpV(c, "AffineSpace2f::rotate(p,r) fixes p", "", rv(applyA(a1, Mk<vec2f>::v(p0))), p0, 2, tp);
    const ref::V off = ref::add(p0, ref::vec(1, 0, 0));
    R.cmpV(c, "AffineSpace2f::rotate(p,r) turns p+e_x about p", "", rv(applyA(a1, Mk<vec2f>::v(off))), ref::add(p0, ref::col(want, 0)), 2, tp);
  }
}

// ---------------------------------------------------------------- quaternion <- matrix
static const char *BRANCH[4] = {"branch0(trace>=0)", "branch1(vx.x_largest)", "branch2(vy.y_largest)", "branch3(vz.z_largest)"};
// which branch of QuaternionT(vx,vy,vz) the input selects: the constructor's published case split,
// evaluated here on the same S values
template <class S>
inline int branch_of(const ref::M &Mt)
{
  const S xx = (S)Mt.a[0][0], yy = (S)Mt.a[1][1], zz = (S)Mt.a[2][2];
  const S tr = xx + yy + zz;
  if (tr >= S(0))
    return 0;
  if (xx >= (yy > zz ? yy : zz))
    return 1;
  if (yy >= zz)
    return 2;
  return 3;
}
// Mt: a rotation matrix whose entries are exact S values; want: its quaternion
template <class S>
inline void check_q_from_matrix(Rep &R, const Case &c, const ref::M &Mt, const ref::Q &want)
{
  typedef QuaternionT<S> QT;
  typedef typename QT::Vector V;
  const QT q(Mk<V>::v(ref::col(Mt, 0)), Mk<V>::v(ref::col(Mt, 1)), Mk<V>::v(ref::col(Mt, 2)));
  const int b = branch_of<S>(Mt);
  static const std::string keys[4] = {std::string("qfrommatrix_") + QNm<S>::q() + "_" + BRANCH[0], std::string("qfrommatrix_") + QNm<S>::q() + "_" + BRANCH[1],
      std::string("qfrommatrix_") + QNm<S>::q() + "_" + BRANCH[2], std::string("qfrommatrix_") + QNm<S>::q() + "_" + BRANCH[3]};
  R.count(keys[b]);
  R.outcome(hbits(q.r, hbits(q.i, b)));
  ref::Q g = rq(q);
  if (ref::qdot(g, want) < 0)
    g = ref::qneg(g);
  const LD G[4] = {g.r, g.i, g.j, g.k}, W[4] = {want.r, want.i, want.j, want.k};
  R.cmp(c, "Q(vx,vy,vz) is the quaternion of the rotation matrix (up to sign)", BRANCH[b], G, W, 4, tolr<S>(1, 1, true));
}

// matrix <- quaternion exists for the float matrices only (LinearSpace3f / LinearSpace3fa)
inline void check_matrix_from_q(Rep &R, const Case &c, const quatf &q, const ref::M &want, const ref::Q &qwant)
{
  const LD tol = tolr<float>(1, 1, true);
  const LinearSpace3f m(q);
  const LinearSpace3fa ma(q);
  R.cmpM(c, "LinearSpace3f(q) is the rotation of q", "", rm(m), want, tol);
  R.cmpM(c, "LinearSpace3fa(q) is the rotation of q", "", rm(ma), want, tol);
  const AffineSpace3f a = AffineSpace3f::rotate(q);
  R.cmpM(c, "AffineSpace3f::rotate(q) linear part is the rotation of q", "", rm(a.l), want, tol);
  R.cmpV(c, "AffineSpace3f::rotate(q) keeps the origin", "", rv(a.p), ref::vec(0, 0, 0), 3, tol);
  // NOTE: AffineSpaceT::rotate(p, q) ("rotation with quaternion around point") cannot be instantiated:
  // `translate(+p) * L(q) * translate(-p)` has no AffineSpaceT * LinearSpace3 operator (template argument
  // deduction does not apply the converting constructor).  Not a run-time behaviour, so nothing to enumerate;
  // reported as an observation in main().
  const AffineSpace3fa aa = AffineSpace3fa::rotate(q);
  R.cmpM(c, "AffineSpace3fa::rotate(q) linear part is the rotation of q", "", rm(aa.l), want, tol);
  R.cmpV(c, "AffineSpace3fa::rotate(q) keeps the origin", "", rv(aa.p), ref::vec(0, 0, 0), 3, tol);
  // quaternion -> matrix -> quaternion, library only
  Case c2 = c;
  check_q_from_matrix<float>(R, c2, rm(m), qwant);
}
inline void check_matrix_from_q(Rep &, const Case &, const quatd &, const ref::M &, const ref::Q &) {}

// ---------------------------------------------------------------- Q::rotate(axis, angle) and everything derived from one rotation
template <class S>
inline void check_quat(Rep &R, int ai, int k)
{
  typedef QuaternionT<S> QT;
  typedef typename QT::Vector V;
  Case c = mkcase("quat", QNm<S>::q());
  c << ai << k;
  const V uT = Mk<V>::v(ref::unit(dir26(ai)));
  const ref::V u = ref::unit(rv(uT));
  const S th = angle<S>(k);
  const LD theta = th;
  const ref::M want = ref::axis_angle(u, theta);
  const ref::Q qwant = ref::axis_angle_quat(u, theta);
  const LD tol = tolr<S>(1, 1, true);
  R.states++;
  const QT q = QT::rotate(uT, th);
  R.outcome(hbits(q.r, hbits(q.i)));
  R.cmpM(c, "Q::rotate(u,r) is the rotation by r about u", "", ref::qmat(rq(q)), want, tol);
  static const ref::V P[2] = {ref::vec(1, -2, 3), ref::vec(0, 1, 0)};
  for (int i = 0; i < 2; i++) {
    const V x = Mk<V>::v(P[i]);
    const LD tx = tolr<S>(1, ref::norm(P[i]), true);
    const ref::V img = ref::app(want, P[i]);
    R.cmpV(c, "q*v rotates v", "", rv(q * x), img, 3, tx);
    R.cmpV(c, "xfmPoint(q,v) rotates v", "", rv(xfmPoint(q, x)), img, 3, tx);
    R.cmpV(c, "xfmNormal(q,v) rotates v", "", rv(xfmNormal(q, x)), img, 3, tx);
  }
  R.cmpM(c, "conj(q) is the inverse rotation", "", ref::qmat(rq(conj(q))), ref::transp(want), tol);
  {
    const ref::Q e = rq(rcp(q) * q);
    const LD G[4] = {e.r, e.i, e.j, e.k}, W[4] = {1, 0, 0, 0};
    R.cmp(c, "rcp(q)*q = 1", "", G, W, 4, tol);
    const ref::Q nq = rq(normalize(q * S(2)));
    const ref::Q qq = rq(q);
    const LD G2[4] = {nq.r, nq.i, nq.j, nq.k}, W2[4] = {qq.r, qq.i, qq.j, qq.k};
    R.cmp(c, "normalize(2q) = q", "", G2, W2, 4, tol);
  }
  check_quat_ctors<S>(R, c, q);
  check_matrix_from_q(R, c, q, want, qwant);
  // matrix -> quaternion on the reference rotation rounded to S
  check_q_from_matrix<S>(R, c, rndm<S>(want), qwant);
}

// ---------------------------------------------------------------- pairs of unit quaternions: product, slerp
template <class S>
inline QuaternionT<S> mkq(const ref::Q &q)
{
  return QuaternionT<S>((S)q.r, (S)q.i, (S)q.j, (S)q.k);
}
inline ref::Q grid_quat(int ai, int k)
{
  return ref::axis_angle_quat(ref::unit(dir26(ai)), k * ref::PI / 12);
}
static const float SLERP_T[5] = {0.f, 0.25f, 0.5f, 0.75f, 1.f};

template <class S>
inline void check_qpair(Rep &R, int ai, int ka, int bi, int kb)
{
  typedef QuaternionT<S> QT;
  typedef typename QT::Vector V;
  Case c = mkcase("qpair", QNm<S>::q());
  c << ai << ka << bi << kb;
  const QT qa = mkq<S>(grid_quat(ai, ka)), qb = mkq<S>(grid_quat(bi, kb));
  const ref::Q a = rq(qa), b = rq(qb);  // the values the library really gets
  R.states++;
  const LD tol = tolr<S>(1, 1);
  const ref::Q ab = ref::qmul(a, b);
  {
    const ref::Q g = rq(qa * qb);
    R.outcome(hbits((S)g.r, hbits((S)g.k)));
    const LD G[4] = {g.r, g.i, g.j, g.k}, W[4] = {ab.r, ab.i, ab.j, ab.k};
    R.cmp(c, "qa*qb is the Hamilton product", "", G, W, 4, tol);
    const ref::V p = ref::vec(1, -2, 3);
    const V x = Mk<V>::v(p);
    R.cmpV(c, "(qa*qb)*v = qa*(qb*v)", "", rv((qa * qb) * x), rv(qa * (qb * x)), 3, tolr<S>(1, ref::norm(p)));
    R.cmpV(c, "(qa*qb)*v is rotation b then rotation a", "", rv((qa * qb) * x), ref::app(ref::mul(ref::qmat(a), ref::qmat(b)), p), 3, tolr<S>(1, ref::norm(p)));
  }
  check_quat_ops<S>(R, c, qa, qb);
  // matrix -> quaternion on the composed rotation
  check_q_from_matrix<S>(R, c, rndm<S>(ref::qmat(ab)), ab);
  // slerp
  const LD d = ref::qdot(a, b);
  const LD dd = fabsl(d);
  const LD th0 = acosl(dd > 1 ? 1.0L : dd), s0 = sinl(th0);
  const bool ambiguous = dd <= 8 * Eps<S>::eps();          // both ways round are equally short
  const bool fallback = dd > 0.9995L - 1e-3L;              // the library may interpolate linearly and renormalise
  LD kap = s0 > 0 ? 1 / s0 : 1;                            // condition of acos at d
  if (fallback || kap < 1)
    kap = 1;
  if (kap > 64)
    kap = 64;
  const LD tols = tolr<S>(kap, 1, fallback) + (fallback ? th0 * th0 * th0 / 16 : 0);
  if (fallback)
    R.count("slerp_pairs_in_linear_fallback");
  if (ambiguous)
    R.count("slerp_pairs_orthogonal_either_way_accepted");
  for (int ti = 0; ti < 5; ti++) {
    const LD t = SLERP_T[ti];
    const ref::Q g = rq(slerp(SLERP_T[ti], qa, qb));
    const LD G[4] = {g.r, g.i, g.j, g.k};
    LD bestW[4] = {0, 0, 0, 0}, beste = INFINITY;
    for (int sg = 0; sg < 2; sg++) {
      const LD sgn = sg == 0 ? (d < 0 ? -1 : 1) : (d < 0 ? 1 : -1);
      if (sg == 1 && !ambiguous)
        break;
      const LD A4[4] = {sgn * a.r, sgn * a.i, sgn * a.j, sgn * a.k}, B4[4] = {b.r, b.i, b.j, b.k};
      LD W[4], e = 0;
      for (int i = 0; i < 4; i++) {
        // constant angular speed from a (t=0) to b (t=1) along the great arc of angle th0
        W[i] = s0 > 1e-9L ? (sinl((1 - t) * th0) * A4[i] + sinl(t * th0) * B4[i]) / s0 : (1 - t) * A4[i] + t * B4[i];
        LD ei = fabsl(G[i] - W[i]);
        if (ei > e || ei != ei)
          e = ei;
      }
      if (e < beste || sg == 0) {
        beste = e;
        for (int i = 0; i < 4; i++)
          bestW[i] = W[i];
      }
    }
    R.cmp(c, "slerp(t,a,b) moves from a to b at constant angular speed", ti == 0 ? "t=0" : ti == 4 ? "t=1" : "0<t<1", G, bestW, 4, tols);
  }
}

// ---------------------------------------------------------------- yaw / pitch / roll
template <class S>
inline void check_ypr(Rep &R, int ky, int kp, int kr)
{
  typedef QuaternionT<S> QT;
  Case c = mkcase("ypr", QNm<S>::q());
  c << ky << kp << kr;
  const S y = angle<S>(ky), p = angle<S>(kp), r = angle<S>(kr);
  const ref::M want =
      ref::mul(ref::axis_angle(ref::vec(0, 1, 0), (LD)y), ref::mul(ref::axis_angle(ref::vec(1, 0, 0), (LD)p), ref::axis_angle(ref::vec(0, 0, 1), (LD)r)));
  R.states++;
  const QT q(y, p, r);
  R.outcome(hbits(q.r, hbits(q.j)));
  R.cmpM(c, "Q(yaw,pitch,roll) is R_y(yaw) R_x(pitch) R_z(roll)", "", ref::qmat(rq(q)), want, tolr<S>(1, 1));
}

// ---------------------------------------------------------------- frame(N), frame(N, up)
template <class L>
inline void check_frame(Rep &R, int ni, int upi)
{
  typedef typename L::Scalar S;
  typedef typename L::Vector V;
  Case c = mkcase("frame", Nm<L>::vec());
  c << ni << upi;
  const V NT = Mk<V>::v(ref::unit(dir26(ni)));
  const ref::V n = rv(NT);
  R.states++;
  const LD tol = tolr<S>(1, 1, true);
  if (upi < 0) {
    const L f = frame(NT);
    R.outcome(hbits(f));
    const ref::M F = rm(f);
    R.cmpV(c, "frame(N): vz is N", "", ref::col(F, 2), n, 3, 0);
    R.cmpM(c, "frame(N) is orthonormal", "", ref::mul(ref::transp(F), F), ref::ident(3), tol);
    R.cmpS(c, "frame(N) is right-handed (det +1)", "", ref::det(F), 1, tol);
    return;
  }
  const V UT = Mk<V>::v(ref::unit(dir26(upi)));
  const ref::V up = rv(UT);
  const L f = frame(NT, UT);
  R.outcome(hbits(f));
  const ref::M F = rm(f);
  R.cmpV(c, "frame(N,up): vz is N", "", ref::col(F, 2), n, 3, 0);
  const LD sinphi = ref::norm(ref::cross(up, n));
  const bool parallel = fabsl(ref::dot(up, n)) > 0.99L;
  if (parallel) {
    // documented fallback: any frame around N
    R.count("frame_up_parallel_to_N");
    R.cmpM(c, "frame(N,up) is orthonormal", "up parallel to N", ref::mul(ref::transp(F), F), ref::ident(3), tol);
    R.cmpS(c, "frame(N,up) is right-handed (det +1)", "up parallel to N", ref::det(F), 1, tol);
    return;
  }
  const LD tk = tolr<S>(1 / sinphi, 1, true);
  const ref::V vy = ref::unit(ref::sub(up, ref::mul(ref::dot(up, n), n)));  // up made perpendicular to N
  const ref::V vx = ref::cross(vy, n);                                      // completes the right-handed frame
  R.cmpV(c, "frame(N,up): vy is up made perpendicular to N", "", ref::col(F, 1), vy, 3, tk);
  R.cmpV(c, "frame(N,up): vx = vy x vz", "", ref::col(F, 0), vx, 3, tk);
  R.cmpM(c, "frame(N,up) is orthonormal", "", ref::mul(ref::transp(F), F), ref::ident(3), tk);
  R.cmpS(c, "frame(N,up) is right-handed (det +1)", "", ref::det(F), 1, tk);
}

// ---------------------------------------------------------------- lookat(eye, point, up)
// right-handed world: forward Z = unit(point-eye), right U = Z x up (normalised), true up V = U x Z;
// the map sends e_x,e_y,e_z to U,V,Z and the origin to eye.
template <class L>
inline void check_lookat(Rep &R, int ei, int pi, int upi)
{
  typedef typename L::Scalar S;
  typedef typename L::Vector V;
  typedef AffineSpaceT<L> A;
  Case c = mkcase("lookat", Nm<L>::aff());
  c << ei << pi << upi;
  const ref::V eye = trans64(ei), pt = trans64(pi);
  const V UT = Mk<V>::v(ref::unit(dir26(upi)));
  const ref::V up = rv(UT);
  const ref::V Z = ref::unit(ref::sub(pt, eye));
  const LD sinphi = ref::norm(ref::cross(Z, up)) / ref::norm(up);
  if (sinphi < 1.0L / 64) {
    R.count("lookat_skipped_up_parallel_to_view");
    return;
  }
  R.states++;
  const A a = A::lookat(Mk<V>::v(eye), Mk<V>::v(pt), UT);
  R.outcome(hbits(a.l));
  const LD tk = tolr<S>(1 / sinphi, 1, true);
  const ref::V Vv = ref::unit(ref::sub(up, ref::mul(ref::dot(up, Z), Z)));
  const ref::V U = ref::cross(Z, Vv);
  const ref::M F = rm(a.l);
  R.cmpV(c, "lookat: origin is eye", "", rv(a.p), eye, 3, tolr<S>(1, ref::norm(eye)));
  R.cmpV(c, "lookat: vz is the unit direction from eye to point", "", ref::col(F, 2), Z, 3, tk);
  R.cmpV(c, "lookat: vy is up made perpendicular to the view direction", "", ref::col(F, 1), Vv, 3, tk);
  R.cmpV(c, "lookat: vx is forward x up (right, right-handed world)", "", ref::col(F, 0), U, 3, tk);
  R.cmpM(c, "lookat: axes are orthonormal", "", ref::mul(ref::transp(F), F), ref::ident(3), tk);
}
