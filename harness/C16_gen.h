// C16: document generator for the XML reader check.
//
// A document is produced by a deterministic procedure that asks a "choice source" for every
// decision (header form, whitespace layout, comment pattern, and per node: name, property
// set, body kind, children).  Enumerating every choice sequence enumerates the declared tree
// space; a recorded choice sequence ("1.0.2.1...") replays exactly one document.  The
// procedure emits the bytes while it decides, so a length bound prunes whole subtrees.
//
// The generating tree (RNode) is the oracle side: it never looks at rkcommon.
#pragma once
#include <cstdio>
#include <cstdlib>
#include <map>
#include <string>
#include <vector>

namespace c16 {

struct RNode
{
  std::string name, content;
  bool content_ambiguous = false;  // the text has \v or \f at an end: the reader's two trimming rules disagree, content not compared
  std::map<std::string, std::string> props;
  std::vector<RNode> child;
};

// sizes of the option lists per tier; the thorough lists extend the quick ones, so a choice
// sequence recorded in either tier means the same document under params_max()
struct Params
{
  int NH;    // header forms
  int NL;    // whitespace layouts
  int NP;    // comment patterns (prefix of PATTERNS)
  int NPR;   // property sets of the root element (prefix of PROPSETS)
  int NPC;   // property sets of the child elements (prefix of PROPSETS)
  int NTEXT; // text contents
  int MAXCHAIN;
};
inline Params params_quick()
{
  Params p = {2, 2, 8, 12, 4, 1, 8};
  return p;
}
inline Params params_thorough()
{
  Params p = {4, 3, 14, 16, 5, 2, 8};
  return p;
}
// base documents of the mutation part: the quick space with one empty attribute and one
// dash-ended comment body
inline Params params_mutbase()
{
  Params p = {2, 2, 5, 8, 4, 1, 8};
  return p;
}
inline Params params_max()
{
  return params_thorough();
}

static const char *const HEADERS[4] = {"", "<?xml version=\"1.0\"?>", "<?xml?>", "<?xml version='1.0' encoding=\"UTF-8\" ?>"};
static const char *const NAMES[2] = {"a", "b_1"};
static const char *const TEXTS[2] = {"t u", "p=\"q' /> -- ?> \\"};
// Texts made of / framed by control whitespace (family 2).  The reader skips LEADING blanks with its own
// isWhite() = {space, \\t, \\n, \\r} but trims TRAILING ones with isspace(), which also accepts \\v and \\f.
// Where only {space,\\t,\\n,\\r} are involved both rules agree and the expected content is the text
// trimmed of them; a text with \\v or \\f at either end is ambiguous (observed on the clean tree:
// "<a>\\v</a>" returns empty content, "\\vt u\\v" returns "\\vt u", "<a>\\t\\v</a>" throws runtime_error
// "invalid substring") - for those only totality and the std::runtime_error contract are judged.
struct CText
{
  const char *bytes, *want;
  bool ambiguous;
};
static const int NCTEXT = 16;
static const CText CTEXTS[NCTEXT] = {
    {"\tt u\t", "t u", false},
    {"\nt u\r\n", "t u", false},
    {"\r t\tu \r", "t\tu", false},
    {"\t", "", false},
    {"\r\n\t ", "", false},
    {"\n\n", "", false},
    {"t\vu\fw", "t\vu\fw", false},  // \v \f strictly inside: kept by both rules
    {"\v", "", true},
    {"\f", "", true},
    {"\t\v", "", true},
    {"\v\t", "", true},
    {"\f \v\r", "", true},
    {"\vt u\v", "t u", true},
    {"\ft u\f", "t u", true},
    {" \v t u \f ", "t u", true},
    {"\t\v\f\n\r", "", true},
};

// comment bodies (between "<!--" and "-->").  Bodies that start with '>' or "->" are not in the
// supported subset: the reader starts looking for "-->" right after "<!", so "<!-->x-->" ends at
// "<!-->" (observed on the clean tree: <a><!-->x--><b/></a> returns a{x-->}(b)).
static const char *const BODIES[9] = {"c", "a-", "a--", "-", " <x k=\"1'> -- y -> z > </x ", "--", "---", "", "-x"};
struct Pattern
{
  int mask;  // 0 none, 1 every slot, 2 even slots, 3 odd slots
  int body;
};
static const Pattern PATTERNS[16] = {
    {0, 0}, {1, 0}, {2, 0}, {3, 0},
    {1, 1},                          // body ends in one dash: "<!--a--->"      (mutation base: first 5)
    {1, 2}, {1, 3}, {1, 4},          // ends in two dashes; only a dash; "--", "->", '>', '<', quotes inside   (quick: first 8)
    {2, 1}, {3, 1}, {1, 5}, {1, 6}, {1, 7}, {1, 8}, {3, 3}, {2, 4},
};

struct PropDef
{
  const char *name;
  char quote;
  const char *value;
};
struct PropSet
{
  int n;
  PropDef p[3];
};
#define C16_NOPROP {"", 0, ""}
static const PropSet PROPSETS[16] = {
    {0, {C16_NOPROP, C16_NOPROP, C16_NOPROP}},
    {1, {{"k", '\'', "v"}, C16_NOPROP, C16_NOPROP}},
    {2, {{"k", '"', "v"}, {"l", '\'', "w x"}, C16_NOPROP}},
    {2, {{"k", '"', "v"}, {"l", '"', ""}, C16_NOPROP}},      // empty value after a non-empty one   (children, quick: first 4)
    {1, {{"k", '"', "v"}, C16_NOPROP, C16_NOPROP}},
    {2, {{"k", '\'', "v"}, {"l", '"', "w x"}, C16_NOPROP}},
    {2, {{"k", '"', "v"}, {"l", '"', "w x"}, C16_NOPROP}},
    {2, {{"k", '\'', "v"}, {"l", '\'', "w x"}, C16_NOPROP}},  // (mutation base root: first 8)
    {2, {{"k", '\'', "v"}, {"l", '\'', ""}, C16_NOPROP}},     // empty after non-empty, single quotes
    {2, {{"k", '"', ""}, {"l", '"', "w x"}, C16_NOPROP}},     // empty before non-empty
    {2, {{"k", '\'', ""}, {"l", '\'', "w x"}, C16_NOPROP}},
    {2, {{"k", '"', "v"}, {"l", '"', "v"}, C16_NOPROP}},      // two attributes with equal values   (root, quick: first 12)
    // thorough only
    {2, {{"k", '"', ""}, {"l", '\'', ""}, C16_NOPROP}},                      // both empty
    {2, {{"l", '"', "i'j"}, {"k", '\'', "i\"j"}, C16_NOPROP}},               // the other quote inside, names not in map order
    {1, {{"_k2.x", '"', "<a/> > = / <!--"}, C16_NOPROP, C16_NOPROP}},       // identifier with _ digit . ; markup characters inside a value
    {3, {{"k", '"', "v"}, {"l", '\'', ""}, {"m", '"', "v"}}},                 // non-empty, empty, equal to the first
};

// ------------------------------------------------------------------------------ choice source
struct Choices
{
  std::vector<int> digit, bound;
  size_t pos = 0, frozen = 0;  // the first `frozen` digits are never advanced
  bool replay = false, bad = false;

  int choose(int n)
  {
    if (pos == digit.size()) {
      if (replay) {
        bad = true;  // sequence too short
        return 0;
      }
      digit.push_back(0);
      bound.push_back(n);
    } else {
      if (pos >= bound.size())
        bound.resize(pos + 1);
      bound[pos] = n;
      if (digit[pos] >= n) {
        bad = true;
        return 0;
      }
    }
    return digit[pos++];
  }
  // drop the decisions after the ones consumed so far (the caller pruned the subtree)
  void cut()
  {
    digit.resize(pos);
    bound.resize(pos);
  }
  // next sequence in lexicographic order; false when exhausted
  bool next()
  {
    while (digit.size() > frozen) {
      if (++digit.back() < bound.back()) {
        pos = 0;
        return true;
      }
      digit.pop_back();
      bound.pop_back();
    }
    return false;
  }
  std::string str() const
  {
    std::string s;
    for (size_t i = 0; i < digit.size(); i++)
      s += (i ? "." : "") + std::to_string(digit[i]);
    return s;
  }
  static Choices parse(const std::string &s)
  {
    Choices c;
    c.replay = true;
    size_t i = 0;
    while (i < s.size()) {
      size_t j = s.find('.', i);
      if (j == std::string::npos)
        j = s.size();
      c.digit.push_back(atoi(s.substr(i, j - i).c_str()));
      i = j + 1;
    }
    c.bound.resize(c.digit.size(), 0);
    return c;
  }
};

// ------------------------------------------------------------------------------ generator
struct Gen
{
  Choices &c;
  Params P;
  size_t maxlen;  // 0: unbounded; else stop as soon as the document is longer
  std::string doc;
  RNode root;  // pseudo node: its children are the top-level elements
  int layout = 0, pattern = 0, slot = 0;
  bool toolong = false;
  bool lenient = false;  // the document contains an ambiguous text: a std::runtime_error is acceptable

  Gen(Choices &cs, const Params &p, size_t maxlen_ = 0) : c(cs), P(p), maxlen(maxlen_) {}

  bool over()
  {
    if (maxlen && doc.size() > maxlen)
      toolong = true;
    return toolong;
  }
  void brk(int depth)
  {
    if (doc.empty() || layout == 0)
      return;
    if (layout == 1) {
      doc += "\n";
      doc.append(2 * depth, ' ');
    } else {
      doc += "\r\n";
      doc.append(depth, '\t');
    }
  }
  void comment_slot(int depth)
  {
    int s = slot++;
    int mask = PATTERNS[pattern].mask;
    bool on = mask == 1 || (mask == 2 && s % 2 == 0) || (mask == 3 && s % 2 == 1);
    if (!on)
      return;
    brk(depth);
    doc += std::string("<!--") + BODIES[PATTERNS[pattern].body] + "-->";
  }
  void emit_props(const PropSet &ps, int depth, RNode &n)
  {
    for (int i = 0; i < ps.n; i++) {
      const PropDef &p = ps.p[i];
      std::string q(1, p.quote);
      if (layout == 0)
        doc += std::string(" ") + p.name + "=" + q + p.value + q;
      else if (layout == 1)
        doc += std::string(" ") + p.name + " = " + q + p.value + q;
      else {
        doc += "\r\n";
        doc.append(depth + 1, '\t');
        doc += std::string(p.name) + "\t=" + q + p.value + q;
      }
      n.props[p.name] = p.value;
    }
  }
  // body kinds: 0 self-closing, 1 open/close empty, 2 open/close with text,
  // 3.. (only above the depth limit): 3 + (nchildren-1)*3 + {0 no text, 1 text before, 2 text after the children}
  void element(int depth, int maxdepth, RNode &out)
  {
    out.name = NAMES[c.choose(2)];
    const PropSet &ps = PROPSETS[c.choose(depth == 0 ? P.NPR : P.NPC)];
    int kind = c.choose(depth < maxdepth ? 9 : 3);
    brk(depth);
    doc += "<" + out.name;
    emit_props(ps, depth, out);
    if (over())
      return;
    if (kind == 0) {
      doc += layout == 0 ? "/>" : layout == 1 ? " />" : "\t/>";
      return;
    }
    if (layout == 0)
      doc += ">";
    else if (layout == 1)
      doc += " >";
    else {
      doc += "\r\n";
      doc.append(depth, '\t');
      doc += ">";
    }
    int nchild = kind < 3 ? 0 : 1 + (kind - 3) / 3;
    int textpos = kind == 2 ? 1 : kind < 3 ? 0 : (kind - 3) % 3;
    std::string text;
    if (textpos)
      text = TEXTS[P.NTEXT > 1 ? c.choose(P.NTEXT) : 0];
    comment_slot(depth + 1);
    if (textpos == 1) {
      brk(depth + 1);
      doc += text;
    }
    out.content = text;
    for (int i = 0; i < nchild && !over(); i++) {
      if (i)
        comment_slot(depth + 1);
      out.child.push_back(RNode());
      element(depth + 1, maxdepth, out.child.back());
    }
    if (over())
      return;
    if (nchild)
      comment_slot(depth + 1);
    if (textpos == 2) {
      brk(depth + 1);
      doc += text;
    }
    brk(depth);
    doc += "</" + out.name + ">";
  }
  void finish_doc()
  {
    comment_slot(0);
    if (layout == 1)
      doc += "\n";
    else if (layout == 2)
      doc += "\r\n";
    over();
  }
  // family 0: header x layout x comment pattern x tree (root + up to 2 leaf children)
  // family 1: nesting chains, depth 1..MAXCHAIN, one child per level
  // family 2: texts made of / framed by control whitespace bytes
  // returns false if the document was cut by the length bound (the choice source is then cut)
  bool run()
  {
    doc.clear();
    root = RNode();
    slot = 0;
    toolong = false;
    lenient = false;
    int family = c.choose(3);
    if (family == 0) {
      doc += HEADERS[c.choose(P.NH)];
      layout = c.choose(P.NL);
      pattern = c.choose(P.NP);
      comment_slot(0);
      root.child.push_back(RNode());
      element(0, 1, root.child.back());
      if (!over())
        finish_doc();
    } else if (family == 2) {
      // control-whitespace texts: layout x {no comments, 'c' in every slot} x root name x shape x text
      layout = c.choose(P.NL);
      pattern = c.choose(2);
      std::string name = NAMES[c.choose(2)];
      int shape = c.choose(4);  // 0 text only, 1 text then child, 2 child then text, 3 text inside the child
      const CText &t = CTEXTS[c.choose(NCTEXT)];
      lenient = t.ambiguous;
      comment_slot(0);
      root.child.push_back(RNode());
      RNode &r = root.child.back();
      r.name = name;
      brk(0);
      doc += "<" + name + ">";
      comment_slot(1);
      RNode *holder = &r;
      if (shape == 1) {
        brk(1);
        doc += t.bytes;
      }
      if (shape != 0) {
        r.child.push_back(RNode());
        r.child.back().name = NAMES[1];
        brk(1);
        if (shape == 3) {
          holder = &r.child.back();
          doc += std::string("<") + NAMES[1] + ">";
          brk(2);
          doc += t.bytes;
          brk(1);
          doc += std::string("</") + NAMES[1] + ">";
        } else
          doc += std::string("<") + NAMES[1] + "/>";
        comment_slot(1);
      }
      if (shape == 0 || shape == 2) {
        brk(1);
        doc += t.bytes;
      }
      holder->content = t.want;
      holder->content_ambiguous = t.ambiguous;
      brk(0);
      doc += "</" + name + ">";
      finish_doc();
    } else {
      layout = c.choose(P.NL);
      pattern = 0;
      int depth = 1 + c.choose(P.MAXCHAIN);
      std::vector<std::string> names;
      for (int i = 0; i < depth; i++)
        names.push_back(NAMES[c.choose(2)]);
      int leafkind = c.choose(3);
      RNode *cur = &root;
      for (int i = 0; i < depth; i++) {
        cur->child.push_back(RNode());
        cur = &cur->child.back();
        cur->name = names[i];
        brk(i);
        if (i == depth - 1 && leafkind == 0) {
          doc += "<" + names[i] + "/>";
        } else {
          doc += "<" + names[i] + ">";
          if (i == depth - 1 && leafkind == 2) {
            doc += TEXTS[0];
            cur->content = TEXTS[0];
          }
        }
      }
      for (int i = depth - 1; i >= 0; i--) {
        if (i == depth - 1 && leafkind == 0)
          continue;
        if (i != depth - 1)
          brk(i);
        doc += "</" + names[i] + ">";
      }
      finish_doc();
    }
    if (toolong)
      c.cut();
    return !toolong;
  }
};

inline std::string tree_str(const RNode &n)
{
  std::string s = n.name;
  if (!n.props.empty()) {
    s += "[";
    bool first = true;
    for (auto &kv : n.props) {
      s += (first ? "" : ",") + kv.first + "=`" + kv.second + "`";
      first = false;
    }
    s += "]";
  }
  if (!n.content.empty())
    s += "{" + n.content + "}";
  if (!n.child.empty()) {
    s += "(";
    for (size_t i = 0; i < n.child.size(); i++)
      s += (i ? " " : "") + tree_str(n.child[i]);
    s += ")";
  }
  return s;
}

// ------------------------------------------------------------------------------ input classes
// Shape class of an input, computed from the bytes alone (used to name a failure's equivalence
// class before the case runs).  "open value": somewhere an identifier is followed by '=' and an
// opening quote, and the same quote character never follows (a backslash hides the byte after it).
enum InputClass
{
  IC_OTHER = 0,
  IC_OPEN_VALUE = 1,       // quoted property value never closed
  IC_OPEN_VALUE_BSL = 2,   // ... and the last byte is a backslash
};
inline bool is_white(char ch)
{
  return ch == ' ' || ch == '\t' || ch == '\n' || ch == '\r';
}
inline bool is_ident(char ch)
{
  return (ch >= 'a' && ch <= 'z') || (ch >= 'A' && ch <= 'Z') || (ch >= '0' && ch <= '9') || ch == '_' || ch == '.';
}
inline InputClass classify_input(const std::string &d)
{
  InputClass best = IC_OTHER;
  for (size_t p = 0; p < d.size(); p++) {
    char q = d[p];
    if (q != '"' && q != '\'')
      continue;
    size_t i = p;
    while (i > 0 && is_white(d[i - 1]))
      i--;
    if (i == 0 || d[i - 1] != '=')
      continue;
    i--;
    while (i > 0 && is_white(d[i - 1]))
      i--;
    if (i == 0 || !is_ident(d[i - 1]))
      continue;
    // opening quote of a value at p: look for the closing one
    size_t j = p + 1;
    bool closed = false, bsl_end = false;
    while (j < d.size()) {
      if (d[j] == q) {
        closed = true;
        break;
      }
      if (d[j] == '\\') {
        if (j + 1 >= d.size())
          bsl_end = true;  // the backslash is the last byte: the pair swallows the terminator
        j += 2;
      } else
        j++;
    }
    if (!closed) {
      if (bsl_end)
        return IC_OPEN_VALUE_BSL;
      best = IC_OPEN_VALUE;
    }
  }
  return best;
}
inline const char *class_name(InputClass c)
{
  switch (c) {
  case IC_OPEN_VALUE: return "input: quoted property value never closed";
  case IC_OPEN_VALUE_BSL: return "input: unclosed quoted property value ending in a backslash";
  default: return "input: other";
  }
}

// printable, tab/newline free, reversible encoding for replay strings: %XX for everything that is
// not a printable non-space character (and for '%')
inline std::string enc(const std::string &s)
{
  std::string o;
  for (unsigned char ch : s) {
    if (ch > 32 && ch < 127 && ch != '%')
      o += (char)ch;
    else {
      char b[8];
      snprintf(b, sizeof b, "%%%02X", ch);
      o += b;
    }
  }
  return o;
}
inline std::string dec(const std::string &s)
{
  std::string o;
  for (size_t i = 0; i < s.size(); i++) {
    if (s[i] == '%' && i + 2 < s.size()) {
      o += (char)strtol(s.substr(i + 1, 2).c_str(), nullptr, 16);
      i += 2;
    } else
      o += s[i];
  }
  return o;
}

}  // namespace c16
