// C06 part 3: every remaining operator / helper of LinearSpace2/3, AffineSpaceT and QuaternionT that
// combines maps: unary +/-, map+map, map-map, scalar*map, map/scalar, map*map and map/map against the
// reference, the compound assignments (A op= B leaves A equal to A op B and returns A itself),
// operator== / != (including operands that differ in exactly one column / the offset / one component),
// clamp, the converting / component constructors, operator L*(), xfmBounds, and the quaternion
// scalar / mixed-type arithmetic.
//
// Not instantiable on this tree (compile errors, so nothing to run; reported as observations):
//   AffineSpaceT / scalar, AffineSpaceT *= scalar, AffineSpaceT /= scalar   (no AffineSpaceT * scalar operator)
//   LinearSpace2/3::operator Scalar*()                                      (static_cast Vector* -> Scalar*)
//   double * quatf, quatf * double                                          (no QuaternionT<double>(QuaternionT<float>))
#pragma once
#include "C06_matrix.h"
#include "rkcommon/math/box.h"

template <class L>
struct Other;
template <>
struct Other<LinearSpace3f>
{
  typedef LinearSpace3fa type;
};
template <>
struct Other<LinearSpace3fa>
{
  typedef LinearSpace3f type;
};

template <>
struct Other<LinearSpace3<vec3d>>
{
  typedef LinearSpace3<vec3d> type;
};

inline ref::M madd_(const ref::M &A, const ref::M &B, LD sb)
{
  ref::M o = A;
  for (int r = 0; r < 3; r++)
    for (int c = 0; c < 3; c++)
      o.a[r][c] = A.a[r][c] + sb * B.a[r][c];
  return o;
}
inline ref::M mscale_(LD s, const ref::M &A)
{
  ref::M o = A;
  for (int r = 0; r < 3; r++)
    for (int c = 0; c < 3; c++)
      o.a[r][c] = s * A.a[r][c];
  return o;
}

// L(row-major scalars), clamp, converting constructor: 3D only
inline LinearSpace2f rowmajor(LinearSpace2f *, const ref::M &A)
{
  return LinearSpace2f((float)A.a[0][0], (float)A.a[0][1], (float)A.a[1][0], (float)A.a[1][1]);
}
template <class V3>
inline LinearSpace3<V3> rowmajor(LinearSpace3<V3> *, const ref::M &A)
{
  typedef typename V3::scalar_t S;
  return LinearSpace3<V3>((S)A.a[0][0], (S)A.a[0][1], (S)A.a[0][2], (S)A.a[1][0], (S)A.a[1][1], (S)A.a[1][2], (S)A.a[2][0], (S)A.a[2][1], (S)A.a[2][2]);
}
inline void linear3_only(Rep &, const Case &, const LinearSpace2f &, const Pre &) {}
template <class V3>
inline void linear3_only(Rep &R, const Case &c, const LinearSpace3<V3> &m, const Pre &a)
{
  typedef LinearSpace3<V3> L;
  typedef typename L::Scalar S;
  ref::M C = a.A;
  for (int r = 0; r < 3; r++)
    for (int cc = 0; cc < 3; cc++)
      C.a[r][cc] = C.a[r][cc] < -1 ? -1 : C.a[r][cc] > 1 ? 1 : C.a[r][cc];
  R.cmpM(c, "clamp(L) clamps every entry to [-1,1]", "", rm(clamp(m)), C, tolr<S>(1, 1));
  const typename Other<L>::type o(m);
  R.cmpM(c, "converting constructor plain<->padded keeps the matrix", "", rm(o), a.A, tolr<S>(1, a.fA));
}

// the same matrix with one entry of column col changed
inline LinearSpace2f bump(const LinearSpace2f &m, int col)
{
  LinearSpace2f o = m;
  (col == 0 ? o.vx : o.vy).y += 1.f;
  return o;
}
template <class V3>
inline LinearSpace3<V3> bump(const LinearSpace3<V3> &m, int col)
{
  LinearSpace3<V3> o = m;
  (col == 0 ? o.vx : col == 1 ? o.vy : o.vz).z += 1.f;
  return o;
}
inline void bumpv(vec2f &v) { v.y += 1.f; }
inline void bumpv(vec3f &v) { v.z += 1.f; }
inline void bumpv(vec3fa &v) { v.z += 1.f; }
inline void bumpv(vec3d &v) { v.z += 1.0; }

inline const char *tf(bool b) { return b ? "true" : "false"; }

// ---------------------------------------------------------------- LinearSpace operators on an ordered pair
template <class L>
inline void check_linear_ops(Rep &R, const Case &c, const Pre &a, const Pre &b)
{
  typedef typename L::Scalar S;
  typedef typename L::Vector V;
  const int n = a.A.n;
  const L m = mk<L>(a.A), p = mk<L>(b.A);
  const S s = S(-3);
  const LD kap = a.kappa > b.kappa ? a.kappa : b.kappa;
  R.states++;
  R.cmpM(c, "-L negates every entry", "", rm(-m), mscale_(-1, a.A), tolr<S>(1, a.fA));
  R.cmpM(c, "+L is L", "", rm(+m), a.A, tolr<S>(1, a.fA));
  R.cmpM(c, "L(row-major scalars) is that matrix", "", rm(rowmajor((L *)nullptr, a.A)), a.A, tolr<S>(1, a.fA));
  R.cmpM(c, "A+B adds entrywise", "", rm(m + p), madd_(a.A, b.A, 1), tolr<S>(1, a.fA + b.fA));
  R.cmpM(c, "A-B subtracts entrywise", "", rm(m - p), madd_(a.A, b.A, -1), tolr<S>(1, a.fA + b.fA));
  R.cmpM(c, "s*L scales every entry", "", rm(s * m), mscale_(-3, a.A), tolr<S>(1, 3 * a.fA));
  R.cmpM(c, "L/s divides every entry", "", rm(m / s), mscale_(-1.0L / 3, a.A), tolr<S>(1, a.fA));
  const L prod = m * p, quot = m / p;
  R.outcome(hbits(quot));
  R.cmpM(c, "A*B is the matrix product", "", rm(prod), ref::mul(a.A, b.A), tolr<S>(kap, a.fA * b.fA));
  R.cmpM(c, "A/B is A*inverse(B)", "", rm(quot), ref::mul(a.A, b.Ainv), tolr<S>(kap, a.fA * b.fAinv));
  {
    const ref::V x = points(n)[0];
    R.cmpV(c, "L*x is the matrix-vector product", "", rv(m * Mk<V>::v(x)), ref::app(a.A, x), n, tolr<S>(1, a.fA * ref::norm(x)));
  }
  {
    L t = m;
    L &r = (t *= p);
    R.holds(c, "A*=B returns a reference to A", "", &r == &t, "the returned reference is not the left operand");
    R.cmpM(c, "A*=B leaves A equal to A*B", "", rm(t), rm(prod), tolr<S>(kap, a.fA * b.fA));
    L u = m;
    L &r2 = (u /= p);
    R.holds(c, "A/=B returns a reference to A", "", &r2 == &u, "the returned reference is not the left operand");
    R.cmpM(c, "A/=B leaves A equal to A/B", "", rm(u), rm(quot), tolr<S>(kap, a.fA * b.fAinv));
  }
  {
    bool same = true;
    for (int r = 0; r < n; r++)
      for (int cc = 0; cc < n; cc++)
        same = same && a.A.a[r][cc] == b.A.a[r][cc];
    const bool eq = (m == p), ne = (m != p);
    R.holds(c, "A==B iff all entries are equal", "", eq == same, std::string("got ") + tf(eq) + " want " + tf(same));
    R.holds(c, "A!=B iff some entry differs", "", ne == !same, std::string("got ") + tf(ne) + " want " + tf(!same));
    R.holds(c, "A==A", "", (m == m) && !(m != m), "a matrix does not compare equal to itself");
    for (int col = 0; col < n; col++) {
      const L m2 = bump(m, col);
      R.holds(c, "A==B is false / A!=B is true when only one column differs", "", !(m == m2) && (m != m2) && !(m2 == m) && (m2 != m),
          "column " + std::to_string(col) + " differs but the matrices compare equal");
    }
  }
  linear3_only(R, c, m, a);
}

// ---------------------------------------------------------------- AffineSpace operators on an ordered pair
inline void affine3_only(Rep &, const Case &, const AffineSpace2f &, const Pre &, const ref::V &) {}
template <class V3>
inline void affine3_only(Rep &R, const Case &c, const AffineSpaceT<LinearSpace3<V3>> &m, const Pre &a, const ref::V &t)
{
  typedef LinearSpace3<V3> L;
  typedef typename L::Scalar S;
  typedef AffineSpaceT<L> A;
  const LD nt = ref::norm(t);
  const AffineSpaceT<typename Other<L>::type> o(m);
  R.cmpM(c, "converting constructor plain<->padded keeps the linear part", "", rm(o.l), a.A, tolr<S>(1, a.fA));
  R.cmpV(c, "converting constructor plain<->padded keeps the offset", "", rv(o.p), t, 3, tolr<S>(1, nt));
  const A q(m.l.vx, m.l.vy, m.l.vz, m.p);
  R.cmpM(c, "A(vx,vy,vz,p) has those columns", "", rm(q.l), a.A, tolr<S>(1, a.fA));
  R.cmpV(c, "A(vx,vy,vz,p) has that offset", "", rv(q.p), t, 3, tolr<S>(1, nt));
  // xfmBounds: the smallest box around the images of the 8 corners
  const ref::V lo = ref::vec(-1, 0, -2), hi = ref::vec(1, 2, 3);
  ref::V wl = ref::vec(INFINITY, INFINITY, INFINITY), wh = ref::vec(-INFINITY, -INFINITY, -INFINITY);
  for (int k = 0; k < 8; k++) {
    const ref::V cn = ref::vec(k & 1 ? hi.v[0] : lo.v[0], k & 2 ? hi.v[1] : lo.v[1], k & 4 ? hi.v[2] : lo.v[2]);
    const ref::V img = ref::add(ref::app(a.A, cn), t);
    for (int i = 0; i < 3; i++) {
      wl.v[i] = fminl(wl.v[i], img.v[i]);
      wh.v[i] = fmaxl(wh.v[i], img.v[i]);
    }
  }
  const box_t<S, 3, std::is_same<V3, vec3fa>::value> bx(Mk<V3>::v(lo), Mk<V3>::v(hi));
  const box_t<S, 3, std::is_same<V3, vec3fa>::value> out = xfmBounds(m, bx);
  const LD tb = tolr<S>(1, a.fA * 4 + nt);
  R.cmpV(c, "xfmBounds: lower corner of the box around the 8 corner images", "", rv(out.lower), wl, 3, tb);
  R.cmpV(c, "xfmBounds: upper corner of the box around the 8 corner images", "", rv(out.upper), wh, 3, tb);
}

template <class L>
inline void check_affine_ops(Rep &R, const Case &c, const Pre &a, const ref::V &t, const Partner &pb)
{
  typedef typename L::Scalar S;
  typedef typename L::Vector V;
  typedef AffineSpaceT<L> A;
  const int n = a.A.n;
  const Pre &b = pb.pre;
  const ref::V &sft = pb.t;
  const A m(mk<L>(a.A), Mk<V>::v(t)), mb(mk<L>(b.A), Mk<V>::v(sft));
  const LD nt = ref::norm(t), ns = ref::norm(sft);
  const LD kap = a.kappa > b.kappa ? a.kappa : b.kappa;
  const S s = S(-3);
  R.states++;
  R.cmpM(c, "-A negates the linear part", "", rm((-m).l), mscale_(-1, a.A), tolr<S>(1, a.fA));
  R.cmpV(c, "-A negates the offset", "", rv((-m).p), ref::mul(-1, t), n, tolr<S>(1, nt));
  R.cmpM(c, "+A keeps the linear part", "", rm((+m).l), a.A, tolr<S>(1, a.fA));
  R.cmpV(c, "+A keeps the offset", "", rv((+m).p), t, n, tolr<S>(1, nt));
  R.cmpM(c, "A+B adds the linear parts", "", rm((m + mb).l), madd_(a.A, b.A, 1), tolr<S>(1, a.fA + b.fA));
  R.cmpV(c, "A+B adds the offsets", "", rv((m + mb).p), ref::add(t, sft), n, tolr<S>(1, nt + ns));
  R.cmpM(c, "A-B subtracts the linear parts", "", rm((m - mb).l), madd_(a.A, b.A, -1), tolr<S>(1, a.fA + b.fA));
  R.cmpV(c, "A-B subtracts the offsets", "", rv((m - mb).p), ref::sub(t, sft), n, tolr<S>(1, nt + ns));
  R.cmpM(c, "s*A scales the linear part", "", rm((s * m).l), mscale_(-3, a.A), tolr<S>(1, 3 * a.fA));
  R.cmpV(c, "s*A scales the offset", "", rv((s * m).p), ref::mul(-3, t), n, tolr<S>(1, 3 * nt));
  // composition and quotient against the reference: (A*B)(x) = A(B(x)), A/B = A * B^-1
  const A prod = m * mb, quot = m / mb;
  R.outcome(hbits(quot.p.x, hbits(prod.p.y)));
  const ref::M ABinv = ref::mul(a.A, b.Ainv);
  const LD tp = tolr<S>(kap, a.fA * b.fA), tpp = tolr<S>(kap, a.fA * ns + nt);
  const LD tq = tolr<S>(kap, a.fA * b.fAinv), tqp = tolr<S>(kap, a.fA * b.fAinv * ns + nt);
  R.cmpM(c, "A*B: linear part is A.l*B.l", "", rm(prod.l), ref::mul(a.A, b.A), tp);
  R.cmpV(c, "A*B: offset is A.l*B.p + A.p", "", rv(prod.p), ref::add(ref::app(a.A, sft), t), n, tpp);
  R.cmpM(c, "A/B: linear part is A.l*inverse(B.l)", "", rm(quot.l), ABinv, tq);
  R.cmpV(c, "A/B: offset is A.p - A.l*inverse(B.l)*B.p", "", rv(quot.p), ref::sub(t, ref::app(ABinv, sft)), n, tqp);
  {
    A x = m;
    A &r = (x *= mb);
    R.holds(c, "A*=B returns a reference to A", "", &r == &x, "the returned reference is not the left operand");
    R.cmpM(c, "A*=B leaves A equal to A*B (linear part)", "", rm(x.l), rm(prod.l), tp);
    R.cmpV(c, "A*=B leaves A equal to A*B (offset)", "", rv(x.p), rv(prod.p), n, tpp);
    A y = m;
    A &r2 = (y /= mb);
    R.holds(c, "A/=B returns a reference to A", "", &r2 == &y, "the returned reference is not the left operand");
    R.cmpM(c, "A/=B leaves A equal to A/B (linear part)", "", rm(y.l), rm(quot.l), tq);
    R.cmpV(c, "A/=B leaves A equal to A/B (offset)", "", rv(y.p), rv(quot.p), n, tqp);
    // the accumulated map acts like the two maps one after the other
    const ref::V pt = points(n)[0];
    const V xv = Mk<V>::v(pt);
    R.cmpV(c, "after A*=B, A applied to x = old A applied to (B applied to x)", "", rv(applyA(x, xv)), rv(applyA(m, applyA(mb, xv))), n,
        tolx<S>(kap, a.fA * (b.fA * ref::norm(pt) + ns) + nt));
  }
  {
    bool same = ref::norm(ref::sub(t, sft)) == 0;
    for (int r = 0; r < n; r++)
      for (int cc = 0; cc < n; cc++)
        same = same && a.A.a[r][cc] == b.A.a[r][cc];
    const bool eq = (m == mb), ne = (m != mb);
    R.holds(c, "A==B iff linear parts and offsets are equal", "", eq == same, std::string("got ") + tf(eq) + " want " + tf(same));
    R.holds(c, "A!=B iff linear part or offset differs", "", ne == !same, std::string("got ") + tf(ne) + " want " + tf(!same));
    R.holds(c, "A==A", "", (m == m) && !(m != m), "a map does not compare equal to itself");
    for (int col = 0; col <= n; col++) {
      A m2 = m;
      if (col < n)
        m2.l = bump(m.l, col);
      else
        bumpv(m2.p);
      R.holds(c, "A==B is false / A!=B is true when only one column or only the offset differs", "", !(m == m2) && (m != m2) && !(m2 == m) && (m2 != m),
          (col < n ? "column " + std::to_string(col) : std::string("the offset")) + " differs but the maps compare equal");
    }
  }
  {
    const A fromL(m.l);
    R.cmpM(c, "A(L) has L as linear part", "", rm(fromL.l), a.A, tolr<S>(1, a.fA));
    R.cmpV(c, "A(L) has a zero offset", "", rv(fromL.p), ref::vec(0, 0, 0), n, tolr<S>(1, 1));
    const A lp(m.l, m.p);
    R.holds(c, "A(l,p) == the same map", "", lp == m, "A(l,p) differs from the map it was built from");
    const A &cm = m;
    const L *pl = cm;
    R.holds(c, "operator const L*() points at the linear part", "", pl == &cm.l, "pointer differs from &a.l");
  }
  affine3_only(R, c, m, a, t);
}

// constants: L(zero), L(one), A(zero), A(one)
template <class L>
inline void check_constants(Rep &R)
{
  typedef typename L::Scalar S;
  typedef AffineSpaceT<L> A;
  const int n = Nm<L>::dim();
  Case c = mkcase("const", Nm<L>::lin());
  c << n;
  R.states++;
  const LD tl = tolr<S>(1, 1);
  R.cmpM(c, "L(zero) is the zero matrix", "", rm(L(zero)), ref::zero(n), tl);
  R.cmpM(c, "L(one) is the identity", "", rm(L(one)), ref::ident(n), tl);
  R.cmpM(c, "A(zero) has a zero linear part", "", rm(A(zero).l), ref::zero(n), tl);
  R.cmpV(c, "A(zero) has a zero offset", "", rv(A(zero).p), ref::vec(0, 0, 0), n, tl);
  R.cmpM(c, "A(one) has the identity as linear part", "", rm(A(one).l), ref::ident(n), tl);
  R.cmpV(c, "A(one) has a zero offset", "", rv(A(one).p), ref::vec(0, 0, 0), n, tl);
}

// ---------------------------------------------------------------- quaternion arithmetic on an ordered pair
inline void q4(const ref::Q &q, LD *o) { o[0] = q.r, o[1] = q.i, o[2] = q.j, o[3] = q.k; }
template <class S>
inline void qcmp(Rep &R, const Case &c, const char *what, const QuaternionT<S> &got, const ref::Q &want, LD tol)
{
  LD G[4], W[4];
  q4(rq(got), G);
  q4(want, W);
  R.cmp(c, what, "", G, W, 4, tol);
}
// mixed-type scalar forms that exist: float with quatd; int with both
inline void check_quat_mixed(Rep &R, const Case &c, const quatd &qa, const ref::Q &a)
{
  const LD t = tolr<double>(1, 3);
  qcmp(R, c, "float*quatd scales", 0.75f * qa, ref::quat(0.75L * a.r, 0.75L * a.i, 0.75L * a.j, 0.75L * a.k), t);
  qcmp(R, c, "quatd*float scales", qa * 0.75f, ref::quat(0.75L * a.r, 0.75L * a.i, 0.75L * a.j, 0.75L * a.k), t);
  qcmp(R, c, "int*quatd scales", -3 * qa, ref::quat(-3 * a.r, -3 * a.i, -3 * a.j, -3 * a.k), t);
  qcmp(R, c, "quatd*int scales", qa * -3, ref::quat(-3 * a.r, -3 * a.i, -3 * a.j, -3 * a.k), t);
}
inline void check_quat_mixed(Rep &R, const Case &c, const quatf &qa, const ref::Q &a)
{
  const LD t = tolr<float>(1, 3);
  qcmp(R, c, "int*quatf scales", -3 * qa, ref::quat(-3 * a.r, -3 * a.i, -3 * a.j, -3 * a.k), t);
  qcmp(R, c, "quatf*int scales", qa * -3, ref::quat(-3 * a.r, -3 * a.i, -3 * a.j, -3 * a.k), t);
}

template <class S>
inline void check_quat_ops(Rep &R, const Case &c, const QuaternionT<S> &qa, const QuaternionT<S> &qb)
{
  typedef QuaternionT<S> QT;
  const ref::Q a = rq(qa), b = rq(qb);
  const S s = S(-3);
  const LD t1 = tolr<S>(1, 1), t3 = tolr<S>(1, 4), ta = tolr<S>(1, 1, true);
  R.states++;
  qcmp(R, c, "s*q scales every component", s * qa, ref::quat(-3 * a.r, -3 * a.i, -3 * a.j, -3 * a.k), t3);
  qcmp(R, c, "q*s scales every component", qa * s, ref::quat(-3 * a.r, -3 * a.i, -3 * a.j, -3 * a.k), t3);
  qcmp(R, c, "q/s divides every component", qa / s, ref::quat(a.r / -3, a.i / -3, a.j / -3, a.k / -3), ta);
  qcmp(R, c, "s+q adds to the real part", s + qa, ref::quat(-3 + a.r, a.i, a.j, a.k), t3);
  qcmp(R, c, "q+s adds to the real part", qa + s, ref::quat(a.r - 3, a.i, a.j, a.k), t3);
  qcmp(R, c, "s-q is s + (-q)", s - qa, ref::quat(-3 - a.r, -a.i, -a.j, -a.k), t3);
  qcmp(R, c, "q-s subtracts from the real part", qa - s, ref::quat(a.r + 3, a.i, a.j, a.k), t3);
  qcmp(R, c, "qa+qb adds componentwise", qa + qb, ref::quat(a.r + b.r, a.i + b.i, a.j + b.j, a.k + b.k), t3);
  qcmp(R, c, "qa-qb subtracts componentwise", qa - qb, ref::quat(a.r - b.r, a.i - b.i, a.j - b.j, a.k - b.k), t3);
  qcmp(R, c, "-q negates every component", -qa, ref::qneg(a), t1);
  qcmp(R, c, "+q is q", +qa, a, t1);
  const LD nb = ref::qdot(b, b);
  const ref::Q binv = ref::quat(b.r / nb, -b.i / nb, -b.j / nb, -b.k / nb);
  qcmp(R, c, "s/q is s*inverse(q)", s / qb, ref::quat(-3 * binv.r, -3 * binv.i, -3 * binv.j, -3 * binv.k), tolr<S>(1, 4, true));
  const QT quot = qa / qb, prod = qa * qb;
  qcmp(R, c, "qa/qb is qa*inverse(qb)", quot, ref::qmul(a, binv), ta);
  qcmp(R, c, "xfmQuaternion(qa,qb) is the Hamilton product", xfmQuaternion(qa, qb), ref::qmul(a, b), t1);
  R.cmpS(c, "abs(q) is the norm", "", (LD)abs(qa), sqrtl(ref::qdot(a, a)), t1);
  R.cmpS(c, "dot(qa,qb) is the 4-component dot product", "", (LD)dot(qa, qb), ref::qdot(a, b), t1);
  R.outcome(hbits(quot.r, hbits(quot.k)));
  // compound assignments: same object back, same value as the binary form
#define C06_COMPOUND(OP, BIN, RHS, NAME, TOL)                                                                          \
  {                                                                                                                     \
    QT x = qa;                                                                                                          \
    QT &r = (x OP RHS);                                                                                                 \
    R.holds(c, NAME " returns a reference to its left operand", "", &r == &x, "the returned reference is not the left operand"); \
    qcmp(R, c, NAME " leaves q equal to the binary form", x, rq(qa BIN RHS), TOL);                                     \
  }
  C06_COMPOUND(+=, +, s, "q+=s", t3)
  C06_COMPOUND(+=, +, qb, "qa+=qb", t3)
  C06_COMPOUND(-=, -, s, "q-=s", t3)
  C06_COMPOUND(-=, -, qb, "qa-=qb", t3)
  C06_COMPOUND(*=, *, s, "q*=s", t3)
  C06_COMPOUND(*=, *, qb, "qa*=qb", t1)
  C06_COMPOUND(/=, /, s, "q/=s", ta)
  C06_COMPOUND(/=, /, qb, "qa/=qb", ta)
#undef C06_COMPOUND
  {
    const bool same = a.r == b.r && a.i == b.i && a.j == b.j && a.k == b.k;
    const bool eq = (qa == qb), ne = (qa != qb);
    R.holds(c, "qa==qb iff all components are equal", "", eq == same, std::string("got ") + tf(eq) + " want " + tf(same));
    R.holds(c, "qa!=qb iff some component differs", "", ne == !same, std::string("got ") + tf(ne) + " want " + tf(!same));
    for (int k = 0; k < 4; k++) {
      QT q2 = qa;
      (k == 0 ? q2.r : k == 1 ? q2.i : k == 2 ? q2.j : q2.k) += S(1);
      R.holds(c, "qa==qb is false / qa!=qb is true when only one component differs", "", !(qa == q2) && (qa != q2),
          "component " + std::to_string(k) + " differs but the quaternions compare equal");
    }
  }
  check_quat_mixed(R, c, qa, a);
}

// constructors and v(): one quaternion
template <class S>
inline void check_quat_ctors(Rep &R, const Case &c, const QuaternionT<S> &q)
{
  typedef QuaternionT<S> QT;
  typedef typename QT::Vector V;
  const ref::Q a = rq(q);
  const LD t = tolr<S>(1, 1);
  const V v = q.v();
  R.cmpV(c, "q.v() is (i,j,k)", "", rv(v), ref::vec(a.i, a.j, a.k), 3, t);
  qcmp(R, c, "Q(r) is the real quaternion r", QT(q.r), ref::quat(a.r, 0, 0, 0), t);
  qcmp(R, c, "Q(v) is the pure quaternion (0,v)", QT(v), ref::quat(0, a.i, a.j, a.k), t);
  qcmp(R, c, "Q(r,v) is (r,v)", QT(q.r, v), a, t);
  qcmp(R, c, "Q(r,i,j,k) is (r,i,j,k)", QT(q.r, q.i, q.j, q.k), a, t);
  qcmp(R, c, "Q(zero) is 0", QT(zero), ref::quat(0, 0, 0, 0), t);
  qcmp(R, c, "Q(one) is 1", QT(one), ref::quat(1, 0, 0, 0), t);
}
