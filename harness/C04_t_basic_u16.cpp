// C04: instantiates the "basic" families for element type uint16_t (see C04_groups.h)
#include "C04_groups.h"
void c04_reg_basic_u16(c04::Reg &r)
{
  c04::reg_basic<uint16_t>(r);
}
