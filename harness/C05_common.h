// C05 shared helpers: thread sharding with per-thread counters, replay printing.
#pragma once
#include "common/vreport.h"

#include <atomic>
#include <cmath>
#include <thread>

namespace c05 {

struct Counters
{
  long long states = 0, trans = 0, bad = 0, suppressed = 0;
  uint64_t h = 1469598103934665603ull;
  void obs(uint64_t v)
  {
    h = (h ^ v) * 1099511628211ull;
  }
};

inline void viol(Counters &c, const std::string &sig, const std::string &replay, const std::string &detail)
{
  c.bad++;
  vr::violation(sig, replay, detail);
  if (vr::replaying())
    printf("VIOLATED %s :: [%s] %s\n", sig.c_str(), replay.c_str(), detail.c_str());
}

// Report limiter: per thread, a (call site, class code) pair is written out at most 48 times; further violations of
// the same class are only counted (stat violations_not_written_out).  Keeps a run with a wide-spread defect fast and
// makes sure one defect cannot crowd out the others.
inline bool admit(int site, int cls)
{
  static thread_local unsigned short cnt[1024][64];
  unsigned short &c = cnt[site & 1023][cls & 63];
  if (c >= 48)
    return false;
  c++;
  return true;
}
#define VIOL(C, cls, sig, replay, detail)       \
  do {                                          \
    if (c05::admit(__LINE__, (int)(cls)))       \
      c05::viol(C, sig, replay, detail);        \
    else {                                      \
      (C).bad++;                                \
      (C).suppressed++;                         \
    }                                           \
  } while (0)

inline bool &replaying_flag()  // one flag for all translation units; set by c05::init
{
  static bool f = false;
  return f;
}
inline void init(int argc, char **argv)
{
  vr::init(argc, argv);
  replaying_flag() = vr::replaying();
}

inline void rp(const std::string &line)
{
  static std::atomic<int> n(0);
  if (vr::replaying() && n++ < 200)
    printf("  %s\n", line.c_str());
}

// only builds the line when replaying
#define RP(expr)              \
  do {                        \
    if (c05::replaying_flag())     \
      c05::rp(expr);          \
  } while (0)

// run body(i, counters) for i in [0,n) on nthreads threads (dynamic chunks); counters are merged into vr::stat;
// returns false if the soft deadline expired before all items were done
template <typename F>
inline bool parallel_items(long long n, int chunk, const F &body, const char *what)
{
  const int nt = vr::replaying() ? 1 : 16;
  std::atomic<long long> next(0);
  std::atomic<long long> done(0);
  std::atomic<bool> stop(false);
  std::vector<std::thread> th;
  std::vector<Counters> cs(nt);
  for (int t = 0; t < nt; t++)
    th.push_back(std::thread([&, t]() {
      Counters &c = cs[t];
      for (;;) {
        if (vr::deadline_passed()) {
          stop = true;
          break;
        }
        const long long b = next.fetch_add(chunk);
        if (b >= n)
          break;
        const long long e = std::min<long long>(n, b + chunk);
        for (long long i = b; i < e; i++)
          body(i, c);
        done += e - b;
      }
    }));
  for (auto &t : th)
    t.join();
  long long st = 0, tr = 0, su = 0;
  for (auto &c : cs) {
    st += c.states;
    tr += c.trans;
    su += c.suppressed;
  }
  if (su)
    vr::stat("violations_not_written_out", su);
  vr::stat("states", st);
  vr::stat("transitions", tr);
  if (stop && done < n) {
    vr::capped(std::string(what) + ": deadline reached after " + std::to_string((long long)done) + " of " + std::to_string(n) + " items");
    return false;
  }
  return true;
}

inline std::string num(double v)
{
  char b[64];
  snprintf(b, sizeof b, "%.9g", v);
  return b;
}

inline std::vector<std::string> split_ws(const std::string &s, char sep = ' ')
{
  std::vector<std::string> v;
  std::stringstream ss(s);
  std::string item;
  while (std::getline(ss, item, sep))
    if (!item.empty())
      v.push_back(item);
  return v;
}

inline std::vector<double> parse_nums(const std::string &s)
{
  std::vector<double> v;
  for (auto &t : split_ws(s, ','))
    v.push_back(t == "inf" ? INFINITY : t == "-inf" ? -INFINITY : strtod(t.c_str(), nullptr));
  return v;
}

}  // namespace c05
