// seqmc explorer shared by the sequential-history harnesses C10_maps.cpp, C08_histories.cpp and
// C19_histories.cpp (DESIGN.md 2.2): every operation history up to a depth, shortest first.  The state
// IS the history - every history (of every length 1..depth) is replayed on fresh real objects in lock
// step with a reference model, inside forked shards (vr::run_sharded) so that a sanitizer abort is
// attributed to the history (cut at the step that died) and the shard resumes after it.
//
// A system `Sys` provides
//   typedef Model;                        copyable reference-model state, used to enumerate
//   Model initial() const;
//   int nops() const;                     alphabet, ordered simplest first
//   const std::string &opname(int) const; token used in replay strings, no ',' ':' or blanks
//   const std::string &opclass(int) const;operation kind without concrete arguments (signatures)
//   bool enabled(const Model&, int op) const;
//   void advance(Model&, int op) const;   model-only transition
//   struct Run { Run(const Sys&, sq::Ctx&); void step(int op, bool fresh); void finish();
//                std::string describe() const; };
//       step(): apply op to the real objects and to its own copy of the model, compare every
//               observable; `fresh` is false when this very prefix was already fully observed
//               while running the previous history (then only the cheap comparisons are needed).
//               Report through ctx.viol(); once ctx.failed is set the history is abandoned.
//       finish(): tear the real objects down (checked like ordinary steps).
//   const char *sysname() const;          signature prefix, e.g. "FlatMap<int,int>"
//   const char *tag() const;              replay prefix, e.g. "fm-int"
#pragma once
#include "common/vreport.h"

#include <sys/stat.h>
#include <sys/prctl.h>
#include <dirent.h>
#include <cstdarg>

namespace sq {

struct Counters
{
  long long states, transitions, traces, pad;
};

// Findings made inside a forked shard only reach the parent when the shard ends normally; a later
// sanitizer abort in the same shard would lose them.  So every new finding is also appended to a
// per-shard spill file which the restarted shard reads back.
struct Spill
{
  std::string path;
  void load()
  {
    FILE *f = fopen(path.c_str(), "r");
    if (!f)
      return;
    char *line = nullptr;
    size_t cap = 0;
    while (getline(&line, &cap, f) > 0) {
      std::string s(line);
      while (!s.empty() && (s.back() == '\n'))
        s.pop_back();
      size_t a = s.find('\t'), b = s.find('\t', a + 1);
      if (a != std::string::npos && b != std::string::npos)
        vr::violation(s.substr(0, a), s.substr(a + 1, b - a - 1), s.substr(b + 1));
    }
    free(line);
    fclose(f);
  }
  void add(const std::string &sig, const std::string &replay, const std::string &detail)
  {
    if (path.empty())
      return;
    FILE *f = fopen(path.c_str(), "a");
    if (!f)
      return;
    fprintf(f, "%s\t%s\t%s\n", vr::clean(sig).c_str(), vr::clean(replay).c_str(), vr::clean(detail).c_str());
    fclose(f);
  }
};

inline Spill &spill()
{
  static Spill s;
  return s;
}

struct Ctx
{
  const char *sysname = "";
  const std::string *full = nullptr;     // "tag:op,op,...": the history being run
  const std::vector<int> *off = nullptr; // off[j] = length of `full` up to and including step j
  size_t taglen = 0;                     // length of "tag:"
  int cur = 0;                           // step being executed; == number of steps during teardown
  bool verbose = false;
  bool failed = false;    // a violation was reported: abandon the history
  bool diverged = false;  // the implementation took a permitted alternative the enumeration does not follow
  int nsteps() const { return (int)off->size(); }
  std::string tok(int j) const
  {
    size_t b = j == 0 ? taglen : (size_t)(*off)[j - 1] + 1;
    return full->substr(b, (*off)[j] - b);
  }
  std::string replay() const
  {
    int n = nsteps();
    if (n == 0)
      return full->substr(0, taglen);
    return full->substr(0, (*off)[cur < n ? cur : n - 1]);
  }
  std::string where() const
  {
    int n = nsteps();
    std::string r = replay();
    std::string h = r.substr(taglen);
    if (cur >= n)
      return "during teardown after [" + h + "]";
    return "at step " + std::to_string(cur + 1) + " '" + tok(cur) + "' of [" + h + "]";
  }
  void viol(const std::string &cls, const std::string &detail)
  {
    std::string sig = std::string(sysname) + "|" + cls;
    std::string rp = replay();
    std::string dt = where() + ": " + detail;
    bool isnew;
    {
      std::lock_guard<std::mutex> g(vr::S().m);
      auto it = vr::S().viols.find(sig);
      isnew = it == vr::S().viols.end() || rp.size() < it->second.first.size();
    }
    vr::violation(sig, rp, dt);
    if (isnew)
      spill().add(sig, rp, dt);
    if (verbose)
      printf("  VIOLATED %s :: %s\n", sig.c_str(), dt.c_str());
    failed = true;
  }
};

// The units run with ASAN_OPTIONS symbolize=0 so that a tree on which very many histories die is still
// enumerated at a useful rate (the driver only needs the first line of the report).  A replay wants the
// symbolized stacks: re-execute once with symbolize=1.
inline void replay_symbolized(char **argv)
{
  const char *ao = getenv("ASAN_OPTIONS");
  const char *key = "symbolize=0";
  if (!ao || !strstr(ao, key))
    return;
  std::string s = ao;
  s.replace(s.find(key), strlen(key), "symbolize=1");
  setenv("ASAN_OPTIONS", s.c_str(), 1);
  fflush(stdout);
  execv("/proc/self/exe", argv);
}

inline void rm_rf_flat(const std::string &dir)
{
  DIR *d = opendir(dir.c_str());
  if (!d)
    return;
  while (struct dirent *e = readdir(d)) {
    std::string n = e->d_name;
    if (n != "." && n != "..")
      unlink((dir + "/" + n).c_str());
  }
  closedir(d);
  rmdir(dir.c_str());
}

inline uint64_t mix(uint64_t h, uint64_t v)
{
  return (h ^ v) * 1099511628211ull + 0x9e3779b97f4a7c15ull;
}

// vr::outcome takes a lock and walks a set: remember locally what was already handed over
struct OutcomeCache
{
  std::vector<uint64_t> tab;
  OutcomeCache() : tab(1 << 16, 0) {}
  void add(uint64_t h)
  {
    if (h == 0)
      h = 1;
    uint64_t &e = tab[(h >> 7) & (tab.size() - 1)];
    if (e == h)
      return;
    e = h;
    vr::outcome(h);
  }
};
inline OutcomeCache &outcomes()
{
  static OutcomeCache c;
  return c;
}

template <class Sys>
struct Explorer
{
  const Sys &sys;
  int depth;       // histories of every length 1..depth are replayed, shortest first
  int max_shards;
  int level = 0;   // length being enumerated
  int P = 0;       // histories are dealt to shards by their prefix of this length
  int nshards = 1;
  Counters *shared = nullptr;
  std::string dir;
  std::vector<std::string> stepsig;  // slot signature context per operation

  Explorer(const Sys &s, int d, int nsh = 64) : sys(s), depth(d), max_shards(nsh)
  {
    for (int i = 0; i < sys.nops(); i++) {
      std::string g = std::string(sys.sysname()) + "|" + sys.opclass(i);
      if (g.size() > 250)
        g.resize(250);
      stepsig.push_back(g);
    }
  }

  // ---- one history on fresh objects
  // returns the number of steps that were executed and fully checked without a finding
  int run_history(const std::vector<int> &ops, const std::string &full, const std::vector<int> &off, int observed_prefix,
      bool verbose, std::string *describe = nullptr)
  {
    Ctx ctx;
    ctx.sysname = sys.sysname();
    ctx.full = &full;
    ctx.off = &off;
    ctx.taglen = strlen(sys.tag()) + 1;
    ctx.verbose = verbose;
    const int n = (int)ops.size();
    vr::Slot *sl = vr::my_slot();
    size_t cut = 0;  // position of the terminator currently planted in sl->replay
    if (sl) {
      size_t k = std::min<size_t>(full.size(), sizeof sl->replay - 1);
      memcpy(sl->replay, full.data(), k);
      sl->replay[k] = 0;
      cut = k;
    }
    typename Sys::Run run(sys, ctx);
    int j = 0;
    for (; j < n; j++) {
      ctx.cur = j;
      if (sl) {  // the slot names the history up to and including this step
        const std::string &g = stepsig[ops[j]];
        memcpy(sl->sig, g.c_str(), g.size() + 1);
        size_t k = std::min<size_t>(off[j], sizeof sl->replay - 1);
        sl->replay[cut] = cut < full.size() ? full[cut] : 0;
        sl->replay[k] = 0;
        cut = k;
      }
      run.step(ops[j], j >= observed_prefix);
      if (ctx.failed || ctx.diverged)
        break;
    }
    if (!ctx.failed && !ctx.diverged) {
      ctx.cur = n;
      if (sl)
        snprintf(sl->sig, sizeof sl->sig, "%s|teardown", sys.sysname());
      if (describe)
        *describe = run.describe();
      if (verbose)
        printf("state after the last step: %s\nteardown:\n", run.describe().c_str());
      run.finish();
    }
    if (ctx.diverged)
      vr::stat("histories_cut_at_a_permitted_alternative");
    return j;
  }

  // ---- enumeration of one shard: its share of the histories of length `level`
  void shard_body(int shard, long long resume_after)
  {
    prctl(PR_SET_PDEATHSIG, SIGKILL);  // no orphans when the driver kills the harness
    char sp[256];
    snprintf(sp, sizeof sp, "%s/%s-%d-%d.viol", dir.c_str(), sys.tag(), level, shard);
    spill().path = sp;
    if (resume_after >= 0)
      spill().load();
    if (vr::deadline_passed()) {  // also bounds the time a tree that crashes in most histories can take
      vr::capped(std::string(sys.tag()) + ": deadline reached, shard " + std::to_string(shard) + (resume_after >= 0 ? " not resumed after history #" + std::to_string(resume_after) : " not started"));
      return;
    }
    std::vector<int> ops, prev, off;
    std::string full = std::string(sys.tag()) + ":";
    std::vector<typename Sys::Model> ms(level + 1, sys.initial());
    long long idx = -1, pfx = -1;
    bool have_prev = false, stop = false;
    int prev_checked = 0;
    Counters &cn = shared[shard];
    const int nops = sys.nops();
    vr::Slot *sl = vr::my_slot();
    std::function<void(int)> leaf = [&](int n) {
      idx++;
      if (idx <= resume_after) {  // already run (or died) in an earlier incarnation of this shard
        prev = ops;
        prev_checked = 0;
        have_prev = true;
        return;
      }
      if ((idx & 255) == 0 && vr::deadline_passed()) {
        stop = true;
        vr::capped(std::string(sys.tag()) + ": deadline reached inside shard " + std::to_string(shard) + " after " + std::to_string(idx) + " histories");
        return;
      }
      int common = 0;
      if (have_prev)
        while (common < n && common < (int)prev.size() && prev[common] == ops[common])
          common++;
      // steps whose full observation was already done, on this very prefix, by the previous history of this
      // shard (all proper prefixes were also replayed as histories of their own at the earlier levels)
      int p = common < prev_checked ? common : prev_checked;
      if (sl)
        sl->index = idx;  // same as vr::begin_case; signature and replay are kept current per step
      else
        vr::begin_case(idx, "", "");
      cn.transitions += n;
      cn.traces += 1;
      std::string desc;
      // two written-out histories per alphabet: one early, one from the middle of a shard
      const bool smp = level == depth && ((shard == 1 && idx == 0) || (shard == nshards / 2 && idx == 997));
      int done = run_history(ops, full, off, p, false, smp ? &desc : nullptr);
      if (smp && !desc.empty())
        vr::sample("[" + full + "] -> " + desc);
      prev = ops;
      prev_checked = done;
      have_prev = true;
    };
    std::function<void(int)> rec = [&](int lvl) {
      if (stop)
        return;
      if (lvl == P) {
        pfx++;
        if (pfx % nshards != shard)
          return;
      }
      if (lvl == level) {
        leaf(lvl);
        return;
      }
      for (int op = 0; op < nops && !stop; op++) {
        if (!sys.enabled(ms[lvl], op))
          continue;
        ms[lvl + 1] = ms[lvl];
        sys.advance(ms[lvl + 1], op);
        ops.push_back(op);
        size_t old = full.size();
        if (lvl > 0)
          full += ',';
        full += sys.opname(op);
        off.push_back((int)full.size());
        rec(lvl + 1);
        off.pop_back();
        full.resize(old);
        ops.pop_back();
      }
    };
    rec(0);
  }

  // Iterative deepening: all histories of length 1, then 2, ... then `depth`; so the first (and kept: shortest
  // replay string) counterexample of a class is a shortest one, and teardown is checked from every reached state.
  void explore()
  {
    char d[128];
    snprintf(d, sizeof d, "/dev/shm/verif-%d", (int)getpid());
    dir = d;
    mkdir(dir.c_str(), 0700);
    shared = (Counters *)mmap(nullptr, sizeof(Counters) * max_shards, PROT_READ | PROT_WRITE, MAP_SHARED | MAP_ANONYMOUS, -1, 0);
    double t0 = vr::now_s();
    long long tr = 0, tc = 0, last_level = 0;
    int completed = 0;
    std::string cap;
    for (level = 1; level <= depth; level++) {
      if (vr::deadline_passed()) {
        cap = "deadline reached before depth " + std::to_string(level) + " was started";
        break;
      }
      P = level < 3 ? level : 3;
      nshards = level <= 3 ? (max_shards < 4 ? max_shards : 4) : max_shards;
      memset(shared, 0, sizeof(Counters) * max_shards);
      vr::run_sharded(nshards, [&](int shard, long long resume_after) { shard_body(shard, resume_after); }, 16);
      last_level = 0;
      for (int i = 0; i < nshards; i++) {
        tr += shared[i].transitions;
        last_level += shared[i].traces;
      }
      tc += last_level;
      // one line instead of one per shard
      int cut = 0;
      {
        std::lock_guard<std::mutex> g(vr::S().m);
        std::vector<std::string> keep;
        const std::string mine = std::string(sys.tag()) + ": deadline reached";
        for (auto &c : vr::S().capped)
          if (c.compare(0, mine.size(), mine) == 0)
            cut++;
          else
            keep.push_back(c);
        vr::S().capped = keep;
      }
      if (cut) {
        cap = "deadline reached at depth " + std::to_string(level) + " (" + std::to_string(cut) + " of " + std::to_string(nshards) + " shards incomplete, "
            + std::to_string(last_level) + " histories of that length replayed)";
        break;
      }
      completed = level;
    }
    munmap(shared, sizeof(Counters) * max_shards);
    rm_rf_flat(dir);
    if (!cap.empty())
      vr::capped(std::string(sys.tag()) + ": " + cap + "; every history of length <= " + std::to_string(completed) + " was replayed");
    vr::stat("states", tc + 1);  // histories reached, the empty one included
    vr::stat("transitions", tr);
    vr::stat("traces", tc);
    vr::stat(std::string("histories_") + sys.tag(), tc);
    vr::stat(std::string("max_depth_completed_") + sys.tag(), completed);
    char b[320];
    snprintf(b, sizeof b, "%s: alphabet %d, every history of length 1..%d replayed on fresh objects: %lld histories (%lld of length %d), %lld operations, %.1fs",
        sys.tag(), sys.nops(), completed, tc, completed == depth ? last_level : 0LL, depth, tr, vr::now_s() - t0);
    vr::note(b);
  }

  // ---- replay "op,op,op" (after the tag) with a printed trace
  int replay(const std::string &hist)
  {
    std::vector<int> ops, off;
    std::string full = std::string(sys.tag()) + ":";
    typename Sys::Model m = sys.initial();
    std::stringstream ss(hist);
    std::string tok;
    while (std::getline(ss, tok, ',')) {
      if (tok.empty())
        continue;
      int op = -1;
      for (int i = 0; i < sys.nops(); i++)
        if (sys.opname(i) == tok)
          op = i;
      if (op < 0) {
        printf("unknown operation '%s' for %s\n", tok.c_str(), sys.tag());
        return 2;
      }
      if (!sys.enabled(m, op)) {
        printf("operation '%s' is not enabled at this point of the history\n", tok.c_str());
        return 2;
      }
      sys.advance(m, op);
      if (!ops.empty())
        full += ',';
      full += tok;
      off.push_back((int)full.size());
      ops.push_back(op);
    }
    printf("replaying %s history of %d operations on fresh objects (%s)\n", sys.tag(), (int)ops.size(), sys.sysname());
    run_history(ops, full, off, 0, true);
    vr::flush();
    if (!vr::S().viols.empty()) {
      printf("REPLAY: the history violates the property (exit 1)\n");
      fflush(stdout);
      _exit(1);  // the objects of a failed history are abandoned on purpose: no leak report about them
    }
    printf("REPLAY: the history ran to its end, every comparison agreed with the reference\n");
    return 0;
  }
};

}  // namespace sq
