// seqmc explorer shared by the sequential-history harnesses C10_*.cpp, C08_histories.cpp and
// C19_histories.cpp (DESIGN.md 2.2): every operation history up to a depth, the state IS the
// history - each maximal history is replayed on fresh real objects in lock step with a reference
// model, inside forked shards (vr::run_sharded) so a sanitizer abort is attributed to the history.
//
// A system `Sys` provides
//   typedef Model;                        copyable reference-model state, used to enumerate
//   Model initial() const;
//   int nops() const;                     alphabet, ordered simplest first
//   std::string opname(int op) const;     token used in replay strings, no ',' ':' or blanks
//   std::string opclass(int op) const;    operation kind without concrete arguments (signatures)
//   bool enabled(const Model&, int op) const;
//   void advance(Model&, int op) const;   model-only transition
//   struct Run { Run(const Sys&, sq::Ctx&); void step(int op, bool fresh); void finish();
//                std::string describe() const; };
//       step(): apply op to the real objects and to its own copy of the model, compare every
//               observable; `fresh` is false when this very prefix was already fully observed
//               while running the previous history (then only the cheap comparisons are needed).
//               Report through ctx.viol(); once ctx.failed is set the history is abandoned.
//       finish(): tear the real objects down (checked like ordinary steps).
//   const char *sysname() const;          signature prefix, e.g. "FlatMap<int,int>"
//   const char *tag() const;              replay prefix, e.g. "fm-int"
#pragma once
#include "common/vreport.h"

#include <sys/stat.h>
#include <dirent.h>
#include <cstdarg>

namespace sq {

struct Counters
{
  long long states, transitions, traces, pad;
};

// Findings made inside a forked shard only reach the parent when the shard ends normally; a later
// sanitizer abort in the same shard would lose them.  So every new finding is also appended to a
// per-shard spill file which the restarted shard reads back.
struct Spill
{
  std::string path;
  void load()
  {
    FILE *f = fopen(path.c_str(), "r");
    if (!f)
      return;
    char *line = nullptr;
    size_t cap = 0;
    while (getline(&line, &cap, f) > 0) {
      std::string s(line);
      while (!s.empty() && (s.back() == '\n'))
        s.pop_back();
      size_t a = s.find('\t'), b = s.find('\t', a + 1);
      if (a != std::string::npos && b != std::string::npos)
        vr::violation(s.substr(0, a), s.substr(a + 1, b - a - 1), s.substr(b + 1));
    }
    free(line);
    fclose(f);
  }
  void add(const std::string &sig, const std::string &replay, const std::string &detail)
  {
    if (path.empty())
      return;
    FILE *f = fopen(path.c_str(), "a");
    if (!f)
      return;
    fprintf(f, "%s\t%s\t%s\n", vr::clean(sig).c_str(), vr::clean(replay).c_str(), vr::clean(detail).c_str());
    fclose(f);
  }
};

inline Spill &spill()
{
  static Spill s;
  return s;
}

struct Ctx
{
  const char *sysname = "";
  std::string tag;
  const std::vector<std::string> *toks = nullptr;  // tokens of the history being run
  int cur = 0;                                     // step being executed; == toks->size() during teardown
  bool verbose = false;
  bool failed = false;    // a violation was reported: abandon the history
  bool diverged = false;  // the implementation took a permitted alternative the enumeration does not follow
  std::string history(int upto) const
  {
    std::string s;
    int n = (int)toks->size();
    for (int i = 0; i < n && i <= upto; i++)
      s += (i ? "," : "") + (*toks)[i];
    return s;
  }
  std::string replay() const
  {
    return tag + ":" + history(cur);
  }
  std::string where() const
  {
    int n = (int)toks->size();
    if (cur >= n)
      return "during teardown after [" + history(n) + "]";
    return "at step " + std::to_string(cur + 1) + " '" + (*toks)[cur] + "' of [" + history(cur) + "]";
  }
  void viol(const std::string &cls, const std::string &detail)
  {
    std::string sig = std::string(sysname) + "|" + cls;
    std::string rp = replay();
    std::string dt = where() + ": " + detail;
    bool isnew;
    {
      std::lock_guard<std::mutex> g(vr::S().m);
      auto it = vr::S().viols.find(sig);
      isnew = it == vr::S().viols.end() || rp.size() < it->second.first.size();
    }
    vr::violation(sig, rp, dt);
    if (isnew)
      spill().add(sig, rp, dt);
    if (verbose)
      printf("  VIOLATED %s :: %s\n", sig.c_str(), dt.c_str());
    failed = true;
  }
  void say(const char *fmt, ...) const
  {
    if (!verbose)
      return;
    va_list ap;
    va_start(ap, fmt);
    vprintf(fmt, ap);
    va_end(ap);
  }
};

inline void rm_rf_flat(const std::string &dir)
{
  DIR *d = opendir(dir.c_str());
  if (!d)
    return;
  while (struct dirent *e = readdir(d)) {
    std::string n = e->d_name;
    if (n != "." && n != "..")
      unlink((dir + "/" + n).c_str());
  }
  closedir(d);
  rmdir(dir.c_str());
}

template <class Sys>
struct Explorer
{
  const Sys &sys;
  int depth;
  int P;  // histories are dealt to shards by their prefix of this length
  int nshards;
  Counters *shared = nullptr;
  std::string dir;

  Explorer(const Sys &s, int d, int nsh = 64, int pfx = 3) : sys(s), depth(d), P(pfx < d ? pfx : d), nshards(nsh) {}

  // ---- one maximal history on fresh objects
  // returns the number of steps that were executed and fully checked without a finding
  int run_history(const std::vector<int> &ops, const std::vector<std::string> &toks, int observed_prefix, bool verbose,
      std::string *describe = nullptr)
  {
    Ctx ctx;
    ctx.sysname = sys.sysname();
    ctx.tag = sys.tag();
    ctx.toks = &toks;
    ctx.verbose = verbose;
    int n = (int)ops.size();
    vr::Slot *sl = vr::my_slot();
    std::string full;
    std::vector<int> off(n + 1, 0);
    if (sl) {
      full = ctx.tag + ":";
      for (int i = 0; i < n; i++) {
        full += (i ? "," : "") + toks[i];
        off[i] = (int)full.size();
      }
      off[n] = (int)full.size();
    }
    typename Sys::Run run(sys, ctx);
    int j = 0;
    for (; j < n; j++) {
      ctx.cur = j;
      if (sl) {
        snprintf(sl->sig, sizeof sl->sig, "%s|%s", sys.sysname(), sys.opclass(ops[j]).c_str());
        size_t k = std::min<size_t>(off[j], sizeof sl->replay - 1);
        memcpy(sl->replay, full.data(), k);
        sl->replay[k] = 0;
      }
      run.step(ops[j], j >= observed_prefix);
      if (ctx.failed || ctx.diverged)
        break;
    }
    if (!ctx.failed && !ctx.diverged) {
      ctx.cur = n;
      if (sl)
        snprintf(sl->sig, sizeof sl->sig, "%s|teardown", sys.sysname());
      if (describe)
        *describe = run.describe();
      run.finish();
    }
    if (ctx.diverged)
      vr::stat("histories_cut_at_a_permitted_alternative");
    return j;
  }

  // ---- enumeration of one shard
  void shard_body(int shard, long long resume_after)
  {
    char sp[256];
    snprintf(sp, sizeof sp, "%s/%s-%d.viol", dir.c_str(), sys.tag(), shard);
    spill().path = sp;
    if (resume_after >= 0)
      spill().load();
    std::vector<int> ops, prev;
    std::vector<std::string> toks;
    std::vector<typename Sys::Model> ms(depth + 1, sys.initial());
    long long idx = -1, pfx = -1;
    bool have_prev = false, stop = false;
    int prev_checked = 0;
    Counters &cn = shared[shard];
    const int nops = sys.nops();
    std::function<void(int)> leaf = [&](int n) {
      idx++;
      if (idx <= resume_after) {  // already run (or died) in an earlier incarnation of this shard
        prev = ops;
        prev_checked = 0;
        have_prev = true;
        return;
      }
      if ((idx & 255) == 0 && vr::deadline_passed()) {
        stop = true;
        vr::capped(std::string(sys.tag()) + ": deadline reached inside shard " + std::to_string(shard) + " after " + std::to_string(idx) + " histories");
        return;
      }
      int common = 0;
      if (have_prev)
        while (common < n && common < (int)prev.size() && prev[common] == ops[common])
          common++;
      // steps whose full observation was already done, on this very prefix, by the previous history
      int p = common < prev_checked ? common : prev_checked;
      // histories (= states) first reached by this one: its prefixes longer than the shared part
      // (prefixes of length <= P are counted once by the parent)
      int known = common > P ? common : P;
      vr::begin_case(idx, std::string(sys.sysname()) + "|history", "");
      cn.states += n > known ? n - known : 0;
      cn.transitions += n;
      cn.traces += 1;
      std::string desc;
      int done = run_history(ops, toks, p, false, idx < 4 ? &desc : nullptr);
      if (idx < 4 && !desc.empty())
        vr::sample(std::string(sys.tag()) + ": [" + [&]() {
          std::string s;
          for (int i = 0; i < n; i++)
            s += (i ? "," : "") + toks[i];
          return s;
        }() + "] -> " + desc, std::string(sys.tag()) + toks[0] + std::to_string(idx));
      prev = ops;
      prev_checked = done;
      have_prev = true;
    };
    std::function<void(int)> rec = [&](int lvl) {
      if (stop)
        return;
      if (lvl == P) {
        pfx++;
        if (pfx % nshards != shard)
          return;
      }
      if (lvl == depth) {
        leaf(lvl);
        return;
      }
      bool any = false;
      for (int op = 0; op < nops && !stop; op++) {
        if (!sys.enabled(ms[lvl], op))
          continue;
        any = true;
        ms[lvl + 1] = ms[lvl];
        sys.advance(ms[lvl + 1], op);
        ops.push_back(op);
        toks.push_back(sys.opname(op));
        rec(lvl + 1);
        ops.pop_back();
        toks.pop_back();
      }
      if (!any && lvl >= P)
        leaf(lvl);  // maximal although shorter than the depth
    };
    rec(0);
  }

  // number of histories of length <= P (counted once, by the parent; model only)
  long long count_prefix_nodes()
  {
    long long nodes = 0;
    std::vector<typename Sys::Model> ms(P + 1, sys.initial());
    std::function<void(int)> rec = [&](int lvl) {
      nodes++;
      if (lvl == P)
        return;
      for (int op = 0; op < sys.nops(); op++) {
        if (!sys.enabled(ms[lvl], op))
          continue;
        ms[lvl + 1] = ms[lvl];
        sys.advance(ms[lvl + 1], op);
        rec(lvl + 1);
      }
    };
    rec(0);
    return nodes;
  }

  void explore()
  {
    char d[128];
    snprintf(d, sizeof d, "/dev/shm/verif-%d", (int)getpid());
    dir = d;
    mkdir(dir.c_str(), 0700);
    shared = (Counters *)mmap(nullptr, sizeof(Counters) * nshards, PROT_READ | PROT_WRITE, MAP_SHARED | MAP_ANONYMOUS, -1, 0);
    memset(shared, 0, sizeof(Counters) * nshards);
    double t0 = vr::now_s();
    vr::run_sharded(nshards, [&](int shard, long long resume_after) { shard_body(shard, resume_after); }, 16);
    long long st = count_prefix_nodes(), tr = 0, tc = 0;
    for (int i = 0; i < nshards; i++) {
      st += shared[i].states;
      tr += shared[i].transitions;
      tc += shared[i].traces;
    }
    munmap(shared, sizeof(Counters) * nshards);
    rm_rf_flat(dir);
    vr::stat("states", st);
    vr::stat("transitions", tr);
    vr::stat("traces", tc);
    vr::stat(std::string("histories_") + sys.tag(), tc);
    vr::stat("max_depth", depth);
    char b[256];
    snprintf(b, sizeof b, "%s: depth %d, alphabet %d, %lld histories (incl. prefixes) reached, %lld maximal histories replayed, %lld operations, %.1fs",
        sys.tag(), depth, sys.nops(), st, tc, tr, vr::now_s() - t0);
    vr::note(b);
  }

  // ---- replay "op,op,op" (after the tag) with a printed trace
  int replay(const std::string &hist)
  {
    std::vector<int> ops;
    std::vector<std::string> toks;
    typename Sys::Model m = sys.initial();
    std::stringstream ss(hist);
    std::string tok;
    while (std::getline(ss, tok, ',')) {
      if (tok.empty())
        continue;
      int op = -1;
      for (int i = 0; i < sys.nops(); i++)
        if (sys.opname(i) == tok)
          op = i;
      if (op < 0) {
        printf("unknown operation '%s' for %s\n", tok.c_str(), sys.tag());
        return 2;
      }
      if (!sys.enabled(m, op)) {
        printf("operation '%s' is not enabled at this point of the history\n", tok.c_str());
        return 2;
      }
      sys.advance(m, op);
      ops.push_back(op);
      toks.push_back(tok);
    }
    printf("replaying %s history of %d operations on fresh objects (%s)\n", sys.tag(), (int)ops.size(), sys.sysname());
    std::string desc;
    run_history(ops, toks, 0, true, &desc);
    if (!desc.empty())
      printf("final state: %s\n", desc.c_str());
    vr::flush();
    return vr::S().viols.empty() ? 0 : 1;
  }
};

inline uint64_t mix(uint64_t h, uint64_t v)
{
  return (h ^ v) * 1099511628211ull + 0x9e3779b97f4a7c15ull;
}

}  // namespace sq
