// C11 common parts: element types, source buffers with their model, the per-wrapper oracle.
#pragma once
#include "C11_C15_seq.h"

#include "rkcommon/common.h"
#include "rkcommon/utility/AbstractArray.h"
#include "rkcommon/utility/ArrayView.h"
#include "rkcommon/utility/OwnedArray.h"
#include "rkcommon/utility/FixedArray.h"
#include "rkcommon/utility/FixedArrayView.h"

#include <climits>
#include <memory>

namespace c11 {
using namespace rkcommon::utility;

typedef long long LL;
static const LL UNKNOWN = LLONG_MIN;  // element whose value the model does not fix (uninitialised storage)

template <typename T>
struct TName;
template <>
struct TName<uint8_t>
{
  static const char *s() { return "u8"; }
};
template <>
struct TName<int>
{
  static const char *s() { return "i32"; }
};
template <>
struct TName<double>
{
  static const char *s() { return "f64"; }
};

inline std::string vals(const std::vector<LL> &v)
{
  std::string o = "[";
  for (size_t i = 0; i < v.size(); i++)
    o += (i ? "," : "") + (v[i] == UNKNOWN ? std::string("?") : std::to_string(v[i]));
  return o + "]";
}

// ------------------------------------------------------------------ source buffers
// Two heap std::vector<T> the history may replace (fresh buffer, old one freed), poke or destroy,
// and one std::array<T,3>.  gen counts buffer replacements so that a view knows whether the
// storage it was pointed at still exists (reading it otherwise would be the harness's fault).
template <typename T>
struct Sources
{
  std::vector<T> *v[2];
  std::array<T, 3> *arr;
  // model
  bool alive[2];
  int gen[2];
  std::vector<LL> mv[2];
  std::vector<LL> marr;
  LL next;

  Sources() : next(1)
  {
    for (int k = 0; k < 2; k++) {
      v[k] = nullptr;
      alive[k] = false;
      gen[k] = 0;
    }
    arr = new std::array<T, 3>();
    marr.resize(3);
    for (int i = 0; i < 3; i++) {
      marr[i] = fresh();
      (*arr)[i] = (T)marr[i];
    }
    set(0, 3);
    set(1, 2);
  }
  ~Sources()
  {
    delete v[0];
    delete v[1];
    delete arr;
  }
  LL fresh()
  {
    LL x = next++;
    return x % 251;  // fits every element type; histories use < 60 values
  }
  // replace the contents by n fresh values in a *new* buffer; revives a destroyed source
  void set(int k, size_t n)
  {
    std::vector<T> tmp;
    tmp.reserve(n);
    mv[k].clear();
    mv[k].reserve(n);
    for (size_t i = 0; i < n; i++) {
      mv[k].push_back(fresh());
      tmp.push_back((T)mv[k].back());
    }
    if (!v[k])
      v[k] = new std::vector<T>();
    v[k]->swap(tmp);  // old buffer is freed when tmp dies
    alive[k] = true;
    gen[k]++;
  }
  bool can_poke(int k) const { return alive[k] && !mv[k].empty(); }
  void poke(int k)
  {
    size_t i = mv[k].size() - 1;
    mv[k][i] = fresh();
    (*v[k])[i] = (T)mv[k][i];
  }
  void poke_arr()
  {
    marr[2] = fresh();
    (*arr)[2] = (T)marr[2];
  }
  void kill(int k)
  {
    delete v[k];
    v[k] = nullptr;
    alive[k] = false;
    mv[k].clear();
    gen[k]++;
  }
  T *data(int k) const { return v[k]->data(); }
  size_t size(int k) const { return mv[k].size(); }

  // the sources themselves must only change when the model says so
  bool check(std::string &why) const
  {
    for (int k = 0; k < 2; k++) {
      if (!alive[k])
        continue;
      if (v[k]->size() != mv[k].size()) {
        why = "source vector S" + std::to_string(k) + " changed size";
        return false;
      }
      for (size_t i = 0; i < mv[k].size(); i++)
        if ((LL)(*v[k])[i] != mv[k][i]) {
          why = "source vector S" + std::to_string(k) + "[" + std::to_string(i) + "] = " + std::to_string((LL)(*v[k])[i]) + " want " + std::to_string(mv[k][i]);
          return false;
        }
    }
    for (int i = 0; i < 3; i++)
      if ((LL)(*arr)[i] != marr[i]) {
        why = "source array[" + std::to_string(i) + "] = " + std::to_string((LL)(*arr)[i]) + " want " + std::to_string(marr[i]);
        return false;
      }
    return true;
  }
};

// ------------------------------------------------------------------ what the model expects of one wrapper
template <typename T>
struct Expect
{
  const char *kind = "";  // "ArrayView", "OwnedArray", ...
  const char *name = "";  // "V0", "O1", ... (for the detail text only)
  const char *role = "";  // model-state predicate that goes into the signature (string literal)
  size_t n = 0;           // size()
  bool readable = true;   // false: a view whose source no longer exists - only size/at-throws are checked
  std::vector<LL> want;   // n values (UNKNOWN = any)
  const T *alias = nullptr;  // data() must be exactly this (non-owning views, n > 0)
  bool must_be_null = false; // after default construction / reset(): data() == nullptr
  bool touched = true;       // the last operation of the history involved this wrapper: only then is at()
                             // probed (at size, size+1 and SIZE_MAX).  A throw costs ~6 us under ASan, and a
                             // wrapper the last operation did not involve was probed in the shorter history
                             // that ended with the operation that did; its size() is still compared.
};

struct Checker
{
  const std::string *replay = nullptr;
  bool verbose = false;
  bool violated = false;
  uint64_t digest = 1469598103934665603ull;
  std::string pending_asan_read_desc;
  const volatile unsigned char *pending_asan_read = nullptr;

  void mix(uint64_t x) { digest = vr::fnv(&x, sizeof x, digest); }

  void fail(const std::string &kind, const std::string &role, const std::string &obs, const std::string &detail)
  {
    violated = true;
    sq::viol(kind + "|" + role + "|" + obs, *replay, detail);
  }

  // every wrapper is observed through its AbstractArray<T> interface (FixedArrayView<T> has a private
  // member called 'data' that hides AbstractArray<T>::data(), so view.data() does not even compile)
  template <typename T>
  void wrapper(const AbstractArray<T> &w, const Expect<T> &e)
  {
    struct Who
    {
      const Expect<T> &e;
      operator std::string() const { return std::string(e.kind) + " " + e.name + " (" + e.role + ")"; }
      std::string operator+(const std::string &r) const { return (std::string) * this + r; }
      std::string operator+(const char *r) const { return (std::string) * this + r; }
    } who = {e};
    size_t sz = w.size();
    T *d = w.data();
    mix(sz);
    mix(d ? 1 : 0);
    mix(e.readable);
    if (verbose)
      printf("  %-34s size()=%zu want %zu; data()=%s%s\n", ((std::string)who).c_str(), sz, e.n, d ? "non-null" : "null", e.readable ? "" : " (source gone: elements not read)");
    if (sz != e.n) {
      fail(e.kind, e.role, "size() differs from the model", who + ": size() = " + std::to_string(sz) + " want " + std::to_string(e.n));
      return;  // everything below depends on the size
    }
    mix((bool)w);  // operator bool / operator T* are not part of the statement: observed, not judged
    if (e.n > 0 && !d)
      fail(e.kind, e.role, "data() is null although size() > 0", who);
    if (e.must_be_null && d)
      fail(e.kind, e.role, "data() is not null after default construction / reset()", who);
    if (e.n > 0 && e.alias && d != e.alias) {
      fail(e.kind, e.role, "data() does not alias the source", who + ": data() is " + std::to_string((LL)(d - e.alias)) + " elements away from the source pointer");
      return;
    }
    if (w.begin() != d || w.end() != d + sz || w.cbegin() != d || w.cend() != d + sz)
      fail(e.kind, e.role, "begin()/end()/cbegin()/cend() inconsistent with data()/size()", who);
    // at(i) throws exactly for i >= size
    const size_t beyond[3] = {sz, sz + 1, ~(size_t)0};
    for (int bi = 0; bi < (e.touched || verbose ? 3 : 0); bi++) {
      const size_t i = beyond[bi];
      bool threw = false;
      try {
        (void)&w.at(i);
      } catch (...) {
        threw = true;
      }
      if (!threw)
        fail(e.kind, e.role, "at(i) does not throw for i >= size()", who + ": at(" + std::to_string(i) + ") with size " + std::to_string(sz));
    }
    if (!e.readable || sz == 0)
      return;
    // may every element be read?  (what an instrumented load would decide, asked up front so that the
    // answer is a violation of this history instead of the death of the shard)
    std::string p = sq::poisoned(d, sz * sizeof(T));
    if (!p.empty()) {
      fail(e.kind, e.role, "elements are not readable: asan " + p, who + ": data()[0.." + std::to_string(sz) + ") is not addressable (" + p + "); model contents " + vals(e.want));
      if (verbose) {
        pending_asan_read = (const volatile unsigned char *)d;
        pending_asan_read_desc = (std::string)who;
      }
      return;
    }
    std::vector<LL> got;
    size_t count = 0;
    for (T *it = w.begin(); it != w.end(); ++it) {
      got.push_back((LL)*it);
      if (++count > sz + 4)
        break;
    }
    if (count != sz)
      fail(e.kind, e.role, "iteration does not cover exactly size() elements", who + ": " + std::to_string(count) + " steps for size " + std::to_string(sz));
    bool same = count == sz;
    for (size_t i = 0; i < sz && same; i++) {
      T *a = nullptr;
      try {
        a = &w.at(i);
      } catch (...) {
        fail(e.kind, e.role, "at(i) throws for i < size()", who + ": at(" + std::to_string(i) + ")");
        return;
      }
      if (a != d + i || &w[i] != d + i) {
        fail(e.kind, e.role, "at(i)/operator[] do not designate data()+i", who);
        return;
      }
      if (e.want[i] != UNKNOWN && ((LL)*a != e.want[i] || got[i] != e.want[i]))
        same = false;
    }
    if (verbose)
      printf("  %-34s elements %s want %s\n", "", vals(got).c_str(), vals(e.want).c_str());
    if (!same && count == sz)
      fail(e.kind, e.role, "element values differ from the model", who + ": got " + vals(got) + " want " + vals(e.want));
  }

  // replay only: after everything was printed, perform the load that ASan objects to, so that the
  // replay also shows ASan's own report (allocation / free stacks)
  void finish_replay()
  {
    if (pending_asan_read) {
      printf("  now reading %s for real so that ASan prints its report:\n", pending_asan_read_desc.c_str());
      fflush(stdout);
      volatile unsigned char c = *pending_asan_read;
      (void)c;
    }
  }
};


// ------------------------------------------------------------------ generic driver
// WorldT<T> provides:  static const std::vector<OpInfo> &ops();  bool apply(int opIndex);
//                      void check(Checker &);  static const char *kind();
struct OpInfo
{
  std::string name;  // printed in replays / samples
  std::string cls;   // the same without slot numbers: crash signature context
};

template <template <typename> class WorldT, typename T>
int run_history(const std::vector<int> &h, const std::string &replay, bool verbose)
{
  WorldT<T> w;
  const std::vector<OpInfo> &ops = WorldT<T>::ops();
  for (size_t i = 0; i < h.size(); i++) {
    if (verbose)
      printf("op %zu: %s\n", i, ops[h[i]].name.c_str());
    if (!w.apply(h[i])) {
      if (verbose)
        printf("  (operation not enabled in this state)\n");
      return sq::H_DISABLED;
    }
    if (verbose || i + 1 == h.size()) {
      Checker c;
      c.replay = &replay;
      c.verbose = verbose;
      c.mix(h[i]);
      w.check(c);
      if (i + 1 == h.size()) {
        sq::stat("states");
        sq::stat("traces");
        sq::stat("transitions", (long long)h.size());
        sq::stat("max_depth", (long long)h.size());
        sq::outcome(c.digest);
        if (h.size() >= 3 && vr::S().samples.size() < 6 && (h[0] + h[1] + h[2]) % 7 == 3)
          sq::sample(replay + " = " + ops[h[0]].name + "; " + ops[h[1]].name + "; " + ops[h[2]].name + (h.size() > 3 ? "; ..." : ""));
      }
      if (verbose)
        c.finish_replay();
      if (c.violated)
        return sq::H_VIOL;
    }
  }
  if (h.empty()) {
    sq::stat("states");
    sq::stat("traces");
  }
  return sq::H_OK;
}

template <template <typename> class WorldT, typename T>
void explore(const std::string &unit, int depth)
{
  const std::string tag = unit + "/" + TName<T>::s();
  const int A = (int)WorldT<T>::ops().size();
  sq::explore_tree(
      tag, A, depth, 64, [](const std::vector<int> &h, const std::string &rp) { return run_history<WorldT, T>(h, rp, false); },
      [](const std::vector<int> &h) { return std::string(WorldT<T>::kind()) + "|crash during " + (h.empty() ? std::string("setup") : WorldT<T>::ops()[h.back()].cls); });
}

template <template <typename> class WorldT>
int unit_main(const std::string &unit, int argc, char **argv, int dq, int dt)
{
  vr::init(argc, argv);
  const int A = (int)WorldT<int>::ops().size();
  if (vr::replaying()) {
    std::string r = vr::S().replay;
    size_t c = r.find(':');
    std::string tag = r.substr(0, c);
    std::vector<int> h = sq::parse_ops(r.substr(c + 1));
    for (int x : h)
      if (x < 0 || x >= A) {
        printf("bad op index %d\n", x);
        return 2;
      }
    int res;
    if (tag == unit + "/u8")
      res = run_history<WorldT, uint8_t>(h, r, true);
    else if (tag == unit + "/f64")
      res = run_history<WorldT, double>(h, r, true);
    else
      res = run_history<WorldT, int>(h, r, true);
    printf("result: %s\n", res == sq::H_OK ? "ok" : res == sq::H_DISABLED ? "history not enabled" : "VIOLATION");
    vr::flush();
    return vr::S().viols.empty() ? 0 : 1;
  }
  sq::make_scratch();
  const int d = vr::thorough() ? dt : dq;
  explore<WorldT, int>(unit, d);
  if (!vr::deadline_passed())
    explore<WorldT, uint8_t>(unit, d - 1);
  if (!vr::deadline_passed())
    explore<WorldT, double>(unit, d - 1);
  sq::remove_scratch();
  vr::note("alphabet " + std::to_string(A) + " operations; depth " + std::to_string(d) + " for int, " + std::to_string(d - 1) + " for uint8_t and double");
  return vr::finish();
}

}  // namespace c11
