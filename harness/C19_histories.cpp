// C19 (sequential part): observers see each notification once; time stamps are unique and increasing.
// Engine seqmc, two alphabets, every history replayed on fresh heap objects in forked ASan+UBSan shards:
//  "obs": 2 observables, 3 observer slots; reference model = one pending flag per observer.
//  "ts" : 3 TimeStamp slots on one thread; fresh/renewed values strictly increasing (hence distinct),
//         copies carry their source's value.
#include <thread>
#include "C10_seqmc.h"

#include "rkcommon/utility/Observer.h"
#include "rkcommon/utility/TimeStamp.h"

using rkcommon::utility::Observable;
using rkcommon::utility::Observer;
using rkcommon::utility::TimeStamp;

static std::string S(long long i)
{
  return std::to_string(i);
}

// ------------------------------------------------------------------------------------ observers
struct ObsSys
{
  struct Model
  {
    signed char obs_alive[2] = {1, 1};  // both observables exist at the start of every history
    signed char exists[3] = {0, 0, 0};
    signed char on[3] = {-1, -1, -1};   // observed observable, -1 once it was destroyed
    signed char pending[3] = {0, 0, 0}; // its observable notified since this observer's creation / last poll
  };
  enum Kind { CREATE, NOTIFY, POLL, DESTROY_OBSERVER, DESTROY_OBSERVABLE, RECREATE_OBSERVABLE };
  struct Op
  {
    Kind kind;
    int a, b;
    std::string name, cls;
  };
  std::vector<Op> ops;
  ObsSys()
  {
    for (int i = 0; i < 3; i++)
      for (int k = 0; k < 2; k++)
        ops.push_back(Op{CREATE, i, k, "c" + S(i) + "on" + S(k), "create observer"});
    for (int k = 0; k < 2; k++)
      ops.push_back(Op{NOTIFY, k, 0, "n" + S(k), "notifyObservers"});
    for (int i = 0; i < 3; i++)
      ops.push_back(Op{POLL, i, 0, "p" + S(i), "wasNotified"});
    for (int i = 0; i < 3; i++)
      ops.push_back(Op{DESTROY_OBSERVER, i, 0, "d" + S(i), "destroy observer"});
    for (int k = 0; k < 2; k++)
      ops.push_back(Op{DESTROY_OBSERVABLE, k, 0, "x" + S(k), "destroy observable"});
    for (int k = 0; k < 2; k++)
      ops.push_back(Op{RECREATE_OBSERVABLE, k, 0, "o" + S(k), "create observable"});
  }
  // "obsx": the same histories with every second operation executed on a thread of its own (started and joined
  // inside the step): nothing runs concurrently, but who notified and who polls are different threads
  bool xthread = false;
  const char *sysname() const { return xthread ? "Observer (operations on alternating threads)" : "Observer"; }
  const char *tag() const { return xthread ? "obsx" : "obs"; }
  Model initial() const { return Model(); }
  int nops() const { return (int)ops.size(); }
  const std::string &opname(int op) const { return ops[op].name; }
  const std::string &opclass(int op) const { return ops[op].cls; }
  bool enabled(const Model &m, int op) const
  {
    const Op &o = ops[op];
    switch (o.kind) {
    case CREATE:
      return !m.exists[o.a] && m.obs_alive[o.b];
    case NOTIFY:
    case DESTROY_OBSERVABLE:
      return m.obs_alive[o.a];
    case POLL:
    case DESTROY_OBSERVER:
      return m.exists[o.a];
    case RECREATE_OBSERVABLE:
      return !m.obs_alive[o.a];
    }
    return false;
  }
  // reference; result of a poll: 0/1, otherwise -1
  int apply(Model &m, int op) const
  {
    const Op &o = ops[op];
    switch (o.kind) {
    case CREATE:
      m.exists[o.a] = 1;
      m.on[o.a] = (signed char)o.b;
      m.pending[o.a] = 0;
      return -1;
    case NOTIFY:
      for (int i = 0; i < 3; i++)
        if (m.exists[i] && m.on[i] == o.a)
          m.pending[i] = 1;
      return -1;
    case POLL: {
      int r = m.on[o.a] >= 0 ? m.pending[o.a] : 0;
      m.pending[o.a] = 0;
      return r;
    }
    case DESTROY_OBSERVER:
      m.exists[o.a] = 0;
      m.on[o.a] = -1;
      m.pending[o.a] = 0;
      return -1;
    case DESTROY_OBSERVABLE:
      m.obs_alive[o.a] = 0;
      for (int i = 0; i < 3; i++)
        if (m.exists[i] && m.on[i] == o.a) {
          m.on[i] = -1;  // orphaned: false from now on, whatever was pending
          m.pending[i] = 0;
        }
      return -1;
    case RECREATE_OBSERVABLE:
      m.obs_alive[o.a] = 1;  // a new observable: earlier observers of that slot stay orphaned
      return -1;
    }
    return -1;
  }
  void advance(Model &m, int op) const { apply(m, op); }
  static std::string show(const Model &m)
  {
    std::string s;
    for (int k = 0; k < 2; k++)
      s += "observable" + S(k) + (m.obs_alive[k] ? " " : "(-) ");
    for (int i = 0; i < 3; i++)
      s += "observer" + S(i) + (!m.exists[i] ? "(-)" : m.on[i] < 0 ? "(orphan)" : "(on " + S(m.on[i]) + (m.pending[i] ? ", pending)" : ")")) + (i < 2 ? " " : "");
    return s;
  }

  struct Run
  {
    const ObsSys &sys;
    sq::Ctx &ctx;
    Model model;
    Observable *obs[2];
    Observer *obr[3] = {nullptr, nullptr, nullptr};
    int nsteps = 0;
    Run(const ObsSys &s, sq::Ctx &c) : sys(s), ctx(c)
    {
      obs[0] = new Observable();
      obs[1] = new Observable();
    }
    const char *state_class(const Model &before, int i) const
    {
      if (before.on[i] < 0)
        return "observable destroyed";
      return before.pending[i] ? "notified since the last poll" : "not notified since the last poll";
    }
    void step(int op, bool fresh)
    {
      const Op &o = sys.ops[op];
      Model before = model;
      int want = sys.apply(model, op);
      int got = -1;
      auto perform = [&]() {
        switch (o.kind) {
        case CREATE:
          obr[o.a] = new Observer(*obs[o.b]);
          break;
        case NOTIFY:
          obs[o.a]->notifyObservers();
          break;
        case POLL:
          got = obr[o.a]->wasNotified() ? 1 : 0;
          break;
        case DESTROY_OBSERVER:
          delete obr[o.a];
          obr[o.a] = nullptr;
          break;
        case DESTROY_OBSERVABLE:
          delete obs[o.a];
          obs[o.a] = nullptr;
          break;
        case RECREATE_OBSERVABLE:
          obs[o.a] = new Observable();
          break;
        }
      };
      if (sys.xthread && (nsteps++ & 1)) {
        std::thread t(perform);
        t.join();
      } else
        perform();
      if (got != want) {
        ctx.viol(std::string("wasNotified|") + (got ? "true" : "false") + " although " + state_class(before, o.a),
            "observer " + S(o.a) + " returned " + (got ? "true" : "false") + " want " + (want ? "true" : "false") + "; reference before the poll: " + show(before));
        return;
      }
      if (fresh) {
        uint64_t h = sq::mix(vr::fnv("obs"), (uint64_t)op * 4 + (got + 1));
        for (int i = 0; i < 3; i++)
          h = sq::mix(h, model.exists[i] * 16 + (model.on[i] + 1) * 2 + model.pending[i]);
        h = sq::mix(h, model.obs_alive[0] * 2 + model.obs_alive[1]);
        sq::outcomes().add(h);
      }
      if (ctx.verbose)
        printf("  %-6s %-20s -> %-6s reference: %s\n", o.name.c_str(), o.cls.c_str(), got < 0 ? "" : got ? "true" : "false", show(model).c_str());
    }
    int find_op(Kind kind, int a) const
    {
      for (int i = 0; i < sys.nops(); i++)
        if (sys.ops[i].kind == kind && sys.ops[i].a == a)
          return i;
      return -1;
    }
    // teardown = more checked steps: the remaining observables go first, every remaining observer is
    // then polled once more (must say false) and destroyed.  (Observers-first is part of the alphabet.)
    void finish()
    {
      for (int k = 0; k < 2 && !ctx.failed; k++)
        if (model.obs_alive[k])
          step(find_op(DESTROY_OBSERVABLE, k), false);
      for (int i = 0; i < 3 && !ctx.failed; i++)
        if (model.exists[i]) {
          step(find_op(POLL, i), false);
          if (!ctx.failed)
            step(find_op(DESTROY_OBSERVER, i), false);
        }
    }
    std::string describe() const { return show(model); }
  };
};

// ------------------------------------------------------------------------------------ time stamps
struct TsSys
{
  struct Model
  {
    signed char cons[3] = {0, 0, 0};
  };
  enum Kind { FRESH, RENEW, COPY_CT, MOVE_CT, COPY_AS, MOVE_AS, DTOR };
  struct Op
  {
    Kind kind;
    int a, b;
    std::string name, cls;
  };
  std::vector<Op> ops;
  TsSys()
  {
    for (int i = 0; i < 3; i++)
      ops.push_back(Op{FRESH, i, 0, "t" + S(i) + "()", "construct"});
    for (int i = 0; i < 3; i++)
      ops.push_back(Op{RENEW, i, 0, "t" + S(i) + ".renew", "renew"});
    for (int i = 0; i < 3; i++)
      for (int j = 0; j < 3; j++)
        if (i != j)
          ops.push_back(Op{COPY_CT, i, j, "t" + S(i) + "(t" + S(j) + ")", "copy-construct"});
    for (int i = 0; i < 3; i++)
      for (int j = 0; j < 3; j++)
        ops.push_back(Op{COPY_AS, i, j, "t" + S(i) + "=t" + S(j), "copy-assign"});
    for (int i = 0; i < 3; i++)
      ops.push_back(Op{DTOR, i, 0, "~t" + S(i), "destroy"});
    for (int i = 0; i < 3; i++)
      for (int j = 0; j < 3; j++)
        if (i != j)
          ops.push_back(Op{MOVE_CT, i, j, "t" + S(i) + "(mv-t" + S(j) + ")", "move-construct"});
    for (int i = 0; i < 3; i++)
      for (int j = 0; j < 3; j++)
        ops.push_back(Op{MOVE_AS, i, j, "t" + S(i) + "=mv-t" + S(j), "move-assign"});
  }
  const char *sysname() const { return "TimeStamp"; }
  const char *tag() const { return "ts"; }
  Model initial() const { return Model(); }
  int nops() const { return (int)ops.size(); }
  const std::string &opname(int op) const { return ops[op].name; }
  const std::string &opclass(int op) const { return ops[op].cls; }
  bool enabled(const Model &m, int op) const
  {
    const Op &o = ops[op];
    switch (o.kind) {
    case FRESH:
      return !m.cons[o.a];
    case RENEW:
    case DTOR:
      return m.cons[o.a];
    case COPY_CT:
    case MOVE_CT:
      return !m.cons[o.a] && m.cons[o.b];
    case COPY_AS:
    case MOVE_AS:
      return m.cons[o.a] && m.cons[o.b];
    }
    return false;
  }
  void advance(Model &m, int op) const
  {
    const Op &o = ops[op];
    if (o.kind == DTOR)
      m.cons[o.a] = 0;
    else if (o.kind == FRESH || o.kind == COPY_CT || o.kind == MOVE_CT)
      m.cons[o.a] = 1;
  }

  struct Run
  {
    const TsSys &sys;
    sq::Ctx &ctx;
    Model model;
    TimeStamp *t[3] = {nullptr, nullptr, nullptr};
    size_t val[3] = {0, 0, 0};  // what each live stamp must read: the value it obtained or was copied from
    bool any_obtained = false;
    size_t newest = 0;          // largest value obtained so far in this history
    int obtained = 0;
    Run(const TsSys &s, sq::Ctx &c) : sys(s), ctx(c) {}

    void step(int op, bool fresh)
    {
      const Op &o = sys.ops[op];
      sys.advance(model, op);
      size_t srcval = (o.kind == COPY_CT || o.kind == MOVE_CT || o.kind == COPY_AS || o.kind == MOVE_AS) ? val[o.b] : 0;
      switch (o.kind) {
      case FRESH:
        t[o.a] = new TimeStamp();
        break;
      case RENEW:
        t[o.a]->renew();
        break;
      case COPY_CT:
        t[o.a] = new TimeStamp(*t[o.b]);
        break;
      case MOVE_CT:
        t[o.a] = new TimeStamp(std::move(*t[o.b]));
        break;
      case COPY_AS: {
        TimeStamp &src = *t[o.b];
        *t[o.a] = src;
        break;
      }
      case MOVE_AS: {
        TimeStamp &src = *t[o.b];
        *t[o.a] = std::move(src);
        break;
      }
      case DTOR:
        delete t[o.a];
        t[o.a] = nullptr;
        break;
      }
      if (o.kind == FRESH || o.kind == RENEW) {
        size_t v = *t[o.a];
        if (any_obtained && !(v > newest)) {
          ctx.viol(o.cls + (v == newest ? "|value equals an earlier one" : "|value not larger than every earlier value of the thread"),
              "stamp " + S(o.a) + " obtained " + S((long long)v) + " after " + S((long long)newest) + " (" + S(obtained) + " values obtained before in this history)");
          return;
        }
        any_obtained = true;
        newest = v;
        obtained++;
        val[o.a] = v;
      } else if (o.kind != DTOR) {
        size_t v = *t[o.a];
        if (v != srcval) {
          ctx.viol(o.cls + "|copy does not carry its source's value", "stamp " + S(o.a) + " reads " + S((long long)v) + ", its source stamp " + S(o.b) + " had " + S((long long)srcval));
          return;
        }
        val[o.a] = v;
        if ((o.kind == MOVE_CT || o.kind == MOVE_AS) && o.a != o.b)
          val[o.b] = *t[o.b];  // a moved-from stamp may read anything; it stays usable as a source
      }
      // every other live stamp still reads what it read before
      for (int i = 0; i < 3; i++)
        if (model.cons[i] && (size_t)*t[i] != val[i]) {
          ctx.viol(o.cls + "|changes a stamp that is neither its target nor moved from", "stamp " + S(i) + " reads " + S((long long)(size_t)*t[i]) + " want " + S((long long)val[i]));
          return;
        }
      if (fresh) {
        // outcome: the order pattern of the live stamps (which are equal, which newer)
        uint64_t h = sq::mix(vr::fnv("ts"), (uint64_t)op);
        for (int i = 0; i < 3; i++)
          for (int j = 0; j < 3; j++)
            h = sq::mix(h, !model.cons[i] || !model.cons[j] ? 3 : val[i] < val[j] ? 0 : val[i] == val[j] ? 1 : 2);
        sq::outcomes().add(h);
      }
      if (ctx.verbose) {
        std::string s;
        for (int i = 0; i < 3; i++)
          s += "t" + S(i) + (model.cons[i] ? "=" + S((long long)(size_t)*t[i]) : "(-)") + " ";
        printf("  %-12s %-16s -> %s\n", o.name.c_str(), o.cls.c_str(), s.c_str());
      }
    }
    void finish()
    {
      for (int i = 0; i < 3; i++) {
        delete t[i];
        t[i] = nullptr;
      }
    }
    std::string describe() const
    {
      std::string s;
      for (int i = 0; i < 3; i++)
        s += "t" + S(i) + (model.cons[i] ? "=" + S((long long)(size_t)*t[i]) : "(-)") + (i < 2 ? " " : "");
      return s;
    }
  };
};

static std::string arg_str(int argc, char **argv, const char *name, const std::string &dflt)
{
  for (int i = 1; i + 1 < argc; i++)
    if (std::string(argv[i]) == name)
      return argv[i + 1];
  return dflt;
}

int main(int argc, char **argv)
{
  vr::init(argc, argv);
  ObsSys obs, obsx;
  obsx.xthread = true;
  TsSys ts;
  if (vr::replaying()) {
    sq::replay_symbolized(argv);
    std::string r = vr::S().replay;
    size_t c = r.find(':');
    std::string tag = r.substr(0, c), hist = c == std::string::npos ? "" : r.substr(c + 1);
    if (tag == obs.tag())
      return sq::Explorer<ObsSys>(obs, 0).replay(hist);
    if (tag == obsx.tag())
      return sq::Explorer<ObsSys>(obsx, 0).replay(hist);
    if (tag == ts.tag())
      return sq::Explorer<TsSys>(ts, 0).replay(hist);
    printf("unknown replay tag '%s'\n", tag.c_str());
    return 2;
  }
  const int depth = atoi(arg_str(argc, argv, "--depth", vr::thorough() ? "8" : "7").c_str());
  const int tsdepth = atoi(arg_str(argc, argv, "--ts-depth", vr::thorough() ? "7" : "6").c_str());
  const std::string only = arg_str(argc, argv, "--only", "");
  if (only.empty() || only == obs.tag())
    sq::Explorer<ObsSys>(obs, depth, 128).explore();
  if (only.empty() || only == obsx.tag())
    sq::Explorer<ObsSys>(obsx, depth - 2, 128).explore();
  if (only.empty() || only == ts.tag())
    sq::Explorer<TsSys>(ts, tsdepth, 128).explore();
  return vr::finish();
}
