// C09: Optional explorer instantiated for one over-aligned payload / layout (own translation unit).
#include "C09_optexplore.h"
namespace c09 {
PayloadEntry entry_a32()
{
  return Explorer<PAligned<32>, 0>::entry("Align32");  // must equal Explorer::pname()
}
}  // namespace c09
