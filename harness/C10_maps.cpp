// C10: FlatMap and ParameterizedObject conform to an insertion-ordered unique-key map.
// Engine seqmc: every history of mutating operations up to a depth, replayed on fresh objects in
// lock step with a boring reference model (std::vector with find-or-append); after every step every
// non-mutating query is asked for every key and the full ordered contents are compared.
#include "C10_seqmc.h"

#include "rkcommon/containers/FlatMap.h"
#include "rkcommon/utility/ParameterizedObject.h"

#include <memory>

using rkcommon::containers::FlatMap;
using rkcommon::utility::ParameterizedObject;

// ------------------------------------------------------------------------------------ FlatMap
template <class K, class V>
struct Dom;

template <>
struct Dom<int, int>
{
  static const char *sysname() { return "FlatMap<int,int>"; }
  static const char *tag() { return "fm-int"; }
  static int key(int i) { static const int k[4] = {7, -3, 0, 1000}; return k[i]; }  // key(3) is never inserted
  static int val(int i) { static const int v[2] = {11, 22}; return v[i]; }
  static std::string show(int x) { return std::to_string(x); }
};

template <>
struct Dom<std::string, std::string>
{
  static const char *sysname() { return "FlatMap<string,string>"; }
  static const char *tag() { return "fm-str"; }
  static std::string key(int i)
  {
    static const char *k[4] = {"a", "b", "a-key-longer-than-the-small-string-buffer", "never"};
    return k[i];
  }
  static std::string val(int i)
  {
    static const char *v[2] = {"x", "a-value-longer-than-the-small-string-buffer"};
    return v[i];
  }
  static std::string show(const std::string &x) { return "'" + (x.size() > 8 ? x.substr(0, 7) + "~" : x) + "'"; }
};

template <class K, class V>
struct FmSys
{
  typedef Dom<K, V> D;
  typedef std::vector<std::pair<K, V>> Model;
  typedef FlatMap<K, V> Map;
  enum Kind { SET, READ, ATSET, ERASE, CLEAR, RESERVE, IDXSET };
  struct Op
  {
    Kind kind;
    int k, v;
    std::string name, cls;
  };
  std::vector<Op> ops;

  FmSys()
  {
    // simplest first
    for (int k = 0; k < 3; k++)
      for (int v = 0; v < 2; v++)
        ops.push_back(Op{SET, k, v, "S" + std::to_string(k) + std::to_string(v), "operator[] write"});
    for (int k = 0; k < 3; k++)
      ops.push_back(Op{ERASE, k, 0, "E" + std::to_string(k), "erase"});
    for (int k = 0; k < 3; k++)
      ops.push_back(Op{READ, k, 0, "R" + std::to_string(k), "operator[] read"});
    ops.push_back(Op{CLEAR, 0, 0, "X", "clear"});
    for (int k = 0; k < 3; k++)
      ops.push_back(Op{ATSET, k, 1, "W" + std::to_string(k), "at() write"});
    ops.push_back(Op{RESERVE, 0, 0, "V", "reserve"});
    ops.push_back(Op{IDXSET, 0, 1, "I0", "at_index() write"});
  }
  const char *sysname() const { return D::sysname(); }
  const char *tag() const { return D::tag(); }
  Model initial() const { return Model(); }
  int nops() const { return (int)ops.size(); }
  std::string opname(int op) const { return ops[op].name; }
  std::string opclass(int op) const { return ops[op].cls; }
  bool enabled(const Model &, int) const { return true; }

  struct Expect
  {
    bool throws = false;
    bool has_value = false;
    V value;
  };
  static typename Model::iterator find(Model &m, const K &k)
  {
    typename Model::iterator it = m.begin();
    while (it != m.end() && !(it->first == k))
      ++it;
    return it;
  }
  // the reference map
  Expect apply(Model &m, int op) const
  {
    const Op &o = ops[op];
    Expect e;
    K key = D::key(o.k);
    typename Model::iterator it = find(m, key);
    switch (o.kind) {
    case SET:
      if (it == m.end())
        m.push_back(std::make_pair(key, D::val(o.v)));
      else
        it->second = D::val(o.v);
      break;
    case READ:
      if (it == m.end()) {
        m.push_back(std::make_pair(key, V()));
        it = m.end() - 1;
      }
      e.has_value = true;
      e.value = it->second;
      break;
    case ATSET:
      if (it == m.end())
        e.throws = true;
      else
        it->second = D::val(o.v);
      break;
    case ERASE:
      if (it != m.end())
        m.erase(it);
      break;
    case CLEAR:
      m.clear();
      break;
    case RESERVE:
      break;
    case IDXSET:  // write through at_index(0) when there is an element 0; otherwise only must not corrupt
      if (!m.empty())
        m[0].second = D::val(o.v);
      break;
    }
    return e;
  }
  void advance(Model &m, int op) const { apply(m, op); }

  static std::string show(const Model &m)
  {
    std::string s = "{";
    for (size_t i = 0; i < m.size(); i++)
      s += (i ? " " : "") + D::show(m[i].first) + ":" + D::show(m[i].second);
    return s + "}";
  }

  // what exactly differs between the observed and the wanted ordered contents
  static std::string classify(const Model &got, const Model &want)
  {
    for (size_t i = 0; i < got.size(); i++)
      for (size_t j = i + 1; j < got.size(); j++)
        if (got[i].first == got[j].first)
          return "a key is stored twice";
    Model g = got, w = want;
    for (size_t i = 0; i < w.size(); i++)
      if (find(g, w[i].first) == g.end())
        return "an inserted key is missing";
    for (size_t i = 0; i < g.size(); i++)
      if (find(w, g[i].first) == w.end())
        return "a removed or never inserted key is present";
    for (size_t i = 0; i < w.size(); i++)
      if (!(find(g, w[i].first)->second == w[i].second))
        return "a value is not the last one written";
    return "iteration order is not first-insertion order";
  }

  struct Run
  {
    const FmSys &sys;
    sq::Ctx &ctx;
    Model model;
    std::unique_ptr<Map> map;
    Run(const FmSys &s, sq::Ctx &c) : sys(s), ctx(c), map(new Map()) {}

    template <class It>
    static Model collect(It b, It e)
    {
      Model m;
      for (; b != e; ++b)
        m.push_back(*b);
      return m;
    }

    bool same_contents(const Model &got, const char *via, const std::string &cls)
    {
      if (got == model)
        return true;
      ctx.viol(cls + "|" + classify(got, model), std::string("contents via ") + via + " " + show(got) + " want " + show(model));
      return false;
    }

    void observe_all(const std::string &cls)
    {
      Map &m = *map;
      const Map &cm = *map;
      if (!same_contents(collect(m.begin(), m.end()), "begin()..end()", cls))
        return;
      if (!same_contents(collect(cm.begin(), cm.end()), "const begin()..end()", cls))
        return;
      if (!same_contents(collect(cm.cbegin(), cm.cend()), "cbegin()..cend()", cls))
        return;
      {
        Model r = collect(m.rbegin(), m.rend());
        std::reverse(r.begin(), r.end());
        if (!same_contents(r, "reversed rbegin()..rend()", cls))
          return;
        r = collect(cm.crbegin(), cm.crend());
        std::reverse(r.begin(), r.end());
        if (!same_contents(r, "reversed crbegin()..crend()", cls))
          return;
        r = collect(cm.rbegin(), cm.rend());
        std::reverse(r.begin(), r.end());
        if (!same_contents(r, "reversed const rbegin()..rend()", cls))
          return;
      }
      if (cm.size() != model.size() || (cm.empty() != 0) != model.empty()) {
        ctx.viol(cls + "|size()/empty() differ from the number of present keys",
            "size() " + std::to_string(cm.size()) + " empty() " + std::to_string(cm.empty()) + " want size " + std::to_string(model.size()));
        return;
      }
      for (size_t i = 0; i < model.size(); i++) {
        if (!(cm.at_index(i) == model[i]) || !(m.at_index(i) == model[i])) {
          ctx.viol(cls + "|at_index(i) is not the i-th key in first-insertion order",
              "at_index(" + std::to_string(i) + ") = " + D::show(cm.at_index(i).first) + ":" + D::show(cm.at_index(i).second) + " want " + D::show(model[i].first) + ":" + D::show(model[i].second));
          return;
        }
      }
      for (int k = 0; k < 4; k++) {
        K key = D::key(k);
        typename Model::iterator it = find(model, key);
        bool present = it != model.end();
        if (cm.contains(key) != present) {
          ctx.viol(cls + (present ? "|contains() false for a present key" : "|contains() true for an absent key"), "contains(" + D::show(key) + ") = " + (present ? "false" : "true") + ", map " + show(model));
          return;
        }
        for (int cst = 0; cst < 2; cst++) {
          bool threw = false, other = false;
          V got = V();
          try {
            got = cst ? cm.at(key) : m.at(key);
          } catch (const std::out_of_range &) {
            threw = true;
          } catch (...) {
            threw = other = true;
          }
          const char *fn = cst ? "const at()" : "at()";
          if (other) {
            ctx.viol(cls + "|at() throws something other than std::out_of_range", std::string(fn) + " key " + D::show(key));
            return;
          }
          if (threw != !present) {
            ctx.viol(cls + (present ? "|at() throws for a present key" : "|at() does not throw for an absent key"), std::string(fn) + " key " + D::show(key) + ", map " + show(model));
            return;
          }
          if (present && !(got == it->second)) {
            ctx.viol(cls + "|at() returns a value other than the last one written", std::string(fn) + " key " + D::show(key) + " = " + D::show(got) + " want " + D::show(it->second));
            return;
          }
        }
      }
      // the queries did not change anything
      same_contents(collect(m.begin(), m.end()), "begin()..end() after the queries", "queries after " + cls);
    }

    void step(int op, bool fresh)
    {
      const Op &o = sys.ops[op];
      Expect e = sys.apply(model, op);
      K key = D::key(o.k);
      bool threw = false, other = false;
      V got = V();
      std::string res;
      try {
        switch (o.kind) {
        case SET:
          (*map)[key] = D::val(o.v);
          break;
        case READ:
          got = (*map)[key];
          break;
        case ATSET:
          map->at(key) = D::val(o.v);
          break;
        case ERASE:
          map->erase(key);
          break;
        case CLEAR:
          map->clear();
          break;
        case RESERVE:
          map->reserve(8);
          break;
        case IDXSET:
          if (!model.empty())
            map->at_index(0).second = D::val(o.v);
          else {
            try {  // index == size(): outside the statement, only must not corrupt anything
              (void)map->at_index(0);
            } catch (const std::out_of_range &) {
            }
          }
          break;
        }
      } catch (const std::out_of_range &) {
        threw = true;
      } catch (...) {
        threw = other = true;
      }
      if (other || threw != e.throws) {
        ctx.viol(o.cls + (e.throws ? "|does not throw std::out_of_range for an absent key" : "|throws"), "operation " + o.name + (threw ? " threw" : " did not throw"));
        return;
      }
      if (e.has_value && !(got == e.value)) {
        ctx.viol(o.cls + "|returns a value other than the last one written (default for a new key)", "got " + D::show(got) + " want " + D::show(e.value));
        return;
      }
      if (e.has_value)
        res = D::show(got);
      if (threw)
        res = "throws";
      if (fresh) {
        observe_all(o.cls);
        if (ctx.failed)
          return;
        vr::outcome(std::string(D::tag()) + o.name + res + show(model));
      } else if (map->size() != model.size()) {
        ctx.viol(o.cls + "|size()/empty() differ from the number of present keys", "size() " + std::to_string(map->size()) + " want " + std::to_string(model.size()));
        return;
      }
      ctx.say("  %-3s %-18s -> %-8s map %s   [reference %s]\n", o.name.c_str(), o.cls.c_str(), res.c_str(),
          show(collect(map->begin(), map->end())).c_str(), show(model).c_str());
    }
    void finish() { map.reset(); }
    std::string describe() const { return show(collect(map->cbegin(), map->cend())); }
  };
};

// ------------------------------------------------------------------------------------ ParameterizedObject
struct TestObject : public ParameterizedObject
{
  using ParameterizedObject::params_begin;
  using ParameterizedObject::params_end;
};

struct PoSys
{
  enum Type { T_INT, T_FLOAT, T_STRING };
  struct Entry
  {
    int name;
    int type;
    std::string value;  // printed form
    bool queried;
    bool operator==(const Entry &o) const { return name == o.name && type == o.type && value == o.value && queried == o.queried; }
  };
  typedef std::vector<Entry> Model;
  enum Kind { SETI, SETF, SETS, GETI, GETF, GETS, REMOVE, RESET };
  struct Op
  {
    Kind kind;
    int n, v;
    std::string name, cls;
  };
  std::vector<Op> ops;
  static const char *pname(int n)
  {
    static const char *names[3] = {"a", "b", "c"};  // "c" is never set
    return names[n];
  }
  static int ival(int v) { return v ? 2 : 1; }
  static float fval() { return 1.5f; }
  static std::string sval() { return "a-string-longer-than-the-small-string-buffer"; }
  static std::string pi(int x) { return "i:" + std::to_string(x); }
  static std::string pf(float x)
  {
    char b[32];
    snprintf(b, sizeof b, "f:%g", x);
    return b;
  }
  static std::string ps(const std::string &x) { return "s:" + (x.size() > 8 ? x.substr(0, 7) + "~" : x); }

  PoSys()
  {
    for (int n = 0; n < 2; n++) {
      std::string a = pname(n);
      ops.push_back(Op{SETI, n, 0, "si1" + a, "setParam<int>"});
      ops.push_back(Op{SETI, n, 1, "si2" + a, "setParam<int>"});
      ops.push_back(Op{SETF, n, 0, "sf" + a, "setParam<float>"});
      ops.push_back(Op{SETS, n, 0, "ss" + a, "setParam<string>"});
    }
    for (int n = 0; n < 2; n++) {
      std::string a = pname(n);
      ops.push_back(Op{GETI, n, 0, "gi" + a, "getParam<int>"});
      ops.push_back(Op{GETF, n, 0, "gf" + a, "getParam<float>"});
      ops.push_back(Op{GETS, n, 0, "gs" + a, "getParam<string>"});
    }
    for (int n = 0; n < 2; n++)
      ops.push_back(Op{REMOVE, n, 0, std::string("rm") + pname(n), "removeParam"});
    ops.push_back(Op{RESET, 0, 0, "reset", "resetAllParamQueryStatus"});
  }
  const char *sysname() const { return "ParameterizedObject"; }
  const char *tag() const { return "po"; }
  Model initial() const { return Model(); }
  int nops() const { return (int)ops.size(); }
  std::string opname(int op) const { return ops[op].name; }
  std::string opclass(int op) const { return ops[op].cls; }
  bool enabled(const Model &, int) const { return true; }

  static Model::iterator find(Model &m, int name)
  {
    Model::iterator it = m.begin();
    while (it != m.end() && it->name != name)
      ++it;
    return it;
  }
  // reference: returns the printed value a typed read must yield ("" = not a read)
  std::string apply(Model &m, int op, std::string *state_class = nullptr) const
  {
    const Op &o = ops[op];
    Model::iterator it = find(m, o.n);
    bool present = it != m.end();
    if (state_class)
      *state_class = !present ? "absent name" : "present name";
    switch (o.kind) {
    case SETI:
    case SETF:
    case SETS: {
      int ty = o.kind == SETI ? T_INT : o.kind == SETF ? T_FLOAT : T_STRING;
      std::string v = o.kind == SETI ? pi(ival(o.v)) : o.kind == SETF ? pf(fval()) : ps(sval());
      if (state_class && present)
        *state_class = it->type == ty ? "present name, same type" : "present name, other type";
      if (!present)
        m.push_back(Entry{o.n, ty, v, false});
      else {
        it->type = ty;  // the query status is only changed by reads and by the reset
        it->value = v;
      }
      return "";
    }
    case GETI:
    case GETF:
    case GETS: {
      int ty = o.kind == GETI ? T_INT : o.kind == GETF ? T_FLOAT : T_STRING;
      std::string dflt = o.kind == GETI ? pi(-7) : o.kind == GETF ? pf(-7.25f) : ps("dflt");
      if (state_class && present)
        *state_class = it->type == ty ? "present name, exact type" : "present name, other type";
      if (!present || it->type != ty)
        return dflt;
      it->queried = true;
      return it->value;
    }
    case REMOVE:
      if (present)
        m.erase(it);
      return "";
    case RESET:
      for (auto &e : m)
        e.queried = false;
      if (state_class)
        *state_class = "any";
      return "";
    }
    return "";
  }
  void advance(Model &m, int op) const { apply(m, op); }

  static std::string show(const Model &m)
  {
    std::string s = "[";
    for (size_t i = 0; i < m.size(); i++)
      s += std::string(i ? " " : "") + pname(m[i].name) + "=" + m[i].value + (m[i].queried ? "?" : "");
    return s + "]";
  }

  struct Run
  {
    const PoSys &sys;
    sq::Ctx &ctx;
    Model model;
    std::unique_ptr<TestObject> obj;
    Run(const PoSys &s, sq::Ctx &c) : sys(s), ctx(c), obj(new TestObject()) {}

    // ordered contents through params_begin()/params_end(); false when a parameter is unreadable
    bool contents(Model &out, std::string &why) const
    {
      for (auto p = obj->params_begin(); p != obj->params_end(); ++p) {
        const ParameterizedObject::Param &pa = **p;
        Entry e;
        e.name = pa.name == "a" ? 0 : pa.name == "b" ? 1 : pa.name == "c" ? 2 : 99;
        e.queried = pa.query;
        if (!pa.data.valid()) {
          why = "parameter '" + pa.name + "' holds no value";
          return false;
        }
        if (pa.data.is<int>()) {
          e.type = T_INT;
          e.value = pi(pa.data.get<int>());
        } else if (pa.data.is<float>()) {
          e.type = T_FLOAT;
          e.value = pf(pa.data.get<float>());
        } else if (pa.data.is<std::string>()) {
          e.type = T_STRING;
          e.value = ps(pa.data.get<std::string>());
        } else {
          why = "parameter '" + pa.name + "' holds a value of a type that was never set";
          return false;
        }
        out.push_back(e);
      }
      return true;
    }

    static std::string classify(const Model &got, const Model &want)
    {
      for (size_t i = 0; i < got.size(); i++)
        for (size_t j = i + 1; j < got.size(); j++)
          if (got[i].name == got[j].name)
            return "a name is stored twice";
      Model g = got, w = want;
      for (auto &e : w)
        if (find(g, e.name) == g.end())
          return "a set parameter is missing";
      for (auto &e : g)
        if (find(w, e.name) == w.end())
          return "a removed or never set parameter is present";
      for (auto &e : w) {
        Entry &x = *find(g, e.name);
        if (x.type != e.type || x.value != e.value)
          return "type/value is not the last one set";
      }
      for (auto &e : w)
        if (find(g, e.name)->queried != e.queried)
          return find(g, e.name)->queried ? "marked queried without a successful read since the reset" : "not marked queried after a successful read";
      return "order is not first-insertion order";
    }

    bool same_contents(const std::string &cls, const char *when)
    {
      Model got;
      std::string why;
      if (!contents(got, why)) {
        ctx.viol(cls + "|unreadable parameter", why);
        return false;
      }
      if (got == model)
        return true;
      ctx.viol(cls + "|" + classify(got, model), std::string("parameters ") + when + " " + show(got) + " want " + show(model));
      return false;
    }

    void step(int op, bool fresh)
    {
      const Op &o = sys.ops[op];
      std::string sc;
      std::string want = sys.apply(model, op, &sc);
      std::string cls = o.cls + " (" + sc + ")";
      std::string got;
      const char *nm = pname(o.n);
      try {
        switch (o.kind) {
        case SETI:
          obj->setParam<int>(nm, ival(o.v));
          break;
        case SETF:
          obj->setParam<float>(nm, fval());
          break;
        case SETS:
          obj->setParam<std::string>(nm, sval());
          break;
        case GETI:
          got = pi(obj->getParam<int>(nm, -7));
          break;
        case GETF:
          got = pf(obj->getParam<float>(nm, -7.25f));
          break;
        case GETS:
          got = ps(obj->getParam<std::string>(nm, "dflt"));
          break;
        case REMOVE:
          obj->removeParam(nm);
          break;
        case RESET:
          obj->resetAllParamQueryStatus();
          break;
        }
      } catch (const std::exception &ex) {
        ctx.viol(cls + "|throws", std::string("exception: ") + ex.what());
        return;
      }
      if (got != want) {
        ctx.viol(cls + "|returns neither the last value set with that exact type nor the caller's default as required", "got " + got + " want " + want + ", parameters " + show(model));
        return;
      }
      if (fresh) {
        if (!same_contents(cls, "after the operation"))
          return;
        // non-mutating questions, asked at every reached state
        for (int n = 0; n < 3; n++) {
          bool present = find(model, n) != model.end();
          if (obj->hasParam(pname(n)) != present) {
            ctx.viol(std::string("hasParam") + (present ? "|false for a set parameter" : "|true for an absent parameter"), std::string("hasParam(") + pname(n) + "), parameters " + show(model));
            return;
          }
          // types no parameter was ever set with: the caller's default, and no query mark
          double d = obj->getParam<double>(pname(n), -1.0);
          long l = obj->getParam<long>(pname(n), -2L);
          bool b = obj->getParam<bool>(pname(n), true);
          unsigned u = obj->getParam<unsigned>(pname(n), 9u);
          if (d != -1.0 || l != -2L || b != true || u != 9u) {
            ctx.viol("getParam<other type>|does not yield the caller's default", std::string("name ") + pname(n) + ", parameters " + show(model));
            return;
          }
        }
        if (!same_contents("hasParam / getParam<other type> after " + o.cls, "after the queries"))
          return;
        vr::outcome("po" + o.name + got + show(model));
      }
      ctx.say("  %-6s %-26s -> %-10s parameters %s\n", o.name.c_str(), o.cls.c_str(), got.c_str(), show(model).c_str());
    }
    void finish() { obj.reset(); }
    std::string describe() const
    {
      Model m;
      std::string why;
      contents(m, why);
      return show(m);
    }
  };
};

// ------------------------------------------------------------------------------------ driver
static int arg_int(int argc, char **argv, const char *name, int dflt)
{
  for (int i = 1; i + 1 < argc; i++)
    if (std::string(argv[i]) == name)
      return atoi(argv[i + 1]);
  return dflt;
}

int main(int argc, char **argv)
{
  vr::init(argc, argv);
  FmSys<int, int> fi;
  FmSys<std::string, std::string> fs;
  PoSys po;
  if (vr::replaying()) {
    std::string r = vr::S().replay;
    size_t c = r.find(':');
    std::string tag = r.substr(0, c), hist = c == std::string::npos ? "" : r.substr(c + 1);
    if (tag == fi.tag())
      return sq::Explorer<FmSys<int, int>>(fi, 0).replay(hist);
    if (tag == fs.tag())
      return sq::Explorer<FmSys<std::string, std::string>>(fs, 0).replay(hist);
    if (tag == po.tag())
      return sq::Explorer<PoSys>(po, 0).replay(hist);
    printf("unknown replay tag '%s'\n", tag.c_str());
    return 2;
  }
  const int depth = arg_int(argc, argv, "--depth", vr::thorough() ? 7 : 6);
  const std::string only = [&]() {
    for (int i = 1; i + 1 < argc; i++)
      if (std::string(argv[i]) == "--only")
        return std::string(argv[i + 1]);
    return std::string();
  }();
  if (only.empty() || only == fi.tag())
    sq::Explorer<FmSys<int, int>>(fi, depth, 128).explore();
  if (only.empty() || only == po.tag())
    sq::Explorer<PoSys>(po, depth, 128).explore();
  if (only.empty() || only == fs.tag())
    sq::Explorer<FmSys<std::string, std::string>>(fs, depth, 128).explore();
  return vr::finish();
}
