// C10: FlatMap and ParameterizedObject conform to an insertion-ordered unique-key map.
// Engine seqmc: every history of mutating operations up to a depth, replayed on fresh objects in
// lock step with a boring reference model (an array with find-or-append); after every step the
// non-mutating queries are asked and the full ordered contents are compared.
#include "C10_seqmc.h"

#include "rkcommon/containers/FlatMap.h"
#include "rkcommon/utility/ParameterizedObject.h"

#include <memory>

using rkcommon::containers::FlatMap;
using rkcommon::utility::ParameterizedObject;

// ------------------------------------------------------------------------------------ FlatMap
// keys are named 0..2 (3 is never inserted), values 1..2 (0 is the default-constructed value)
template <class K, class V>
struct Dom;

template <>
struct Dom<int, int>
{
  static const char *sysname() { return "FlatMap<int,int>"; }
  static const char *tag() { return "fm-int"; }
  static const int &key(int i)
  {
    static const int k[4] = {7, -3, 0, 1000};
    return k[i];
  }
  static const int &val(int i)
  {
    static const int v[3] = {0, 11, 22};
    return v[i];
  }
  static std::string show(int x) { return std::to_string(x); }
  static int alias_key() { return 2; }  // key(2) == val(0) == 0
  static const int &as_key(const int &v) { return v; }
};

template <>
struct Dom<std::string, std::string>
{
  static const char *sysname() { return "FlatMap<string,string>"; }
  static const char *tag() { return "fm-str"; }
  static const std::string &key(int i)
  {
    static const std::string k[4] = {"a", "b", "a-key-longer-than-the-small-string-buffer", "never"};
    return k[i];
  }
  static const std::string &val(int i)
  {
    static const std::string v[3] = {"", "x", "a-value-longer-than-the-small-string-buffer"};
    return v[i];
  }
  static std::string show(const std::string &x) { return "'" + (x.size() > 8 ? x.substr(0, 7) + "~" : x) + "'"; }
  static int alias_key() { return -1;  }  // no value of the alphabet is also a key
  static const std::string &as_key(const std::string &v) { return v; }
};

template <class K, class V>
struct FmSys
{
  typedef Dom<K, V> D;
  typedef FlatMap<K, V> Map;
  typedef std::vector<std::pair<K, V>> Items;
  struct Model  // ordered (key name, value name)
  {
    unsigned char n = 0, key[3], val[3];
    int find(int k) const
    {
      for (int i = 0; i < n; i++)
        if (key[i] == k)
          return i;
      return -1;
    }
    void append(int k, int v)
    {
      key[n] = (unsigned char)k;
      val[n] = (unsigned char)v;
      n++;
    }
    void remove(int i)
    {
      for (int j = i; j + 1 < n; j++) {
        key[j] = key[j + 1];
        val[j] = val[j + 1];
      }
      n--;
    }
  };
  enum Kind { SET, READ, ATSET, ERASE, CLEAR, RESERVE, ALIAS };
  struct Op
  {
    Kind kind;
    int k, v;
    std::string name, cls;
    int idx;  // ALIAS: the key argument is a reference to the value stored at this index
  };
  std::vector<Op> ops;

  FmSys()
  {
    // simplest first
    for (int k = 0; k < 3; k++)
      for (int v = 1; v <= 2; v++)
        ops.push_back(Op{SET, k, v, "S" + std::to_string(k) + std::to_string(v), "operator[] write", 0});
    for (int k = 0; k < 3; k++)
      ops.push_back(Op{ERASE, k, 0, "E" + std::to_string(k), "erase", 0});
    for (int k = 0; k < 3; k++)
      ops.push_back(Op{READ, k, 0, "R" + std::to_string(k), "operator[] read", 0});
    ops.push_back(Op{CLEAR, -1, 0, "X", "clear", 0});
    ops.push_back(Op{ATSET, 1, 2, "W1", "at() write", 0});
    ops.push_back(Op{RESERVE, -1, 0, "V", "reserve", 0});
    // m[m.at_index(i).second] = v: the key argument lives inside the map's own storage (enabled where the
    // stored value is also a key of the alphabet: the default value 0 is key name 2 of the int domain)
    if (D::alias_key() >= 0)
      for (int i = 0; i < 2; i++)
        ops.push_back(Op{ALIAS, D::alias_key(), 1, "A" + std::to_string(i), "operator[] write, key argument refers into the map", i});
  }
  const char *sysname() const { return D::sysname(); }
  const char *tag() const { return D::tag(); }
  Model initial() const { return Model(); }
  int nops() const { return (int)ops.size(); }
  const std::string &opname(int op) const { return ops[op].name; }
  const std::string &opclass(int op) const { return ops[op].cls; }
  bool enabled(const Model &m, int op) const { return ops[op].kind != ALIAS || (m.n > ops[op].idx && m.val[ops[op].idx] == 0); }

  // the reference map; result: -1 nothing returned, -2 must throw std::out_of_range, else the value name returned
  int apply(Model &m, int op) const
  {
    const Op &o = ops[op];
    int i = o.k >= 0 ? m.find(o.k) : -1;
    switch (o.kind) {
    case SET:
    case ALIAS:
      if (i < 0)
        m.append(o.k, o.v);
      else
        m.val[i] = (unsigned char)o.v;
      return -1;
    case READ:
      if (i < 0) {
        m.append(o.k, 0);
        return 0;
      }
      return m.val[i];
    case ATSET:
      if (i < 0)
        return -2;
      m.val[i] = (unsigned char)o.v;
      return -1;
    case ERASE:
      if (i >= 0)
        m.remove(i);
      return -1;
    case CLEAR:
      m.n = 0;
      return -1;
    case RESERVE:
      return -1;
    }
    return -1;
  }
  void advance(Model &m, int op) const { apply(m, op); }

  static Items items(const Model &m)
  {
    Items r;
    for (int i = 0; i < m.n; i++)
      r.push_back(std::make_pair(D::key(m.key[i]), D::val(m.val[i])));
    return r;
  }
  static std::string show(const Items &m)
  {
    std::string s = "{";
    for (size_t i = 0; i < m.size(); i++)
      s += (i ? " " : "") + D::show(m[i].first) + ":" + D::show(m[i].second);
    return s + "}";
  }
  static typename Items::iterator find(Items &m, const K &k)
  {
    typename Items::iterator it = m.begin();
    while (it != m.end() && !(it->first == k))
      ++it;
    return it;
  }
  // what exactly differs between the observed and the wanted ordered contents
  static std::string classify(Items g, Items w)
  {
    for (size_t i = 0; i < g.size(); i++)
      for (size_t j = i + 1; j < g.size(); j++)
        if (g[i].first == g[j].first)
          return "a key is stored twice";
    for (size_t i = 0; i < w.size(); i++)
      if (find(g, w[i].first) == g.end())
        return "an inserted key is missing";
    for (size_t i = 0; i < g.size(); i++)
      if (find(w, g[i].first) == w.end())
        return "a removed or never inserted key is present";
    for (size_t i = 0; i < w.size(); i++)
      if (!(find(g, w[i].first)->second == w[i].second))
        return "a value is not the last one written";
    return "iteration order is not first-insertion order";
  }

  struct Run
  {
    const FmSys &sys;
    sq::Ctx &ctx;
    Model model;
    std::unique_ptr<Map> map;
    Run(const FmSys &s, sq::Ctx &c) : sys(s), ctx(c), map(new Map()) {}

    // does the range hold exactly the model's pairs, in the model's order (or reversed)?
    template <class It>
    bool same(It b, It e, bool reversed) const
    {
      int i = 0;
      for (; b != e; ++b, ++i) {
        if (i >= model.n)
          return false;
        int j = reversed ? model.n - 1 - i : i;
        if (!(b->first == D::key(model.key[j])) || !(b->second == D::val(model.val[j])))
          return false;
      }
      return i == model.n;
    }
    template <class It>
    bool range_ok(It b, It e, bool reversed, const char *via, const std::string &cls)
    {
      if (same(b, e, reversed))
        return true;
      Items got(b, e);
      if (reversed)
        std::reverse(got.begin(), got.end());
      // begin()..end() is judged against the reference; once that agrees, a differing accessor is the accessor's fault
      const bool primary = std::string(via).compare(0, 7, "begin()") == 0;
      ctx.viol(primary ? cls + "|" + classify(got, items(model)) : std::string(via) + "|differs from begin()..end()",
          std::string("contents via ") + via + " " + show(got) + " want " + show(items(model)));
      return false;
    }

    bool const_at(int k, const std::string &cls)
    {
      const Map &cm = *map;
      const K &key = D::key(k);
      int i = k < 3 ? model.find(k) : -1;
      bool threw = false, other = false;
      const V *got = nullptr;
      try {
        got = &cm.at(key);
      } catch (const std::out_of_range &) {
        threw = true;
      } catch (...) {
        threw = other = true;
      }
      if (other)
        ctx.viol(cls + "|at() throws something other than std::out_of_range", "const at() key " + D::show(key));
      else if (threw != (i < 0))
        ctx.viol(cls + (i >= 0 ? "|at() throws for a present key" : "|at() does not throw for an absent key"), "const at() key " + D::show(key) + ", map " + show(items(model)));
      else if (i >= 0 && !(*got == D::val(model.val[i])))
        ctx.viol(cls + "|at() returns a value other than the last one written", "const at() key " + D::show(key) + " = " + D::show(*got) + " want " + D::show(D::val(model.val[i])));
      return !ctx.failed;
    }

    void observe_all(const Op &o)
    {
      const std::string &cls = o.cls;
      Map &m = *map;
      const Map &cm = *map;
      if (!range_ok(m.begin(), m.end(), false, "begin()..end()", cls) || !range_ok(cm.begin(), cm.end(), false, "const begin()..end()", cls)
          || !range_ok(cm.cbegin(), cm.cend(), false, "cbegin()..cend()", cls) || !range_ok(m.rbegin(), m.rend(), true, "rbegin()..rend()", cls)
          || !range_ok(cm.rbegin(), cm.rend(), true, "const rbegin()..rend()", cls) || !range_ok(cm.crbegin(), cm.crend(), true, "crbegin()..crend()", cls))
        return;
      if (cm.size() != model.n || (cm.empty() != 0) != (model.n == 0)) {
        ctx.viol(cls + "|size()/empty() differ from the number of present keys",
            "size() " + std::to_string(cm.size()) + " empty() " + std::to_string(cm.empty()) + " want size " + std::to_string(model.n));
        return;
      }
      for (int i = 0; i < model.n; i++) {
        const typename Map::item_t &a = cm.at_index(i), &b = m.at_index(i);
        if (!(a.first == D::key(model.key[i])) || !(a.second == D::val(model.val[i])) || &a != &b) {
          ctx.viol(cls + "|at_index(i) is not the i-th key in first-insertion order",
              "at_index(" + std::to_string(i) + ") = " + D::show(a.first) + ":" + D::show(a.second) + ", map " + show(items(model)));
          return;
        }
      }
      for (int k = 0; k < 4; k++) {
        const K &key = D::key(k);
        int i = k < 3 ? model.find(k) : -1;
        if (cm.contains(key) != (i >= 0)) {
          ctx.viol(cls + (i >= 0 ? "|contains() false for a present key" : "|contains() true for an absent key"), "contains(" + D::show(key) + "), map " + show(items(model)));
          return;
        }
        if (i >= 0) {  // present: both overloads return the last value written
          if (!const_at(k, cls))
            return;
          bool ok = false;
          try {
            ok = m.at(key) == D::val(model.val[i]);
          } catch (...) {
          }
          if (!ok) {
            ctx.viol(cls + "|at() throws for a present key or returns a value other than the last one written", "at() key " + D::show(key) + ", map " + show(items(model)));
            return;
          }
        } else {
          // absent: at() must throw.  Exceptions are slow, so per state this is asked of the const overload
          // for the key the operation just touched (every key after clear() and in histories of length <= 3);
          // the non-const overload on an absent key is the alphabet's own "at() write".
          bool ask = ctx.cur < 3 || o.kind == CLEAR || o.k == k;
          if (ask && !const_at(k, cls))
            return;
        }
      }
      // the queries did not change anything
      range_ok(m.begin(), m.end(), false, "begin()..end() after the queries", "queries after " + cls);
    }

    void step(int op, bool fresh)
    {
      const Op &o = sys.ops[op];
      int want = sys.apply(model, op);
      bool threw = false, other = false;
      const V *got = nullptr;
      try {
        switch (o.kind) {
        case SET:
          (*map)[D::key(o.k)] = D::val(o.v);
          break;
        case ALIAS: {
          const K &inside = D::as_key(map->at_index(o.idx).second);
          (*map)[inside] = D::val(o.v);
          break;
        }
        case READ:
          got = &(*map)[D::key(o.k)];
          break;
        case ATSET:
          map->at(D::key(o.k)) = D::val(o.v);
          break;
        case ERASE:
          map->erase(D::key(o.k));
          break;
        case CLEAR:
          map->clear();
          break;
        case RESERVE:
          map->reserve(8);
          break;
        }
      } catch (const std::out_of_range &) {
        threw = true;
      } catch (...) {
        threw = other = true;
      }
      if (other || threw != (want == -2)) {
        ctx.viol(o.cls + (want == -2 ? "|does not throw std::out_of_range for an absent key" : "|throws"), "operation " + o.name + (threw ? " threw" : " did not throw"));
        return;
      }
      if (want >= 0 && !(*got == D::val(want))) {
        ctx.viol(o.cls + "|returns a value other than the last one written (default for a new key)", "got " + D::show(*got) + " want " + D::show(D::val(want)));
        return;
      }
      if (fresh) {
        observe_all(o);
        if (ctx.failed)
          return;
        uint64_t h = sq::mix(vr::fnv(D::tag()), (uint64_t)op * 16 + (want + 2));
        for (int i = 0; i < model.n; i++)
          h = sq::mix(h, model.key[i] * 4 + model.val[i]);
        sq::outcomes().add(h);
      } else if (map->size() != model.n) {
        ctx.viol(o.cls + "|size()/empty() differ from the number of present keys", "size() " + std::to_string(map->size()) + " want " + std::to_string(model.n));
        return;
      }
      if (ctx.verbose)
        printf("  %-3s %-18s -> %-8s map %s   [reference %s]\n", o.name.c_str(), o.cls.c_str(), want == -2 ? "throws" : want >= 0 ? D::show(*got).c_str() : "",
            show(Items(map->begin(), map->end())).c_str(), show(items(model)).c_str());
    }
    void finish() { map.reset(); }
    std::string describe() const { return show(Items(map->cbegin(), map->cend())); }
  };
};

// ------------------------------------------------------------------------------------ ParameterizedObject
struct TestObject : public ParameterizedObject
{
  using ParameterizedObject::params_begin;
  using ParameterizedObject::params_end;
};

struct PoSys
{
  enum Type { T_INT, T_FLOAT, T_STRING };
  struct Entry
  {
    unsigned char name, type, val, queried;
    bool operator==(const Entry &o) const { return name == o.name && type == o.type && val == o.val && queried == o.queried; }
  };
  struct Model  // ordered
  {
    unsigned char n = 0;
    Entry e[3];
    int find(int name) const
    {
      for (int i = 0; i < n; i++)
        if (e[i].name == name)
          return i;
      return -1;
    }
  };
  enum Kind { SETI, SETF, SETS, GETI, GETF, GETS, REMOVE, RESET };
  struct Op
  {
    Kind kind;
    int n, v;
    std::string name, cls;
  };
  std::vector<Op> ops;
  static const std::string &pname(int n)
  {
    static const std::string names[4] = {"a", "b", "c", "d"};  // "d" is never set
    return names[n];
  }
  static int ival(int v) { return v == 2 ? 2 : 1; }
  static float fval() { return 1.5f; }
  static const std::string &sval()
  {
    static const std::string s = "a-string-longer-than-the-small-string-buffer";
    return s;
  }
  static const std::string &sdflt()
  {
    static const std::string s = "dflt";
    return s;
  }
  static std::string pv(int type, int val)
  {
    if (type == T_INT)
      return "i:" + std::to_string(ival(val));
    if (type == T_FLOAT)
      return "f:1.5";
    return "s:a-strin~";
  }

  PoSys()
  {
    for (int n = 0; n < 2; n++) {
      const std::string &a = pname(n);
      ops.push_back(Op{SETI, n, 1, "si1" + a, "setParam<int>"});
      if (n == 0)
        ops.push_back(Op{SETI, n, 2, "si2" + a, "setParam<int>"});
      ops.push_back(Op{SETF, n, 1, "sf" + a, "setParam<float>"});
      if (n == 0)  // name b only ever holds int or float: enough for a type change under a second name
        ops.push_back(Op{SETS, n, 1, "ss" + a, "setParam<string>"});
    }
    for (int n = 0; n < 2; n++) {
      const std::string &a = pname(n);
      ops.push_back(Op{GETI, n, 0, "gi" + a, "getParam<int>"});
      ops.push_back(Op{GETF, n, 0, "gf" + a, "getParam<float>"});
      if (n == 0)
        ops.push_back(Op{GETS, n, 0, "gs" + a, "getParam<string>"});
    }
    for (int n = 0; n < 3; n++)
      ops.push_back(Op{REMOVE, n, 0, "rm" + pname(n), "removeParam"});
    ops.push_back(Op{RESET, -1, 0, "reset", "resetAllParamQueryStatus"});
    // a third name (int only), so that three parameters can be present and a first / middle one removed
    ops.push_back(Op{SETI, 2, 1, "si1c", "setParam<int>"});
    ops.push_back(Op{GETI, 2, 0, "gic", "getParam<int>"});
  }
  const char *sysname() const { return "ParameterizedObject"; }
  const char *tag() const { return "po"; }
  Model initial() const { return Model(); }
  int nops() const { return (int)ops.size(); }
  const std::string &opname(int op) const { return ops[op].name; }
  const std::string &opclass(int op) const { return ops[op].cls; }
  bool enabled(const Model &, int) const { return true; }

  // reference.  For a typed read the result is the value name that must come back, 0 = the caller's default; -1 no result.
  // sc (optional) names the model-state predicate that matters for the operation.
  int apply(Model &m, int op, const char **sc = nullptr) const
  {
    const Op &o = ops[op];
    int i = o.n >= 0 ? m.find(o.n) : -1;
    const char *dummy;
    const char *&cls = sc ? *sc : dummy;
    cls = i < 0 ? "absent name" : "present name";
    switch (o.kind) {
    case SETI:
    case SETF:
    case SETS: {
      unsigned char ty = o.kind == SETI ? T_INT : o.kind == SETF ? T_FLOAT : T_STRING;
      if (i < 0) {
        Entry e = {(unsigned char)o.n, ty, (unsigned char)o.v, 0};
        m.e[m.n++] = e;
      } else {
        cls = m.e[i].type == ty ? "present name, same type" : "present name, other type";
        m.e[i].type = ty;  // the query status is only changed by reads and by the reset
        m.e[i].val = (unsigned char)o.v;
      }
      return -1;
    }
    case GETI:
    case GETF:
    case GETS: {
      unsigned char ty = o.kind == GETI ? T_INT : o.kind == GETF ? T_FLOAT : T_STRING;
      if (i < 0)
        return 0;
      cls = m.e[i].type == ty ? "present name, exact type" : "present name, other type";
      if (m.e[i].type != ty)
        return 0;
      m.e[i].queried = 1;
      return m.e[i].val;
    }
    case REMOVE:
      if (i >= 0) {
        cls = m.n == 1 ? "the only parameter" : i == 0 ? "first of several" : i == m.n - 1 ? "last of several" : "a middle one";
        for (int j = i; j + 1 < m.n; j++)
          m.e[j] = m.e[j + 1];
        m.n--;
      }
      return -1;
    case RESET:
      cls = "any";
      for (int j = 0; j < m.n; j++)
        m.e[j].queried = 0;
      return -1;
    }
    return -1;
  }
  void advance(Model &m, int op) const { apply(m, op); }

  typedef std::vector<std::pair<std::string, std::pair<std::string, bool>>> Items;  // name, printed value, queried
  static Items items(const Model &m)
  {
    Items r;
    for (int i = 0; i < m.n; i++)
      r.push_back(std::make_pair(pname(m.e[i].name), std::make_pair(pv(m.e[i].type, m.e[i].val), m.e[i].queried != 0)));
    return r;
  }
  static std::string show(const Items &m)
  {
    std::string s = "[";
    for (size_t i = 0; i < m.size(); i++)
      s += std::string(i ? " " : "") + m[i].first + "=" + m[i].second.first + (m[i].second.second ? "?" : "");
    return s + "]";
  }

  struct Run
  {
    const PoSys &sys;
    sq::Ctx &ctx;
    Model model;
    std::unique_ptr<TestObject> obj;
    Run(const PoSys &s, sq::Ctx &c) : sys(s), ctx(c), obj(new TestObject()) {}

    // fast path: do the parameters equal the model, in order?
    bool same() const
    {
      int i = 0;
      for (auto p = obj->params_begin(); p != obj->params_end(); ++p, ++i) {
        if (i >= model.n)
          return false;
        const ParameterizedObject::Param &pa = **p;
        const Entry &e = model.e[i];
        if (pa.name != pname(e.name) || pa.query != (e.queried != 0) || !pa.data.valid())
          return false;
        if (e.type == T_INT) {
          if (!pa.data.is<int>() || pa.data.get<int>() != ival(e.val))
            return false;
        } else if (e.type == T_FLOAT) {
          if (!pa.data.is<float>() || pa.data.get<float>() != fval())
            return false;
        } else {
          if (!pa.data.is<std::string>() || pa.data.get<std::string>() != sval())
            return false;
        }
      }
      return i == model.n;
    }
    // slow path for the diagnostics
    Items contents(std::string &why) const
    {
      Items out;
      for (auto p = obj->params_begin(); p != obj->params_end(); ++p) {
        const ParameterizedObject::Param &pa = **p;
        std::string v;
        char b[64];
        if (!pa.data.valid())
          v = "<no value>", why = "a parameter holds no value";
        else if (pa.data.is<int>())
          v = "i:" + std::to_string(pa.data.get<int>());
        else if (pa.data.is<float>()) {
          snprintf(b, sizeof b, "f:%g", pa.data.get<float>());
          v = b;
        } else if (pa.data.is<std::string>()) {
          const std::string &x = pa.data.get<std::string>();
          v = "s:" + (x.size() > 8 ? x.substr(0, 7) + "~" : x);
        } else
          v = "<other type>", why = "a parameter holds a value of a type that was never set";
        out.push_back(std::make_pair(pa.name, std::make_pair(v, pa.query)));
      }
      return out;
    }
    static std::string classify(const Items &g, const Items &w)
    {
      auto find = [](const Items &m, const std::string &n) {
        for (size_t i = 0; i < m.size(); i++)
          if (m[i].first == n)
            return (int)i;
        return -1;
      };
      for (size_t i = 0; i < g.size(); i++)
        for (size_t j = i + 1; j < g.size(); j++)
          if (g[i].first == g[j].first)
            return std::string("a name is stored twice");
      for (auto &e : w)
        if (find(g, e.first) < 0)
          return std::string("a set parameter is missing");
      for (auto &e : g)
        if (find(w, e.first) < 0)
          return std::string("a removed or never set parameter is present");
      for (auto &e : w)
        if (g[find(g, e.first)].second.first != e.second.first)
          return std::string("type/value is not the last one set");
      for (auto &e : w)
        if (g[find(g, e.first)].second.second != e.second.second)
          return std::string(e.second.second ? "not marked queried after a successful read" : "marked queried without a successful read since the reset");
      return std::string("order is not first-insertion order");
    }
    bool same_contents(const std::string &cls, const char *when)
    {
      if (same())
        return true;
      std::string why;
      Items got = contents(why), want = items(model);
      ctx.viol(cls + "|" + (why.empty() ? classify(got, want) : why), std::string("parameters ") + when + " " + show(got) + " want " + show(want));
      return false;
    }

    void step(int op, bool fresh)
    {
      const Op &o = sys.ops[op];
      const char *sc = "";
      int want = sys.apply(model, op, &sc);
      bool ok = true;
      std::string gots;
      try {
        switch (o.kind) {
        case SETI:
          obj->setParam<int>(pname(o.n), ival(o.v));
          break;
        case SETF:
          obj->setParam<float>(pname(o.n), fval());
          break;
        case SETS:
          obj->setParam<std::string>(pname(o.n), sval());
          break;
        case GETI: {
          int g = obj->getParam<int>(pname(o.n), -7);
          ok = g == (want ? ival(want) : -7);
          if (!ok || ctx.verbose)
            gots = "i:" + std::to_string(g);
          break;
        }
        case GETF: {
          float g = obj->getParam<float>(pname(o.n), -7.25f);
          ok = g == (want ? fval() : -7.25f);
          if (!ok || ctx.verbose)
            gots = "f:" + std::to_string(g);
          break;
        }
        case GETS: {
          std::string g = obj->getParam<std::string>(pname(o.n), sdflt());
          ok = g == (want ? sval() : sdflt());
          if (!ok || ctx.verbose)
            gots = "s:" + g;
          break;
        }
        case REMOVE:
          obj->removeParam(pname(o.n));
          break;
        case RESET:
          obj->resetAllParamQueryStatus();
          break;
        }
      } catch (const std::exception &ex) {
        ctx.viol(o.cls + " (" + sc + ")|throws", std::string("exception: ") + ex.what());
        return;
      }
      if (!ok) {
        ctx.viol(o.cls + " (" + sc + ")|" + (want ? "does not return the last value set with that exact type" : "does not yield the caller's default"),
            "got " + gots + ", parameters before the read " + show(items(model)) + " ('?' = queried)");
        return;
      }
      if (fresh) {
        if (!same_contents(o.cls + " (" + sc + ")", "after the operation"))
          return;
        // non-mutating questions, asked at every reached state
        for (int n = 0; n < 4; n++) {
          bool present = n < 3 && model.find(n) >= 0;
          if (obj->hasParam(pname(n)) != present) {
            ctx.viol(std::string("hasParam") + (present ? "|false for a set parameter" : "|true for an absent parameter"), "hasParam(" + pname(n) + "), parameters " + show(items(model)));
            return;
          }
          // types no parameter was ever set with: the caller's default, and no query mark
          if (obj->getParam<double>(pname(n), -1.0) != -1.0 || obj->getParam<long>(pname(n), -2L) != -2L) {
            ctx.viol("getParam<type never set>|does not yield the caller's default", "name " + pname(n) + ", parameters " + show(items(model)));
            return;
          }
        }
        if (!same_contents("hasParam / getParam<type never set> after " + o.cls, "after the queries"))
          return;
        uint64_t h = sq::mix(vr::fnv("po"), (uint64_t)op * 8 + (want + 1));
        for (int i = 0; i < model.n; i++)
          h = sq::mix(h, model.e[i].name * 64 + model.e[i].type * 16 + model.e[i].val * 2 + model.e[i].queried);
        sq::outcomes().add(h);
      }
      if (ctx.verbose) {
        std::string why;
        printf("  %-6s %-26s -> %-10s parameters %s   [reference %s]\n", o.name.c_str(), o.cls.c_str(), gots.c_str(), show(contents(why)).c_str(), show(items(model)).c_str());
      }
    }
    void finish() { obj.reset(); }
    std::string describe() const
    {
      std::string why;
      return show(contents(why));
    }
  };
};

// ------------------------------------------------------------------------------------ driver
static std::string arg_str(int argc, char **argv, const char *name, const std::string &dflt)
{
  for (int i = 1; i + 1 < argc; i++)
    if (std::string(argv[i]) == name)
      return argv[i + 1];
  return dflt;
}

int main(int argc, char **argv)
{
  vr::init(argc, argv);
  FmSys<int, int> fi;
  FmSys<std::string, std::string> fs;
  PoSys po;
  if (vr::replaying()) {
    sq::replay_symbolized(argv);
    std::string r = vr::S().replay;
    size_t c = r.find(':');
    std::string tag = r.substr(0, c), hist = c == std::string::npos ? "" : r.substr(c + 1);
    if (tag == fi.tag())
      return sq::Explorer<FmSys<int, int>>(fi, 0).replay(hist);
    if (tag == fs.tag())
      return sq::Explorer<FmSys<std::string, std::string>>(fs, 0).replay(hist);
    if (tag == po.tag())
      return sq::Explorer<PoSys>(po, 0).replay(hist);
    printf("unknown replay tag '%s'\n", tag.c_str());
    return 2;
  }
  // depth per alphabet: FlatMap<string,string> costs the most per history and exercises the same code as <int,int>
  const bool th = vr::thorough();
  const int d_fi = atoi(arg_str(argc, argv, "--depth-fm-int", th ? "7" : "6").c_str());
  const int d_po = atoi(arg_str(argc, argv, "--depth-po", th ? "6" : "5").c_str());  // 17 operations since name c was added
  const int d_fs = atoi(arg_str(argc, argv, "--depth-fm-str", th ? "6" : "5").c_str());
  const std::string only = arg_str(argc, argv, "--only", "");
  if (only.empty() || only == fi.tag())
    sq::Explorer<FmSys<int, int>>(fi, d_fi, 128).explore();
  if (only.empty() || only == fs.tag())
    sq::Explorer<FmSys<std::string, std::string>>(fs, d_fs, 128).explore();
  if (only.empty() || only == po.tag())
    sq::Explorer<PoSys>(po, d_po, 128).explore();
  return vr::finish();
}
