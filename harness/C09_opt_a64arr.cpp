// C09: Optional explorer instantiated for one over-aligned payload / layout (own translation unit).
#include "C09_optexplore.h"
namespace c09 {
PayloadEntry entry_a64arr()
{
  return Explorer<PAligned<64>, 2>::entry("Align64@arr");  // must equal Explorer::pname()
}
}  // namespace c09
