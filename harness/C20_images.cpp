// C20 (images): writePPM / writePGM / writePFM<float|vec3f|vec3fa|vec4f> emit decodable files
// containing exactly the input, reading only the width x height pixels they were given.
// Engine gridmc: every (format, w, h, fill pattern, buffer placement) of a declared grid; the
// file is re-read by the independent decoder below.  ASan = "reads only what it was given":
// in placement "exact" the input is a heap block of exactly w*h pixels.
#include "C20_fork.h"

#include "rkcommon/utility/SaveImage.h"

using namespace rkcommon;
using namespace rkcommon::math;

// for calls that are not the first one in their process: "|<relation to the earlier calls>"
static std::string g_ctx;

static void viol(const std::string &sig0, const std::string &replay, const std::string &detail)
{
  const std::string sig = sig0 + g_ctx;
  vr::violation(sig, replay, detail);
  if (vr::replaying())
    printf("VIOLATED %s :: %s\n", sig.c_str(), detail.c_str());
}

// ------------------------------------------------------------------ formats (the oracle's own table)
struct Format
{
  const char *name;
  const char *magic;
  bool pfm;          // float payload, third header token is the scale/endianness
  int pix_bytes;     // size of one input pixel
  int comp_bytes;    // size of one component
  int ncomp;         // components written per pixel
  int chan[4];       // which input component each written component is
  bool bottom_up;    // file rows are the input rows in reverse order
};
// PGM: the grey value is component 3 (alpha, the top byte) of the RGBA8 pixel - the writer's
// documented-by-code selection for the 1-component case of a 4-component pixel.
static const Format FORMATS[] = {
    {"writePPM", "P6", false, 4, 1, 3, {0, 1, 2, 0}, true},
    {"writePGM", "P5", false, 4, 1, 1, {3, 0, 0, 0}, true},
    {"writePFM<float>", "Pf", true, 4, 4, 1, {0, 0, 0, 0}, false},
    {"writePFM<vec3f>", "PF", true, 12, 4, 3, {0, 1, 2, 0}, false},
    {"writePFM<vec3fa>", "PF", true, 16, 4, 3, {0, 1, 2, 0}, false},
    {"writePFM<vec4f>", "PF4", true, 16, 4, 4, {0, 1, 2, 3}, false},
};
static const int NFMT = 6;
static_assert(sizeof(vec3f) == 12 && sizeof(vec3fa) == 16 && sizeof(vec4f) == 16, "pixel sizes");

static std::string g_dir;

static inline unsigned char fill_byte(size_t p, int k, int t)
{
  return (unsigned char)(p * (size_t)k + (size_t)t + (p >> 8) * 91u);
}

static void call_writer(int f, const std::string &file, int w, int h, const void *px)
{
  switch (f) {
  case 0: utility::writePPM(file, w, h, (const uint32_t *)px); break;
  case 1: utility::writePGM(file, w, h, (const uint32_t *)px); break;
  case 2: utility::writePFM<float>(file, w, h, (const float *)px); break;
  case 3: utility::writePFM<vec3f>(file, w, h, (const vec3f *)px); break;
  case 4: utility::writePFM<vec3fa>(file, w, h, (const vec3fa *)px); break;
  case 5: utility::writePFM<vec4f>(file, w, h, (const vec4f *)px); break;
  }
}

// ------------------------------------------------------------------ independent decoder
struct Decoded
{
  std::string magic;
  long w, h;
  std::string third;  // maxval or scale token
  size_t payload_off;
  std::string err;
};

static bool is_ws(char c)
{
  return c == ' ' || c == '\t' || c == '\n' || c == '\r';
}

static bool decode_header(const std::string &s, Decoded &d)
{
  size_t i = 0;
  auto token = [&](std::string &t) {
    t.clear();
    while (i < s.size() && !is_ws(s[i]))
      t += s[i++];
    return !t.empty();
  };
  auto skip_ws = [&]() {
    size_t b = i;
    while (i < s.size() && is_ws(s[i]))
      i++;
    return i > b;
  };
  std::string tw, th;
  if (!token(d.magic)) {
    d.err = "no magic number";
    return false;
  }
  if (!skip_ws() || !token(tw) || !skip_ws() || !token(th) || !skip_ws() || !token(d.third)) {
    d.err = "header truncated";
    return false;
  }
  for (char c : tw + th)
    if (c < '0' || c > '9') {
      d.err = "dimension is not a decimal number: '" + tw + " " + th + "'";
      return false;
    }
  d.w = atol(tw.c_str());
  d.h = atol(th.c_str());
  if (i >= s.size() || !is_ws(s[i])) {
    d.err = "no single whitespace after the header";
    return false;
  }
  i++;  // exactly one whitespace byte, the payload follows
  d.payload_off = i;
  return true;
}

// component (file row fy, x, c) of the payload under the hypothesis (bottom_up, chan shift)
static bool matches(const Format &F, int w, int h, const unsigned char *in, size_t in_len, const unsigned char *pay, bool bottom_up, int shift, bool swap_bytes)
{
  for (int fy = 0; fy < h; fy++)
    for (int x = 0; x < w; x++)
      for (int c = 0; c < F.ncomp; c++) {
        int iy = bottom_up ? h - 1 - fy : fy;
        long off = ((long)(iy * w + x) * F.pix_bytes) + (long)(F.chan[c] + shift) * F.comp_bytes;
        if (off < 0 || (size_t)off + F.comp_bytes > in_len)
          return false;
        const unsigned char *g = pay + ((size_t)(fy * w + x) * F.ncomp + c) * F.comp_bytes;
        for (int b = 0; b < F.comp_bytes; b++)
          if (g[b] != in[off + (swap_bytes ? F.comp_bytes - 1 - b : b)])
            return false;
      }
  return true;
}

// ------------------------------------------------------------------ one case
// placement 0: heap block of exactly w*h pixels; 1: the pixels sit inside a larger block with 64
// bytes of different filler on each side (reads that stay inside the block are then visible only to
// the decoder).
static void fill_block(unsigned char *block, size_t n, size_t pad, int k, int t)
{
  unsigned char *in = block + pad;
  for (size_t p = 0; p < n; p++)
    in[p] = fill_byte(p, k, t);
  for (size_t p = 0; p < pad; p++) {
    block[p] = (unsigned char)~fill_byte(p, k, t);
    in[n + p] = (unsigned char)(~fill_byte(n + p, k, t) + 0x55);
  }
}

static std::string death_class(const std::string &died)
{
  // a read/write past a block is reported by ASan as heap-buffer-overflow, as SEGV when the block
  // happens to end at the end of the mapped heap region, or as unknown-crash when the access
  // straddles that end: one class for all
  return (died.find("heap-buffer-overflow") != std::string::npos || died.find("SEGV") != std::string::npos || died.find("unknown-crash") != std::string::npos)
      ? "memory access outside the block it was given (asan:heap-buffer-overflow/SEGV)"
      : died;
}

static void judge_case(int f, int w, int h, int k, int t, int placement, const std::string &replay, const std::string &file);

static void run_case(int f, int w, int h, int k, int t, int placement, const std::string &replay, const std::string &file)
{
  const Format &F = FORMATS[f];
  const size_t n = (size_t)w * h * F.pix_bytes;
  const size_t pad = placement ? 64 : 0;
  unlink(file.c_str());
  const std::string fn = F.name;
  char dims[64];
  snprintf(dims, sizeof dims, "%dx%d", w, h);
  // the writer runs in a forked child on its own heap block of exactly n (+ padding) bytes
  std::string headline;
  std::string died = c20::run_forked(
      [&]() {
        unsigned char *blk = (unsigned char *)malloc(n + 2 * pad);
        fill_block(blk, n, pad, k, t);
        try {
          call_writer(f, file, w, h, blk + pad);
        } catch (const std::exception &e) {
          fprintf(stderr, "exception: %s\n", e.what());
          _exit(3);
        }
        free(blk);
      },
      file + ".err", &headline);
  if (!died.empty()) {
    vr::stat("states");
    vr::stat("traces");
    vr::stat("crashed_cases");
    vr::outcome(fn + "|died|" + died);
    viol(fn + (placement ? "|padded buffer|" : "|exact-size buffer|") + death_class(died), replay, std::string(dims) + ": the writer died: " + died + " :: " + headline);
    if (vr::replaying())
      printf("%s(%s) fill k=%d t=%d placement %s: writer died (%s); want a file holding the input\n", F.name, dims, k, t, placement ? "padded" : "exact", died.c_str());
    unlink(file.c_str());
    return;
  }
  judge_case(f, w, h, k, t, placement, replay, file);
}

// decodes the file and compares it with the oracle's own copy of the input
static void judge_case(int f, int w, int h, int k, int t, int placement, const std::string &replay, const std::string &file)
{
  const Format &F = FORMATS[f];
  const size_t n = (size_t)w * h * F.pix_bytes;
  const size_t pad = placement ? 64 : 0;
  unsigned char *block = (unsigned char *)malloc(n + 2 * pad);
  unsigned char *in = block + pad;
  fill_block(block, n, pad, k, t);
  const std::string fn = F.name;
  char dims[64];
  snprintf(dims, sizeof dims, "%dx%d", w, h);
  vr::stat("states");
  vr::stat("traces");
  std::string s;
  if (!c20::read_file(file, s)) {
    viol(fn + "|no file written", replay, dims);
    free(block);
    return;
  }
  vr::outcome(vr::fnv(s, vr::fnv(F.name)));
  Decoded d;
  bool bad = false;
  std::string got_summary;
  vr::stat("transitions");  // header
  if (!decode_header(s, d)) {
    viol(fn + "|header not decodable", replay, std::string(dims) + ": " + d.err + "; file starts '" + vr::clean(s.substr(0, 24)) + "'");
    bad = true;
  } else {
    got_summary = "magic '" + d.magic + "' dims " + std::to_string(d.w) + "x" + std::to_string(d.h) + " third '" + d.third + "' payload " + std::to_string(s.size() - d.payload_off)
        + " bytes";
    if (d.magic != F.magic) {
      viol(fn + "|wrong magic number", replay, "got '" + d.magic + "' want '" + F.magic + "'");
      bad = true;
    }
    if (d.w != w || d.h != h) {
      viol(fn + "|header dimensions differ from the arguments", replay, "got " + std::to_string(d.w) + "x" + std::to_string(d.h) + " want " + dims);
      bad = true;
    }
    bool swap_bytes = false;
    if (!F.pfm) {
      if (d.third != "255") {
        viol(fn + "|maxval is not 255", replay, "got '" + d.third + "'");
        bad = true;
      }
    } else {
      char *end = nullptr;
      double scale = strtod(d.third.c_str(), &end);
      if (end == d.third.c_str() || *end || !(scale == 1.0 || scale == -1.0)) {
        viol(fn + "|PFM scale is not +-1", replay, "got '" + d.third + "'");
        bad = true;
      } else {
        // negative scale: little-endian floats; the comparison is on the bytes in the host's order
        const uint16_t probe = 1;
        bool host_le = *(const unsigned char *)&probe == 1;
        swap_bytes = (scale < 0) != host_le;
      }
    }
    vr::stat("transitions");  // payload length
    const size_t want_len = (size_t)w * h * F.ncomp * F.comp_bytes;
    const size_t have = s.size() - d.payload_off;
    if (!bad && have < want_len) {
      viol(fn + "|payload shorter than width*height pixels", replay, std::string(dims) + ": " + std::to_string(have) + " bytes, want " + std::to_string(want_len));
      bad = true;
    }
    if (!bad) {
      for (size_t i = d.payload_off + want_len; i < s.size(); i++)
        if (!is_ws(s[i])) {
          viol(fn + "|bytes other than whitespace after the payload", replay, std::string(dims) + ": " + std::to_string(have - want_len) + " trailing bytes");
          bad = true;
          break;
        }
    }
    if (!bad) {
      vr::stat("transitions", (long long)w * h * F.ncomp);  // pixel components compared
      const unsigned char *pay = (const unsigned char *)s.data() + d.payload_off;
      if (!matches(F, w, h, in, n, pay, F.bottom_up, 0, swap_bytes)) {
        // classify: which simple slip explains the file?  (the padded block is searched too)
        std::string cls = "unexplained";
        bool found = false;
        for (int sh = -4; sh <= 4 && !found; sh++)
          for (int fi = 0; fi < 2 && !found; fi++) {
            const int fl = fi == 0 ? (F.bottom_up ? 1 : 0) : (F.bottom_up ? 0 : 1);  // the format's own row order first
            if (sh == 0 && fi == 0)
              continue;
            // search relative to the whole block so that reads into the padding are recognised
            const unsigned char *base = block;
            bool ok = true;
            for (int fy = 0; fy < h && ok; fy++)
              for (int x = 0; x < w && ok; x++)
                for (int c = 0; c < F.ncomp && ok; c++) {
                  int iy = fl ? h - 1 - fy : fy;
                  long off = (long)pad + ((long)(iy * w + x) * F.pix_bytes) + (long)(F.chan[c] + sh) * F.comp_bytes;
                  if (off < 0 || (size_t)off + F.comp_bytes > n + 2 * pad) {
                    ok = false;
                    break;
                  }
                  const unsigned char *g = pay + ((size_t)(fy * w + x) * F.ncomp + c) * F.comp_bytes;
                  for (int b = 0; b < F.comp_bytes; b++)
                    if (g[b] != base[off + (swap_bytes ? F.comp_bytes - 1 - b : b)])
                      ok = false;
                }
            if (ok) {
              found = true;
              cls = "";
              if (sh != 0)
                cls += std::string("file holds input component index ") + (sh > 0 ? "+" : "") + std::to_string(sh) + " of what the format selects";
              if ((fl != 0) != F.bottom_up)
                cls += std::string(cls.empty() ? "" : ", ") + "rows in the opposite order";
            }
          }
        // first differing component for the detail
        char det[300] = "";
        for (int fy = 0, done = 0; fy < h && !done; fy++)
          for (int x = 0; x < w && !done; x++)
            for (int c = 0; c < F.ncomp && !done; c++) {
              int iy = F.bottom_up ? h - 1 - fy : fy;
              size_t off = ((size_t)(iy * w + x) * F.pix_bytes) + (size_t)F.chan[c] * F.comp_bytes;
              const unsigned char *g = pay + ((size_t)(fy * w + x) * F.ncomp + c) * F.comp_bytes;
              bool same = true;
              for (int b = 0; b < F.comp_bytes; b++)
                same = same && g[b] == in[off + (swap_bytes ? F.comp_bytes - 1 - b : b)];
              if (!same) {
                snprintf(det, sizeof det, "%s: file row %d x %d component %d: first byte got 0x%02x want 0x%02x (input row %d)", dims, fy, x, c, g[0],
                    in[off + (swap_bytes ? F.comp_bytes - 1 : 0)], iy);
                done = 1;
              }
            }
        viol(fn + "|decoded pixels differ from the input|" + cls, replay, det);
        bad = true;
      }
    }
  }
  if (vr::replaying())
    printf("%s(%s) fill k=%d t=%d placement %s: %s -> %s\n", F.name, dims, k, t, placement ? "padded" : "exact", got_summary.c_str(), bad ? "VIOLATION" : "ok (pixels equal the input)");
  if (w == 3 && h == 2 && t == 1 && placement == 0)
    vr::sample(fn + "(" + dims + ", fill (p*" + std::to_string(k) + "+" + std::to_string(t) + ") mod 256) -> " + got_summary, fn);
  unlink(file.c_str());
  free(block);
}

// ------------------------------------------------------------------ several calls in ONE process
// State a writer keeps between calls (row buffers, caches) is only visible when calls follow each
// other in one process: all calls of a sequence run in one forked child, on the child's main thread,
// each on its own exact-size (or padded) block and into its own file; every file is decoded.
struct Call
{
  int f, w, h, k, t, pl;
};

static std::string seq_text(const std::vector<Call> &cs)
{
  std::string s = "seq:";
  for (size_t i = 0; i < cs.size(); i++) {
    char b[96];
    snprintf(b, sizeof b, "%s%d,%d,%d,%d,%d,%d", i ? ";" : "", cs[i].f, cs[i].w, cs[i].h, cs[i].k, cs[i].t, cs[i].pl);
    s += b;
  }
  return s;
}

// relation of call i to the earlier calls of the sequence (the signature's equivalence class)
static std::string relation(const std::vector<Call> &cs, size_t i)
{
  if (i == 0)
    return "";
  bool same = false, wider = false, more_rows = false;
  for (size_t j = 0; j < i; j++)
    if (cs[j].f == cs[i].f) {
      same = true;
      // "wider than the first call of this writer" is what a first-use-sized buffer cares about
      if (!wider && !more_rows) {
        wider = cs[i].w > cs[j].w;
        more_rows = cs[i].h > cs[j].h;
      }
      break;
    }
  if (!same)
    return "|later call in one process, after other writers only";
  return std::string("|later call of the same writer in one process, ") + (wider ? "wider than its first call" : more_rows ? "not wider, more rows than its first call" : "not larger than its first call");
}

static void run_seq(const std::vector<Call> &cs, const std::string &replay, const std::string &filebase)
{
  const int n = (int)cs.size();
  std::vector<std::string> files(n);
  for (int i = 0; i < n; i++) {
    files[i] = filebase + "." + std::to_string(i);
    unlink(files[i].c_str());
  }
  const std::string progress = filebase + ".progress";
  unlink(progress.c_str());
  std::string headline;
  std::string died = c20::run_forked(
      [&]() {
        for (int i = 0; i < n; i++) {
          const Call &c = cs[i];
          FILE *pf = fopen(progress.c_str(), "w");
          if (pf) {
            fprintf(pf, "%d\n", i);
            fclose(pf);
          }
          const size_t bytes = (size_t)c.w * c.h * FORMATS[c.f].pix_bytes, pad = c.pl ? 64 : 0;
          unsigned char *blk = (unsigned char *)malloc(bytes + 2 * pad);
          fill_block(blk, bytes, pad, c.k, c.t);
          try {
            call_writer(c.f, files[i], c.w, c.h, blk + pad);
          } catch (const std::exception &e) {
            fprintf(stderr, "exception: %s\n", e.what());
            _exit(3);
          }
          free(blk);
        }
      },
      filebase + ".err", &headline);
  int died_at = n;
  if (!died.empty()) {
    std::string ptxt;
    c20::read_file(progress, ptxt);
    died_at = ptxt.empty() ? 0 : atoi(ptxt.c_str());
  }
  vr::stat("sequences");
  for (int i = 0; i < n; i++) {
    const Call &c = cs[i];
    g_ctx = relation(cs, i);
    if (vr::replaying())
      printf("call %d of %d%s:\n", i + 1, n, g_ctx.c_str());
    if (i < died_at) {
      judge_case(c.f, c.w, c.h, c.k, c.t, c.pl, replay, files[i]);
    } else if (i == died_at) {
      vr::stat("states");
      vr::stat("traces");
      vr::stat("crashed_cases");
      vr::outcome(std::string(FORMATS[c.f].name) + "|died|" + died);
      char d[400];
      snprintf(d, sizeof d, "call %d of %d (%s %dx%d): the writer died: %s :: %s", i + 1, n, FORMATS[c.f].name, c.w, c.h, died.c_str(), headline.c_str());
      viol(std::string(FORMATS[c.f].name) + (c.pl ? "|padded buffer|" : "|exact-size buffer|") + death_class(died), replay, d);
      if (vr::replaying())
        printf("%s\n", d);
    }  // later calls never ran
    unlink(files[i].c_str());
  }
  g_ctx.clear();
  unlink(progress.c_str());
}

static bool parse_seq(const std::string &arg, std::vector<Call> &cs)
{
  std::stringstream ss(arg);
  std::string item;
  while (std::getline(ss, item, ';')) {
    Call c;
    if (sscanf(item.c_str(), "%d,%d,%d,%d,%d,%d", &c.f, &c.w, &c.h, &c.k, &c.t, &c.pl) != 6 || c.f < 0 || c.f >= NFMT || c.w < 1 || c.h < 1)
      return false;
    cs.push_back(c);
  }
  return !cs.empty();
}

static std::string replay_text(int f, int w, int h, int k, int t, int placement)
{
  char b[96];
  snprintf(b, sizeof b, "img:%d,%d,%d,%d,%d,%d", f, w, h, k, t, placement);
  return b;
}

int main(int argc, char **argv)
{
  vr::init(argc, argv);
  g_dir = c20::make_dir();
  if (vr::replaying()) {
    if (vr::S().replay.compare(0, 4, "seq:") == 0) {
      std::vector<Call> cs;
      if (!parse_seq(vr::S().replay.substr(4), cs)) {
        printf("malformed replay string\n");
        return 2;
      }
      run_seq(cs, vr::S().replay, g_dir + "/replay.seq");
      c20::rm_dir(g_dir);
      vr::flush();
      return vr::S().viols.empty() ? 0 : 1;
    }
    int f, w, h, k, t, pl;
    if (sscanf(vr::S().replay.c_str(), "img:%d,%d,%d,%d,%d,%d", &f, &w, &h, &k, &t, &pl) != 6 || f < 0 || f >= NFMT || w < 1 || h < 1) {
      printf("malformed replay string\n");
      return 2;
    }
    run_case(f, w, h, k, t, pl, vr::S().replay, g_dir + "/replay.img");
    c20::rm_dir(g_dir);
    vr::flush();
    return vr::S().viols.empty() ? 0 : 1;
  }
  const int N = vr::thorough() ? 6 : 4;
  std::vector<int> ks;
  ks.push_back(37);
  if (vr::thorough()) {
    ks.push_back(255);
  }
  const int nshards = NFMT * N * N;
  vr::run_sharded(nshards, [&](int shard, long long resume_after) {
    int f = shard / (N * N), w = (shard / N) % N + 1, h = shard % N + 1;
    std::string file = g_dir + "/img-" + std::to_string(shard);
    long long idx = -1;
    for (int k : ks)
      for (int t = 0; t < 256; t++)
        for (int pl = 0; pl < 2; pl++) {
          idx++;
          if (idx <= resume_after)
            continue;
          std::string r = replay_text(f, w, h, k, t, pl);
          vr::begin_case(idx, std::string(FORMATS[f].name) + "|harness decoder", r);
          run_case(f, w, h, k, t, pl, r, file);
        }
  });
  // wide / tall images: row buffers, strides and any size dependent blocking (a few patterns each)
  {
    static const int WIDE[] = {5, 17, 255, 256, 257, 1023, 1024, 1025, 2047, 2049, 4097};
    const int nw = (int)(sizeof WIDE / sizeof WIDE[0]);
    const int nwide = NFMT * nw;
    vr::run_sharded(nwide, [&](int shard, long long resume_after) {
      int f = shard / nw, big = WIDE[shard % nw];
      std::string file = g_dir + "/wide-" + std::to_string(shard);
      long long idx = -1;
      for (int orient = 0; orient < 2; orient++)
        for (int small = 1; small <= (vr::thorough() ? 3 : 2); small++)
          for (int t = 0; t < 256; t += (vr::thorough() ? 51 : 85))
            for (int pl = 0; pl < 2; pl++) {
              idx++;
              if (idx <= resume_after)
                continue;
              if (orient == 1 && big > 1025)
                continue;  // very tall images add nothing over tall ones
              int w = orient == 0 ? big : small, h = orient == 0 ? small : big;
              std::string r = replay_text(f, w, h, 37, t, pl);
              vr::begin_case(idx, std::string(FORMATS[f].name) + "|harness decoder|large image", r);
              run_case(f, w, h, 37, t, pl, r, file);
            }
    });
    vr::sample("wide and tall images: one side in {5,17,255,256,257,1023,1024,1025,2047,2049,4097}, the other in 1..2 (thorough 1..3), every writer, both buffer placements", "wide");
  }
  // sequences of calls in one process (state carried between calls)
  {
    static const int SZ[7][2] = {{1, 1}, {2, 1}, {4, 1}, {1, 3}, {3, 2}, {4, 4}, {17, 2}};
    static const int MIX[3][3][2] = {{{2, 2}, {4, 3}, {5, 3}}, {{4, 3}, {2, 2}, {4, 3}}, {{3, 1}, {3, 1}, {3, 1}}};
    std::vector<std::vector<Call>> seqs;
    auto mk = [&](int f, const int *wh, int i, int pl) {
      Call c;
      c.f = f;
      c.w = wh[0];
      c.h = wh[1];
      c.k = 37;
      c.t = (int)((seqs.size() * 37 + i * 91 + 5) % 256);
      c.pl = pl;
      return c;
    };
    const int len = vr::thorough() ? 3 : 2;
    for (int pl = 0; pl < 2; pl++) {
      // the same writer with every ordered pair (thorough: also every ordered triple) of 7 sizes
      for (int f = 0; f < NFMT; f++)
        for (int a = 0; a < 7; a++)
          for (int b = 0; b < 7; b++) {
            std::vector<Call> cs;
            cs.push_back(mk(f, SZ[a], 0, pl));
            cs.push_back(mk(f, SZ[b], 1, pl));
            seqs.push_back(cs);
            for (int c = 0; c < 7 && len == 3; c++) {
              std::vector<Call> cs3 = cs;
              cs3.push_back(mk(f, SZ[c], 2, pl));
              seqs.push_back(cs3);
            }
          }
      // two different writers after each other (thorough: f1, f2, f1 again)
      for (int f1 = 0; f1 < NFMT; f1++)
        for (int f2 = 0; f2 < NFMT; f2++)
          for (int m = 0; m < 3 && f1 != f2; m++) {
            std::vector<Call> cs;
            cs.push_back(mk(f1, MIX[m][0], 0, pl));
            cs.push_back(mk(f2, MIX[m][1], 1, pl));
            if (len == 3)
              cs.push_back(mk(f1, MIX[m][2], 2, pl));
            seqs.push_back(cs);
          }
    }
    const int nsh = 32;
    vr::run_sharded(nsh, [&](int shard, long long resume_after) {
      std::string filebase = g_dir + "/seq-" + std::to_string(shard);
      for (size_t i = shard; i < seqs.size(); i += nsh) {
        if ((long long)i <= resume_after)
          continue;
        std::string r = seq_text(seqs[i]);
        vr::begin_case((long long)i, "writer call sequence|harness decoder", r);
        run_seq(seqs[i], r, filebase);
      }
    });
    vr::sample("call sequences in one process, e.g. " + seq_text(seqs[seqs.size() / 3]) + "  (" + std::to_string(seqs.size()) + " sequences of up to " + std::to_string(len) + " calls)", "seq");
  }
  c20::rm_dir(g_dir);
  return vr::finish();
}
