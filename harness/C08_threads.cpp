// C08 (schedule part): threads that each own references to shared RefCountedObjects copy,
// assign and drop them concurrently while the creator releases its reference early.
// Oracles per execution: destroyed exactly once, only after the last release (lifetime oracle
// of the engine: any touch of freed storage), final counts, no data race on the counter.
#include "mcsched/mcsched.h"

#include "rkcommon/memory/IntrusivePtr.h"

#include <atomic>
#include <string>
#include <thread>
#include <vector>

using rkcommon::memory::IntrusivePtr;
using rkcommon::memory::RefCountedObject;

static std::atomic<int> dtors[2];

struct Obj : public RefCountedObject
{
  int which;
  int payload[4];
  explicit Obj(int w) : which(w)
  {
    for (int i = 0; i < 4; i++)
      payload[i] = 100 * w + i;
  }
  ~Obj() override
  {
    dtors[which].fetch_add(1);
    for (int i = 0; i < 4; i++)
      payload[i] = -1;
  }
  int sum() const { return payload[0] + payload[1] + payload[2] + payload[3]; }
};
struct Derived : public Obj
{
  explicit Derived(int w) : Obj(w) {}
};

static void worker(IntrusivePtr<Obj> mine, IntrusivePtr<Obj> other, int script)
{
  // every access goes through a handle this thread owns
  MC_CHECK(mine->sum() == 400 * mine->which + 6, "IntrusivePtr|object not alive while a reference exists", "payload read through an owned handle");
  if (script & 1) {
    IntrusivePtr<Obj> c = mine;  // copy
    MC_CHECK(c == mine && c->useCount() >= 2, "IntrusivePtr|useCount() below the number of live handles", "after copy");
    IntrusivePtr<Obj> m = std::move(c);  // move
    MC_CHECK(!c && m == mine, "IntrusivePtr|move did not transfer the reference", "after move");
  }
  if (script & 2) {
    mine = other;  // assignment: releases the old object (possibly the last reference), takes the new
    MC_CHECK(mine->sum() == 400 * mine->which + 6, "IntrusivePtr|object not alive while a reference exists", "after assignment");
  }
  if (script & 4) {
    Obj *raw = other.ptr;
    raw->refInc();  // explicit reference
    other = nullptr;
    MC_CHECK(raw->sum() == 400 * raw->which + 6, "IntrusivePtr|object not alive while a reference exists", "explicit refInc keeps it alive");
    raw->refDec();
  }
}

static void scenario(int nthreads, int script, bool early_release)
{
  dtors[0].store(0);
  dtors[1].store(0);
  Obj *a = new Derived(0);
  Obj *b = new Obj(1);
  std::vector<std::thread> th;
  {
    std::vector<IntrusivePtr<Obj>> ha, hb;
    for (int i = 0; i < nthreads; i++) {
      ha.push_back(IntrusivePtr<Obj>(a));
      hb.push_back(IntrusivePtr<Obj>(b));
    }
    MC_CHECK(a->useCount() == 1 + nthreads && b->useCount() == 1 + nthreads, "IntrusivePtr|useCount() != creator + live handles", "before start");
    if (!early_release) {
      a->refDec();
      b->refDec();
    }
    for (int i = 0; i < nthreads; i++)
      th.emplace_back(worker, ha[i], (i & 1) ? ha[(i + 1) % nthreads] : hb[i], script);
  }  // main's handles die here, concurrently with the workers
  if (early_release) {
    // creator releases while workers run
    a->refDec();
    b->refDec();
  }
  for (auto &t : th)
    t.join();
  MC_CHECK(dtors[0].load() == 1 && dtors[1].load() == 1, "IntrusivePtr|object not destroyed exactly once after the last release",
      ("dtors " + std::to_string(dtors[0].load()) + "," + std::to_string(dtors[1].load())).c_str());
  mc_event("ok");
}

MC_SCENARIO(ref_t2_copy, 4, 6) { scenario(2, 1, true); }
MC_SCENARIO(ref_t2_assign, 4, 6) { scenario(2, 2, true); }
MC_SCENARIO(ref_t2_all, 3, 5) { scenario(2, 7, true); }
MC_SCENARIO(ref_t2_all_late, 3, 5) { scenario(2, 7, false); }
MC_SCENARIO(ref_t3_assign, 3, 4) { scenario(3, 2, true); }
MC_SCENARIO(ref_t3_raw, 3, 4) { scenario(3, 6, true); }
