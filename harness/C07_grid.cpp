// C07 (part 2): boundary-heavy grids for the binary / ternary kernels, the vec packing functions and the
// random distributions.  Engine gridmc: every tuple of a declared finite alphabet, independent oracle
// (comparison definitions, __int128, long double), built with ASan+UBSan.
//
//   clamp<T>          all (x, lower, upper) with lower <= upper over the type's alphabet (T = float, double, int,
//                     unsigned, long, unsigned char): result inside [lower,upper], == x when x is inside; clamp(x) -> [0,1]
//   divRoundUp<T>     all (a,b), a >= 0, b > 0, a+b-1 representable: result is the least q with q*b >= a (__int128);
//                     a,b in [0,N] exhaustively, all pairs of the boundary alphabet, all of unsigned char / signed char
//   lerp, madd        all triples over the 48(+NaN) float alphabet against (1-f)*a+f*b and a*b+c in long double
//   deg2rad<double>   double alphabet against x*pi/180 in long double
//   cvt_uint32(vec4f), linear_to_srgba, linear_to_srgba8: all quadruples over the float alphabet (NaN excluded):
//                     every output channel equals the scalar kernel on the same input channel (per-channel, no
//                     interference), monotone and saturating over the sorted alphabet
//   pcg32_biased_float_distribution: (seed, sequence, range) grid x first 4096 draws: inside the range to one
//                     rounding step; identical from a second construction and when interleaved with another object
//   uniform_real_distribution<float|double>: the same with pcg32 / mt19937 / minstd_rand / mt19937_64, and a stub
//                     generator that returns min, max and every 2^k-1, 2^k, 2^k+1 offset in between
#include "common/vreport.h"

#include "C07_common.h"

#include "rkcommon/math/rkmath.h"
#include "rkcommon/math/vec.h"
#include "rkcommon/utility/random.h"

#include <algorithm>
#include <atomic>
#include <climits>
#include <random>
#include <thread>
#include <type_traits>

namespace rm = rkcommon::math;
namespace ru = rkcommon::utility;
using namespace c07;

typedef __int128 I128;

static void viol(const std::string &sig, const std::string &replay, const std::string &detail)
{
  vr::violation(sig, replay, detail);
  if (vr::replaying())
    printf("VIOLATED %s :: %s\n", sig.c_str(), detail.c_str());
}

// ------------------------------------------------------------------ undefined behaviour as an oracle
// The unit is built with -fsanitize-recover=undefined: UBSan reports and continues, and calls this hook, so a
// report is attributed to the case being judged (stable signature, the enumeration goes on).  UBSan reports each
// source location only once per process, so only the first failing case of a location is seen in a sweep; every
// case is seen when replayed on its own.
extern "C" void __ubsan_get_current_report_data(const char **kind, const char **msg, const char **file, unsigned *line, unsigned *col, char **addr);
static thread_local int t_ub_count = 0;
static thread_local char t_ub_kind[96] = "";
static std::atomic<long long> g_ub_total(0), g_ub_attributed(0);
extern "C" void __ubsan_on_report(void)
{
  const char *k = "", *m = "", *f = "";
  unsigned l = 0, c = 0;
  char *a = nullptr;
  __ubsan_get_current_report_data(&k, &m, &f, &l, &c, &a);
  const char *base = f ? strrchr(f, '/') : nullptr;
  snprintf(t_ub_kind, sizeof t_ub_kind, "%s at %s:%u", k ? k : "?", base ? base + 1 : (f ? f : "?"), l);
  t_ub_count++;
  g_ub_total++;
}
struct UBScope
{
  int before;
  UBScope() : before(t_ub_count) {}
  bool hit() const
  {
    if (t_ub_count != before) {
      g_ub_attributed += t_ub_count - before;
      return true;
    }
    return false;
  }
  std::string kind() const { return t_ub_kind; }
};

// ------------------------------------------------------------------ value codecs (replay syntax)
template <typename T, bool INTEGRAL = std::is_integral<T>::value, bool SIGNED = std::is_signed<T>::value>
struct Codec;
template <typename T>
struct Codec<T, true, true>
{
  static std::string enc(T v) { return std::to_string((long long)v); }
  static T dec(const std::string &s) { return (T)parse_i64(s); }
  static std::string show(T v) { return std::to_string((long long)v); }
};
template <typename T>
struct Codec<T, true, false>
{
  static std::string enc(T v) { return std::to_string((unsigned long long)v); }
  static T dec(const std::string &s) { return (T)parse_u64(s); }
  static std::string show(T v) { return std::to_string((unsigned long long)v); }
};
template <>
struct Codec<float, false, true>
{
  static std::string enc(float v) { return hex32(bits_of(v)); }
  static float dec(const std::string &s) { return f_of((uint32_t)parse_u64(s)); }
  static std::string show(float v) { return fstr(v); }
};
template <>
struct Codec<double, false, true>
{
  static std::string enc(double v) { return hex64(bits_of(v)); }
  static double dec(const std::string &s) { return d_of(parse_u64(s)); }
  static std::string show(double v) { return dstr(v); }
};
template <typename T>
static std::string enc(T v)
{
  return Codec<T>::enc(v);
}
template <typename T>
static std::string show(T v)
{
  return Codec<T>::show(v);
}

// ------------------------------------------------------------------ alphabets
static std::vector<float> float_alphabet(bool with_nan)
{
  const float eps = FLT_EPSILON, den = f_of(1);
  const float v[] = {-INFINITY, -FLT_MAX, -1e30f, -16777216.f, -255.f, -3.f, -2.f, -1.5f, -(1.f + eps), -1.f, -(1.f - eps / 2), -0.5f, -1.f / 3, -1e-3f, -FLT_MIN, -den,
      -0.f,  // 17 negative
      0.f, den, FLT_MIN / 2, FLT_MIN, 1e-30f, 5.9604644775390625e-08f, 1e-3f, 1.f / 255, 0.5f / 255, 0.25f, 1.f / 3, 0.5f - eps / 4, 0.5f, 0.5f + eps / 2, 0.7f,
      1.f - eps / 2, 1.f, 1.f + eps, 1.5f, 2.f, 3.f, 7.f, 254.5f, 255.f, 256.f, 16777215.f, 16777216.f, 1e30f, FLT_MAX / 2, FLT_MAX, INFINITY};  // 31
  std::vector<float> a(v, v + sizeof v / sizeof v[0]);
  if (with_nan)
    a.push_back(std::numeric_limits<float>::quiet_NaN());
  return a;
}
static std::vector<double> double_alphabet(bool with_nan)
{
  std::vector<double> a;
  for (float f : float_alphabet(false))
    a.push_back((double)f);
  const double extra[] = {-DBL_MAX, -1e300, -(1.0 + DBL_EPSILON), -DBL_MIN, -d_of(1), d_of(1), DBL_MIN, 1.0 - DBL_EPSILON / 2, 1.0 + DBL_EPSILON, 0.1, 9007199254740993.0, 1e300,
      DBL_MAX};
  a.insert(a.end(), extra, extra + sizeof extra / sizeof extra[0]);
  std::sort(a.begin(), a.end());
  if (with_nan)
    a.push_back(std::numeric_limits<double>::quiet_NaN());
  return a;
}
template <typename T>
static std::vector<T> int_alphabet()
{
  // boundary-heavy: around 0, powers of two, the limits of every narrower type, min/max of T
  const long double cand[] = {0, 1, 2, 3, 4, 5, 7, 8, 9, 10, 15, 16, 17, 100, 127, 128, 129, 255, 256, 257, 1000, 32767, 32768, 65535, 65536, 65537, 1000000, 16777216, 1073741823.0L,
      1073741824.0L, 2147483646.0L, 2147483647.0L, 2147483648.0L, 4294967294.0L, 4294967295.0L, 4294967296.0L, 4611686018427387903.0L, 4611686018427387904.0L,
      9223372036854775806.0L, 9223372036854775807.0L, 9223372036854775808.0L, 18446744073709551614.0L, 18446744073709551615.0L};
  std::vector<T> a;
  const long double lo = (long double)std::numeric_limits<T>::min(), hi = (long double)std::numeric_limits<T>::max();
  for (long double c : cand)
    for (int s = 1; s >= -1; s -= 2) {
      const long double v = s * c;
      if (v >= lo && v <= hi)
        a.push_back((T)v);
    }
  a.push_back(std::numeric_limits<T>::min());
  a.push_back((T)(std::numeric_limits<T>::min() + 1));
  a.push_back((T)(std::numeric_limits<T>::max() / 2));
  a.push_back((T)(std::numeric_limits<T>::max() / 2 + 1));
  a.push_back((T)(std::numeric_limits<T>::max() / 3));
  std::sort(a.begin(), a.end());
  a.erase(std::unique(a.begin(), a.end()), a.end());
  return a;
}
template <typename T>
static std::vector<T> alphabet_for();
template <>
std::vector<float> alphabet_for<float>()
{
  return float_alphabet(false);
}
template <>
std::vector<double> alphabet_for<double>()
{
  return double_alphabet(false);
}
template <>
std::vector<int> alphabet_for<int>()
{
  return int_alphabet<int>();
}
template <>
std::vector<unsigned> alphabet_for<unsigned>()
{
  return int_alphabet<unsigned>();
}
template <>
std::vector<long> alphabet_for<long>()
{
  return int_alphabet<long>();
}
template <>
std::vector<unsigned char> alphabet_for<unsigned char>()
{
  return int_alphabet<unsigned char>();
}

// ------------------------------------------------------------------ clamp
template <typename T>
static void check_clamp(const char *tn, T x, T lo, T hi)
{
  UBScope ub;
  const T r = rm::clamp(x, lo, hi);
  const bool r_inside = (lo <= r) && (r <= hi);
  const bool x_inside = (lo <= x) && (x <= hi);
  const bool ok = r_inside && (!x_inside || r == x);
  vr::stat("states");
  vr::stat("transitions", 2);
  vr::outcome(std::string("clamp:") + tn + ":" + enc(r) + (x_inside ? "i" : x < lo ? "b" : "a"));
  const std::string replay = std::string("clamp:") + tn + ":" + enc(x) + "," + enc(lo) + "," + enc(hi);
  if (ub.hit())
    viol(std::string("clamp<") + tn + ">|undefined behaviour inside the call: " + ub.kind(), replay, "clamp(" + show(x) + ", " + show(lo) + ", " + show(hi) + ")");
  if (!ok)
    viol(std::string("clamp<") + tn + ">|" + (!r_inside ? "result outside [lower,upper]" : "result differs from x although x is inside") + "|x " +
            (x_inside ? "inside" : x < lo ? "below lower" : "above upper") + (lo == hi ? ", lower == upper" : ""),
        replay, "clamp(" + show(x) + ", " + show(lo) + ", " + show(hi) + ") = " + show(r));
  if (vr::replaying())
    printf("clamp<%s>(%s, %s, %s) = %s ; want inside [lower,upper]%s : %s\n", tn, show(x).c_str(), show(lo).c_str(), show(hi).c_str(), show(r).c_str(),
        x_inside ? " and equal to x" : "", ok ? "ok" : "VIOLATED");
}
template <typename T>
static void check_clamp_default(const char *tn, T x)
{
  const T r = rm::clamp(x);
  const T lo = (T)0, hi = (T)1;
  const bool r_inside = (lo <= r) && (r <= hi);
  const bool x_inside = (lo <= x) && (x <= hi);
  const bool ok = r_inside && (!x_inside || r == x);
  vr::stat("states");
  vr::stat("transitions", 2);
  vr::outcome(std::string("clampdef:") + tn + ":" + enc(r));
  if (!ok)
    viol(std::string("clamp<") + tn + ">(x) with default bounds|result outside [0,1] or differs from an inside x", std::string("clampdef:") + tn + ":" + enc(x),
        "clamp(" + show(x) + ") = " + show(r));
  if (vr::replaying())
    printf("clamp<%s>(%s) = %s ; want inside [0,1]%s : %s\n", tn, show(x).c_str(), show(r).c_str(), x_inside ? " and equal to x" : "", ok ? "ok" : "VIOLATED");
}
template <typename T>
static void clamp_grid(const char *tn)
{
  const std::vector<T> A = alphabet_for<T>();
  long long n = 0;
  for (T lo : A)
    for (T hi : A) {
      if (!(lo <= hi))
        continue;
      for (T x : A) {
        check_clamp<T>(tn, x, lo, hi);
        n++;
      }
    }
  for (T x : A)
    check_clamp_default<T>(tn, x);
  vr::sample(std::string("clamp<") + tn + ">: all " + std::to_string(n) + " (x, lower<=upper) triples over " + std::to_string(A.size()) + " values, e.g. clamp(" + show(A[1]) +
          ", " + show(A[2]) + ", " + show(A[A.size() - 2]) + ") = " + show(rm::clamp(A[1], A[2], A[A.size() - 2])),
      std::string("clamp") + tn);
}

// ------------------------------------------------------------------ divRoundUp
static long long g_div_outside_wrong = 0, g_div_outside = 0;

template <typename T>
static void check_div(const char *tn, T a, T b)
{
  const I128 A = a, B = b, MAX = std::numeric_limits<T>::max();
  const bool domain = A >= 0 && B > 0 && A + B - 1 <= MAX;
  const std::string replay = std::string("div:") + tn + ":" + enc(a) + "," + enc(b);
  if (!domain) {
    // outside the statement's domain.  Unsigned arithmetic wraps (defined behaviour): observe, do not alarm.
    if (std::is_unsigned<T>::value && B > 0 && sizeof(T) >= sizeof(int)) {
      const T q = rm::divRoundUp(a, b);
      const I128 want = A / B + (A % B != 0);
      g_div_outside++;
      if ((I128)q != want)
        g_div_outside_wrong++;
      if (vr::replaying())
        printf("divRoundUp<%s>(%s, %s) = %s ; least q is %s ; a+b-1 is not representable: outside the statement, nothing demanded\n", tn, show(a).c_str(), show(b).c_str(),
            show(q).c_str(), show((unsigned long long)want).c_str());
    } else if (vr::replaying())
      printf("divRoundUp<%s>(%s, %s): outside the domain (a >= 0, b > 0, a+b-1 representable), not evaluated\n", tn, show(a).c_str(), show(b).c_str());
    return;
  }
  const I128 want = A / B + (A % B != 0);
  // the oracle is the definition: least q with q*b >= a
  if (!(want * B >= A && (want == 0 || (want - 1) * B < A))) {
    fprintf(stderr, "oracle self-check failed\n");
    abort();
  }
  UBScope ub;
  const T q = rm::divRoundUp(a, b);
  const bool ok = (I128)q == want;
  vr::stat("states");
  vr::stat("transitions", 2);
  vr::outcome(std::string("div:") + tn + ":" + enc(q) + (A % B ? "r" : "e"));
  if (ub.hit()) {
    viol(std::string("divRoundUp<") + tn + ">|undefined behaviour inside the call: " + ub.kind() + "|" + (A + B - 1 == MAX ? "a+b-1 == max(T): representable, but a+b is not" : "a+b representable"),
        replay, "divRoundUp(" + show(a) + ", " + show(b) + ") = " + show(q) + " (least q is " + std::to_string((long long)want) + ")");
  }
  if (!ok)
    viol(std::string("divRoundUp<") + tn + ">|not the least q with q*b >= a|" + (A == 0 ? "a == 0" : (A % B == 0) ? "b divides a" : "b does not divide a") + (A < B ? ", a < b" : ", a >= b"),
        replay, "divRoundUp(" + show(a) + ", " + show(b) + ") = " + show(q) + " want " + std::to_string((long long)want));
  if (vr::replaying())
    printf("divRoundUp<%s>(%s, %s) = %s ; least q with q*b >= a is %lld : %s\n", tn, show(a).c_str(), show(b).c_str(), show(q).c_str(), (long long)want, ok ? "ok" : "VIOLATED");
}
template <typename T>
static void div_grid(const char *tn, long long N)
{
  const long double hi = (long double)std::numeric_limits<T>::max();
  long long n = 0;
  for (long long a = 0; a <= N && a <= hi; a++)
    for (long long b = 1; b <= N && b <= hi; b++) {
      check_div<T>(tn, (T)a, (T)b);
      n++;
    }
  const std::vector<T> A = int_alphabet<T>();
  for (T a : A)
    for (T b : A) {
      check_div<T>(tn, a, b);
      n++;
    }
  vr::sample(std::string("divRoundUp<") + tn + ">: " + std::to_string(n) + " pairs (all a,b <= " + std::to_string(N) + ", all pairs of " + std::to_string(A.size()) +
          " boundary values, domain-filtered), e.g. divRoundUp(7,2) = " + show(rm::divRoundUp((T)7, (T)2)),
      std::string("div") + tn);
}

// ------------------------------------------------------------------ lerp / madd
static const long double EPS24 = 5.9604644775390625e-08L;        // 2^-24
static const long double EPS53 = 1.1102230246251565404e-16L;     // 2^-53
static const long double FLT_OVF = 1.7014118346046923173e38L;    // 2^127
static const long double DEN_F = 1.4012984643248170709e-45L;     // 2^-149
static const long double DEN_D = 4.9406564584124654418e-324L;    // 2^-1074

static inline bool finl(long double x)
{
  return std::isfinite(x);
}

// classify what an IEEE evaluation must give when an operand is not finite: compare class with a wide evaluation
template <typename T>
static bool same_special(T got, long double ref)
{
  if (ref != ref)
    return got != got;
  if (std::isinf(ref))
    return std::isinf(got) && ((got > 0) == (ref > 0));
  return true;  // finite reference from non-finite operands cannot happen
}

template <typename T>
struct Prec;
template <>
struct Prec<float>
{
  static long double eps() { return EPS24; }
  static long double den() { return DEN_F; }
  static long double ovf() { return FLT_OVF; }
  static const char *name() { return "float"; }
};
template <>
struct Prec<double>
{
  static long double eps() { return EPS53; }
  static long double den() { return DEN_D; }
  static long double ovf() { return 8.9884656743115795386e307L; }  // 2^1023
  static const char *name() { return "double"; }
};

// returns 0 ok, 1 violated, 2 skipped (a finite intermediate may overflow T: the definition leaves the result open)
template <typename T>
static int judge_lerp(float f, T a, T b, T got, long double &ref, long double &tol)
{
  const long double F = f, A = a, B = b;
  const long double w0 = 1.0L - F;  // (1.f - factor) is computed in float
  const long double t0 = fabsl(w0) * fabsl(A), t1 = fabsl(F) * fabsl(B);
  ref = w0 * A + F * B;
  tol = 0;
  const bool allfin = finl(F) && finl(A) && finl(B);
  if ((finl(w0) && finl(A) && t0 >= Prec<T>::ovf()) || (finl(F) && finl(B) && t1 >= Prec<T>::ovf()) || (allfin && t0 + t1 >= Prec<T>::ovf()))
    return 2;
  if (!allfin)
    return same_special(got, ref) ? 0 : 1;
  // roundings: 1-f (float), two products, one sum
  tol = EPS24 * t0 * 1.001L + 3.0L * Prec<T>::eps() * (t0 + t1) + 4.0L * Prec<T>::den();
  if (got != got)
    return 1;
  return fabsl((long double)got - ref) <= tol ? 0 : 1;
}

static std::string lerp_class(float f)
{
  if (f != f)
    return "factor NaN";
  if (std::isinf(f))
    return "factor infinite";
  if (f == 0)
    return "factor 0";
  if (f == 1)
    return "factor 1";
  if (f < 0 || f > 1)
    return "factor outside [0,1]";
  return "factor inside (0,1)";
}

template <typename T>
static void check_lerp(float f, T a, T b)
{
  UBScope ub;
  const T got = rm::lerp(f, a, b);
  long double ref, tol;
  const int j = judge_lerp<T>(f, a, b, got, ref, tol);
  if (ub.hit())
    viol(std::string("lerp<") + Prec<T>::name() + ">|undefined behaviour inside the call: " + ub.kind(), std::string("lerp:") + Prec<T>::name() + ":" + enc(f) + "," + enc(a) + "," + enc(b), "");
  vr::stat("states");
  if (j == 2)
    vr::stat("skipped_possible_overflow");
  else
    vr::stat("transitions");
  vr::outcome(std::string("lerp:") + Prec<T>::name() + enc(got));
  const std::string replay = std::string("lerp:") + Prec<T>::name() + ":" + enc(f) + "," + enc(a) + "," + enc(b);
  if (j == 1)
    viol(std::string("lerp<") + Prec<T>::name() + ">|differs from (1-f)*a + f*b|" + lerp_class(f), replay,
        "lerp(" + show(f) + ", " + show(a) + ", " + show(b) + ") = " + show(got) + " want " + ldstr(ref) + " +- " + ldstr(tol));
  if (vr::replaying())
    printf("lerp<%s>(%s, %s, %s) = %s ; (1-f)*a+f*b = %s +- %s : %s\n", Prec<T>::name(), show(f).c_str(), show(a).c_str(), show(b).c_str(), show(got).c_str(), ldstr(ref).c_str(),
        ldstr(tol).c_str(), j == 0 ? "ok" : j == 1 ? "VIOLATED" : "skipped (an intermediate may overflow)");
}

static void check_lerp3(float f, const float *a, const float *b)
{
  const rm::vec3f got = rm::lerp(f, rm::vec3f(a[0], a[1], a[2]), rm::vec3f(b[0], b[1], b[2]));
  const float g[3] = {got.x, got.y, got.z};
  vr::stat("states");
  std::string replay = "lerp3:" + enc(f);
  for (int k = 0; k < 3; k++)
    replay += "," + enc(a[k]);
  for (int k = 0; k < 3; k++)
    replay += "," + enc(b[k]);
  for (int k = 0; k < 3; k++) {
    long double ref, tol;
    const int j = judge_lerp<float>(f, a[k], b[k], g[k], ref, tol);
    if (j != 2)
      vr::stat("transitions");
    if (j == 1)
      viol("lerp<vec3f>|component " + std::to_string(k) + " differs from (1-f)*a + f*b|" + lerp_class(f), replay,
          "component " + std::to_string(k) + ": lerp(" + show(f) + ", " + show(a[k]) + ", " + show(b[k]) + ") = " + show(g[k]) + " want " + ldstr(ref));
    if (vr::replaying())
      printf("lerp<vec3f> component %d: (%s, %s, %s) = %s ; want %s +- %s : %s\n", k, show(f).c_str(), show(a[k]).c_str(), show(b[k]).c_str(), show(g[k]).c_str(), ldstr(ref).c_str(),
          ldstr(tol).c_str(), j == 0 ? "ok" : j == 1 ? "VIOLATED" : "skipped");
  }
  vr::outcome("lerp3:" + enc(g[0]) + enc(g[1]) + enc(g[2]));
}

static void check_madd(float a, float b, float c)
{
  UBScope ub;
  const float got = rm::madd(a, b, c);
  if (ub.hit())
    viol("madd|undefined behaviour inside the call: " + ub.kind(), "madd:" + enc(a) + "," + enc(b) + "," + enc(c), "");
  const long double A = a, B = b, C = c;
  const long double p = A * B, ref = p + C;
  int j;
  long double tol = 0;
  const bool allfin = finl(A) && finl(B) && finl(C);
  if ((finl(A) && finl(B) && fabsl(p) >= FLT_OVF) || (allfin && fabsl(p) + fabsl(C) >= FLT_OVF))
    j = 2;
  else if (!allfin)
    j = same_special(got, ref) ? 0 : 1;
  else {
    tol = 1.001L * EPS24 * (fabsl(p) + fabsl(ref)) + 2.0L * DEN_F;
    j = (got == got && fabsl((long double)got - ref) <= tol) ? 0 : 1;
  }
  vr::stat("states");
  if (j == 2)
    vr::stat("skipped_possible_overflow");
  else
    vr::stat("transitions");
  vr::outcome("madd:" + enc(got));
  if (j == 1)
    viol(std::string("madd|differs from a*b + c|") + (!allfin ? "non-finite operand" : (p == 0 ? "a*b == 0" : C == 0 ? "c == 0" : "a*b != 0 and c != 0")),
        "madd:" + enc(a) + "," + enc(b) + "," + enc(c), "madd(" + show(a) + ", " + show(b) + ", " + show(c) + ") = " + show(got) + " want " + ldstr(ref) + " +- " + ldstr(tol));
  if (vr::replaying())
    printf("madd(%s, %s, %s) = %s ; a*b+c = %s +- %s : %s\n", show(a).c_str(), show(b).c_str(), show(c).c_str(), show(got).c_str(), ldstr(ref).c_str(), ldstr(tol).c_str(),
        j == 0 ? "ok" : j == 1 ? "VIOLATED" : "skipped (an intermediate may overflow)");
}

static void check_deg2rad_d(double x)
{
  const double got = rm::deg2rad(x);
  const long double ref = (long double)x * 0.017453292519943295769236907684886L;
  bool ok;
  long double tol = 0;
  if (x != x)
    ok = got != got;
  else if (std::isinf(x))
    ok = got == x;
  else {
    tol = 2.0L * EPS53 * fabsl(ref) * 1.001L + DEN_D;
    ok = fabsl((long double)got - ref) <= tol;
  }
  vr::stat("states");
  vr::stat("transitions");
  vr::outcome("deg2rad_d:" + enc(got));
  if (!ok)
    viol("deg2rad<double>|differs from x*pi/180 by more than two roundings", "deg2rad_d:" + enc(x), "deg2rad(" + show(x) + ") = " + show(got) + " want " + ldstr(ref));
  if (vr::replaying())
    printf("deg2rad<double>(%s) = %s ; x*pi/180 = %s +- %s : %s\n", show(x).c_str(), show(got).c_str(), ldstr(ref).c_str(), ldstr(tol).c_str(), ok ? "ok" : "VIOLATED");
}

// ------------------------------------------------------------------ vec packing
struct PackAcc
{
  long long states = 0, comparisons = 0, alpha_is_cvt = 0, alpha_is_not_cvt = 0;
  std::set<uint64_t> outcomes;
  struct V
  {
    std::string sig, replay, detail;
  };
  std::vector<V> viols;
  void bad(const std::string &sig, const float *c, const std::string &detail)
  {
    if (viols.size() < 64 || vr::replaying()) {
      V v;
      v.sig = sig;
      v.replay = "pack4:" + enc(c[0]) + "," + enc(c[1]) + "," + enc(c[2]) + "," + enc(c[3]);
      v.detail = detail;
      viols.push_back(v);
    }
  }
};

static const char *CH[4] = {"x", "y", "z", "w"};

static void check_pack4(const float *c, PackAcc &P)
{
  UBScope ub;
  const rm::vec4f v(c[0], c[1], c[2], c[3]);
  P.states++;
  char buf[256];
  // cvt_uint32(vec4f): byte k is the scalar packing of channel k
  const uint32_t pk = rm::cvt_uint32(v);
  for (int k = 0; k < 4; k++) {
    const uint32_t want = rm::cvt_uint32(c[k]);
    P.comparisons++;
    if (((pk >> (8 * k)) & 0xff) != want || want > 255) {
      snprintf(buf, sizeof buf, "cvt_uint32(vec4f) = 0x%08x, byte %d should be cvt_uint32(%.9g) = %u", pk, k, (double)c[k], want);
      P.bad(std::string("cvt_uint32(vec4f)|byte of channel ") + CH[k] + " is not the scalar packing of that channel", c, buf);
    }
  }
  // linear_to_srgba: colour channels are the scalar kernel per channel; every channel ignores the others
  const rm::vec4f s = rm::linear_to_srgba(v);
  const float sv[4] = {s.x, s.y, s.z, s.w};
  for (int k = 0; k < 4; k++) {
    const rm::vec4f splat = rm::linear_to_srgba(rm::vec4f(c[k], c[k], c[k], c[k]));
    const float sp[4] = {splat.x, splat.y, splat.z, splat.w};
    P.comparisons++;
    if (bits_of(sv[k]) != bits_of(sp[k])) {
      snprintf(buf, sizeof buf, "linear_to_srgba channel %s = %.9g but %.9g when all channels hold %.9g", CH[k], (double)sv[k], (double)sp[k], (double)c[k]);
      P.bad(std::string("linear_to_srgba|channel ") + CH[k] + " depends on another channel", c, buf);
    }
    if (k < 3) {
      const float want = rm::linear_to_srgb(c[k]);
      P.comparisons++;
      if (bits_of(sv[k]) != bits_of(want)) {
        snprintf(buf, sizeof buf, "linear_to_srgba channel %s = %.9g want linear_to_srgb(%.9g) = %.9g", CH[k], (double)sv[k], (double)c[k], (double)want);
        P.bad(std::string("linear_to_srgba|channel ") + CH[k] + " is not linear_to_srgb of that channel", c, buf);
      }
    }
  }
  // linear_to_srgba8 == cvt_uint32(linear_to_srgba); colour bytes are the scalar pipeline; alpha byte only depends on w
  const uint32_t p8 = rm::linear_to_srgba8(v);
  for (int k = 0; k < 4; k++) {
    const uint32_t byte = (p8 >> (8 * k)) & 0xff;
    const uint32_t sp = (rm::linear_to_srgba8(rm::vec4f(c[k], c[k], c[k], c[k])) >> (8 * k)) & 0xff;
    P.comparisons++;
    if (byte != sp) {
      snprintf(buf, sizeof buf, "linear_to_srgba8 = 0x%08x, byte %s is %u but %u when all channels hold %.9g", p8, CH[k], byte, sp, (double)c[k]);
      P.bad(std::string("linear_to_srgba8|byte of channel ") + CH[k] + " depends on another channel", c, buf);
    }
    if (k < 3) {
      const uint32_t want = rm::cvt_uint32(rm::linear_to_srgb(c[k]));
      P.comparisons++;
      if (byte != want) {
        snprintf(buf, sizeof buf, "linear_to_srgba8 = 0x%08x, byte %s is %u want cvt_uint32(linear_to_srgb(%.9g)) = %u", p8, CH[k], byte, (double)c[k], want);
        P.bad(std::string("linear_to_srgba8|byte of channel ") + CH[k] + " is not the scalar sRGB packing of that channel", c, buf);
      }
    } else {
      if (byte == rm::cvt_uint32(c[3]))
        P.alpha_is_cvt++;
      else
        P.alpha_is_not_cvt++;
    }
  }
  P.outcomes.insert(((uint64_t)pk << 32) | p8);
  if (ub.hit())
    P.bad("vec packing|undefined behaviour inside the calls: " + ub.kind(), c, "");
  if (vr::replaying())
    printf("c = (%.9g, %.9g, %.9g, %.9g): cvt_uint32 = 0x%08x ; linear_to_srgba = (%.9g, %.9g, %.9g, %.9g) ; linear_to_srgba8 = 0x%08x ; scalar: cvt %u %u %u %u, srgb8 %u %u %u\n",
        (double)c[0], (double)c[1], (double)c[2], (double)c[3], pk, (double)sv[0], (double)sv[1], (double)sv[2], (double)sv[3], p8, rm::cvt_uint32(c[0]), rm::cvt_uint32(c[1]),
        rm::cvt_uint32(c[2]), rm::cvt_uint32(c[3]), rm::cvt_uint32(rm::linear_to_srgb(c[0])), rm::cvt_uint32(rm::linear_to_srgb(c[1])), rm::cvt_uint32(rm::linear_to_srgb(c[2])));
}

static void flush_pack(PackAcc &P)
{
  vr::stat("states", P.states);
  vr::stat("transitions", P.comparisons);
  vr::stat("pack_alpha_byte_equals_cvt_uint32_w", P.alpha_is_cvt);
  vr::stat("pack_alpha_byte_differs_from_cvt_uint32_w", P.alpha_is_not_cvt);
  for (uint64_t h : P.outcomes)
    vr::outcome(h ^ 0x9ac4ull << 48);
  for (auto &v : P.viols)
    viol(v.sig, v.replay, v.detail);
}

// monotone / saturating per channel over the sorted alphabet (all channels hold the same value)
static void check_pack_monotone(const std::vector<float> &A)
{
  int prev8[4] = {-1, -1, -1, -1}, prevc[4] = {-1, -1, -1, -1};
  float prevx = 0;
  for (float x : A) {
    const rm::vec4f v(x, x, x, x);
    const uint32_t p8 = rm::linear_to_srgba8(v), pc = rm::cvt_uint32(v);
    vr::stat("states");
    for (int k = 0; k < 4; k++) {
      const int b8 = (p8 >> (8 * k)) & 0xff, bc = (pc >> (8 * k)) & 0xff;
      vr::stat("transitions", 6);
      const std::string replay = "packmono:" + enc(prevx) + "," + enc(x);
      if (b8 < prev8[k] || bc < prevc[k])
        viol(std::string("vec packing|byte of channel ") + CH[k] + " decreases when the channel increases", replay,
            "channel value " + show(prevx) + " -> " + show(x) + ": srgba8 byte " + std::to_string(prev8[k]) + " -> " + std::to_string(b8) + ", cvt byte " + std::to_string(prevc[k]) +
                " -> " + std::to_string(bc));
      if (x <= 0 && (b8 != 0 || bc != 0))
        viol(std::string("vec packing|byte of channel ") + CH[k] + " not 0 for a value <= 0", replay, "value " + show(x) + ": srgba8 byte " + std::to_string(b8) + ", cvt byte " + std::to_string(bc));
      if (x >= 1 && (b8 != 255 || bc != 255))
        viol(std::string("vec packing|byte of channel ") + CH[k] + " not 255 for a value >= 1", replay, "value " + show(x) + ": srgba8 byte " + std::to_string(b8) + ", cvt byte " + std::to_string(bc));
      prev8[k] = b8;
      prevc[k] = bc;
    }
    if (vr::replaying())
      printf("all channels = %s: linear_to_srgba8 = 0x%08x, cvt_uint32 = 0x%08x\n", show(x).c_str(), p8, pc);
    prevx = x;
  }
}

static void pack_grid()
{
  std::vector<float> A = float_alphabet(false);
  if (!vr::thorough()) {
    // quick: the 24 values that matter for packing (everything <= 0 collapses to one class, as does everything >= 1)
    const float q[] = {-INFINITY, -1.f, -FLT_MIN, -0.f, 0.f, f_of(1), FLT_MIN, 1e-30f, 1e-3f, 0.5f / 255, 1.f / 255, 0.25f, 1.f / 3, 0.5f - FLT_EPSILON / 4, 0.5f, 0.5f + FLT_EPSILON / 2, 0.7f,
        1.f - FLT_EPSILON / 2, 1.f, 1.f + FLT_EPSILON, 2.f, 255.f, FLT_MAX, INFINITY};
    A.assign(q, q + sizeof q / sizeof q[0]);
  }
  std::stable_sort(A.begin(), A.end());  // the monotonicity check walks the alphabet in value order
  check_pack_monotone(A);
  const size_t n = A.size();
  std::vector<PackAcc> acc(n);
  std::vector<std::thread> th;
  std::atomic<size_t> next(0);
  for (int t = 0; t < 16; t++)
    th.emplace_back([&]() {
      for (;;) {
        const size_t i = next.fetch_add(1);
        if (i >= n)
          break;
        for (size_t j = 0; j < n; j++)
          for (size_t k = 0; k < n; k++)
            for (size_t l = 0; l < n; l++) {
              const float c[4] = {A[i], A[j], A[k], A[l]};
              check_pack4(c, acc[i]);
            }
      }
    });
  for (auto &t : th)
    t.join();
  for (auto &p : acc)
    flush_pack(p);
  vr::sample("vec packing: all " + std::to_string(n * n * n * n) + " vec4f over " + std::to_string(n) + " values, e.g. linear_to_srgba8(0.25, 0.5, 1, 0.5) = " +
      hex32(rm::linear_to_srgba8(rm::vec4f(0.25f, 0.5f, 1.f, 0.5f))));
}

// ------------------------------------------------------------------ distributions
static const int NDRAWS = 4096;

struct FRange
{
  float lo, hi;
};
static const FRange FRANGES[] = {{0.f, 1.f}, {-1.f, 1.f}, {5.f, 5.f}, {-3.f, -1.f}, {-1e38f, 1e38f}, {0.f, FLT_MAX}, {16777216.f, 16777218.f}, {-FLT_MIN, FLT_MIN}, {1e-30f, 2e-30f},
    {0.1f, 0.3f}, {-0.7f, 1e-3f}, {0.f, 0.f}};
static const int NFR = sizeof FRANGES / sizeof FRANGES[0];
static const int SEEDS[] = {0, 1, 42, 2147483647, -1, INT_MIN};
static const int SEQS[] = {0, 1, 54, -1};

template <typename T>
static long double tol_of(long double lo, long double hi);
template <>
long double tol_of<float>(long double lo, long double hi)
{
  return ulp_float_at((double)std::max(std::max(fabsl(lo), fabsl(hi)), fabsl(hi - lo)));
}
template <>
long double tol_of<double>(long double lo, long double hi)
{
  return ulp_double_at(std::max(std::max(fabsl(lo), fabsl(hi)), fabsl(hi - lo)));
}

static std::string range_class(long double lo, long double hi)
{
  if (lo == hi)
    return "degenerate range";
  if (hi - lo > 1e37L)
    return "huge range";
  if (hi < 0)
    return "negative range";
  if (lo < 0)
    return "range across 0";
  return "non-negative range";
}

// equivalence class of a (range, generator span) pair for uniform_real_distribution<T>
template <typename T>
static std::string urd_class(long double lo, long double hi, long double span)
{
  const long double w = hi - lo;
  if (w == 0)
    return "degenerate range";
  if (w / span < (long double)std::numeric_limits<T>::min())
    return "(upper-lower)/(gmax-gmin) is below the smallest normal number";
  if (std::max(fabsl(hi), fabsl(w)) > (long double)std::numeric_limits<T>::max() / 2)
    return "upper or upper-lower within a factor 2 of the largest finite number";
  return "ordinary range";
}

static void check_pcgdist(int seed, int seq, float lo, float hi)
{
  UBScope ub;
  ru::pcg32_biased_float_distribution d1(seed, seq, lo, hi);
  std::vector<float> a(NDRAWS), b(NDRAWS), c(NDRAWS), c2(NDRAWS);
  for (int i = 0; i < NDRAWS; i++)
    a[i] = d1();
  ru::pcg32_biased_float_distribution d2(seed, seq, lo, hi);
  for (int i = 0; i < NDRAWS; i++)
    b[i] = d2();
  // two live objects drawn from alternately: no hidden shared state
  ru::pcg32_biased_float_distribution d3(seed, seq, lo, hi), d4(seed ^ 1, seq, lo, hi);
  for (int i = 0; i < NDRAWS; i++) {
    c[i] = d3();
    c2[i] = d4();
  }
  const long double tol = tol_of<float>(lo, hi);
  const std::string replay = "pcgdist:" + std::to_string(seed) + "," + std::to_string(seq) + "," + enc(lo) + "," + enc(hi);
  const std::string rc = range_class(lo, hi);
  vr::stat("states");
  int bad_range = -1, bad_repro = -1, bad_inter = -1;
  uint64_t h = 1469598103934665603ull;
  long double worst = 0;
  for (int i = 0; i < NDRAWS; i++) {
    vr::stat("transitions", 3);
    const long double v = a[i];
    if (!(v >= (long double)lo - tol && v <= (long double)hi + tol) && bad_range < 0)
      bad_range = i;
    if (v > hi)
      worst = std::max(worst, (v - hi) / tol);
    if (v < lo)
      worst = std::max(worst, (lo - v) / tol);
    if (bits_of(a[i]) != bits_of(b[i]) && bad_repro < 0)
      bad_repro = i;
    if (bits_of(a[i]) != bits_of(c[i]) && bad_inter < 0)
      bad_inter = i;
    h = vr::fnv(&a[i], 4, h);
  }
  vr::stat("draws", NDRAWS);
  vr::stat("max_pcgdist_overshoot_permille_of_a_rounding_step", (long long)(worst * 1000));
  vr::outcome(h);
  if (ub.hit())
    viol("pcg32_biased_float_distribution|undefined behaviour inside the calls: " + ub.kind(), replay, "");
  if (bad_range >= 0)
    viol("pcg32_biased_float_distribution|draw outside [lower,upper] by more than one rounding step|" + rc, replay,
        "draw " + std::to_string(bad_range) + " = " + show(a[bad_range]) + " range [" + show(lo) + ", " + show(hi) + "]");
  if (bad_repro >= 0)
    viol("pcg32_biased_float_distribution|a second construction from the same seed gives a different sequence|" + rc, replay,
        "draw " + std::to_string(bad_repro) + ": " + show(a[bad_repro]) + " vs " + show(b[bad_repro]));
  if (bad_inter >= 0)
    viol("pcg32_biased_float_distribution|sequence changes when another object is used in between|" + rc, replay,
        "draw " + std::to_string(bad_inter) + ": " + show(a[bad_inter]) + " vs " + show(c[bad_inter]));
  if (vr::replaying())
    printf("pcg32_biased_float_distribution(%d, %d, %s, %s): %d draws, first %s, min %.9g max %.9g, worst overshoot %.3Lf rounding steps; range %s, reproducible %s, independent %s\n",
        seed, seq, show(lo).c_str(), show(hi).c_str(), NDRAWS, show(a[0]).c_str(), (double)*std::min_element(a.begin(), a.end()), (double)*std::max_element(a.begin(), a.end()), worst,
        bad_range < 0 ? "ok" : "VIOLATED", bad_repro < 0 ? "ok" : "VIOLATED", bad_inter < 0 ? "ok" : "VIOLATED");
}

template <typename T>
struct TName;
template <>
struct TName<float>
{
  static const char *n() { return "float"; }
};
template <>
struct TName<double>
{
  static const char *n() { return "double"; }
};

template <typename T, typename G>
static void check_urd_gen(const char *gn, unsigned seed, T lo, T hi)
{
  G g1(seed), g2(seed);
  ru::uniform_real_distribution<T> d1(lo, hi), d2(lo, hi);
  const long double tol = tol_of<T>(lo, hi);
  const std::string replay = std::string("urd:") + TName<T>::n() + ":" + gn + ":" + std::to_string(seed) + "," + enc(lo) + "," + enc(hi);
  const std::string rc = urd_class<T>(lo, hi, (long double)(G::max() - G::min()));
  vr::stat("states");
  int bad_range = -1, bad_repro = -1;
  T badv = 0, badw = 0;
  uint64_t h = 1469598103934665603ull;
  long double worst = 0;
  for (int i = 0; i < NDRAWS; i++) {
    const T v = d1(g1), w = d2(g2);
    vr::stat("transitions", 2);
    if (!((long double)v >= (long double)lo - tol && (long double)v <= (long double)hi + tol) && bad_range < 0) {
      bad_range = i;
      badv = v;
    }
    if (v > hi)
      worst = std::max(worst, ((long double)v - hi) / tol);
    if (v < lo)
      worst = std::max(worst, ((long double)lo - v) / tol);
    if (memcmp(&v, &w, sizeof v) != 0 && bad_repro < 0) {
      bad_repro = i;
      badv = v;
      badw = w;
    }
    h = vr::fnv(&v, sizeof v, h);
  }
  vr::stat("draws", NDRAWS);
  vr::stat("max_urd_overshoot_permille_of_a_rounding_step", (long long)(worst * 1000));
  vr::outcome(h);
  if (bad_range >= 0)
    viol(std::string("uniform_real_distribution<") + TName<T>::n() + ">|result outside [lower,upper] by more than one rounding step|" + rc, replay,
        std::string("generator ") + gn + " draw " + std::to_string(bad_range) + " = " + show(badv) + " range [" + show(lo) + ", " + show(hi) + "]");
  if (bad_repro >= 0)
    viol(std::string("uniform_real_distribution<") + TName<T>::n() + ">|identically seeded generators give different sequences|" + rc, replay,
        std::string("generator ") + gn + " draw " + std::to_string(bad_repro) + ": " + show(badv) + " vs " + show(badw));
  if (vr::replaying())
    printf("uniform_real_distribution<%s>(%s, %s) with %s(%u): %d draws, worst overshoot %.3Lf rounding steps; range %s, reproducible %s\n", TName<T>::n(), show(lo).c_str(),
        show(hi).c_str(), gn, seed, NDRAWS, worst, bad_range < 0 ? "ok" : "VIOLATED", bad_repro < 0 ? "ok" : "VIOLATED");
}

template <typename R>
struct StubGen
{
  typedef R result_type;
  // min()/max() are static, as for every standard engine (a tree may call them as G::min()); the harness is
  // single-threaded per process, so the span lives in class statics
  static R &lo_ref()
  {
    static R x = 0;
    return x;
  }
  static R &hi_ref()
  {
    static R x = 0;
    return x;
  }
  R v;
  static R min() { return lo_ref(); }
  static R max() { return hi_ref(); }
  R operator()() { return v; }
};
template <typename R>
struct RName;
template <>
struct RName<uint32_t>
{
  static const char *n() { return "u32"; }
};
template <>
struct RName<uint64_t>
{
  static const char *n() { return "u64"; }
};

static long double g_stub_worst = 0;

template <typename T, typename R>
static void check_urd_stub(R gmin, R gmax, R gval, T lo, T hi)
{
  StubGen<R> g;
  StubGen<R>::lo_ref() = gmin;
  StubGen<R>::hi_ref() = gmax;
  g.v = gval;
  ru::uniform_real_distribution<T> d(lo, hi);
  const T v = d(g);
  const long double tol = tol_of<T>(lo, hi);
  const bool ok = (long double)v >= (long double)lo - tol && (long double)v <= (long double)hi + tol;
  long double over = 0;
  if (v > hi)
    over = ((long double)v - hi) / tol;
  if (v < lo)
    over = ((long double)lo - v) / tol;
  if (over > g_stub_worst && std::isfinite(over))
    g_stub_worst = over;
  vr::stat("states");
  vr::stat("transitions");
  vr::outcome(std::string("stub:") + TName<T>::n() + enc(v));
  if (!ok)
    viol(std::string("uniform_real_distribution<") + TName<T>::n() + ">|result outside [lower,upper] by more than one rounding step|" +
            urd_class<T>(lo, hi, (long double)gmax - (long double)gmin),
        std::string("urdstub:") + TName<T>::n() + ":" + RName<R>::n() + ":" + enc(gmin) + "," + enc(gmax) + "," + enc(gval) + "," + enc(lo) + "," + enc(hi),
        "stub generator [" + enc(gmin) + "," + enc(gmax) + "] returns " + enc(gval) + ": result " + show(v) + " range [" + show(lo) + ", " + show(hi) + "], off by " + ldstr(over) + " rounding steps");
  if (vr::replaying())
    printf("uniform_real_distribution<%s>(%s, %s)(stub [%s,%s] -> %s) = %s ; overshoot %.3Lf rounding steps : %s\n", TName<T>::n(), show(lo).c_str(), show(hi).c_str(), enc(gmin).c_str(),
        enc(gmax).c_str(), enc(gval).c_str(), show(v).c_str(), over, ok ? "ok" : "VIOLATED");
}

template <typename R>
static std::vector<R> stub_values(R gmin, R gmax)
{
  std::vector<R> v;
  const I128 lo = gmin, hi = gmax;
  auto add = [&](I128 x) {
    if (x >= lo && x <= hi)
      v.push_back((R)x);
  };
  for (int d = 0; d <= 2; d++) {
    add(lo + d);
    add(hi - d);
    add(lo + (hi - lo) / 2 + d - 1);
  }
  for (int k = 1; k < 64; k++)
    for (int d = -1; d <= 1; d++)
      add(lo + ((I128)1 << k) + d);
  std::sort(v.begin(), v.end());
  v.erase(std::unique(v.begin(), v.end()), v.end());
  return v;
}

template <typename T>
static std::vector<std::pair<T, T>> urd_ranges()
{
  std::vector<std::pair<T, T>> r;
  for (int i = 0; i < NFR; i++)
    r.push_back(std::make_pair((T)FRANGES[i].lo, (T)FRANGES[i].hi));
  return r;
}
template <>
std::vector<std::pair<double, double>> urd_ranges<double>()
{
  std::vector<std::pair<double, double>> r;
  for (int i = 0; i < NFR; i++)
    r.push_back(std::make_pair((double)FRANGES[i].lo, (double)FRANGES[i].hi));
  r.push_back(std::make_pair(-1e300, 1e300));
  r.push_back(std::make_pair(0.0, DBL_MAX));
  r.push_back(std::make_pair(9007199254740992.0, 9007199254740994.0));
  r.push_back(std::make_pair(-DBL_MIN, DBL_MIN));
  r.push_back(std::make_pair(0.1, 0.3));
  return r;
}

template <typename T, typename R>
static void urd_stub_grid()
{
  struct Span
  {
    R lo, hi;
  };
  const R M = std::numeric_limits<R>::max();
  const Span spans[] = {{0, M}, {1, (R)2147483646u}, {0, (R)4294967295u}, {0, 1}, {0, 9}, {5, 260}, {0, 16777216}, {0, 16777217}, {(R)(M / 2), M}, {0, (R)(M - 1)}, {0, 999999}};
  long long n = 0;
  for (const Span &s : spans) {
    const std::vector<R> vals = stub_values<R>(s.lo, s.hi);
    for (auto &r : urd_ranges<T>())
      for (R v : vals) {
        check_urd_stub<T, R>(s.lo, s.hi, v, r.first, r.second);
        n++;
      }
  }
  vr::sample(std::string("uniform_real_distribution<") + TName<T>::n() + "> with a stub " + RName<R>::n() + " generator: " + std::to_string(n) +
          " (generator span, returned value, range) cases: min, max, mid, every 2^k-1/2^k/2^k+1 offset",
      std::string("stub") + TName<T>::n() + RName<R>::n());
}

static void distributions_grid()
{
  long long n = 0;
  for (int seed : SEEDS)
    for (int seq : SEQS)
      for (int r = 0; r < NFR; r++) {
        check_pcgdist(seed, seq, FRANGES[r].lo, FRANGES[r].hi);
        n++;
      }
  vr::sample("pcg32_biased_float_distribution: " + std::to_string(n) + " (seed, sequence, range) x " + std::to_string(NDRAWS) + " draws x {fresh, second construction, interleaved}");
  // different seeds / sequences give different sequences (not demanded; makes the reproducibility check non-vacuous)
  const unsigned useeds[] = {0u, 1u, 42u, 2147483647u};
  for (unsigned s : useeds) {
    for (auto &r : urd_ranges<float>()) {
      check_urd_gen<float, pcg32>("pcg32", s, r.first, r.second);
      check_urd_gen<float, std::mt19937>("mt19937", s, r.first, r.second);
      check_urd_gen<float, std::minstd_rand>("minstd_rand", s ? s : 7u, r.first, r.second);
      check_urd_gen<float, std::mt19937_64>("mt19937_64", s, r.first, r.second);
    }
    for (auto &r : urd_ranges<double>()) {
      check_urd_gen<double, pcg32>("pcg32", s, r.first, r.second);
      check_urd_gen<double, std::mt19937>("mt19937", s, r.first, r.second);
      check_urd_gen<double, std::minstd_rand>("minstd_rand", s ? s : 7u, r.first, r.second);
      check_urd_gen<double, std::mt19937_64>("mt19937_64", s, r.first, r.second);
    }
  }
  vr::sample("uniform_real_distribution<float|double>: 4 seeds x 4 generators (pcg32, mt19937, minstd_rand, mt19937_64) x ranges x 4096 draws, two identically seeded generators");
  urd_stub_grid<float, uint32_t>();
  urd_stub_grid<float, uint64_t>();
  urd_stub_grid<double, uint32_t>();
  urd_stub_grid<double, uint64_t>();
  char buf[160];
  snprintf(buf, sizeof buf, "uniform_real_distribution with the stub generator: worst distance outside [lower,upper] = %.3Lf rounding steps", g_stub_worst);
  vr::note(buf);
}

// ------------------------------------------------------------------ driver
#define FOR_CLAMP_TYPES(X) X(float, "float") X(double, "double") X(int, "int") X(unsigned, "unsigned") X(long, "long") X(unsigned char, "uchar")
#define FOR_DIV_TYPES(X) \
  X(int, "int") X(unsigned, "unsigned") X(long, "long") X(unsigned long, "size_t") X(short, "short") X(unsigned short, "ushort") X(unsigned char, "uchar") X(signed char, "schar")

static int replay_one(const std::string &r)
{
  const size_t c = r.find(':');
  const std::string kind = r.substr(0, c);
  std::string rest = c == std::string::npos ? "" : r.substr(c + 1);
  auto typed = [&](std::string &type) {  // "type:args"
    const size_t d = rest.find(':');
    type = rest.substr(0, d);
    rest = rest.substr(d + 1);
  };
  if (kind == "clamp" || kind == "clampdef") {
    std::string t;
    typed(t);
    const std::vector<std::string> a = split_commas(rest);
#define X(T, N)                                                                              \
  if (t == N) {                                                                              \
    if (kind == "clamp")                                                                     \
      check_clamp<T>(N, Codec<T>::dec(a[0]), Codec<T>::dec(a[1]), Codec<T>::dec(a[2]));     \
    else                                                                                     \
      check_clamp_default<T>(N, Codec<T>::dec(a[0]));                                        \
  }
    FOR_CLAMP_TYPES(X)
#undef X
  } else if (kind == "div") {
    std::string t;
    typed(t);
    const std::vector<std::string> a = split_commas(rest);
#define X(T, N) \
  if (t == N)   \
    check_div<T>(N, Codec<T>::dec(a[0]), Codec<T>::dec(a[1]));
    FOR_DIV_TYPES(X)
#undef X
  } else if (kind == "lerp") {
    std::string t;
    typed(t);
    const std::vector<std::string> a = split_commas(rest);
    if (t == "float")
      check_lerp<float>(Codec<float>::dec(a[0]), Codec<float>::dec(a[1]), Codec<float>::dec(a[2]));
    else
      check_lerp<double>(Codec<float>::dec(a[0]), Codec<double>::dec(a[1]), Codec<double>::dec(a[2]));
  } else if (kind == "lerp3") {
    const std::vector<std::string> a = split_commas(rest);
    float v[7];
    for (int i = 0; i < 7; i++)
      v[i] = Codec<float>::dec(a[i]);
    check_lerp3(v[0], v + 1, v + 4);
  } else if (kind == "madd") {
    const std::vector<std::string> a = split_commas(rest);
    check_madd(Codec<float>::dec(a[0]), Codec<float>::dec(a[1]), Codec<float>::dec(a[2]));
  } else if (kind == "deg2rad_d") {
    check_deg2rad_d(Codec<double>::dec(rest));
  } else if (kind == "pack4") {
    const std::vector<std::string> a = split_commas(rest);
    float v[4];
    for (int i = 0; i < 4; i++)
      v[i] = Codec<float>::dec(a[i]);
    PackAcc P;
    check_pack4(v, P);
    flush_pack(P);
  } else if (kind == "packmono") {
    const std::vector<std::string> a = split_commas(rest);
    std::vector<float> A;
    A.push_back(Codec<float>::dec(a[0]));
    A.push_back(Codec<float>::dec(a[1]));
    check_pack_monotone(A);
  } else if (kind == "pcgdist") {
    const std::vector<std::string> a = split_commas(rest);
    check_pcgdist((int)parse_i64(a[0]), (int)parse_i64(a[1]), Codec<float>::dec(a[2]), Codec<float>::dec(a[3]));
  } else if (kind == "urd") {
    std::string t, g;
    typed(t);
    typed(g);
    const std::vector<std::string> a = split_commas(rest);
    const unsigned seed = (unsigned)parse_u64(a[0]);
#define G(GT, GN)                                                                       \
  if (g == GN) {                                                                        \
    if (t == "float")                                                                   \
      check_urd_gen<float, GT>(GN, seed, Codec<float>::dec(a[1]), Codec<float>::dec(a[2]));     \
    else                                                                                \
      check_urd_gen<double, GT>(GN, seed, Codec<double>::dec(a[1]), Codec<double>::dec(a[2]));  \
  }
    G(pcg32, "pcg32")
    G(std::mt19937, "mt19937")
    G(std::minstd_rand, "minstd_rand")
    G(std::mt19937_64, "mt19937_64")
#undef G
  } else if (kind == "urdstub") {
    std::string t, rt;
    typed(t);
    typed(rt);
    const std::vector<std::string> a = split_commas(rest);
    const uint64_t gmin = parse_u64(a[0]), gmax = parse_u64(a[1]), gval = parse_u64(a[2]);
    if (t == "float" && rt == "u32")
      check_urd_stub<float, uint32_t>((uint32_t)gmin, (uint32_t)gmax, (uint32_t)gval, Codec<float>::dec(a[3]), Codec<float>::dec(a[4]));
    else if (t == "float")
      check_urd_stub<float, uint64_t>(gmin, gmax, gval, Codec<float>::dec(a[3]), Codec<float>::dec(a[4]));
    else if (rt == "u32")
      check_urd_stub<double, uint32_t>((uint32_t)gmin, (uint32_t)gmax, (uint32_t)gval, Codec<double>::dec(a[3]), Codec<double>::dec(a[4]));
    else
      check_urd_stub<double, uint64_t>(gmin, gmax, gval, Codec<double>::dec(a[3]), Codec<double>::dec(a[4]));
  } else
    printf("unknown replay kind '%s'\n", kind.c_str());
  vr::flush();
  return vr::S().viols.empty() ? 0 : 1;
}

int main(int argc, char **argv)
{
  vr::init(argc, argv);
  if (vr::replaying())
    return replay_one(vr::S().replay);

#define X(T, N) clamp_grid<T>(N);
  FOR_CLAMP_TYPES(X)
#undef X
  const long long N = vr::thorough() ? 1024 : 300;
#define X(T, N_) div_grid<T>(N_, N);
  FOR_DIV_TYPES(X)
#undef X
  {
    char buf[200];
    snprintf(buf, sizeof buf, "not demanded (a+b-1 not representable, unsigned types only - it wraps): divRoundUp differs from the least q for %lld of %lld such pairs", g_div_outside_wrong,
        g_div_outside);
    vr::note(buf);
  }
  {
    const std::vector<float> A = float_alphabet(true);
    for (float f : A)
      for (float a : A)
        for (float b : A) {
          check_lerp<float>(f, a, b);
          check_madd(f, a, b);
        }
    vr::sample("lerp<float>, madd: all " + std::to_string(A.size() * A.size() * A.size()) + " triples over " + std::to_string(A.size()) + " floats, e.g. lerp(0.25, 1, 3) = " +
        show(rm::lerp(0.25f, 1.f, 3.f)) + ", madd(3, 7, 0.5) = " + show(rm::madd(3.f, 7.f, 0.5f)));
    const std::vector<double> D = double_alphabet(true);
    for (float f : A)
      for (double a : D)
        for (double b : D)
          check_lerp<double>(f, a, b);
    const size_t n = A.size();
    for (float f : A)
      for (size_t i = 0; i < n; i++)
        for (size_t j = 0; j < n; j++) {
          const float a[3] = {A[i], A[(i + 1) % n], A[(i + 2) % n]}, b[3] = {A[j], A[(j + 5) % n], A[(j + 11) % n]};
          check_lerp3(f, a, b);
        }
    for (double d : D)
      check_deg2rad_d(d);
  }
  pack_grid();
  distributions_grid();
  vr::stat("ubsan_reports", g_ub_total.load());
  if (g_ub_total.load() != g_ub_attributed.load())
    viol("UBSan report outside the judged calls", "none", std::to_string(g_ub_total.load() - g_ub_attributed.load()) + " reports (see stderr)");
  vr::stat("traces", vr::S().stats["states"]);
  return vr::finish();
}
