// C04: which bodies exist for one element type T.  A translation unit C04_t_<group>_<type>.cpp
// defines C04_GROUP and C04_T/C04_TN and includes this file.
#pragma once
#include "C04_fam.h"

namespace c04 {

// ---------------------------------------------------------------- basic: members, unary, compare, functors, geometry
template <class T, int S>
inline void reg_basic_shape(Reg &r)
{
  for (int set = 0; set < 2; set++) {
    add<Vec1<T, S>>(r, nm<T>("members.unary", S), set);
    add<PairFun<T, S>>(r, nm<T>("min.max.divRoundUp.less", S), set);
  }
  add<Interp<T, S>>(r, nm<T>("interpolate_uv", S), 0);
}
template <class T, class VA, class VB>
inline void reg_paircmp(Reg &r, const char *combo)
{
  for (int set = 0; set < 2; set++)
    add<PairCmp<T, VA, VB>>(r, std::string("compare.dot.cross/") + TI<T>::name() + "/" + combo, set);
}
template <class T>
inline void reg_basic(Reg &r)
{
  reg_basic_shape<T, S2>(r);
  reg_basic_shape<T, S3>(r);
  reg_basic_shape<T, S3A>(r);
  reg_basic_shape<T, S4>(r);
  reg_paircmp<T, vec_t<T, 2>, vec_t<T, 2>>(r, "vec2,vec2");
  reg_paircmp<T, vec_t<T, 3>, vec_t<T, 3>>(r, "vec3,vec3");
  reg_paircmp<T, vec_t<T, 3>, vec_t<T, 3, true>>(r, "vec3,vec3a");
  reg_paircmp<T, vec_t<T, 3, true>, vec_t<T, 3>>(r, "vec3a,vec3");
  reg_paircmp<T, vec_t<T, 3, true>, vec_t<T, 3, true>>(r, "vec3a,vec3a");
  reg_paircmp<T, vec_t<T, 4>, vec_t<T, 4>>(r, "vec4,vec4");
  add<Madd<T, S3>>(r, nm<T>("madd", S3), 0);
  add<Madd<T, S3A>>(r, nm<T>("madd", S3A), 0);
}

// ---------------------------------------------------------------- bin: + - * / % on equal element types
template <class Op, class T, class VA, class VB>
inline void reg_binvv(Reg &r, const char *combo)
{
  If<OpOK<Op, T, T>::value>::template add<BinVV<Op, T, VA, VB>>(r, std::string("vec.vec:") + Op::n() + "/" + TI<T>::name() + "/" + combo, 0);
}
template <class Op, class T, int S>
inline void reg_bins(Reg &r)
{
  If<OpOK<Op, T, T>::value>::template add<BinS<Op, T, S, false>>(r, nm<T>((std::string("vec.scalar:") + Op::n()).c_str(), S), 0);
  If<OpOK<Op, T, T>::value>::template add<BinS<Op, T, S, true>>(r, nm<T>((std::string("scalar.vec:") + Op::n()).c_str(), S), 0);
}
template <class Op, class T>
inline void reg_bin_op(Reg &r)
{
  reg_binvv<Op, T, vec_t<T, 2>, vec_t<T, 2>>(r, "vec2,vec2");
  reg_binvv<Op, T, vec_t<T, 3>, vec_t<T, 3>>(r, "vec3,vec3");
  reg_binvv<Op, T, vec_t<T, 3>, vec_t<T, 3, true>>(r, "vec3,vec3a");
  reg_binvv<Op, T, vec_t<T, 3, true>, vec_t<T, 3>>(r, "vec3a,vec3");
  reg_binvv<Op, T, vec_t<T, 3, true>, vec_t<T, 3, true>>(r, "vec3a,vec3a");
  reg_binvv<Op, T, vec_t<T, 4>, vec_t<T, 4>>(r, "vec4,vec4");
  reg_bins<Op, T, S2>(r);
  reg_bins<Op, T, S3>(r);
  reg_bins<Op, T, S3A>(r);
  reg_bins<Op, T, S4>(r);
}
template <class T>
inline void reg_bin(Reg &r)
{
  reg_bin_op<OAdd, T>(r);
  reg_bin_op<OSub, T>(r);
  reg_bin_op<OMul, T>(r);
  reg_bin_op<ODiv, T>(r);
  reg_bin_op<OMod, T>(r);
}

// ---------------------------------------------------------------- mix: + - * / % on different element types
template <class Op, class T, class U, int S>
inline void reg_mix_shape(Reg &r)
{
  const std::string tu = std::string(TI<T>::name()) + "," + TI<U>::name() + "/" + shname(S);
  const bool ok = OpOK<Op, T, U>::value;
  If<ok>::template add<Mix<Op, T, U, S, 0>>(r, std::string("mixed.vec.vec:") + Op::n() + "/" + tu, 0);
  If<ok>::template add<Mix<Op, T, U, S, 1>>(r, std::string("mixed.vec.scalar:") + Op::n() + "/" + tu, 0);
  If<ok>::template add<Mix<Op, T, U, S, 2>>(r, std::string("mixed.scalar.vec:") + Op::n() + "/" + tu, 0);
}
template <class Op, class T, class U>
inline void reg_mix_op(Reg &r)
{
  reg_mix_shape<Op, T, U, S2>(r);
  reg_mix_shape<Op, T, U, S3>(r);
  reg_mix_shape<Op, T, U, S3A>(r);
  reg_mix_shape<Op, T, U, S4>(r);
}
template <class T, class U, bool SAME = std::is_same<T, U>::value>
struct RegMixTU
{
  static void go(Reg &r)
  {
    reg_mix_op<OAdd, T, U>(r);
    reg_mix_op<OSub, T, U>(r);
    reg_mix_op<OMul, T, U>(r);
    reg_mix_op<ODiv, T, U>(r);
    reg_mix_op<OMod, T, U>(r);
  }
};
template <class T, class U>
struct RegMixTU<T, U, true>
{
  static void go(Reg &) {}
};
template <class T>
inline void reg_mix(Reg &r)
{
#define X(U_, n_) RegMixTU<T, U_>::go(r);
  C04_FOR_TYPES(X)
#undef X
}

// ---------------------------------------------------------------- cmp: compound assignment, every (T,U)
template <class Op, class T, class U>
inline void reg_cmp_op(Reg &r)
{
  const std::string tu = std::string(Op::n()) + "=/" + TI<T>::name() + "," + TI<U>::name() + "/";
  const bool ok = OpOK<Op, T, U>::value;
  If<ok>::template add<CmpVV<Op, T, U, vec_t<T, 2>, vec_t<U, 2>>>(r, "compound.vec:" + tu + "vec2,vec2", 0);
  If<ok>::template add<CmpVV<Op, T, U, vec_t<T, 3>, vec_t<U, 3>>>(r, "compound.vec:" + tu + "vec3,vec3", 0);
  If<ok>::template add<CmpVV<Op, T, U, vec_t<T, 3>, vec_t<U, 3, true>>>(r, "compound.vec:" + tu + "vec3,vec3a", 0);
  If<ok>::template add<CmpVV<Op, T, U, vec_t<T, 3, true>, vec_t<U, 3>>>(r, "compound.vec:" + tu + "vec3a,vec3", 0);
  If<ok>::template add<CmpVV<Op, T, U, vec_t<T, 3, true>, vec_t<U, 3, true>>>(r, "compound.vec:" + tu + "vec3a,vec3a", 0);
  If<ok>::template add<CmpVV<Op, T, U, vec_t<T, 4>, vec_t<U, 4>>>(r, "compound.vec:" + tu + "vec4,vec4", 0);
  If<ok>::template add<CmpVS<Op, T, U, S2>>(r, "compound.scalar:" + tu + "vec2", 0);
  If<ok>::template add<CmpVS<Op, T, U, S3>>(r, "compound.scalar:" + tu + "vec3", 0);
  If<ok>::template add<CmpVS<Op, T, U, S3A>>(r, "compound.scalar:" + tu + "vec3a", 0);
  If<ok>::template add<CmpVS<Op, T, U, S4>>(r, "compound.scalar:" + tu + "vec4", 0);
}
template <class T, class U>
inline void reg_cmp_tu(Reg &r)
{
  reg_cmp_op<OAdd, T, U>(r);
  reg_cmp_op<OSub, T, U>(r);
  reg_cmp_op<OMul, T, U>(r);
  reg_cmp_op<ODiv, T, U>(r);
  reg_cmp_op<OMod, T, U>(r);
}
template <class T>
inline void reg_cmp(Reg &r)
{
#define X(U_, n_) reg_cmp_tu<T, U_>(r);
  C04_FOR_TYPES(X)
#undef X
}

// ---------------------------------------------------------------- conv: construction/conversion from every OT
template <class T, class OT>
inline void reg_conv_tu(Reg &r)
{
  for (int set = 0; set < 2; set++) {
    const std::string tu = std::string("conv/") + TI<T>::name() + "<-" + TI<OT>::name() + "/";
    add<Conv<T, OT, S2>>(r, tu + shname(S2), set);
    add<Conv<T, OT, S3>>(r, tu + shname(S3), set);
    add<Conv<T, OT, S3A>>(r, tu + shname(S3A), set);
    add<Conv<T, OT, S4>>(r, tu + shname(S4), set);
  }
}
template <class T>
inline void reg_conv(Reg &r)
{
#define X(U_, n_) reg_conv_tu<T, U_>(r);
  C04_FOR_TYPES(X)
#undef X
}

}  // namespace c04
