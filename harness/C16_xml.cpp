// C16: XML reading is total, memory-safe, and faithful on its supported subset.
// Engine gridmc, ASan as memory oracle.  Everything goes through the public
// rkcommon::xml::readXML(fileName) on files under /dev/shm/verif-<pid>/ (one per worker).
//
//   --part bytes      (i)   every byte string of length <= 6 (thorough 7) over the 12-symbol alphabet
//   --part trees      (ii)  every document generated from the declared tree space (C16_gen.h):
//                           serialise, parse, compare node by node
//   --part mutations  (iii) every truncation and every single-byte substitution of every document of
//                           the (ii) space (quick-tier option lists) up to B bytes; for the documents up
//                           to B2 bytes also every truncation with its last byte substituted
//
// Oracle for (i) and (iii): the call returns or throws std::runtime_error; any other exception,
// a sanitizer report, a signal or a hang (alarm) is a violation.  Oracle for (ii): additionally the
// returned tree equals the generating tree.
//
// Crash handling.  Every case runs inside a vr::run_sharded shard, so a sanitizer abort is attributed
// to the case and the shard resumes after it.  Because a child that dies loses its in-memory report,
// all counters, outcome digests and in-process violations are accumulated in a shared mapping.  Once
// a shard has died on an input that can end inside a quoted value (a shape class computed from the
// bytes alone, C16_gen.h classify_input), the inputs of that class are run in a forked sandbox of
// their own, so a defect that fires on a few percent of all cases costs one fork per case instead of
// one shard restart; a shard that keeps dying on other inputs ends up sandboxing all of its cases.
#include "common/vreport.h"

#include "C16_gen.h"

#include "rkcommon/xml/XML.h"

#include <dirent.h>
#include <sys/stat.h>
#include <atomic>
#include <iostream>
#include <typeinfo>

using namespace rkcommon;
using c16::RNode;

static const std::string SIGMA = "<>/a=\"' !-?\\";                 // (i): the 12 symbols
static const std::string SIGMA_SUB = "<>/a=\"' !-?\\\t\n\r\v\f\x80\xC3\xFF";  // (iii): + the control whitespace bytes and three bytes >= 0x80

// ------------------------------------------------------------------------------ shared accumulators
enum
{
  C_STATES,
  C_TRANS,
  C_RETURNED,
  C_THREW,
  C_CRASHED_SANDBOX,
  C_SANDBOXED,
  C_DOCS,
  C_NODES,
  C_MAXLEN,
  C_OPENCLASS,
  C_AMBIG_RET,
  C_AMBIG_THREW,
  NCNT
};
static const char *CNT_NAME[NCNT] = {"states", "transitions", "returned_document", "threw_runtime_error", "crashed_cases",
    "sandboxed_cases", "documents", "nodes_compared", "max_document_bytes", "inputs_with_unclosed_value_shape",
    "ambiguous_text_returned", "ambiguous_text_threw_runtime_error"};

struct VRec
{
  char sig[256];
  char replay[700];
  char detail[1200];
  long long count;
};
static const size_t OUT_N = 1u << 22;
static const int MAXV = 300;
static const int MAXSHARDS = 1 << 16;
static const int SANDBOX_ALL_AFTER = 8;  // restarts of one shard after which all of its cases are sandboxed
struct Shm
{
  std::atomic<long long> cnt[NCNT];
  std::atomic<int> sandbox;  // bit c set: a shard died on an input of shape class c, run that class in a sandbox
  std::atomic<int> capped;
  std::atomic<int> vlock;
  std::atomic<int> obs_taken[2];
  char obs[2][400];  // first observed treatment of an ambiguous text: [0] returned, [1] threw
  std::atomic<int> restarts[MAXSHARDS];  // how often run_sharded had to restart each shard
  int nv;
  VRec v[MAXV];
  std::atomic<uint64_t> out[OUT_N];
};
static Shm *G = nullptr;

static void cnt(int k, long long n = 1)
{
  if (k == C_MAXLEN) {
    long long cur = G->cnt[k].load(std::memory_order_relaxed);
    while (n > cur && !G->cnt[k].compare_exchange_weak(cur, n)) {
    }
  } else
    G->cnt[k].fetch_add(n, std::memory_order_relaxed);
}

static void shm_outcome(const std::string &s)
{
  uint64_t h = vr::fnv(s);
  if (!h)
    h = 1;
  size_t i = (size_t)(h ^ (h >> 29)) & (OUT_N - 1);
  for (int probe = 0; probe < 256; probe++, i = (i + 1) & (OUT_N - 1)) {
    uint64_t cur = G->out[i].load(std::memory_order_relaxed);
    if (cur == h)
      return;
    if (cur == 0) {
      uint64_t exp = 0;
      if (G->out[i].compare_exchange_strong(exp, h) || exp == h)
        return;
    }
  }
}

static void shm_violation(const std::string &sig, const std::string &replay, const std::string &detail)
{
  if (vr::replaying()) {
    vr::violation(sig, replay, detail);
    printf("VIOLATED %s :: %s\n", vr::clean(sig).c_str(), vr::clean(detail).c_str());
    return;
  }
  int spins = 0;
  int exp = 0;
  while (!G->vlock.compare_exchange_weak(exp, 1, std::memory_order_acquire)) {
    exp = 0;
    if (++spins > 50000000)  // the holder died inside the few statements below: take the lock over
      break;
  }
  int at = -1;
  for (int i = 0; i < G->nv; i++)
    if (sig == G->v[i].sig) {
      at = i;
      break;
    }
  if (at < 0 && G->nv < MAXV) {
    at = G->nv++;
    snprintf(G->v[at].sig, sizeof G->v[at].sig, "%s", sig.c_str());
    G->v[at].replay[0] = 0;
    G->v[at].count = 0;
  }
  if (at >= 0) {
    VRec &r = G->v[at];
    if (r.count == 0 || replay.size() < strlen(r.replay)) {
      snprintf(r.replay, sizeof r.replay, "%s", replay.c_str());
      snprintf(r.detail, sizeof r.detail, "%s", detail.c_str());
    }
    r.count++;
  }
  G->vlock.store(0, std::memory_order_release);
}

// ------------------------------------------------------------------------------ fast death
// While exploring, a sanitizer error only needs its kind: print the line the driver classifies
// and leave (the full report costs milliseconds and is repeated for every crashing case).
// In --replay mode the complete symbolised report is printed.
static bool g_fastdie = false;
extern "C" const char *__asan_get_report_description();
// Defaults under the driver's ASAN_OPTIONS (which does not set these keys): a small quarantine keeps
// the workers' resident set - and with it the cost of forking a sandbox - small.  The property is
// about reads past the file buffer (redzones), not about use after free.
extern "C" const char *__asan_default_options()
{
  return "quarantine_size_mb=4:thread_local_quarantine_size_kb=64";
}
extern "C" void __asan_on_error()
{
  if (!g_fastdie)
    return;
  // ASan names the same overread differently depending on what happens to lie behind the buffer
  // (heap-buffer-overflow next to a redzone, heap-use-after-free next to a quarantined chunk,
  // unknown-crash, or a plain SEGV = wild-addr-read when the buffer is the last chunk of a mapped
  // block).  The failure class must not depend on the allocator's state, so every invalid-access
  // kind is reported under one name; the raw kind stays in the line for the reader.
  const char *d = __asan_get_report_description();
  const char *raw = d ? d : "unknown";  // no allocation in here
  bool access = strstr(raw, "overflow") || strstr(raw, "underflow") || strstr(raw, "use-after") || strstr(raw, "wild-") ||
      strstr(raw, "unknown-crash") || strstr(raw, "SEGV") || strstr(raw, "null-deref") || strstr(raw, "-addr-");
  char b[320];
  int n = snprintf(b, sizeof b, "==%d==ERROR: AddressSanitizer: %s (ASan kind: %s; exploring: full report suppressed, use --replay)\n", (int)getpid(),
      access ? "invalid-memory-access" : raw, raw);
  if (write(2, b, n) < 0) {
  }
  _exit(86);
}

// ------------------------------------------------------------------------------ scratch files
static std::string g_dir;   // /dev/shm/verif-<main pid>
static std::string g_file;  // this worker's document file
static std::string g_err;   // this worker's sandbox stderr
static int g_fd = -1;
static size_t g_prevlen = 0;

static void remove_dir()
{
  if (g_dir.empty())
    return;
  DIR *d = opendir(g_dir.c_str());
  if (d) {
    while (struct dirent *e = readdir(d)) {
      if (e->d_name[0] == '.')
        continue;
      unlink((g_dir + "/" + e->d_name).c_str());
    }
    closedir(d);
  }
  rmdir(g_dir.c_str());
}
static pid_t g_mainpid = 0;
static void on_exit_cleanup()
{
  if (getpid() == g_mainpid)
    remove_dir();
}
static void on_signal(int sig)
{
  on_exit_cleanup();
  _exit(128 + sig);
}

static bool g_stop = false;         // deadline passed
static bool g_sandbox_all = false;  // this shard keeps dying: sandbox every case
static void shard_begin(int shard, long long resume_after)
{
  if (resume_after < 0)
    return;
  // the slot still names the case this shard died on: remember its shape class
  const char *died = vr::my_slot() ? vr::my_slot()->sig : "";
  for (int ic = 1; ic <= 2; ic++)
    if (strstr(died, c16::class_name((c16::InputClass)ic)))
      G->sandbox.fetch_or(1 << ic);
  if (shard < MAXSHARDS && G->restarts[shard].fetch_add(1) + 1 >= SANDBOX_ALL_AFTER)
    g_sandbox_all = true;
}
static void open_worker_file(const std::string &tag)
{
  if (!vr::replaying() && vr::deadline_passed()) {
    g_stop = true;
    G->capped.store(1);
  }
  g_file = g_dir + "/" + tag + ".xml";
  g_err = g_dir + "/" + tag + ".err";
  g_fd = open(g_file.c_str(), O_WRONLY | O_CREAT | O_TRUNC, 0600);
  if (g_fd < 0) {
    perror("open worker file");
    _exit(4);
  }
  g_prevlen = 0;
}
static void close_worker_file()
{
  if (g_fd >= 0)
    close(g_fd);
  g_fd = -1;
  unlink(g_file.c_str());
  unlink(g_err.c_str());
}
static void write_doc(const std::string &d)
{
  if (!d.empty() && pwrite(g_fd, d.data(), d.size(), 0) != (ssize_t)d.size()) {
    perror("pwrite");
    _exit(4);
  }
  if (d.size() < g_prevlen && ftruncate(g_fd, d.size()) != 0) {
    perror("ftruncate");
    _exit(4);
  }
  g_prevlen = d.size();
}

// ------------------------------------------------------------------------------ the call under test
static std::string node_str(const xml::Node &n)
{
  std::string s = n.name;
  if (!n.properties.empty()) {
    s += "[";
    bool first = true;
    for (auto &kv : n.properties) {
      s += (first ? "" : ",") + kv.first + "=`" + kv.second + "`";
      first = false;
    }
    s += "]";
  }
  if (!n.content.empty())
    s += "{" + n.content + "}";
  if (!n.child.empty()) {
    s += "(";
    for (size_t i = 0; i < n.child.size(); i++)
      s += (i ? " " : "") + node_str(n.child[i]);
    s += ")";
  }
  return s;
}

enum
{
  R_RETURNED = 0,
  R_RUNTIME_ERROR = 1,
  R_OTHER_STD = 2,
  R_UNKNOWN = 3
};

// writes the bytes to this worker's file and calls readXML on it
static int call_readxml(const std::string &bytes, xml::XMLDoc &doc, std::string &what)
{
  write_doc(bytes);
  try {
    doc = xml::readXML(g_file);
    return R_RETURNED;
  } catch (const std::runtime_error &e) {
    what = e.what();
    return R_RUNTIME_ERROR;
  } catch (const std::exception &e) {
    what = std::string(typeid(e).name()) + ": " + e.what();
    return R_OTHER_STD;
  } catch (...) {
    what = "non-std exception";
    return R_UNKNOWN;
  }
}

// totality verdict shared by all parts; returns the result kind
static int judge_totality(const std::string &bytes, const std::string &cls, const std::string &replay, const std::string &prov,
    xml::XMLDoc &doc, std::string &what)
{
  int r = call_readxml(bytes, doc, what);
  if (r == R_RETURNED)
    cnt(C_RETURNED);
  else if (r == R_RUNTIME_ERROR) {
    cnt(C_THREW);
    if (what.find("could not open file") != std::string::npos)
      shm_violation("readXML|reports the existing input file as unopenable|" + cls, replay, "file " + g_file + " exists; got '" + what + "' " + prov);
  } else
    shm_violation("readXML|throws something that is not a std::runtime_error|" + cls, replay,
        "input '" + bytes + "' " + prov + ": got exception " + what + ", want a returned document or std::runtime_error");
  return r;
}

static long long g_tick = 0;
static void tick()
{
  alarm(10);  // hang oracle: no case may take this long
  if ((++g_tick & 255) == 0 && vr::deadline_passed()) {
    g_stop = true;
    G->capped.store(1);
  }
}

// Runs body() in a forked child of its own; a death is recorded as a violation of class
// "<sigctx>|<how it died>" (same form as run_sharded uses).  The child reports through the shared
// accumulators only.
static void in_sandbox(const std::string &sigctx, const std::string &replay, const std::string &prov, const std::function<void()> &body)
{
  cnt(C_SANDBOXED);
  pid_t pid = fork();
  if (pid < 0) {
    perror("fork");
    _exit(4);
  }
  if (pid == 0) {
    int efd = open(g_err.c_str(), O_WRONLY | O_CREAT | O_TRUNC, 0600);
    if (efd >= 0) {
      dup2(efd, 2);
      close(efd);
    }
    alarm(10);
    body();
    _exit(0);
  }
  int status = 0;
  while (waitpid(pid, &status, 0) < 0 && errno == EINTR) {
  }
  if (WIFEXITED(status) && WEXITSTATUS(status) == 0)
    return;
  std::string err;
  FILE *f = fopen(g_err.c_str(), "r");
  if (f) {
    char b[4096];
    size_t k;
    while ((k = fread(b, 1, sizeof b, f)) > 0 && err.size() < 65536)
      err.append(b, k);
    fclose(f);
  }
  std::string how = vr::classify_death(status, err);
  size_t ep = err.find("ERROR");
  if (ep == std::string::npos)
    ep = 0;
  std::string first = err.substr(ep, err.find('\n', ep) - ep);
  if (first.size() > 200)
    first.resize(200);
  cnt(C_CRASHED_SANDBOX);
  shm_outcome("D:" + how);
  shm_violation(sigctx + "|" + how, replay, "case died: " + how + " :: " + first + " " + prov);
}

// One totality case with crash attribution.  `index` is the case's position in the shard.
static void totality_case(long long index, const std::string &bytes, const std::string &replay, const std::string &prov)
{
  c16::InputClass ic = c16::classify_input(bytes);
  std::string cls = c16::class_name(ic);
  vr::begin_case(index, "readXML|" + cls, replay);
  tick();
  cnt(C_STATES);
  cnt(C_TRANS);
  cnt(C_MAXLEN, (long long)bytes.size());
  if (ic != c16::IC_OTHER)
    cnt(C_OPENCLASS);
  bool sandbox = (((G->sandbox.load(std::memory_order_relaxed) >> (int)ic) & 1) || g_sandbox_all) && !vr::replaying();
  if (sandbox) {
    in_sandbox("readXML|" + cls, replay, prov, [&]() {
      xml::XMLDoc doc;
      std::string what;
      int r = judge_totality(bytes, cls, replay, prov, doc, what);
      shm_outcome(r == R_RETURNED ? "R:" + node_str(doc) : "T:" + what);
    });
    return;
  }
  xml::XMLDoc doc;
  std::string what;
  int r = judge_totality(bytes, cls, replay, prov, doc, what);
  std::string obs = r == R_RETURNED ? "R:" + node_str(doc) : "T:" + what;
  shm_outcome(obs);
  if (r == R_RETURNED && !doc.child.empty())
    vr::sample("readXML('" + bytes + "') -> " + obs, "ret" + std::to_string(doc.child.size()) + std::to_string(bytes.size() / 8));
  else if (r == R_RUNTIME_ERROR)
    vr::sample("readXML('" + bytes + "') throws runtime_error '" + what + "'", "thr" + what.substr(0, 34));
  if (vr::replaying())
    printf("input (%zu bytes, %s): '%s'\n  %s\n  want: a returned document or std::runtime_error, no sanitizer report, no hang\n", bytes.size(),
        cls.c_str(), vr::clean(bytes).c_str(), r == R_RETURNED ? ("got: returned " + vr::clean(node_str(doc))).c_str() : ("got: exception " + vr::clean(what)).c_str());
}

// ------------------------------------------------------------------------------ (i) all byte strings
static void bytes_shard(int shard, long long resume_after, int L)
{
  shard_begin(shard, resume_after);
  open_worker_file("b" + std::to_string(shard));
  long long index = 0;
  auto one = [&](const std::string &s) {
    long long i = index++;
    if (i <= resume_after || g_stop)
      return;
    totality_case(i, s, "bytes:" + c16::enc(s), "");
  };
  const int NS = (int)SIGMA.size();
  if (shard == NS * NS) {  // the strings shorter than the shard prefix
    one("");
    for (char ch : SIGMA)
      one(std::string(1, ch));
  } else {
    std::string s;
    s += SIGMA[shard / NS];
    s += SIGMA[shard % NS];
    std::function<void()> rec = [&]() {
      one(s);
      if ((int)s.size() == L || g_stop)
        return;
      for (char ch : SIGMA) {
        s.push_back(ch);
        rec();
        s.pop_back();
      }
    };
    rec();
  }
  close_worker_file();
}

// ------------------------------------------------------------------------------ (ii) all trees
static std::string g_diff_class;  // set by compare() when the difference has a class of its own
// node by node comparison; returns "" or what differs (first difference in document order)
static std::string compare(const RNode &want, const xml::Node &got, const std::string &path, std::string &detail, long long &ncmp)
{
  ncmp += 4;
  if (got.name != want.name) {
    detail = path + ": name '" + got.name + "' want '" + want.name + "'";
    return "node name";
  }
  if (got.properties != want.props) {
    detail = path + ": properties differ";
    // the class of a property difference is the shape of the generating attribute list, not the document's layout
    std::string shape;
    std::string firstval;
    bool equal = want.props.size() > 1;
    for (auto &kv : want.props) {
      shape += (shape.empty() ? "" : ", ") + std::string(kv.second.empty() ? "empty" : "non-empty");
      if (&kv == &*want.props.begin())
        firstval = kv.second;
      else if (kv.second != firstval)
        equal = false;
    }
    g_diff_class = "attribute values by name: " + shape + (equal && !firstval.empty() ? " (all equal)" : "");
    return got.properties.size() != want.props.size() ? "number of properties" : "property name or value";
  }
  if (!want.content_ambiguous && got.content != want.content) {
    detail = path + ": content '" + got.content + "' want '" + want.content + "'";
    size_t b = got.content.find_first_not_of(" \t\r\n"), e = got.content.find_last_not_of(" \t\r\n");
    std::string trimmed = b == std::string::npos ? "" : got.content.substr(b, e - b + 1);
    return trimmed == want.content ? "content not trimmed" : "content";
  }
  if (got.child.size() != want.child.size()) {
    detail = path + ": " + std::to_string(got.child.size()) + " children, want " + std::to_string(want.child.size());
    return "number of children";
  }
  for (size_t i = 0; i < want.child.size(); i++) {
    std::string w = compare(want.child[i], got.child[i], path + "/" + want.child[i].name + "#" + std::to_string(i), detail, ncmp);
    if (!w.empty())
      return w;
  }
  return "";
}

static std::string doc_class(const c16::Gen &g, int family, int header)
{
  if (family == 1)
    return "nesting chain, layout " + std::to_string(g.layout);
  if (family == 2)
    return std::string(g.lenient ? "text with \\v or \\f at an end" : "text framed by control whitespace") + ", layout " + std::to_string(g.layout);
  return "layout " + std::to_string(g.layout) + (header ? ", header" : ", no header") +
      (g.pattern ? std::string(", comments '") + c16::BODIES[c16::PATTERNS[g.pattern].body] + "'" : std::string(", no comments"));
}

static void tree_core(c16::Choices &c, c16::Gen &g, const std::string &cls, const std::string &replay);

static void tree_case(long long index, c16::Choices &c, c16::Gen &g)
{
  std::string replay = "tree:" + c.str();
  int family = c.digit[0], header = family == 0 ? c.digit[1] : 0;
  std::string cls = doc_class(g, family, header);
  std::string sigctx = "readXML|document of the supported subset (" + cls + ")";
  vr::begin_case(index, sigctx, replay);
  tick();
  cnt(C_STATES);
  cnt(C_DOCS);
  cnt(C_TRANS);
  cnt(C_MAXLEN, (long long)g.doc.size());
  if (g_sandbox_all && !vr::replaying())
    in_sandbox(sigctx, replay, "", [&]() { tree_core(c, g, cls, replay); });
  else
    tree_core(c, g, cls, replay);
}

static void tree_core(c16::Choices &c, c16::Gen &g, const std::string &cls, const std::string &replay)
{
  xml::XMLDoc doc;
  std::string what;
  int r = judge_totality(g.doc, cls, replay, "", doc, what);
  std::string obs, detail, diff;
  if (r == R_RETURNED) {
    obs = "R:" + node_str(doc);
    long long ncmp = 0;
    g_diff_class.clear();
    // the document node itself: only its list of top-level elements is specified
    if (doc.child.size() != g.root.child.size()) {
      diff = "number of top-level elements";
      detail = std::to_string(doc.child.size()) + " top-level elements, want " + std::to_string(g.root.child.size());
    } else
      for (size_t i = 0; i < g.root.child.size() && diff.empty(); i++)
        diff = compare(g.root.child[i], doc.child[i], "/" + g.root.child[i].name, detail, ncmp);
    cnt(C_TRANS, ncmp);
    cnt(C_NODES, ncmp / 4);
    if (g.lenient) {
      cnt(C_AMBIG_RET);
      int z = 0;
      if (G->obs_taken[0].compare_exchange_strong(z, 1))
        snprintf(G->obs[0], sizeof G->obs[0], "%s", ("'" + c16::enc(g.doc) + "' returns " + c16::enc(node_str(doc))).c_str());
    }
    if (!diff.empty())
      shm_violation("readXML|returned tree differs from the generating tree: " + diff + "|" + (g_diff_class.empty() ? cls : g_diff_class), replay,
          "document '" + g.doc + "': " + detail + "; got " + node_str(doc) + " want " + c16::tree_str(g.root));
  } else {
    obs = "T:" + what;
    if (r == R_RUNTIME_ERROR && g.lenient) {
      cnt(C_AMBIG_THREW);
      int z = 0;
      if (G->obs_taken[1].compare_exchange_strong(z, 1))
        snprintf(G->obs[1], sizeof G->obs[1], "%s", ("'" + c16::enc(g.doc) + "' throws runtime_error '" + what + "'").c_str());
    } else if (r == R_RUNTIME_ERROR)
      shm_violation("readXML|throws on a document of the supported subset|" + cls, replay,
          "document '" + g.doc + "': got runtime_error '" + what + "' want " + c16::tree_str(g.root));
  }
  shm_outcome(obs);
  vr::sample("'" + g.doc + "' -> " + obs, cls + std::to_string(g.doc.size() / 40));
  if (vr::replaying()) {
    printf("choices %s (%s)\ndocument (%zu bytes):\n%s\n----\nwant: %s\ngot:  %s\n%s\n", c.str().c_str(), cls.c_str(), g.doc.size(), g.doc.c_str(),
        vr::clean(c16::tree_str(g.root)).c_str(), r == R_RETURNED ? vr::clean(node_str(doc)).c_str() : ("exception " + vr::clean(what)).c_str(),
        diff.empty() && r == R_RETURNED ? "equal" : ("DIFFERENT: " + diff + " " + vr::clean(detail)).c_str());
  }
}

struct TreeShards
{
  c16::Params P;
  int n0;  // family 0 shards: header x layout x pattern x root name x root property set
  int total() const
  {
    return n0 + 2 * P.NL;
  }
  std::vector<int> prefix(int shard) const
  {
    std::vector<int> d;
    if (shard >= n0) {  // families 1 and 2: one shard per layout
      d.push_back(1 + (shard - n0) / P.NL);
      d.push_back((shard - n0) % P.NL);
      return d;
    }
    int x = shard;
    int props = x % P.NPR;
    x /= P.NPR;
    int name = x % 2;
    x /= 2;
    int pat = x % P.NP;
    x /= P.NP;
    int lay = x % P.NL;
    x /= P.NL;
    int hdr = x;
    d.push_back(0);
    d.push_back(hdr);
    d.push_back(lay);
    d.push_back(pat);
    d.push_back(name);
    d.push_back(props);
    return d;
  }
};
static TreeShards tree_shards(const c16::Params &P)
{
  TreeShards t;
  t.P = P;
  t.n0 = P.NH * P.NL * P.NP * 2 * P.NPR;
  return t;
}

static void trees_shard(const TreeShards &ts, int shard, long long resume_after)
{
  shard_begin(shard, resume_after);
  open_worker_file("t" + std::to_string(shard));
  c16::Choices c;
  c.digit = ts.prefix(shard);
  c.bound.assign(c.digit.size(), 0);
  c.frozen = c.digit.size();
  c16::Gen g(c, ts.P, 0);
  long long index = 0;
  do {
    bool ok = g.run();
    if (c.bad) {
      fprintf(stderr, "internal: bad choice prefix in shard %d\n", shard);
      _exit(5);
    }
    long long i = index++;
    if (ok && i > resume_after && !g_stop)
      tree_case(i, c, g);
  } while (!g_stop && c.next());
  close_worker_file();
}

// ------------------------------------------------------------------------------ (iii) mutations
struct BaseDoc
{
  std::string bytes, choices;
};
static const int DOCS_PER_SHARD = 32;

static void mutations_shard(const std::vector<BaseDoc> &docs, size_t B2, int shard, long long resume_after)
{
  shard_begin(shard, resume_after);
  open_worker_file("m" + std::to_string(shard));
  size_t lo = (size_t)shard * DOCS_PER_SHARD, hi = std::min(docs.size(), lo + DOCS_PER_SHARD);
  for (size_t j = lo; j < hi && !g_stop; j++) {
    const std::string &d = docs[j].bytes;
    long long base = (long long)(j - lo) * 8192;
    if (base + 8191 <= resume_after)
      continue;
    if (resume_after < base)
      cnt(C_DOCS);
    size_t n = d.size();
    for (size_t t = 0; t < n && !g_stop; t++) {
      long long i = base + (long long)t;
      if (i <= resume_after)
        continue;
      std::string m = d.substr(0, t);
      totality_case(i, m, "bytes:" + c16::enc(m) + "@T" + std::to_string(t) + ":" + docs[j].choices,
          "(truncation to " + std::to_string(t) + " bytes of document tree:" + docs[j].choices + ")");
    }
    std::string m = d;
    for (size_t p = 0; p < n && !g_stop; p++) {
      for (size_t ci = 0; ci < SIGMA_SUB.size(); ci++) {
        long long i = base + (long long)(n + p * SIGMA_SUB.size() + ci);
        if (SIGMA_SUB[ci] == d[p] || i <= resume_after)
          continue;
        m[p] = SIGMA_SUB[ci];
        totality_case(i, m, "bytes:" + c16::enc(m) + "@S" + std::to_string(p) + ":" + docs[j].choices,
            "(byte " + std::to_string(p) + " of document tree:" + docs[j].choices + " replaced by '" + c16::enc(std::string(1, SIGMA_SUB[ci])) + "')");
      }
      m[p] = d[p];
    }
    // truncation whose last byte is replaced (a cut-off file with a damaged tail), short documents only
    if (n <= B2)
      for (size_t t = 1; t < n && !g_stop; t++) {
        std::string m2 = d.substr(0, t);
        for (size_t ci = 0; ci < SIGMA_SUB.size(); ci++) {
          long long i = base + (long long)(n + n * SIGMA_SUB.size() + (t - 1) * SIGMA_SUB.size() + ci);
          if (SIGMA_SUB[ci] == d[t - 1] || i <= resume_after)
            continue;
          m2[t - 1] = SIGMA_SUB[ci];
          totality_case(i, m2, "bytes:" + c16::enc(m2) + "@TS" + std::to_string(t) + ":" + docs[j].choices,
              "(truncation to " + std::to_string(t) + " bytes of document tree:" + docs[j].choices + " with the last byte replaced by '" + c16::enc(std::string(1, SIGMA_SUB[ci])) + "')");
        }
      }
  }
  close_worker_file();
}

// ------------------------------------------------------------------------------ replay
static int replay_one(const std::string &r)
{
  mkdir(g_dir.c_str(), 0700);
  open_worker_file("replay");
  size_t c = r.find(':');
  std::string kind = r.substr(0, c), arg = c == std::string::npos ? "" : r.substr(c + 1);
  if (kind == "bytes") {
    size_t at = arg.find('@');
    if (at != std::string::npos) {
      printf("provenance: %s\n", arg.substr(at + 1).c_str());
      arg = arg.substr(0, at);
    }
    totality_case(0, c16::dec(arg), r, "");
  } else if (kind == "tree") {
    c16::Choices ch = c16::Choices::parse(arg);
    c16::Gen g(ch, c16::params_max(), 0);
    g.run();
    if (ch.bad || ch.pos != ch.digit.size()) {
      printf("invalid choice sequence '%s'\n", arg.c_str());
      close_worker_file();
      return 2;
    }
    tree_case(0, ch, g);
  } else {
    printf("unknown replay kind '%s' (bytes:<%%XX-encoded bytes>[@provenance] | tree:<choices>)\n", kind.c_str());
    close_worker_file();
    return 2;
  }
  close_worker_file();
  vr::flush();
  return vr::S().viols.empty() ? 0 : 1;
}

// ------------------------------------------------------------------------------ driver
int main(int argc, char **argv)
{
  vr::init(argc, argv);
  std::string part = "bytes";
  int maxbytes = -1;
  for (int i = 1; i + 1 < argc; i++) {
    if (std::string(argv[i]) == "--part")
      part = argv[i + 1];
    if (std::string(argv[i]) == "--max-bytes")
      maxbytes = atoi(argv[i + 1]);
  }
  g_mainpid = getpid();
  g_dir = "/dev/shm/verif-" + std::to_string((int)g_mainpid);
  atexit(on_exit_cleanup);
  signal(SIGTERM, on_signal);
  signal(SIGINT, on_signal);
  G = (Shm *)mmap(nullptr, sizeof(Shm), PROT_READ | PROT_WRITE, MAP_SHARED | MAP_ANONYMOUS, -1, 0);
  if (G == MAP_FAILED) {
    perror("mmap");
    return 3;
  }
  if (vr::replaying()) {
    // the case runs in a child so that the scratch directory is removed even when the sanitizer
    // aborts the process; the child's report goes to the same stdout/stderr
    fflush(stdout);
    pid_t pid = fork();
    if (pid == 0) {
      alarm(10);
      int rc = replay_one(vr::S().replay);
      fflush(stdout);
      _exit(rc);
    }
    int status = 0;
    while (waitpid(pid, &status, 0) < 0 && errno == EINTR) {
    }
    remove_dir();
    if (WIFSIGNALED(status)) {
      printf("replayed case died: signal %d (%s)\n", WTERMSIG(status), strsignal(WTERMSIG(status)));
      return 1;
    }
    if (WEXITSTATUS(status) == 86)
      printf("replayed case died: sanitizer report above; want: a returned document or std::runtime_error\n");
    return WEXITSTATUS(status);
  }
  // the parser prints a warning on std::cout for documents that end inside an open element
  std::cout.rdbuf(nullptr);
  g_fastdie = true;
  mkdir(g_dir.c_str(), 0700);
  const bool th = vr::thorough();
  if (part == "bytes") {
    const int L = maxbytes > 0 ? maxbytes : th ? 7 : 6;
    const int NS = (int)SIGMA.size();
    vr::run_sharded(NS * NS + 1, [&](int shard, long long resume) { bytes_shard(shard, resume, L); });
    vr::sample("(i) every byte string of length <= " + std::to_string(L) + " over the 12 symbols " + SIGMA + ", e.g. '<a a=\"' '<!-->' '<a/>' '</a' '<?a?>'");
  } else if (part == "trees") {
    TreeShards ts = tree_shards(th ? c16::params_thorough() : c16::params_quick());
    vr::run_sharded(ts.total(), [&](int shard, long long resume) { trees_shard(ts, shard, resume); });
  } else if (part == "mutations") {
    const size_t B = maxbytes > 0 ? (size_t)maxbytes : th ? 60 : 34;
    std::vector<BaseDoc> docs;
    {
      c16::Choices c;
      c.digit.push_back(0);
      c.bound.push_back(2);
      c.frozen = 1;
      c16::Gen g(c, c16::params_mutbase(), B);
      do {
        if (g.run()) {
          BaseDoc b;
          b.bytes = g.doc;
          b.choices = c.str();
          docs.push_back(b);
        }
      } while (c.next());
    }
    vr::stat("base_documents", (long long)docs.size());
    int nshards = (int)((docs.size() + DOCS_PER_SHARD - 1) / DOCS_PER_SHARD);
    const size_t B2 = th ? 36 : 24;
    vr::run_sharded(nshards, [&](int shard, long long resume) { mutations_shard(docs, B2, shard, resume); });
    vr::sample("(iii) " + std::to_string(docs.size()) + " documents of the tree space with <= " + std::to_string(B) +
        " bytes, each: every truncation + every byte replaced by every other one of the 12 symbols, \\t \\n \\r \\v \\f and 0x80 0xC3 0xFF (+ for documents <= " + std::to_string(B2) +
        " bytes: every truncation with its last byte replaced); e.g. base '" + (docs.empty() ? "" : docs[docs.size() / 2].bytes) + "'");
  } else {
    printf("unknown --part %s\n", part.c_str());
    return 3;
  }
  // merge the shared accumulators
  for (int k = 0; k < NCNT; k++) {
    long long v = G->cnt[k].load();
    if (k == C_MAXLEN)
      vr::stat("max_document_bytes", v);
    else if (v || k <= C_THREW)
      vr::stat(CNT_NAME[k], v);
  }
  // cases that died under run_sharded are counted there ("crashed_cases") and were counted as states at begin
  vr::stat("traces", G->cnt[C_STATES].load());
  for (size_t i = 0; i < OUT_N; i++) {
    uint64_t h = G->out[i].load(std::memory_order_relaxed);
    if (h)
      vr::outcome(h);
  }
  for (int i = 0; i < G->nv; i++) {
    vr::violation(G->v[i].sig, G->v[i].replay, G->v[i].detail);
    if (G->v[i].count > 1)
      vr::S().viol_counts[G->v[i].sig] += G->v[i].count - 1;
  }
  for (int k = 0; k < 2; k++)
    if (G->obs_taken[k].load())
      vr::note(std::string("observation (text with \\v or \\f at an end; leading blanks are skipped with isWhite, trailing ones with isspace; only totality is judged): ") + G->obs[k]);
  if (G->sandbox.load())
    vr::note("a shard died on an input with an unclosed-quoted-value shape; from then on the inputs of that shape class ran in a per-case forked sandbox (" +
        std::to_string(G->cnt[C_SANDBOXED].load()) + " cases)");
  if (G->capped.load())
    vr::capped("part " + part + ": deadline passed, enumeration stopped early after " + std::to_string(G->cnt[C_STATES].load()) + " cases");
  remove_dir();
  return vr::finish();
}
