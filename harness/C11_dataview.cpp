// C11 unit "dataview": DataView<T>[i] reads exactly the element at byte offset i*stride.
//
// Histories over {default construct, construct(data,stride), construct(data), reset(data,stride),
// reset(data)} on one DataView and two heap blocks.  Every construct/reset operation first replaces
// the chosen block by a new one of exactly  offset + 3*stride + sizeof(T)  bytes (4 elements), filled
// with a fresh byte pattern, so ASan sees any access outside the 4 strided elements; the previous
// block of that slot is freed (a view that still pointed there is not read any more).
#include "C11_C15_seq.h"

#include "rkcommon/common.h"
#include "rkcommon/utility/DataView.h"

using namespace rkcommon::utility;

struct P12
{
  float x, y, z;
};

template <typename T>
struct TN;
template <>
struct TN<uint8_t>
{
  static const char *s() { return "u8"; }
};
template <>
struct TN<uint16_t>
{
  static const char *s() { return "u16"; }
};
template <>
struct TN<float>
{
  static const char *s() { return "f32"; }
};
template <>
struct TN<double>
{
  static const char *s() { return "f64"; }
};
template <>
struct TN<P12>
{
  static const char *s() { return "p12"; }
};

enum Code
{
  D_DEF,
  D_CTOR,
  D_CTOR_DEFSTRIDE,
  D_RESET,
  D_RESET_DEFSTRIDE,
  B_REPLACE  // replace a block without touching the view
};

struct Op
{
  Code code;
  int blk;
  size_t off, stride;
  std::string name, cls;
};

template <typename T>
static std::vector<size_t> strides()
{
  std::vector<size_t> v;
  if (sizeof(T) == 1) {
    for (size_t s = 0; s <= 4; s++)
      v.push_back(s);
    return v;
  }
  const size_t a = alignof(T), z = sizeof(T);
  size_t cand[6] = {0, a, z, z + a, 2 * z, 3 * z};
  for (size_t c : cand) {
    bool dup = false;
    for (size_t x : v)
      dup = dup || x == c;
    if (!dup)
      v.push_back(c);
  }
  return v;
}

template <typename T>
static const std::vector<Op> &OPS()
{
  static std::vector<Op> o;
  if (!o.empty())
    return o;
  auto add = [&](Code c, int blk, size_t off, size_t stride, const std::string &n, const std::string &cls) {
    Op x;
    x.code = c;
    x.blk = blk;
    x.off = off;
    x.stride = stride;
    x.name = n;
    x.cls = cls;
    o.push_back(x);
  };
  add(D_DEF, 0, 0, 0, "D = DataView()", "DataView()");
  const size_t offs[2] = {0, alignof(T)};
  for (int b = 0; b < 2; b++)
    for (size_t off : offs) {
      std::string at = "B" + std::to_string(b) + "+" + std::to_string(off);
      add(D_CTOR_DEFSTRIDE, b, off, sizeof(T), "D = DataView(" + at + ")", "DataView(data)");
      add(D_RESET_DEFSTRIDE, b, off, sizeof(T), "D.reset(" + at + ")", "reset(data)");
      for (size_t st : strides<T>()) {
        add(D_CTOR, b, off, st, "D = DataView(" + at + "," + std::to_string(st) + ")", "DataView(data,stride)");
        add(D_RESET, b, off, st, "D.reset(" + at + "," + std::to_string(st) + ")", "reset(data,stride)");
      }
    }
  add(B_REPLACE, 0, 0, 0, "free B0", "block freed");
  add(B_REPLACE, 1, 0, 0, "free B1", "block freed");
  return o;
}

template <typename T>
struct World
{
  DataView<T> *D = nullptr;
  unsigned char *blk[2];
  std::vector<unsigned char> mblk[2];  // model copy of the block bytes
  int gen[2];
  unsigned next = 1;
  // model of the view
  bool live = false, bound = false;
  int vb = 0, vgen = 0;
  size_t voff = 0, vstride = 0;

  World()
  {
    blk[0] = blk[1] = nullptr;
    gen[0] = gen[1] = 0;
  }
  ~World()
  {
    delete D;
    free(blk[0]);
    free(blk[1]);
  }

  void replace(int b, size_t bytes)
  {
    free(blk[b]);
    blk[b] = bytes ? (unsigned char *)malloc(bytes) : nullptr;
    mblk[b].assign(bytes, 0);
    for (size_t i = 0; i < bytes; i++) {
      unsigned char v = (unsigned char)(next * 37u + 11u);
      next++;
      blk[b][i] = v;
      mblk[b][i] = v;
    }
    gen[b]++;
  }

  bool apply(const Op &op)
  {
    switch (op.code) {
    case D_DEF:
      delete D;
      D = new DataView<T>();
      live = true;
      bound = false;
      return true;
    case B_REPLACE:
      if (!blk[op.blk])
        return false;
      replace(op.blk, 0);
      return true;
    case D_CTOR:
    case D_CTOR_DEFSTRIDE:
    case D_RESET:
    case D_RESET_DEFSTRIDE: {
      const bool is_reset = op.code == D_RESET || op.code == D_RESET_DEFSTRIDE;
      if (is_reset && !live)
        return false;
      replace(op.blk, op.off + 3 * op.stride + sizeof(T));
      const void *p = blk[op.blk] + op.off;
      if (op.code == D_CTOR) {
        delete D;
        D = new DataView<T>(p, op.stride);
      } else if (op.code == D_CTOR_DEFSTRIDE) {
        delete D;
        D = new DataView<T>(p);
      } else if (op.code == D_RESET)
        D->reset(p, op.stride);
      else
        D->reset(p);
      live = true;
      bound = true;
      vb = op.blk;
      vgen = gen[op.blk];
      voff = op.off;
      vstride = op.stride;
      return true;
    }
    }
    return false;
  }

  // returns true if violated
  bool check(const std::string &replay, bool verbose, uint64_t &digest)
  {
    bool bad = false;
    if (!live || !bound || gen[vb] != vgen) {
      if (verbose)
        printf("  view %s\n", !live ? "not constructed" : !bound ? "default constructed: nothing to read" : "points at a freed block: not read");
      digest = vr::fnv("idle", 4, digest);
      return false;
    }
    for (size_t i = 0; i < 4; i++) {
      const size_t byteoff = voff + i * vstride;
      const T *want_addr = (const T *)(blk[vb] + byteoff);
      const T *got_addr = &(*D)[i];
      bool addr_ok = got_addr == want_addr;
      bool val_ok = true;
      if (addr_ok) {
        T got = (*D)[i];
        val_ok = memcmp(&got, &mblk[vb][byteoff], sizeof(T)) == 0;
      }
      if (verbose)
        printf("  D[%zu]: address is block+%lld want block+%zu; value %s\n", i, (long long)((const unsigned char *)got_addr - blk[vb]), byteoff, !addr_ok ? "(not read)" : val_ok ? "equal to the model bytes" : "DIFFERS from the model bytes");
      if (!addr_ok || !val_ok) {
        bad = true;
        std::string cls = vstride == sizeof(T) ? "packed stride" : vstride == 0 ? "stride 0" : vstride < sizeof(T) ? "overlapping stride" : "padded stride";
        sq::viol(std::string("DataView|operator[]|") + (addr_ok ? "value differs from the bytes at i*stride" : "address is not base + i*stride") + "|" + cls, replay,
            "D[" + std::to_string(i) + "] with offset " + std::to_string(voff) + " stride " + std::to_string(vstride) + " sizeof(T) " + std::to_string(sizeof(T)) + ": address block+"
                + std::to_string((long long)((const unsigned char *)got_addr - blk[vb])) + " want block+" + std::to_string(byteoff));
        break;
      }
    }
    uint64_t k[3] = {(uint64_t)voff, (uint64_t)vstride, (uint64_t)sizeof(T)};
    digest = vr::fnv(k, sizeof k, digest);
    return bad;
  }
};

template <typename T>
static int run_history(const std::vector<int> &h, const std::string &replay, bool verbose)
{
  World<T> w;
  const std::vector<Op> &ops = OPS<T>();
  for (size_t i = 0; i < h.size(); i++) {
    if (verbose)
      printf("op %zu: %s\n", i, ops[h[i]].name.c_str());
    if (!w.apply(ops[h[i]])) {
      if (verbose)
        printf("  (operation not enabled in this state)\n");
      return sq::H_DISABLED;
    }
    if (verbose || i + 1 == h.size()) {
      uint64_t digest = vr::fnv(&ops[h[i]].code, sizeof(Code));
      bool bad = w.check(replay, verbose, digest);
      if (i + 1 == h.size()) {
        sq::stat("states");
        sq::stat("traces");
        sq::stat("transitions", (long long)h.size());
        sq::stat("max_depth", (long long)h.size());
        sq::outcome(digest);
        if (h.size() >= 2 && vr::S().samples.size() < 6 && (h[0] + h[1]) % 11 == 3)
          sq::sample(replay + " = " + ops[h[0]].name + "; " + ops[h[1]].name + (h.size() > 2 ? "; ..." : ""));
      }
      if (bad)
        return sq::H_VIOL;
    }
  }
  if (h.empty()) {
    sq::stat("states");
    sq::stat("traces");
  }
  return sq::H_OK;
}

template <typename T>
static void explore(int depth)
{
  const std::string tag = std::string("dataview/") + TN<T>::s();
  const int A = (int)OPS<T>().size();
  sq::explore_tree(
      tag, A, depth, 32, [](const std::vector<int> &h, const std::string &rp) { return run_history<T>(h, rp, false); },
      [](const std::vector<int> &h) { return "DataView|crash during " + (h.empty() ? std::string("setup") : OPS<T>()[h.back()].cls); });
  vr::note(tag + ": alphabet " + std::to_string(A) + " operations, depth " + std::to_string(depth));
}

template <typename T>
static int replay_one(const std::string &r, const std::vector<int> &h)
{
  for (int x : h)
    if (x < 0 || x >= (int)OPS<T>().size()) {
      printf("bad op index %d\n", x);
      return sq::H_DISABLED;
    }
  return run_history<T>(h, r, true);
}

int main(int argc, char **argv)
{
  vr::init(argc, argv);
  if (vr::replaying()) {
    std::string r = vr::S().replay;
    size_t c = r.find(':');
    std::string tag = r.substr(0, c);
    std::vector<int> h = sq::parse_ops(r.substr(c + 1));
    int res;
    if (tag == "dataview/u8")
      res = replay_one<uint8_t>(r, h);
    else if (tag == "dataview/u16")
      res = replay_one<uint16_t>(r, h);
    else if (tag == "dataview/f32")
      res = replay_one<float>(r, h);
    else if (tag == "dataview/f64")
      res = replay_one<double>(r, h);
    else
      res = replay_one<P12>(r, h);
    printf("result: %s\n", res == sq::H_OK ? "ok" : res == sq::H_DISABLED ? "history not enabled" : "VIOLATION");
    vr::flush();
    return vr::S().viols.empty() ? 0 : 1;
  }
  sq::make_scratch();
  const int d = vr::thorough() ? 4 : 3;
  explore<uint8_t>(d);
  explore<uint16_t>(d);
  explore<float>(d);
  explore<double>(d);
  explore<P12>(d);
  sq::remove_scratch();
  return vr::finish();
}
