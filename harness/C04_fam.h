// C04 operation families.  Every body enumerates one overload family for one element type (pair)
// and one shape (pair); the oracle is the scalar definition written out on built-in scalars and
// applied to the components read from the data members.
#pragma once
#include "C04_core.h"

namespace c04 {

template <bool OK>
struct If
{
  template <class B>
  static void add(Reg &r, const std::string &n, int set)
  {
    c04::add<B>(r, n, set);
  }
};
template <>
struct If<false>
{
  template <class B>
  static void add(Reg &, const std::string &, int)
  {
  }
};

template <class V, int N = VT<V>::N>
struct Ctor;
template <class V>
struct Ctor<V, 2>
{
  static V go(const typename VT<V>::E *p)
  {
    return V(p[0], p[1]);
  }
};
template <class V>
struct Ctor<V, 3>
{
  static V go(const typename VT<V>::E *p)
  {
    return V(p[0], p[1], p[2]);
  }
};
template <class V>
struct Ctor<V, 4>
{
  static V go(const typename VT<V>::E *p)
  {
    return V(p[0], p[1], p[2], p[3]);
  }
};

// ------------------------------------------------------------------ scalar operators
#define C04_OP(NAME, TXT, SYM, INTONLY, ISDIV)                                   \
  struct NAME                                                                    \
  {                                                                              \
    enum                                                                         \
    {                                                                            \
      int_only = INTONLY                                                         \
    };                                                                           \
    static const char *n()                                                       \
    {                                                                            \
      return TXT;                                                                \
    }                                                                            \
    /* scalar definition in type P, false = outside the domain */                \
    template <class P>                                                           \
    static bool ev(P a, P b, P &o)                                               \
    {                                                                            \
      return ev_<P>(a, b, o, std::integral_constant<bool, ISDIV>());             \
    }                                                                            \
    template <class P>                                                           \
    static bool ev_(P a, P b, P &o, std::false_type)                             \
    {                                                                            \
      Chk<P> r = Chk<P>(a) SYM Chk<P>(b);                                        \
      o = r.v;                                                                   \
      return r.ok;                                                               \
    }                                                                            \
    template <class P>                                                           \
    static bool ev_(P a, P b, P &o, std::true_type)                              \
    {                                                                            \
      if (!div_ok<P>(a, b))                                                      \
        return false;                                                            \
      o = a SYM b;                                                               \
      return true;                                                               \
    }                                                                            \
    template <class X, class Y>                                                  \
    static auto ap(const X &x, const Y &y) -> decltype(x SYM y)                  \
    {                                                                            \
      return x SYM y;                                                            \
    }                                                                            \
    template <class X, class Y>                                                  \
    static X &as(X &x, const Y &y)                                               \
    {                                                                            \
      return x SYM## = y;                                                        \
    }                                                                            \
  };
// Chk has no / and %, the ISDIV variants never touch it; give Chk dummies so the dead branch parses
template <class P, bool S>
inline Chk<P, S> operator/(Chk<P, S> a, Chk<P, S>)
{
  return a;
}
template <class P, bool S>
inline Chk<P, S> operator%(Chk<P, S> a, Chk<P, S>)
{
  return a;
}
C04_OP(OAdd, "operator+", +, 0, false)
C04_OP(OSub, "operator-", -, 0, false)
C04_OP(OMul, "operator*", *, 0, false)
C04_OP(ODiv, "operator/", /, 0, true)
C04_OP(OMod, "operator%", %, 1, true)
#undef C04_OP

template <class Op, class T, class U>
struct OpOK
{
  static const bool value = !Op::int_only || (std::is_integral<T>::value && std::is_integral<U>::value);
};

// ------------------------------------------------------------------ helpers for sums
// sum/product of n terms: integral -> checked in the promoted type, converted to T;
// floating -> long double with a forward-error allowance (order independent)
template <class T, bool FP = is_fp<T>::value>
struct Red;
template <class T>
struct Red<T, false>
{
  typedef decltype(T() + T()) P;
  static void sum(Ctx &c, const T *t, int n, T got)
  {
    Chk<P> s(t[0]);
    for (int i = 1; i < n; i++)
      s = s + Chk<P>(t[i]);
    if (!s.ok)
      return c.skip();
    c.res(-1, got, T(s.v));
  }
  static void prod(Ctx &c, const T *t, int n, T got)
  {
    Chk<P> s(t[0]);
    for (int i = 1; i < n; i++)
      s = s * Chk<P>(t[i]);
    if (!s.ok)
      return c.skip();
    c.res(-1, got, T(s.v));
  }
  // sum of products a[i]*b[i]
  static bool dotv(const T *a, const T *b, int n, T &out)
  {
    Chk<P> s = Chk<P>(a[0]) * Chk<P>(b[0]);
    for (int i = 1; i < n; i++)
      s = s + Chk<P>(a[i]) * Chk<P>(b[i]);
    out = T(s.v);
    return s.ok;
  }
  static void dot(Ctx &c, const T *a, const T *b, int n, T got)
  {
    T w;
    if (!dotv(a, b, n, w))
      return c.skip();
    c.res(-1, got, w);
  }
  // p*q - r*s
  static void det(Ctx &c, int i, T p, T q, T r, T s, T got)
  {
    Chk<P> d = Chk<P>(p) * Chk<P>(q) - Chk<P>(r) * Chk<P>(s);
    if (!d.ok)
      return c.skip();
    c.res(i, got, T(d.v));
  }
  // p*q + r*s + t*u
  static void lin3(Ctx &c, int i, T p, T q, T r, T s, T t, T u, T got)
  {
    Chk<P> d = Chk<P>(p) * Chk<P>(q) + Chk<P>(r) * Chk<P>(s) + Chk<P>(t) * Chk<P>(u);
    if (!d.ok)
      return c.skip();
    c.res(i, got, T(d.v));
  }
};
template <class T>
struct Red<T, true>
{
  enum
  {
    ULPS = 4
  };
  static void sum(Ctx &c, const T *t, int n, T got)
  {
    if (c.set)
      return c.skip();
    long double s = 0, m = 0;
    for (int i = 0; i < n; i++) {
      s += t[i];
      m += std::fabs((long double)t[i]);
    }
    c.resx(-1, close<T>(got, s, m, ULPS), got, s);
  }
  static void prod(Ctx &c, const T *t, int n, T got)
  {
    if (c.set)
      return c.skip();
    long double s = 1;
    for (int i = 0; i < n; i++)
      s *= t[i];
    c.resx(-1, close<T>(got, s, s, ULPS), got, s);
  }
  static void dot(Ctx &c, const T *a, const T *b, int n, T got)
  {
    if (c.set)
      return c.skip();
    long double s = 0, m = 0;
    for (int i = 0; i < n; i++) {
      long double p = (long double)a[i] * b[i];
      s += p;
      m += std::fabs(p);
    }
    c.resx(-1, close<T>(got, s, m, ULPS), got, s);
  }
  static void det(Ctx &c, int i, T p, T q, T r, T s, T got)
  {
    if (c.set)
      return c.skip();
    long double x = (long double)p * q, y = (long double)r * s;
    c.resx(i, close<T>(got, x - y, std::fabs(x) + std::fabs(y), ULPS), got, x - y);
  }
  static void lin3(Ctx &c, int i, T p, T q, T r, T s, T t, T u, T got)
  {
    if (c.set)
      return c.skip();
    long double x = (long double)p * q, y = (long double)r * s, z = (long double)t * u;
    c.resx(i, close<T>(got, x + y + z, std::fabs(x) + std::fabs(y) + std::fabs(z), ULPS), got, x + y + z);
  }
};

template <class T>
inline bool finite_all(const T *a, int n)
{
  for (int i = 0; i < n; i++)
    if (!(std::fabs((long double)a[i]) <= (long double)std::numeric_limits<T>::max()))
      return false;
  return true;
}

// ------------------------------------------------------------------ float-only unary families
template <class T, class V, bool FP = is_fp<T>::value>
struct FpOnly
{
  static void go(Ctx &, const T *, const V &) {}
};
template <class T, class V>
struct FpOnly<T, V, true>
{
  enum
  {
    N = VT<V>::N
  };
  static void go(Ctx &c, const T *a, const V &v)
  {
    using namespace rkcommon::math;
    {
      c.part = "rcp";  // lifting of the scalar rcp, exactly
      auto r = rcp(v);
      static_assert(std::is_same<decltype(r), V>::value, "rcp type");
      for (int i = 0; i < N; i++)
        c.res(i, comp(r, i), rcp(a[i]));
      c.part = "rcp~1/x";
      for (int i = 0; i < N; i++) {
        if (a[i] == 0 || !finite_all(a + i, 1)) {
          c.skip();
          continue;
        }
        long double w = 1.0L / a[i];
        if (std::fabs(w) < (long double)std::numeric_limits<T>::min()) {  // subnormal quotient: no relative bound applies
          c.skip();
          continue;
        }
        c.resx(i, close<T>(comp(r, i), w, w, 4), comp(r, i), w);
      }
    }
    {
      c.part = "rcp_safe";
      auto r = rcp_safe(v);
      static_assert(std::is_same<decltype(r), V>::value, "rcp_safe type");
      for (int i = 0; i < N; i++)
        c.res(i, comp(r, i), rcp_safe(a[i]));
      c.part = "rcp_safe~1/x";
      for (int i = 0; i < N; i++) {
        if (!finite_all(a + i, 1)) {
          c.skip();
          continue;
        }
        long double mn = std::numeric_limits<T>::min();
        long double x = std::fabs((long double)a[i]) < mn ? mn : (long double)a[i];
        long double w = 1.0L / x;
        T g = comp(r, i);
        if (std::fabs(w) < mn) {
          c.skip();
          continue;
        }
        if (std::fabs((long double)a[i]) < mn)  // rcp_safe of (+-)0 may have either sign
          c.resx(i, close<T>(std::fabs(g), w, w, 4), g, w);
        else
          c.resx(i, close<T>(g, w, w, 4), g, w);
      }
    }
    if (c.set == 0) {
      long double d = 0;
      for (int i = 0; i < N; i++)
        d += (long double)a[i] * a[i];
      const bool fin = finite_all(a, N);
      c.part = "normalize";
      if (!fin || d == 0)
        c.skip();
      else {
        auto r = normalize(v);
        static_assert(std::is_same<decltype(r), V>::value, "normalize type");
        for (int i = 0; i < N; i++) {
          long double w = a[i] / sqrtl(d);
          c.resx(i, close<T>(comp(r, i), w, w, 4), comp(r, i), w);
        }
      }
      c.part = "safe_normalize";
      if (!fin)
        c.skip();
      else {
        auto r = safe_normalize(v);
        static_assert(std::is_same<decltype(r), V>::value, "safe_normalize type");
        long double e = std::numeric_limits<T>::epsilon();
        long double dd = d > e ? d : e;
        for (int i = 0; i < N; i++) {
          long double w = a[i] / sqrtl(dd);
          c.resx(i, close<T>(comp(r, i), w, w, 4), comp(r, i), w);
        }
      }
    }
  }
};

// abs: std::abs has no unambiguous overload for every unsigned type
template <class T>
struct HasAbs
{
  static const bool value = !std::is_unsigned<T>::value || (sizeof(T) < sizeof(int));
};
template <class T, class V, bool OK = HasAbs<T>::value>
struct AbsFam
{
  static void go(Ctx &, const T *, const V &) {}
};
template <class T, class V>
struct AbsFam<T, V, true>
{
  static void go(Ctx &c, const T *a, const V &v)
  {
    typedef decltype(+T()) P;
    c.part = "abs";
    bool dom = true;
    for (int i = 0; i < VT<V>::N; i++)
      if (is_si<P>::value && P(a[i]) == std::numeric_limits<P>::min())
        dom = false;  // abs(min) overflows
    if (!dom)
      return c.skip();
    auto r = abs(v);
    static_assert(std::is_same<decltype(r), V>::value, "abs type");
    for (int i = 0; i < VT<V>::N; i++)
      c.res(i, comp(r, i), T(a[i] < 0 ? -a[i] : (a[i] == 0 ? T(0) : a[i])));
  }
};

// arg_max exists for unpadded vectors only
template <class T, class V, bool UNP = !VT<V>::P>
struct ArgMax
{
  static void go(Ctx &, const T *, const V &) {}
};
template <class T, class V>
struct ArgMax<T, V, true>
{
  static void go(Ctx &c, const T *a, const V &v)
  {
    c.part = "arg_max";
    size_t w = 0;
    for (int i = 1; i < VT<V>::N; i++)
      if (a[i] > a[w])
        w = i;
    c.resx(-1, arg_max(v) == w, arg_max(v), w);
  }
};
// padded -> unpadded conversion operator
template <class T, class V, bool PAD = VT<V>::P>
struct ToUnpadded
{
  static void go(Ctx &, const T *, const V &) {}
};
template <class T, class V>
struct ToUnpadded<T, V, true>
{
  static void go(Ctx &c, const T *a, const V &v)
  {
    c.part = "operator vec_t<T,3>()";
    vec_t<T, 3> r = v.operator vec_t<T, 3>();
    for (int i = 0; i < 3; i++)
      c.res(i, comp(r, i), a[i]);
  }
};

// ------------------------------------------------------------------ one vector operand
template <class T, int S>
struct Vec1
{
  typedef typename Sh<T, S>::V V;
  typedef decltype(T() + T()) P;
  enum
  {
    N = VT<V>::N,
    K = N
  };
  static void check(const int *d, Ctx &c)
  {
    using namespace rkcommon::math;
    T a[N], rev[N];
    load(c, d, N, a);
    for (int i = 0; i < N; i++)
      rev[i] = a[N - 1 - i];
    const V v = mk<V>(a);
    {
      c.part = "ctor(x,y,..)";
      V r = Ctor<V>::go(a);
      for (int i = 0; i < N; i++)
        c.res(i, comp(r, i), a[i]);
    }
    {
      c.part = "ctor(const T*)";
      V r((const T *)a);
      for (int i = 0; i < N; i++)
        c.res(i, comp(r, i), a[i]);
    }
    {
      c.part = "ctor(T s)";
      V r(a[N - 1]);
      for (int i = 0; i < N; i++)
        c.res(i, comp(r, i), a[N - 1]);
    }
    {
      c.part = "copy";
      V r(v);
      V q = mk<V>(rev);
      q = v;
      for (int i = 0; i < N; i++) {
        c.res(i, comp(r, i), a[i]);
        c.res(i, comp(q, i), a[i]);
      }
    }
    {
      c.part = "operator[] const";
      for (int i = 0; i < N; i++) {
        c.res(i, v[(size_t)i], a[i]);
        c.resx(i, &v[(size_t)i] == &comp(v, i), 0, 0);
      }
      c.part = "operator[]";
      for (int j = 0; j < N; j++) {  // one store changes exactly that component
        V w = mk<V>(rev);
        w[(size_t)j] = a[j];
        for (int i = 0; i < N; i++)
          c.res(i, comp(w, i), i == j ? a[i] : rev[i]);
      }
    }
    {
      c.part = "operator const T*";
      const T *p = v;
      for (int i = 0; i < N; i++)
        c.res(i, p[i], a[i]);
      c.resx(0, p == &v.x, 0, 0);
      c.part = "operator T*";
      for (int j = 0; j < N; j++) {
        V w = mk<V>(rev);
        T *q = w;
        q[j] = a[j];
        for (int i = 0; i < N; i++)
          c.res(i, comp(w, i), i == j ? a[i] : rev[i]);
      }
    }
    c.part = "sum()";
    Red<T>::sum(c, a, N, v.sum());
    c.part = "reduce_add";
    Red<T>::sum(c, a, N, reduce_add(v));
    c.part = "product()";
    Red<T>::prod(c, a, N, v.product());
    c.part = "reduce_mul";
    Red<T>::prod(c, a, N, reduce_mul(v));
    {
      c.part = "long_product()";
      bool dom = true;
      size_t w = 1;
      for (int i = 0; i < N; i++) {
        if (!conv_ok<size_t>(a[i]) || (is_fp<T>::value && a[i] < 0))
          dom = false;
        else
          w *= (size_t)a[i];
      }
      if (!dom)
        c.skip();
      else
        c.resx(-1, v.long_product() == w, v.long_product(), w);
    }
    {
      T mn = a[0], mx = a[0];
      for (int i = 1; i < N; i++) {
        if (a[i] < mn)
          mn = a[i];
        if (a[i] > mx)
          mx = a[i];
      }
      c.part = "reduce_min";
      c.res(-1, reduce_min(v), mn);
      c.part = "reduce_max";
      c.res(-1, reduce_max(v), mx);
    }
    ArgMax<T, V>::go(c, a, v);
    ToUnpadded<T, V>::go(c, a, v);
    {
      c.part = "operator<<";
      std::ostringstream o;
      o << v;
      std::string w = "(";
      for (int i = 0; i < N; i++) {
        std::ostringstream e;
        e << a[i];
        w += (i ? "," : "") + e.str();
      }
      w += ")";
      c.ress(o.str() == w, o.str(), w);
    }
    {
      c.part = "unary -";
      bool dom = true;
      for (int i = 0; i < N; i++)
        if (!(Chk<P>(P(0)) - Chk<P>(P(a[i]))).ok)
          dom = false;
      if (!dom)
        c.skip();
      else {
        auto r = -v;
        static_assert(std::is_same<decltype(r), V>::value, "unary - type");
        for (int i = 0; i < N; i++)
          c.res(i, comp(r, i), T(-a[i]));
      }
      c.part = "unary +";
      auto r = +v;
      static_assert(std::is_same<decltype(r), V>::value, "unary + type");
      for (int i = 0; i < N; i++)
        c.res(i, comp(r, i), T(+a[i]));
    }
    AbsFam<T, V>::go(c, a, v);
    {
      c.part = "sin";
      auto r = sin(v);
      static_assert(std::is_same<decltype(r), V>::value, "sin type");
      for (int i = 0; i < N; i++) {
        if (!conv_ok<T>(std::sin(a[i])))
          c.skip();
        else
          c.res(i, comp(r, i), T(std::sin(a[i])));
      }
      c.part = "cos";
      auto q = cos(v);
      for (int i = 0; i < N; i++) {
        if (!conv_ok<T>(std::cos(a[i])))
          c.skip();
        else
          c.res(i, comp(q, i), T(std::cos(a[i])));
      }
    }
    {
      c.part = "length";
      lengthpart(c, a, v, std::integral_constant<bool, is_fp<T>::value>());
    }
    FpOnly<T, V>::go(c, a, v);
  }
  static void lengthpart(Ctx &c, const T *a, const V &v, std::false_type)
  {
    T dd;
    if (!Red<T>::dotv(a, a, N, dd))
      return c.skip();
    auto s = std::sqrt(dd);  // integral argument: the double overload
    if (!conv_ok<T>(s))
      return c.skip();
    c.res(-1, length(v), T(s));
  }
  static void lengthpart(Ctx &c, const T *a, const V &v, std::true_type)
  {
    if (c.set)
      return c.skip();
    long double dd = 0;
    for (int i = 0; i < N; i++)
      dd += (long double)a[i] * a[i];
    long double w = sqrtl(dd);
    c.resx(-1, close<T>(length(v), w, w, 4), length(v), w);
  }
};

// ------------------------------------------------------------------ two vector operands, same T
template <class T, class VA, class VB, int N = VT<VA>::N>
struct CrossFam
{
  static void go(Ctx &, const T *, const T *, const VA &, const VB &) {}
};
template <class T, class VA, class VB>
struct CrossFam<T, VA, VB, 3>
{
  static void go(Ctx &c, const T *a, const T *b, const VA &va, const VB &vb)
  {
    c.part = "cross";
    auto r = cross(va, vb);
    static_assert(std::is_same<decltype(r), vec_t<T, 3>>::value, "cross type");
    Red<T>::det(c, 0, a[1], b[2], a[2], b[1], r.x);
    Red<T>::det(c, 1, a[2], b[0], a[0], b[2], r.y);
    Red<T>::det(c, 2, a[0], b[1], a[1], b[0], r.z);
  }
};

template <class T, class VA, class VB>
struct PairCmp
{
  enum
  {
    N = VT<VA>::N,
    K = 2 * N
  };
  static void check(const int *d, Ctx &c)
  {
    T a[N], b[N];
    load(c, d, N, a);
    load(c, d + N, N, b);
    const VA va = mk<VA>(a);
    const VB vb = mk<VB>(b);
    bool eq = true, anylt = false;
    for (int i = 0; i < N; i++) {
      eq = eq && a[i] == b[i];
      anylt = anylt || a[i] < b[i];
    }
    c.part = "operator==";
    c.resb(va == vb, eq);
    c.part = "operator!=";
    c.resb(va != vb, !eq);
    c.part = "anyLessThan";
    c.resb(anyLessThan(va, vb), anylt);
    c.part = "dot";
    Red<T>::dot(c, a, b, N, dot(va, vb));
    CrossFam<T, VA, VB>::go(c, a, b, va, vb);
  }
};

template <class T, bool FP = is_fp<T>::value>
struct DivUp;
template <class T>
struct DivUp<T, false>
{
  typedef decltype(T() + T()) P;
  static bool ev(T a, T b, T &o)
  {
    Chk<P> s = Chk<P>(P(a)) + Chk<P>(P(b)) - Chk<P>(P(1));
    if (!s.ok || !div_ok<P>(s.v, P(b)))
      return false;
    o = T(s.v / P(b));
    return true;
  }
  static bool ok(T got, T want, T, T)
  {
    return got == want;
  }
};
template <class T>
struct DivUp<T, true>
{
  static bool ev(T a, T b, T &o)
  {
    if (b == 0)
      return false;
    o = T(((long double)a + (long double)b - 1) / (long double)b);
    return true;
  }
};

template <class T, int S>
struct PairFun
{
  typedef typename Sh<T, S>::V V;
  enum
  {
    N = VT<V>::N,
    K = 2 * N
  };
  static void check(const int *d, Ctx &c)
  {
    T a[N], b[N];
    load(c, d, N, a);
    load(c, d + N, N, b);
    const V va = mk<V>(a);
    const V vb = mk<V>(b);
    {
      c.part = "min";
      auto r = min(va, vb);
      static_assert(std::is_same<decltype(r), V>::value, "min type");
      for (int i = 0; i < N; i++)
        c.res(i, comp(r, i), a[i] < b[i] ? a[i] : b[i]);
      c.part = "max";
      auto q = max(va, vb);
      static_assert(std::is_same<decltype(q), V>::value, "max type");
      for (int i = 0; i < N; i++)
        c.res(i, comp(q, i), a[i] < b[i] ? b[i] : a[i]);
    }
    {
      c.part = "divRoundUp";
      T w[N];
      bool dom = !(is_fp<T>::value && c.set);
      for (int i = 0; i < N && dom; i++)
        dom = DivUp<T>::ev(a[i], b[i], w[i]);
      if (!dom)
        c.skip();
      else {
        auto r = divRoundUp(va, vb);
        static_assert(std::is_same<decltype(r), V>::value, "divRoundUp type");
        for (int i = 0; i < N; i++)
          divres(c, i, comp(r, i), w[i], a[i], b[i], std::integral_constant<bool, is_fp<T>::value>());
      }
    }
    {
      c.part = "std::less";
      bool w = false;
      for (int i = 0; i < N; i++) {
        if (a[i] < b[i]) {
          w = true;
          break;
        }
        if (!(a[i] == b[i]))
          break;
      }
      c.resb(std::less<V>()(va, vb), w);
    }
  }
  static void divres(Ctx &c, int i, T got, T want, T, T, std::false_type)
  {
    c.res(i, got, want);
  }
  static void divres(Ctx &c, int i, T got, T, T a, T b, std::true_type)
  {
    long double w = ((long double)a + (long double)b - 1) / (long double)b;
    long double m = (std::fabs((long double)a) + std::fabs((long double)b) + 1) / std::fabs((long double)b);
    c.resx(i, close<T>(got, w, m, 4), got, w);
  }
};

// ------------------------------------------------------------------ binary arithmetic, same T
template <class Op, class T, class VA, class VB>
struct BinVV
{
  typedef decltype(T() + T()) P;
  enum
  {
    N = VT<VA>::N,
    K = 2 * N
  };
  static void check(const int *d, Ctx &c)
  {
    T a[N], b[N];
    P w[N];
    load(c, d, N, a);
    load(c, d + N, N, b);
    c.part = Op::n();
    for (int i = 0; i < N; i++)
      if (!Op::template ev<P>(P(a[i]), P(b[i]), w[i]))
        return c.skip();
    const VA va = mk<VA>(a);
    const VB vb = mk<VB>(b);
    auto r = Op::ap(va, vb);
    static_assert(std::is_same<decltype(r), typename Unpad<VA>::V0>::value, "vec op vec type");
    for (int i = 0; i < N; i++)
      c.res(i, comp(r, i), T(w[i]));
  }
};
template <class Op, class T, int S, bool SCALAR_FIRST>
struct BinS
{
  typedef typename Sh<T, S>::V V;
  typedef decltype(T() + T()) P;
  enum
  {
    N = VT<V>::N,
    K = N + 1
  };
  static void check(const int *d, Ctx &c)
  {
    T a[N], s[1];
    P w[N];
    load(c, d, N, a);
    load(c, d + N, 1, s);
    c.part = Op::n();
    for (int i = 0; i < N; i++)
      if (!(SCALAR_FIRST ? Op::template ev<P>(P(s[0]), P(a[i]), w[i]) : Op::template ev<P>(P(a[i]), P(s[0]), w[i])))
        return c.skip();
    const V va = mk<V>(a);
    const T sc = s[0];
    go(c, va, sc, w, std::integral_constant<bool, SCALAR_FIRST>());
  }
  static void go(Ctx &c, const V &va, const T &sc, const P *w, std::false_type)
  {
    auto r = Op::ap(va, sc);
    static_assert(std::is_same<decltype(r), typename Unpad<V>::V0>::value, "vec op scalar type");
    for (int i = 0; i < N; i++)
      c.res(i, comp(r, i), T(w[i]));
  }
  static void go(Ctx &c, const V &va, const T &sc, const P *w, std::true_type)
  {
    auto r = Op::ap(sc, va);
    static_assert(std::is_same<decltype(r), typename Unpad<V>::V0>::value, "scalar op vec type");
    for (int i = 0; i < N; i++)
      c.res(i, comp(r, i), T(w[i]));
  }
};

// ------------------------------------------------------------------ binary arithmetic, mixed element types
// FORM 0: vec<T> op vec<U>, 1: vec<T> op U, 2: T op vec<U>
template <class Op, class T, class U, int S, int FORM>
struct Mix
{
  typedef decltype(Op::ap(T(), U())) R;  // the element type the overload declares
  typedef typename Sh<T, S>::V VT_;
  typedef typename Sh<U, S>::V VU_;
  typedef typename Sh<R, S>::V VR_;
  enum
  {
    N = VT<VT_>::N,
    K = FORM == 0 ? 2 * N : N + 1
  };
  static void check(const int *d, Ctx &c)
  {
    T a[N];
    U b[N];
    R w[N];
    c.part = Op::n();
    if (FORM == 0) {
      load(c, d, N, a);
      load(c, d + N, N, b);
    } else if (FORM == 1) {
      load(c, d, N, a);
      load(c, d + N, 1, b);
      for (int i = 1; i < N; i++)
        b[i] = b[0];
    } else {
      load(c, d + N, 1, a);
      load(c, d, N, b);
      for (int i = 1; i < N; i++)
        a[i] = a[0];
    }
    for (int i = 0; i < N; i++)
      if (!Op::template ev<R>(R(a[i]), R(b[i]), w[i]))
        return c.skip();
    go(c, a, b, w, std::integral_constant<int, FORM>());
  }
  static void fin(Ctx &c, const VR_ &r, const R *w)
  {
    for (int i = 0; i < N; i++)
      c.res(i, comp(r, i), w[i]);
  }
  static void go(Ctx &c, const T *a, const U *b, const R *w, std::integral_constant<int, 0>)
  {
    const VT_ va = mk<VT_>(a);
    const VU_ vb = mk<VU_>(b);
    auto r = Op::ap(va, vb);
    static_assert(std::is_same<decltype(r), VR_>::value, "vec<T> op vec<U> type");
    fin(c, r, w);
  }
  static void go(Ctx &c, const T *a, const U *b, const R *w, std::integral_constant<int, 1>)
  {
    const VT_ va = mk<VT_>(a);
    const U sb = b[0];
    auto r = Op::ap(va, sb);
    static_assert(std::is_same<decltype(r), VR_>::value, "vec<T> op U type");
    fin(c, r, w);
  }
  static void go(Ctx &c, const T *a, const U *b, const R *w, std::integral_constant<int, 2>)
  {
    const T sa = a[0];
    const VU_ vb = mk<VU_>(b);
    auto r = Op::ap(sa, vb);
    static_assert(std::is_same<decltype(r), VR_>::value, "T op vec<U> type");
    fin(c, r, w);
  }
};

// ------------------------------------------------------------------ compound assignment
// a op= b on scalars T, U: computed in the common type, converted back to T
template <class Op, class T, class U>
inline bool compound_scalar(T a, U b, T &out)
{
  typedef decltype(Op::ap(T(), U())) C;
  C w;
  if (!Op::template ev<C>(C(a), C(b), w))
    return false;
  if (!conv_ok<T>(w))
    return false;
  out = T(w);
  return true;
}
template <class Op, class T, class U, class VA, class VB>
struct CmpVV
{
  enum
  {
    N = VT<VA>::N,
    K = 2 * N
  };
  static void check(const int *d, Ctx &c)
  {
    T a[N], w[N];
    U b[N];
    load(c, d, N, a);
    load(c, d + N, N, b);
    c.part = Op::n();
    for (int i = 0; i < N; i++)
      if (!compound_scalar<Op>(a[i], b[i], w[i]))
        return c.skip();
    VA va = mk<VA>(a);
    const VB vb = mk<VB>(b);
    VA &r = Op::as(va, vb);
    for (int i = 0; i < N; i++)
      c.res(i, comp(va, i), w[i]);
    c.resx(-1, &r == &va, 0, 0);
  }
};
template <class Op, class T, class U, int S>
struct CmpVS
{
  typedef typename Sh<T, S>::V V;
  enum
  {
    N = VT<V>::N,
    K = N + 1
  };
  static void check(const int *d, Ctx &c)
  {
    T a[N], w[N];
    U b[1];
    load(c, d, N, a);
    load(c, d + N, 1, b);
    c.part = Op::n();
    for (int i = 0; i < N; i++)
      if (!compound_scalar<Op>(a[i], b[0], w[i]))
        return c.skip();
    V va = mk<V>(a);
    const U sb = b[0];
    V &r = Op::as(va, sb);
    for (int i = 0; i < N; i++)
      c.res(i, comp(va, i), w[i]);
    c.resx(-1, &r == &va, 0, 0);
  }
};

// ------------------------------------------------------------------ madd, interpolate_uv
template <class T, int S>
struct Madd
{
  typedef typename Sh<T, S>::V V;
  enum
  {
    N = 3,
    K = 9
  };
  static void check(const int *d, Ctx &c)
  {
    using namespace rkcommon::math;
    T a[3], b[3], e[3];
    load(c, d, 3, a);
    load(c, d + 3, 3, b);
    load(c, d + 6, 3, e);
    c.part = "madd";
    float w[3];
    for (int i = 0; i < 3; i++) {
      // the scalar madd is float madd(float,float,float): operands and result convert implicitly
      const float x = (float)a[i], y = (float)b[i], z = (float)e[i];
      const float p = x * y;
      w[i] = p + z;
      if (!conv_ok<T>(w[i]))
        return c.skip();
    }
    const V va = mk<V>(a), vb = mk<V>(b), ve = mk<V>(e);
    auto r = madd(va, vb, ve);
    static_assert(std::is_same<decltype(r), V>::value, "madd type");
    for (int i = 0; i < 3; i++)
      one(c, i, comp(r, i), w[i], a[i], b[i], e[i], std::integral_constant<bool, is_fp<T>::value>());
  }
  static void one(Ctx &c, int i, T got, float w, T, T, T, std::false_type)
  {
    c.res(i, got, T(w));
  }
  static void one(Ctx &c, int i, T got, float, T a, T b, T e, std::true_type)
  {
    long double p = (long double)(float)a * (float)b, z = (float)e;
    c.resx(i, close<float>((float)got, p + z, std::fabs(p) + std::fabs(z), 4), got, p + z);
  }
};

// f over A^3; a, b, c each one of the |A| cyclic rotations of the alphabet (components pairwise distinct)
template <class T, int S>
struct Interp
{
  typedef typename Sh<T, S>::V V;
  enum
  {
    N = VT<V>::N,
    K = 6
  };
  static void check(const int *d, Ctx &c)
  {
    T f[3], a[N], b[N], e[N];
    int da[N], db[N], de[N];
    for (int i = 0; i < N; i++) {
      da[i] = (d[3] + i) % c.A;
      db[i] = (d[4] + i) % c.A;
      de[i] = (d[5] + i) % c.A;
    }
    load(c, d, 3, f);
    load(c, da, N, a);
    load(c, db, N, b);
    load(c, de, N, e);
    c.part = "interpolate_uv";
    const vec_t<T, 3> vf = mk<vec_t<T, 3>>(f);
    const V va = mk<V>(a), vb = mk<V>(b), ve = mk<V>(e);
    auto r = interpolate_uv(vf, va, vb, ve);
    static_assert(std::is_same<decltype(r), V>::value, "interpolate_uv type");
    for (int i = 0; i < N; i++)
      Red<T>::lin3(c, i, f[0], a[i], f[1], b[i], f[2], e[i], comp(r, i));
  }
};

// ------------------------------------------------------------------ construction / conversion between types and shapes
template <class T, class OT, int S>
struct ConvExtra  // S2: nothing more
{
  static void go(Ctx &, const OT *, const T *) {}
};
template <class T, class OT, bool A>
struct Conv3
{
  static void go(Ctx &c, const OT *o, const T *x)
  {
    typedef vec_t<T, 3, A> V;
    c.part = A ? "vec3a(vec2<OT>,z)" : "vec3(vec2<OT>,z)";
    const vec_t<OT, 2> s = mk<vec_t<OT, 2>>(o);
    V r(s, x[0]);
    c.res(0, r.x, T(o[0]));
    c.res(1, r.y, T(o[1]));
    c.res(2, r.z, x[0]);
  }
};
template <class T, class OT>
struct ConvExtra<T, OT, S3>
{
  static void go(Ctx &c, const OT *o, const T *x)
  {
    Conv3<T, OT, false>::go(c, o, x);
  }
};
template <class T, class OT>
struct ConvExtra<T, OT, S3A>
{
  static void go(Ctx &c, const OT *o, const T *x)
  {
    Conv3<T, OT, true>::go(c, o, x);
  }
};
template <class T, class OT>
struct ConvExtra<T, OT, S4>
{
  static void go(Ctx &c, const OT *o, const T *x)
  {
    typedef vec_t<T, 4> V;
    {
      c.part = "vec4(vec2<OT>,vec2<OT>)";
      const vec_t<OT, 2> s1 = mk<vec_t<OT, 2>>(o), s2 = mk<vec_t<OT, 2>>(o + 2);
      V r(s1, s2);
      for (int i = 0; i < 4; i++)
        c.res(i, comp(r, i), T(o[i]));
    }
    {
      c.part = "vec4(vec3<OT>,w)";
      const vec_t<OT, 3> s = mk<vec_t<OT, 3>>(o);
      V r(s, x[0]);
      for (int i = 0; i < 3; i++)
        c.res(i, comp(r, i), T(o[i]));
      c.res(3, r.w, x[0]);
    }
    {
      c.part = "vec4(vec3a<OT>,w)";
      const vec_t<OT, 3, true> s = mk<vec_t<OT, 3, true>>(o);
      V r(s, x[0]);
      for (int i = 0; i < 3; i++)
        c.res(i, comp(r, i), T(o[i]));
      c.res(3, r.w, x[0]);
    }
  }
};
// converting constructor from the other 3-shape
template <class T, class OT, int S>
struct ConvOther3
{
  static void go(Ctx &, const OT *) {}
};
template <class T, class OT>
struct ConvOther3<T, OT, S3>
{
  static void go(Ctx &c, const OT *o)
  {
    c.part = "vec3(vec3a<OT>)";
    const vec_t<OT, 3, true> s = mk<vec_t<OT, 3, true>>(o);
    vec_t<T, 3> r(s);
    for (int i = 0; i < 3; i++)
      c.res(i, comp(r, i), T(o[i]));
  }
};
template <class T, class OT>
struct ConvOther3<T, OT, S3A>
{
  static void go(Ctx &c, const OT *o)
  {
    c.part = "vec3a(vec3<OT>)";
    const vec_t<OT, 3> s = mk<vec_t<OT, 3>>(o);
    vec_t<T, 3, true> r(s);
    for (int i = 0; i < 3; i++)
      c.res(i, comp(r, i), T(o[i]));
  }
};
template <class T, class OT, class V, bool SAME = std::is_same<T, OT>::value>
struct ScalarOT
{
  static void go(Ctx &c, const OT *o)
  {
    c.part = "ctor(const OT& s)";
    const OT s = o[0];
    V r(s);
    for (int i = 0; i < VT<V>::N; i++)
      c.res(i, comp(r, i), T(o[0]));
  }
};
template <class T, class OT, class V>
struct ScalarOT<T, OT, V, true>
{
  static void go(Ctx &, const OT *) {}
};

template <class T, class OT, int S>
struct Conv
{
  typedef typename Sh<T, S>::V V;
  typedef typename Sh<OT, S>::V VO;
  enum
  {
    N = VT<V>::N,
    K = N + 1
  };
  static void check(const int *d, Ctx &c)
  {
    OT o[N];
    T x[1];
    load(c, d, N, o);
    load(c, d + N, 1, x);
    for (int i = 0; i < N; i++)
      if (!conv_ok<T>(o[i])) {
        c.part = "conversion";
        return c.skip();
      }
    const VO s = mk<VO>(o);
    {
      c.part = "ctor(vec<OT,N>)";
      V r(s);
      for (int i = 0; i < N; i++)
        c.res(i, comp(r, i), T(o[i]));
      c.part = "static_cast<vec<T,N>>";
      V q = static_cast<V>(s);
      for (int i = 0; i < N; i++)
        c.res(i, comp(q, i), T(o[i]));
      c.part = "operator vec<T,N>()";
      V p = s.operator V();
      for (int i = 0; i < N; i++)
        c.res(i, comp(p, i), T(o[i]));
      c.part = "assign from vec<OT,N>";
      V z = mk<V>(zeros());
      z = V(s);
      for (int i = 0; i < N; i++)
        c.res(i, comp(z, i), T(o[i]));
    }
    ConvOther3<T, OT, S>::go(c, o);
    ScalarOT<T, OT, V>::go(c, o);
    ConvExtra<T, OT, S>::go(c, o, x);
  }
  static const T *zeros()
  {
    static const T z[4] = {T(0), T(0), T(0), T(0)};
    return z;
  }
};

}  // namespace c04
