// C20 (schedule part): threads register with the global trace recorder and record events
// concurrently, are joined, then saveLog: on every schedule the file is a well-formed JSON
// array holding, per thread, exactly the recorded events in order; the registry is race free
// (happens-before detector of the engine).
#include "mcsched/mcsched.h"

// reuse the strict JSON parser and event helpers of the sequential trace harness
#define main c20_trace_sequential_main
#include "C20_trace.cpp"
#undef main

#include <thread>

static const char *WORDS[4] = {"BME", "BBEE", "MC", "CBE"};

static void record_word(int k, const char *word)
{
  tracing::setThreadName(("T" + std::to_string(k)).c_str());
  int depth = 0;
  for (const char *c = word; *c; c++) {
    switch (*c) {
    case 'B': tracing::beginEvent(NAMES[(k + depth) & 7], (depth & 1) ? CATS[0] : nullptr); depth++; break;
    case 'E': tracing::endEvent(); depth--; break;
    case 'M': tracing::setMarker(NAMES[(k + 3) & 7], CATS[1]); break;
    case 'C': tracing::setCounter(NAMES[(k + 5) & 7], 1000 + k); break;
    }
  }
}

static std::string expect_text(int k, const char *word)
{
  std::string s;
  int depth = 0;
  for (const char *c = word; *c; c++) {
    switch (*c) {
    case 'B': s += std::string("B:") + NAMES[(k + depth) & 7] + ";"; depth++; break;
    case 'E': s += "E;"; depth--; break;
    case 'M': s += std::string("i:") + NAMES[(k + 3) & 7] + ";"; break;
    case 'C': s += std::string("C:") + NAMES[(k + 5) & 7] + "=" + std::to_string(1000 + k) + ";"; break;
    }
  }
  return s;
}

static void scenario(int nthreads)
{
  std::vector<std::thread> th;
  for (int k = 1; k <= nthreads; k++)
    th.emplace_back(record_word, k, WORDS[k & 3]);
  record_word(0, WORDS[0]);
  for (auto &t : th)
    t.join();
  char file[128];
  snprintf(file, sizeof file, "/dev/shm/verif-mc-trace-%d.json", (int)getpid());
  tracing::saveLog(file, nullptr);
  std::string text;
  bool have = c20::read_file(file, text);
  unlink(file);
  MC_CHECK(have, "saveLog|no file written", file);
  std::map<long, std::string> tid_name;
  std::map<long, std::string> got;
  std::string shape;
  JParser jp(text);
  bool ok = jp.top_array([&](const JV &v) {
    if (v.t != JV::OBJ) {
      shape = "element is not an object";
      return;
    }
    const JV *ph = v.get("ph"), *tid = v.get("tid"), *name = v.get("name"), *cat = v.get("cat"), *args = v.get("args");
    if (!ph || ph->t != JV::STR || !tid || tid->t != JV::NUM || !name || name->t != JV::STR) {
      shape = "element lacks ph/tid/name";
      return;
    }
    long t = atol(tid->s.c_str());
    if (ph->s == "M") {
      const JV *an = args && args->t == JV::OBJ ? args->get("name") : nullptr;
      if (name->s == "thread_name" && an && an->t == JV::STR)
        tid_name[t] = an->s;
      return;
    }
    if (ph->s == "C" && name->s == "cpuUtilization" && cat && cat->t == JV::STR && cat->s == "builtin")
      return;
    if (ph->s == "E")
      got[t] += "E;";
    else if (ph->s == "C") {
      std::string val;
      if (args && args->t == JV::OBJ && !args->obj.empty())
        val = args->obj[0].second.s;
      got[t] += "C:" + name->s + "=" + val + ";";
    } else
      got[t] += ph->s + ":" + name->s + ";";
  });
  MC_CHECK(ok && shape.empty(), "saveLog|output is not a well-formed JSON array of event objects", (jp.err + " " + shape).c_str());
  std::map<std::string, std::string> by_name;
  for (auto &kv : tid_name)
    by_name[kv.second] += got[kv.first];
  std::string obs;
  for (int k = 0; k <= nthreads; k++) {
    std::string want = expect_text(k, WORDS[k & 3]);
    std::string g = by_name["T" + std::to_string(k)];
    obs += "T" + std::to_string(k) + "[" + g + "] ";
    MC_CHECK(g == want, "saveLog|a thread's events are missing, duplicated or out of order", (obs + " want " + want).c_str());
  }
  MC_CHECK((int)tid_name.size() == nthreads + 1, "saveLog|number of threads in the log differs from the number that recorded", obs.c_str());
  mc_event("ok");
}

MC_SCENARIO(trace_t1, 4, 7) { scenario(1); }
MC_SCENARIO(trace_t2, 3, 4) { scenario(2); }
MC_SCENARIO(trace_t3, 2, 3) { scenario(3); }
