// C04: instantiates the "mix" families for element type uint8_t (see C04_groups.h)
#include "C04_groups.h"
void c04_reg_mix_u8(c04::Reg &r)
{
  c04::reg_mix<uint8_t>(r);
}
