// C07 (part 1): the unary float kernels on ALL 2^32 float bit patterns, oracle in double.
//
// Engine gridmc.  Declared finite space, enumerated completely in both tiers and in two builds
// (default SIMD build; -DRKCOMMON_NO_SIMD):
//   * every float bit pattern x (2^32), in value order (-NaN, -inf .. -0, +0 .. +inf, +NaN):
//       rcp(x)            relative error <= 2^-20 vs 1/x            for 2^-126 <= |x| < 2^126
//       rsqrt(x)          relative error <= 2^-20 vs 1/sqrt(x)      for 2^-126 <=  x  < 2^126
//       rcp_safe(x)       finite, not of the opposite sign (numeric) for every finite x
//       sign(x)           == (x < 0 ? -1 : 1)                       for every non-NaN x
//       deg2rad(x)        == x*pi/180 to two float roundings         for every non-NaN x
//       cvt_uint32(x)     in [0,255], 0 for x<=0, 255 for x>=1, monotone over the ordered floats (NaN excluded)
//       cvt_uint32(linear_to_srgb(x))   the same three demands      (NaN excluded)
//   * every 32-bit seed s (2^32) x a few ranges: first draw of pcg32_biased_float_distribution(s, 0, lo, hi)
//       inside [lo,hi] to one rounding step, and bit-identical from a second construction
//   * every 32-bit index i (2^32): makeRandomColor(i) components inside [0,1] to one rounding step
// std::thread workers take 2^24-key chunks from a shared counter.  No sampling anywhere.
#include "common/vreport.h"

#include "C07_common.h"

#include "rkcommon/math/rkmath.h"
#include "rkcommon/math/vec.h"
#include "rkcommon/utility/random.h"

#include <atomic>
#include <thread>

namespace rm = rkcommon::math;
namespace ru = rkcommon::utility;
using namespace c07;

#ifdef RKCOMMON_NO_SIMD
#define BUILD_NAME "NO_SIMD"
#else
#define BUILD_NAME "SIMD"
#endif

static const double TOL20 = 9.5367431640625e-07;      // 2^-20
static const double EPS23 = 1.1920928955078125e-07;   // 2^-23
static const double DEN_ULP = 1.401298464324817e-45;  // 2^-149

// ------------------------------------------------------------------ functions, violation kinds
enum Fn
{
  F_RCP,
  F_RSQRT,
  F_RCPSAFE,
  F_SIGN,
  F_DEG2RAD,
  F_CVT,
  F_PACK,
  F_PCG,
  F_COLOR,
  NFN
};
static const char *FN_NAME[NFN] = {"rcp", "rsqrt", "rcp_safe", "sign", "deg2rad", "cvt_uint32", "srgb_pack", "pcg", "color"};

enum VKind
{
  V_RCP_ERR,
  V_RSQRT_ERR,
  V_RCPSAFE_NONFINITE,
  V_RCPSAFE_SIGN,
  V_SIGN,
  V_DEG2RAD,
  V_CVT_RANGE,
  V_CVT_SAT0,
  V_CVT_SAT1,
  V_CVT_MONO,
  V_PACK_RANGE,
  V_PACK_SAT0,
  V_PACK_SAT1,
  V_PACK_MONO,
  V_PCG_RANGE,
  V_PCG_REPRO,
  V_COLOR_RANGE,
  NV
};
struct VInfo
{
  const char *fn;      // replay kind
  const char *what;    // signature text
  bool float_input;    // class = float class of the input; else class = small integer (range id / component)
};
static const VInfo VINFO[NV] = {
    {"rcp", "rcp(" BUILD_NAME ")|relative error vs 1/x above 2^-20", true},
    {"rsqrt", "rsqrt(" BUILD_NAME ")|relative error vs 1/sqrt(x) above 2^-20", true},
    {"rcp_safe", "rcp_safe(" BUILD_NAME ")|result not finite for a finite x", true},
    {"rcp_safe", "rcp_safe(" BUILD_NAME ")|result has the opposite sign of x", true},
    {"sign", "sign(" BUILD_NAME ")|differs from (x<0 ? -1 : 1)", true},
    {"deg2rad", "deg2rad(" BUILD_NAME ")|differs from x*pi/180 by more than two float roundings", true},
    {"cvt", "cvt_uint32(float)(" BUILD_NAME ")|result above 255", true},
    {"cvt", "cvt_uint32(float)(" BUILD_NAME ")|not 0 for x <= 0", true},
    {"cvt", "cvt_uint32(float)(" BUILD_NAME ")|not 255 for x >= 1", true},
    {"cvt", "cvt_uint32(float)(" BUILD_NAME ")|not monotone: smaller than for the preceding float", true},
    {"pack", "cvt_uint32(linear_to_srgb)(" BUILD_NAME ")|result above 255 or sRGB value NaN", true},
    {"pack", "cvt_uint32(linear_to_srgb)(" BUILD_NAME ")|not 0 for x <= 0", true},
    {"pack", "cvt_uint32(linear_to_srgb)(" BUILD_NAME ")|not 255 for x >= 1", true},
    {"pack", "cvt_uint32(linear_to_srgb)(" BUILD_NAME ")|not monotone: smaller than for the preceding float", true},
    {"pcg", "pcg32_biased_float_distribution(" BUILD_NAME ")|first draw outside [lower,upper] by more than one rounding step", false},
    {"pcg", "pcg32_biased_float_distribution(" BUILD_NAME ")|first draw differs between two constructions from the same seed", false},
    {"color", "makeRandomColor(" BUILD_NAME ")|component outside [0,1] by more than one rounding step", false},
};

struct LV  // locally aggregated violations of one (kind, class)
{
  uint64_t n;
  uint32_t input;  // bits of x / seed / index
  uint32_t aux;    // range id / component / predecessor's result
  double got, want, err;
};

struct Range
{
  float lo, hi;
};
static const Range RANGES[] = {{0.f, 1.f}, {-3.f, -1.f}, {-1.f, 1.f}, {-1e38f, 1e38f}, {16777216.f, 16777218.f}, {5.f, 5.f}};  // quick: the first two (an asymmetric one on purpose)
static const int NRANGES_QUICK = 2, NRANGES_THOROUGH = 6;
static int g_nranges = NRANGES_QUICK;
static double g_range_tol[NRANGES_THOROUGH];

static double range_tol(const Range &r)
{
  const double m = std::max(std::max(fabs((double)r.lo), fabs((double)r.hi)), fabs((double)r.hi - (double)r.lo));
  return ulp_float_at(m);
}
static void init_ranges()
{
  for (int i = 0; i < NRANGES_THOROUGH; i++)
    g_range_tol[i] = range_tol(RANGES[i]);
}

struct Acc
{
  LV lv[NV][16];
  std::vector<uint8_t> seen;  // outcome classes: fn<<12 | a<<4 | b
  uint64_t judged[NFN];
  uint64_t inputs_float, inputs_seed, inputs_index;
  double max_rcp, max_rsqrt, max_deg, max_cvt_quant;
  uint32_t arg_rcp, arg_rsqrt, arg_deg, arg_cvt_quant;
  uint64_t obs_rcp_nonfinite_outside, obs_rcp_zero_outside, obs_rsqrt_nonfinite_outside, obs_srgb_float_nonmono, obs_sign_nan_pos, obs_sign_nan_neg;
  uint64_t obs_pcg_eq_upper, obs_pcg_eq_lower, obs_pcg_above_upper;
  double max_pcg_over_ulps;
  Acc() : seen(1 << 16, 0)
  {
    memset(lv, 0, sizeof lv);
    memset(judged, 0, sizeof judged);
    inputs_float = inputs_seed = inputs_index = 0;
    max_rcp = max_rsqrt = max_deg = max_cvt_quant = 0;
    arg_rcp = arg_rsqrt = arg_deg = arg_cvt_quant = 0;
    obs_rcp_nonfinite_outside = obs_rcp_zero_outside = obs_rsqrt_nonfinite_outside = obs_srgb_float_nonmono = obs_sign_nan_pos = obs_sign_nan_neg = 0;
    obs_pcg_eq_upper = obs_pcg_eq_lower = obs_pcg_above_upper = 0;
    max_pcg_over_ulps = 0;
  }
  inline void viol(int kind, int cls, uint32_t input, uint32_t aux, double got, double want, double err)
  {
    if (cls < 0)  // float input: its class is computed only when something fails
      cls = fclass_of_bits(input);
    LV &l = lv[kind][cls & 15];
    if (l.n++ == 0) {
      l.input = input;
      l.aux = aux;
      l.got = got;
      l.want = want;
      l.err = err;
    }
  }
  inline void see(int fn, unsigned a, unsigned b)
  {
    seen[(fn << 12) | ((a & 0xff) << 4) | (b & 15)] = 1;
  }
};

struct Prev  // results for the preceding float in value order (monotonicity)
{
  int cvt, pack;
  float srgb;
  bool have;
  Prev() : cvt(-1), pack(-1), srgb(0), have(false) {}
};

static bool g_verbose = false;  // replay mode: print got / want
static unsigned g_fnmask = ~0u;  // --fnmask N: bit per Fn (diagnosis / timing only; the default runs everything)

static inline unsigned err_bucket(double relerr)  // 0: exact, 1..15: -log2 in steps (no libm call: this is the hot path)
{
  if (!(relerr > 0))
    return 0;
  const int e = 1023 - (int)((bits_of(relerr) >> 52) & 0x7ff);  // relerr in [2^-e, 2^-e+1)
  const int b = e - 17;                                          // 2^-18.. -> 1
  return (unsigned)(b < 1 ? 1 : b > 15 ? 15 : b);
}

// ------------------------------------------------------------------ one float
static inline void check_float(const uint32_t key, Acc &A, Prev &P)
{
  const uint32_t b = key_to_bits(key);
  const float x = f_of(b);
  const uint32_t e = (b >> 23) & 0xff;
  const bool isnan = (e == 0xff) && (b & 0x7fffff);
  const bool finite = e != 0xff;
  const bool inrange = e >= 1 && e <= 252;  // 2^-126 <= |x| < 2^126
  const int cls = -1;
  A.inputs_float++;

  // ---- rcp
  if (g_fnmask & (1u << F_RCP)) {
    const float r = rm::rcp(x);
    if (inrange) {
      const double ref = 1.0 / (double)x;
      const double err = fabs((double)r - ref) / fabs(ref);
      A.judged[F_RCP]++;
      if (!(err <= TOL20))
        A.viol(V_RCP_ERR, cls, b, 0, r, ref, err);
      if (err > A.max_rcp) {
        A.max_rcp = err;
        A.arg_rcp = b;
      }
      A.see(F_RCP, e, err_bucket(err));
      if (g_verbose)
        printf("rcp(%s) = %s ; 1/x = %.17g ; relative error %.3e (allowed %.3e) %s\n", fstr(x).c_str(), fstr(r).c_str(), ref, err, TOL20,
            err <= TOL20 ? "ok" : "VIOLATED");
    } else {
      if (finite && (b << 1) != 0) {
        if (!std::isfinite(r))
          A.obs_rcp_nonfinite_outside++;
        else if (r == 0)
          A.obs_rcp_zero_outside++;
      }
      if (g_verbose)
        printf("rcp(%s) = %s ; x is outside [2^-126,2^126): nothing demanded\n", fstr(x).c_str(), fstr(r).c_str());
    }
  }
  // ---- rsqrt
  if ((g_fnmask & (1u << F_RSQRT)) && (!(b >> 31) || g_verbose)) {
    const float r = rm::rsqrt(x);
    if (inrange && !(b >> 31)) {
      const double ref = 1.0 / sqrt((double)x);
      const double err = fabs((double)r - ref) / fabs(ref);
      A.judged[F_RSQRT]++;
      if (!(err <= TOL20))
        A.viol(V_RSQRT_ERR, cls, b, 0, r, ref, err);
      if (err > A.max_rsqrt) {
        A.max_rsqrt = err;
        A.arg_rsqrt = b;
      }
      A.see(F_RSQRT, e, err_bucket(err));
      if (g_verbose)
        printf("rsqrt(%s) = %s ; 1/sqrt(x) = %.17g ; relative error %.3e (allowed %.3e) %s\n", fstr(x).c_str(), fstr(r).c_str(), ref, err, TOL20,
            err <= TOL20 ? "ok" : "VIOLATED");
    } else {
      if (finite && !(b >> 31) && b != 0 && !std::isfinite(r))
        A.obs_rsqrt_nonfinite_outside++;
      if (g_verbose)
        printf("rsqrt(%s) = %s ; x is not in [2^-126,2^126): nothing demanded\n", fstr(x).c_str(), fstr(r).c_str());
    }
  }
  // ---- rcp_safe
  if (!(g_fnmask & (1u << F_RCPSAFE))) {
  } else if (finite) {
    const float r = rm::rcp_safe(x);
    A.judged[F_RCPSAFE]++;
    const bool fin = std::isfinite(r);
    const bool opp = (x > 0 && r < 0) || (x < 0 && r > 0);
    if (!fin)
      A.viol(V_RCPSAFE_NONFINITE, cls, b, 0, r, 0, 0);
    else if (opp)
      A.viol(V_RCPSAFE_SIGN, cls, b, 0, r, 0, 0);
    A.see(F_RCPSAFE, e, !fin ? 3 : r > 0 ? 1 : r < 0 ? 2 : 0);
    if (g_verbose)
      printf("rcp_safe(%s) = %s ; want finite and not of the opposite sign: %s\n", fstr(x).c_str(), fstr(r).c_str(), (!fin || opp) ? "VIOLATED" : "ok");
  } else if (g_verbose)
    printf("rcp_safe(%s) = %s ; x is not finite: nothing demanded\n", fstr(x).c_str(), fstr(rm::rcp_safe(x)).c_str());
  // ---- sign
  if (g_fnmask & (1u << F_SIGN)) {
    const float r = rm::sign(x);
    if (!isnan) {
      const float want = ((double)x < 0.0) ? -1.0f : 1.0f;
      A.judged[F_SIGN]++;
      if (!(r == want))
        A.viol(V_SIGN, cls, b, 0, r, want, 0);
      A.see(F_SIGN, e, r == 1.f ? 1 : r == -1.f ? 2 : 3);
      if (g_verbose)
        printf("sign(%s) = %g ; want %g %s\n", fstr(x).c_str(), (double)r, (double)want, r == want ? "ok" : "VIOLATED");
    } else {
      if (r == 1.f)
        A.obs_sign_nan_pos++;
      else
        A.obs_sign_nan_neg++;
      if (g_verbose)
        printf("sign(NaN) = %g ; nothing demanded\n", (double)r);
    }
  }
  // ---- deg2rad
  if (!(g_fnmask & (1u << F_DEG2RAD))) {
  } else if (!isnan) {
    const float r = rm::deg2rad(x);
    A.judged[F_DEG2RAD]++;
    bool ok;
    double err = 0, ref = (double)x * 0.017453292519943295769;
    if (!finite)
      ok = (r == x);
    else {
      err = fabs((double)r - ref);
      const double tol = 1.0001 * EPS23 * fabs(ref) + DEN_ULP;
      ok = err <= tol;
      const double rel = ref != 0 ? err / fabs(ref) : 0;
      if (e >= 8 && rel > A.max_deg) {  // results that are normal numbers
        A.max_deg = rel;
        A.arg_deg = b;
      }
      A.see(F_DEG2RAD, e, err_bucket(rel));
    }
    if (!ok)
      A.viol(V_DEG2RAD, cls, b, 0, r, ref, err);
    if (g_verbose)
      printf("deg2rad(%s) = %s ; x*pi/180 = %.17g ; abs error %.3e %s\n", fstr(x).c_str(), fstr(r).c_str(), ref, err, ok ? "ok" : "VIOLATED");
  } else if (g_verbose)
    printf("deg2rad(NaN): nothing demanded\n");
  // ---- packing
  if (!(g_fnmask & (1u << F_CVT))) {
  } else if (!isnan) {
    const uint32_t c = rm::cvt_uint32(x);
    A.judged[F_CVT] += 3;
    if (c > 255)
      A.viol(V_CVT_RANGE, cls, b, 0, c, 255, 0);
    if (x <= 0.f && c != 0)
      A.viol(V_CVT_SAT0, cls, b, 0, c, 0, 0);
    if (x >= 1.f && c != 255)
      A.viol(V_CVT_SAT1, cls, b, 0, c, 255, 0);
    if (P.have && (int)c < P.cvt)
      A.viol(V_CVT_MONO, cls, b, (uint32_t)P.cvt, c, P.cvt, 0);
    A.see(F_CVT, c, 0);
    if (x > 0.f && x < 1.f) {
      const double q = fabs((double)c - 255.0 * (double)x);
      if (q > A.max_cvt_quant) {
        A.max_cvt_quant = q;
        A.arg_cvt_quant = b;
      }
    }
    const float s = rm::linear_to_srgb(x);
    int p = -1;
    A.judged[F_PACK] += 3;
    if (s != s)
      A.viol(V_PACK_RANGE, cls, b, 0, s, 0, 0);
    else {
      p = (int)rm::cvt_uint32(s);
      if (p > 255)
        A.viol(V_PACK_RANGE, cls, b, 0, p, 255, 0);
      if (x <= 0.f && p != 0)
        A.viol(V_PACK_SAT0, cls, b, 0, p, 0, 0);
      if (x >= 1.f && p != 255)
        A.viol(V_PACK_SAT1, cls, b, 0, p, 255, 0);
      if (P.have && p < P.pack)
        A.viol(V_PACK_MONO, cls, b, (uint32_t)P.pack, p, P.pack, 0);
      if (P.have && s < P.srgb)
        A.obs_srgb_float_nonmono++;
      A.see(F_PACK, (unsigned)p, 0);
    }
    if (g_verbose) {
      printf("cvt_uint32(%s) = %u ; preceding float gave %d ; want <=255, 0 for x<=0, 255 for x>=1, >= predecessor\n", fstr(x).c_str(), c, P.have ? P.cvt : -1);
      printf("linear_to_srgb(x) = %s ; cvt_uint32 of it = %d ; preceding float gave %d ; same demands\n", fstr(s).c_str(), p, P.have ? P.pack : -1);
    }
    P.have = true;
    P.cvt = (int)c;
    P.pack = p < 0 ? P.pack : p;
    P.srgb = s;
  } else {
    P.have = false;
    if (g_verbose)
      printf("cvt_uint32 / linear_to_srgb of NaN: excluded from the monotone / saturating claim\n");
  }
}

// ------------------------------------------------------------------ one seed, one colour index
static inline void check_seed(const uint32_t s, Acc &A)
{
  A.inputs_seed++;
  for (int ri = 0; ri < g_nranges; ri++) {
    const Range &R = RANGES[ri];
    ru::pcg32_biased_float_distribution d1((int)s, 0, R.lo, R.hi);
    const float v = d1();
    ru::pcg32_biased_float_distribution d2((int)s, 0, R.lo, R.hi);
    const float w = d2();
    const double tol = g_range_tol[ri];
    A.judged[F_PCG] += 2;
    const bool inside = (double)v >= (double)R.lo - tol && (double)v <= (double)R.hi + tol;
    if (!inside)
      A.viol(V_PCG_RANGE, ri, s, ri, v, v < R.lo ? R.lo : R.hi, 0);
    if (bits_of(v) != bits_of(w))
      A.viol(V_PCG_REPRO, ri, s, ri, v, w, 0);
    if (v == R.hi)
      A.obs_pcg_eq_upper++;
    if (v == R.lo)
      A.obs_pcg_eq_lower++;
    if (v > R.hi) {
      A.obs_pcg_above_upper++;
      const double over = ((double)v - (double)R.hi) / tol;
      if (over > A.max_pcg_over_ulps)
        A.max_pcg_over_ulps = over;
    }
    // outcome class: range x position bucket
    const double t = R.hi > R.lo ? ((double)v - R.lo) / ((double)R.hi - R.lo) : 0;
    A.see(F_PCG, (unsigned)(t * 255.0) & 0xff, ri);
    if (g_verbose)
      printf("pcg32_biased_float_distribution(seed %d, seq 0, [%.9g,%.9g]) first draw %s ; second construction %s ; allowed slack %.3e : %s\n", (int)s,
          (double)R.lo, (double)R.hi, fstr(v).c_str(), fstr(w).c_str(), tol, (inside && bits_of(v) == bits_of(w)) ? "ok" : "VIOLATED");
  }
}

static inline void check_color(const uint32_t i, Acc &A)
{
  A.inputs_index++;
  const rm::vec3f c = ru::makeRandomColor(i);
  const float comp[3] = {c.x, c.y, c.z};
  for (int k = 0; k < 3; k++) {
    A.judged[F_COLOR]++;
    const bool ok = comp[k] >= 0.f && (double)comp[k] <= 1.0 + EPS23;
    if (!ok)
      A.viol(V_COLOR_RANGE, k, i, k, comp[k], comp[k] < 0 ? 0 : 1, 0);
    A.see(F_COLOR, (unsigned)(comp[k] * 255.f) & 0xff, k);
  }
  if (g_verbose)
    printf("makeRandomColor(%u) = (%.9g, %.9g, %.9g) ; want every component in [0,1] (+ one ulp)\n", i, (double)c.x, (double)c.y, (double)c.z);
}

// ------------------------------------------------------------------ reporting
static std::mutex g_merge;
static Acc *g_total = nullptr;

static void merge(Acc &T, const Acc &A)
{
  for (int k = 0; k < NV; k++)
    for (int c = 0; c < 16; c++) {
      const LV &l = A.lv[k][c];
      if (!l.n)
        continue;
      LV &t = T.lv[k][c];
      if (t.n == 0 || l.input < t.input) {
        uint64_t n = t.n;
        t = l;
        t.n = n;
      }
      t.n += l.n;
    }
  for (size_t i = 0; i < T.seen.size(); i++)
    T.seen[i] |= A.seen[i];
  for (int f = 0; f < NFN; f++)
    T.judged[f] += A.judged[f];
  T.inputs_float += A.inputs_float;
  T.inputs_seed += A.inputs_seed;
  T.inputs_index += A.inputs_index;
#define MX(m, a)      \
  if (A.m > T.m) {    \
    T.m = A.m;        \
    T.a = A.a;        \
  }
  MX(max_rcp, arg_rcp)
  MX(max_rsqrt, arg_rsqrt)
  MX(max_deg, arg_deg)
  MX(max_cvt_quant, arg_cvt_quant)
#undef MX
  if (A.max_pcg_over_ulps > T.max_pcg_over_ulps)
    T.max_pcg_over_ulps = A.max_pcg_over_ulps;
  T.obs_rcp_nonfinite_outside += A.obs_rcp_nonfinite_outside;
  T.obs_rcp_zero_outside += A.obs_rcp_zero_outside;
  T.obs_rsqrt_nonfinite_outside += A.obs_rsqrt_nonfinite_outside;
  T.obs_srgb_float_nonmono += A.obs_srgb_float_nonmono;
  T.obs_sign_nan_pos += A.obs_sign_nan_pos;
  T.obs_sign_nan_neg += A.obs_sign_nan_neg;
  T.obs_pcg_eq_upper += A.obs_pcg_eq_upper;
  T.obs_pcg_eq_lower += A.obs_pcg_eq_lower;
  T.obs_pcg_above_upper += A.obs_pcg_above_upper;
}

static void report_violations(const Acc &T)
{
  for (int k = 0; k < NV; k++)
    for (int c = 0; c < 16; c++) {
      const LV &l = T.lv[k][c];
      if (!l.n)
        continue;
      const VInfo &vi = VINFO[k];
      std::string sig = vi.what, replay, detail;
      char buf[512];
      if (vi.float_input) {
        sig += std::string("|x is ") + fclass_name(c);
        replay = std::string(vi.fn) + ":" + hex32(l.input);
        snprintf(buf, sizeof buf, "x = %s: got %.9g, reference %.17g, error %.3e; %llu inputs of this class fail", fstr(f_of(l.input)).c_str(), l.got, l.want, l.err,
            (unsigned long long)l.n);
      } else if (k == V_COLOR_RANGE) {
        sig += "|component " + std::to_string(c);
        replay = "color:" + std::to_string(l.input);
        snprintf(buf, sizeof buf, "makeRandomColor(%u) component %d = %.9g; %llu indices fail", l.input, c, l.got, (unsigned long long)l.n);
      } else {
        snprintf(buf, sizeof buf, "|range [%.9g,%.9g]", (double)RANGES[c].lo, (double)RANGES[c].hi);
        sig += buf;
        replay = "pcg:" + std::to_string((int)l.input);
        snprintf(buf, sizeof buf, "seed %d sequence 0 range [%.9g,%.9g]: first draw %.9g, reference %.9g; %llu seeds fail", (int)l.input, (double)RANGES[c].lo,
            (double)RANGES[c].hi, l.got, l.want, (unsigned long long)l.n);
      }
      detail = buf;
      vr::violation(sig, replay, detail);
      vr::stat("violating_cases", (long long)l.n);
      if (g_verbose)
        printf("VIOLATED %s :: %s\n", sig.c_str(), detail.c_str());
    }
}

// ------------------------------------------------------------------ driver
static const uint32_t CHUNK_BITS = 24;
static const uint32_t NCHUNKS = 1u << (32 - CHUNK_BITS);

static int g_parts = 7;  // bit 0: floats, bit 1: seeds, bit 2: colour indices (--parts N, diagnosis only)

static void run_chunk(uint32_t chunk, Acc &A)
{
  const uint64_t k0 = (uint64_t)chunk << CHUNK_BITS, k1 = k0 + (1ull << CHUNK_BITS);
  Prev P;
  if (k0 > 0) {  // predecessor of the first key of the chunk, so that monotonicity is checked across chunk borders too
    Acc scratch;
    Prev P0;
    check_float((uint32_t)(k0 - 1), scratch, P0);
    P = P0;
  }
  if (g_parts & 1)
    for (uint64_t k = k0; k < k1; k++)
      check_float((uint32_t)k, A, P);
  if (g_parts & 2)
    for (uint64_t k = k0; k < k1; k++)
      check_seed((uint32_t)k, A);
  if (g_parts & 4)
    for (uint64_t k = k0; k < k1; k++)
      check_color((uint32_t)k, A);
}

static int replay_one(const std::string &r)
{
  g_verbose = true;
  g_nranges = NRANGES_THOROUGH;
  const size_t c = r.find(':');
  const std::string kind = r.substr(0, c), arg = c == std::string::npos ? "" : r.substr(c + 1);
  Acc A;
  if (kind == "pcg")
    check_seed((uint32_t)(int)parse_i64(arg), A);
  else if (kind == "color")
    check_color((uint32_t)parse_u64(arg), A);
  else {
    const uint32_t b = (uint32_t)parse_u64(arg);
    const uint32_t key = bits_to_key(b);
    Prev P;
    if (key > 0) {
      g_verbose = false;
      Acc scratch;
      check_float(key - 1, scratch, P);
      g_verbose = true;
      printf("preceding float in value order: %s\n", fstr(f_of(key_to_bits(key - 1))).c_str());
    }
    check_float(key, A, P);
  }
  report_violations(A);
  vr::flush();
  return vr::S().viols.empty() ? 0 : 1;
}

int main(int argc, char **argv)
{
  vr::init(argc, argv);
  init_ranges();
  if (vr::replaying())
    return replay_one(vr::S().replay);
  g_nranges = vr::thorough() ? NRANGES_THOROUGH : NRANGES_QUICK;
  unsigned nthreads = std::thread::hardware_concurrency();
  if (nthreads == 0 || nthreads > 16)
    nthreads = 16;
  // diagnosis aids (timing, mutation experiments): restrict the run to some sweeps / kernels; the report then says so
  if (getenv("C07_PARTS")) {
    g_parts = atoi(getenv("C07_PARTS"));
    vr::capped("restricted by C07_PARTS: not every sweep was run");
  }
  if (getenv("C07_FNMASK"))
    g_fnmask = (unsigned)strtoul(getenv("C07_FNMASK"), nullptr, 0);
  for (int i = 1; i < argc; i++)
    if (std::string(argv[i]) == "--threads" && i + 1 < argc)
      nthreads = (unsigned)atoi(argv[i + 1]);
    else if (std::string(argv[i]) == "--parts" && i + 1 < argc)
      g_parts = atoi(argv[i + 1]);
    else if (std::string(argv[i]) == "--fnmask" && i + 1 < argc)
      g_fnmask = (unsigned)strtoul(argv[i + 1], nullptr, 0);

  Acc total;
  std::atomic<uint32_t> next(0);
  std::atomic<uint32_t> done(0);
  std::atomic<bool> expired(false);
  std::vector<std::thread> th;
  for (unsigned t = 0; t < nthreads; t++)
    th.emplace_back([&]() {
      Acc *A = new Acc();
      for (;;) {
        if (vr::deadline_passed()) {
          expired = true;
          break;
        }
        const uint32_t c = next.fetch_add(1);
        if (c >= NCHUNKS)
          break;
        run_chunk(c, *A);
        done++;
      }
      std::lock_guard<std::mutex> g(g_merge);
      merge(total, *A);
      delete A;
    });
  for (auto &t : th)
    t.join();
  if (expired)
    vr::capped("deadline: only " + std::to_string(done.load()) + " of " + std::to_string(NCHUNKS) + " chunks of 2^24 inputs were swept");

  if (g_fnmask != ~0u)
    vr::capped("restricted by --fnmask / C07_FNMASK: not every kernel was swept");
  report_violations(total);
  vr::stat("states", (long long)(total.inputs_float + total.inputs_seed + total.inputs_index));
  long long comparisons = 0;
  for (int f = 0; f < NFN; f++) {
    comparisons += (long long)total.judged[f];
    vr::stat(std::string("judged_") + FN_NAME[f], (long long)total.judged[f]);
  }
  vr::stat("transitions", comparisons);
  vr::stat("traces", (long long)(total.inputs_float + total.inputs_seed + total.inputs_index));
  vr::stat("float_bit_patterns", (long long)total.inputs_float);
  vr::stat("seeds", (long long)total.inputs_seed);
  vr::stat("color_indices", (long long)total.inputs_index);
  vr::stat("max_rcp_relerr_e12", (long long)(total.max_rcp * 1e12));
  vr::stat("max_rsqrt_relerr_e12", (long long)(total.max_rsqrt * 1e12));
  vr::stat("max_deg2rad_relerr_e12", (long long)(total.max_deg * 1e12));
  for (size_t i = 0; i < total.seen.size(); i++)
    if (total.seen[i])
      vr::outcome((uint64_t)i);
  char buf[512];
  snprintf(buf, sizeof buf, "build %s: rcp worst relative error %.4e at x=%s; rsqrt worst %.4e at x=%s (contract 2^-20 = %.4e); deg2rad worst %.4e at x=%s (allowed 2^-23 = %.4e)",
      BUILD_NAME, total.max_rcp, hex32(total.arg_rcp).c_str(), total.max_rsqrt, hex32(total.arg_rsqrt).c_str(), TOL20, total.max_deg, hex32(total.arg_deg).c_str(), EPS23);
  vr::note(buf);
  snprintf(buf, sizeof buf,
      "not demanded by the statement, observed: finite nonzero x outside [2^-126,2^126): rcp not finite for %llu, rcp == 0 for %llu, rsqrt not finite for %llu patterns; "
      "sign(NaN) = +1 for %llu and -1 for %llu NaN patterns; linear_to_srgb as a float decreases on %llu consecutive float pairs; cvt_uint32(x) is at most %.6f away from 255*x (x=%s)",
      (unsigned long long)total.obs_rcp_nonfinite_outside, (unsigned long long)total.obs_rcp_zero_outside, (unsigned long long)total.obs_rsqrt_nonfinite_outside,
      (unsigned long long)total.obs_sign_nan_pos, (unsigned long long)total.obs_sign_nan_neg, (unsigned long long)total.obs_srgb_float_nonmono, total.max_cvt_quant,
      hex32(total.arg_cvt_quant).c_str());
  vr::note(buf);
  snprintf(buf, sizeof buf, "pcg32_biased_float_distribution over all 2^32 seeds x %d ranges: first draw == upper for %llu, == lower for %llu, above upper for %llu (worst %.2f rounding steps)",
      g_nranges, (unsigned long long)total.obs_pcg_eq_upper, (unsigned long long)total.obs_pcg_eq_lower, (unsigned long long)total.obs_pcg_above_upper, total.max_pcg_over_ulps);
  if (total.inputs_seed)
    vr::note(buf);
  else
    vr::note("the seed and colour-index sweeps were not part of this run (--parts): they do not depend on RKCOMMON_NO_SIMD and run in the default build");
  vr::sample(std::string("build ") + BUILD_NAME + ": every float bit pattern in value order, e.g. key 0x80000000 -> +0, key 0xff800000 -> +inf");
  vr::sample("rcp(" + fstr(f_of(total.arg_rcp)) + ") = " + fstr(rm::rcp(f_of(total.arg_rcp))) + " (worst case)");
  vr::sample("rsqrt(" + fstr(f_of(total.arg_rsqrt)) + ") = " + fstr(rm::rsqrt(f_of(total.arg_rsqrt))) + " (worst case)");
  vr::sample("rcp_safe(" + fstr(f_of(1)) + ") = " + fstr(rm::rcp_safe(f_of(1))) + " ; rcp_safe(-0) = " + fstr(rm::rcp_safe(-0.f)));
  vr::sample("cvt_uint32(linear_to_srgb(0.5)) = " + std::to_string(rm::cvt_uint32(rm::linear_to_srgb(0.5f))) + " ; cvt_uint32(0.5) = " + std::to_string(rm::cvt_uint32(0.5f)));
  {
    ru::pcg32_biased_float_distribution d(42, 0, -1.f, 1.f);
    vr::sample("pcg32_biased_float_distribution(42,0,-1,1) first draw " + fstr(d()));
  }
  return vr::finish();
}
