// Shared history-exploration driver for the C11 and C15 harnesses (engine seqmc).
//
//  * Tree: the full A-ary tree of histories of length <= D, nodes numbered in DFS preorder so that
//    a history's index is computed arithmetically (needed to resume after a crashed case and to
//    skip exactly the crashed history's extensions).
//  * explore(): depth-first enumeration of one shard.  A history is replayed from scratch on fresh
//    objects by the callback; a history whose last operation is disabled, or that violated, is not
//    extended (its extensions start from a state the model no longer describes).
//  * carry file: vr::run_sharded only receives a shard's report when the shard exits normally.  So
//    that a sanitizer abort costs exactly the one history it happened in, a sanitizer death
//    callback writes everything the shard has found so far to /dev/shm/verif-<pid>/..., and the
//    restarted shard loads it before continuing.
#pragma once
#include "common/vreport.h"

#include <sanitizer/asan_interface.h>
#include <sanitizer/common_interface_defs.h>
#include <sys/stat.h>
#include <dirent.h>

namespace sq {

// ------------------------------------------------------------------ reporting wrappers
inline bool &quiet()
{
  static bool q = false;
  return q;
}
inline void stat(const std::string &k, long long v = 1)
{
  if (!quiet())
    vr::stat(k, v);
}
inline void outcome(uint64_t h)
{
  if (!quiet())
    vr::outcome(h);
}
inline void sample(const std::string &t, const std::string &cls = "")
{
  if (!quiet())
    vr::sample(t, cls);
}
inline void viol(const std::string &sig, const std::string &replay, const std::string &detail)
{
  if (quiet())
    return;
  vr::violation(sig, replay, detail);
  if (vr::replaying())
    printf("VIOLATED %s :: %s\n", sig.c_str(), detail.c_str());
}

// ------------------------------------------------------------------ scratch dir + carry files
inline std::string &scratch_dir()
{
  static std::string d;
  return d;
}
inline void make_scratch()
{
  char b[96];
  snprintf(b, sizeof b, "/dev/shm/verif-%d", (int)getpid());
  scratch_dir() = b;
  mkdir(b, 0700);
}
inline void remove_scratch()
{
  if (scratch_dir().empty())
    return;
  DIR *d = opendir(scratch_dir().c_str());
  if (d) {
    while (struct dirent *e = readdir(d)) {
      std::string n = e->d_name;
      if (n != "." && n != "..")
        unlink((scratch_dir() + "/" + n).c_str());
    }
    closedir(d);
  }
  rmdir(scratch_dir().c_str());
}

inline std::string &carry_path()
{
  static std::string p;
  return p;
}

// crash classes: how often a case of this signature context killed this shard.  After
// MAX_CRASHES_PER_CLASS deaths the shard stops executing further cases of the class (they are counted
// in skipped_same_crash_class and the run is reported as not exhaustive): a defect that aborts in
// thousands of histories must not cost thousands of process restarts.
enum
{
  MAX_CRASHES_PER_CLASS = 3
};
inline std::map<std::string, int> &crash_counts()
{
  static std::map<std::string, int> m;
  return m;
}
inline std::string &current_sigctx()
{
  static std::string s;
  return s;
}

// everything found so far -> carry file (called from the sanitizer death callback / SIGABRT)
inline void dump_carry()
{
  if (carry_path().empty())
    return;
  FILE *f = fopen(carry_path().c_str(), "w");
  if (!f)
    return;
  vr::State &s = vr::S();
  for (auto &kv : s.stats)
    fprintf(f, "T\t%s\t%lld\n", kv.first.c_str(), kv.second);
  for (auto h : s.outcomes)
    fprintf(f, "O\t%llx\n", (unsigned long long)h);
  for (auto &kv : s.viols)
    fprintf(f, "V\t%lld\t%s\t%s\t%s\n", s.viol_counts[kv.first], vr::clean(kv.first).c_str(), kv.second.first.c_str(), kv.second.second.c_str());
  for (auto &x : s.samples)
    fprintf(f, "S\t%s\n", x.c_str());
  for (auto &x : s.notes)
    fprintf(f, "N\t%s\n", x.c_str());
  for (auto &x : s.capped)
    fprintf(f, "C\t%s\n", x.c_str());
  for (auto &kv : crash_counts())
    fprintf(f, "X\t%d\t%s\n", kv.second + (kv.first == current_sigctx() ? 1 : 0), kv.first.c_str());
  if (!current_sigctx().empty() && !crash_counts().count(current_sigctx()))
    fprintf(f, "X\t1\t%s\n", current_sigctx().c_str());
  fclose(f);
}

inline void load_carry()
{
  FILE *f = fopen(carry_path().c_str(), "r");
  if (!f)
    return;
  std::string buf;
  char b[4096];
  size_t k;
  while ((k = fread(b, 1, sizeof b, f)) > 0)
    buf.append(b, k);
  fclose(f);
  unlink(carry_path().c_str());
  std::istringstream is(buf);
  std::string line;
  vr::State &s = vr::S();
  while (std::getline(is, line)) {
    if (line.size() < 2)
      continue;
    std::vector<std::string> p;
    size_t a = 0;
    while (true) {
      size_t t = line.find('\t', a);
      if (t == std::string::npos) {
        p.push_back(line.substr(a));
        break;
      }
      p.push_back(line.substr(a, t - a));
      a = t + 1;
    }
    if (p[0] == "T" && p.size() >= 3)
      vr::stat(p[1], atoll(p[2].c_str()));
    else if (p[0] == "O")
      vr::outcome((uint64_t)strtoull(p[1].c_str(), nullptr, 16));
    else if (p[0] == "V" && p.size() >= 5) {
      vr::violation(p[2], p[3], p[4]);
      s.viol_counts[p[2]] += atoll(p[1].c_str()) - 1;
    } else if (p[0] == "S")
      vr::sample(p[1]);
    else if (p[0] == "N")
      vr::note(p[1]);
    else if (p[0] == "C")
      vr::capped(p[1]);
    else if (p[0] == "X" && p.size() >= 3)
      crash_counts()[p[2]] = atoi(p[1].c_str());
  }
}

inline void on_sigabrt(int)
{
  dump_carry();
  signal(SIGABRT, SIG_DFL);
  raise(SIGABRT);
}

// call first thing in a run_sharded body
inline void shard_begin(const std::string &tag, int shard, long long resume_after)
{
  carry_path() = scratch_dir() + "/" + tag + "-" + std::to_string(shard) + ".carry";
  if (resume_after >= 0)
    load_carry();
  __sanitizer_set_death_callback(dump_carry);
  signal(SIGABRT, on_sigabrt);
}

// ------------------------------------------------------------------ ASan as a queryable oracle
// "": the whole region is addressable; otherwise the ASan error class a load would raise
inline std::string poisoned(const void *p, size_t bytes)
{
  if (bytes == 0)
    return "";
  if (!p)
    return "null-dereference";
  void *bad = __asan_region_is_poisoned((void *)p, bytes);
  if (!bad)
    return "";
  void *trace[1];
  int tid = 0;
  if (__asan_get_free_stack(bad, trace, 1, &tid) > 0)
    return "heap-use-after-free";
  char name[64];
  void *ra = nullptr;
  size_t rs = 0;
  const char *where = __asan_locate_address(bad, name, sizeof name, &ra, &rs);
  return std::string(where ? where : "unknown") + "-buffer-overflow";
}

// ------------------------------------------------------------------ history tree
struct Tree
{
  int A, D;
  std::vector<long long> S;  // S[l] = nodes in the subtree of a node at level l
  Tree(int a, int d) : A(a), D(d), S(d + 2, 0)
  {
    S[d] = 1;
    for (int l = d - 1; l >= 0; l--)
      S[l] = 1 + (long long)a * S[l + 1];
  }
};

enum
{
  H_OK = 0,
  H_DISABLED = 1,
  H_VIOL = 2
};

typedef std::function<int(const std::vector<int> &, const std::string &)> RunFn;  // replays the history, checks after the last op
typedef std::function<std::string(const std::vector<int> &)> SigFn;                // crash signature context (class of the last op)

struct Explorer
{
  Tree tree;
  int shard = 0, nshards = 1;
  long long resume = -1;
  std::string tag;  // replay prefix, e.g. "owned/i32"
  RunFn run;
  SigFn sigctx;
  // phase "top": only levels 0..1, every result appended to top_file.
  // phase "deep": levels 0..1 are not executed, their results come from top_status.
  bool top_phase = false;
  std::string top_file;
  int root_status = H_VIOL;
  std::vector<int> top_status;
  bool stop = false;
  long long polled = 0;

  Explorer(int A, int D) : tree(A, D) {}

  std::string replay_of(const std::vector<int> &h) const
  {
    std::string r = tag + ":";
    for (size_t i = 0; i < h.size(); i++) {
      if (i)
        r += '.';
      r += std::to_string(h[i]);
    }
    return r;
  }

  void record_top(const std::vector<int> &h, int status)
  {
    FILE *f = fopen(top_file.c_str(), "a");
    if (!f)
      return;
    fprintf(f, "%d %d\n", h.empty() ? -1 : h[0], status);
    fclose(f);
  }

  int execute(const std::vector<int> &h, long long idx)
  {
    std::string rp = replay_of(h);
    std::string sc = sigctx(h);
    auto it = crash_counts().find(sc);
    if (it != crash_counts().end() && it->second >= MAX_CRASHES_PER_CLASS) {
      vr::stat("skipped_same_crash_class");
      return H_VIOL;
    }
    current_sigctx() = sc;
    vr::begin_case(idx, sc, rp);
    if ((++polled & 1023) == 0 && vr::deadline_passed()) {
      stop = true;
      if (shard == 0)
        vr::capped("deadline reached inside " + tag + " before the history tree was exhausted");
      return H_VIOL;
    }
    int r = H_VIOL;
    try {
      r = run(h, rp);
    } catch (const std::exception &e) {
      viol(sc + "|unexpected exception escaped", rp, e.what());
    } catch (...) {
      viol(sc + "|unexpected exception escaped", rp, "non-std exception");
    }
    current_sigctx().clear();
    if (r == H_VIOL)
      vr::stat("histories_not_extended_after_violation");
    return r;
  }

  void dfs(std::vector<int> &h, long long idx)
  {
    if (stop)
      return;
    const int level = (int)h.size();
    if (idx + tree.S[level] - 1 <= resume)
      return;  // finished before the crash (or the crashed history itself, which is not extended)
    if (idx == resume)
      return;
    if (!top_phase && level < 2 && tree.D >= 2) {
      // executed in the top phase
      int st = level == 0 ? root_status : top_status[h[0]];
      if (st != H_OK)
        return;
    } else if (idx > resume) {
      int r = execute(h, idx);
      if (top_phase)
        record_top(h, r);
      if (r != H_OK)
        return;
    }
    if (level == tree.D)
      return;
    for (int c = 0; c < tree.A; c++) {
      if (level == 1 && !top_phase && (h[0] * tree.A + c) % nshards != shard)
        continue;
      h.push_back(c);
      dfs(h, idx + 1 + c * tree.S[level + 1]);
      h.pop_back();
    }
  }

  void go(int shard_, int nshards_, long long resume_after)
  {
    shard = shard_;
    nshards = nshards_;
    resume = resume_after;
    std::vector<int> h;
    dfs(h, 0);
  }
};

// Explore the whole tree of histories of length <= D over A operations with forked shards.
// Phase 1 (one shard): the empty history and the single-operation histories; their results are
// written to a file.  Phase 2 (nshards shards): shard k owns the subtrees below the two-operation
// prefixes (a,b) with (a*A+b) % nshards == k.
inline void explore_tree(const std::string &tag, int A, int D, int nshards, const RunFn &run, const SigFn &sigctx)
{
  std::string file_tag = tag;
  for (auto &c : file_tag)
    if (c == '/')
      c = '_';
  const std::string top_file = scratch_dir() + "/" + file_tag + ".top";
  unlink(top_file.c_str());
  const long long skipped_before = vr::S().stats.count("skipped_same_crash_class") ? vr::S().stats["skipped_same_crash_class"] : 0;
  vr::run_sharded(1, [&](int shard, long long resume_after) {
    shard_begin(file_tag + "-top", shard, resume_after);
    Explorer ex(A, D < 1 ? D : 1);
    ex.tag = tag;
    ex.run = run;
    ex.sigctx = sigctx;
    ex.top_phase = true;
    ex.top_file = top_file;
    ex.go(0, 1, resume_after);
  });
  if (D < 2 || vr::replaying())
    return;
  int root_status = H_VIOL;
  std::vector<int> top_status(A, H_VIOL);  // no record = the case died
  if (FILE *f = fopen(top_file.c_str(), "r")) {
    int a, st;
    while (fscanf(f, "%d %d", &a, &st) == 2) {
      if (a < 0)
        root_status = st;
      else if (a < A)
        top_status[a] = st;
    }
    fclose(f);
  }
  vr::run_sharded(nshards, [&](int shard, long long resume_after) {
    shard_begin(file_tag, shard, resume_after);
    Explorer ex(A, D);
    ex.tag = tag;
    ex.run = run;
    ex.sigctx = sigctx;
    ex.root_status = root_status;
    ex.top_status = top_status;
    ex.go(shard, nshards, resume_after);
  });
  long long skipped = (vr::S().stats.count("skipped_same_crash_class") ? vr::S().stats["skipped_same_crash_class"] : 0) - skipped_before;
  if (skipped > 0)
    vr::capped(tag + ": " + std::to_string(skipped) + " cases were not executed because " + std::to_string((int)MAX_CRASHES_PER_CLASS) + " cases of the same signature class had already killed their shard");
}

inline std::vector<int> parse_ops(const std::string &s)
{
  std::vector<int> v;
  std::stringstream ss(s);
  std::string item;
  while (std::getline(ss, item, '.'))
    if (!item.empty())
      v.push_back(atoi(item.c_str()));
  return v;
}

}  // namespace sq
