// C01 (schedule part): parallel_for / parallel_foreach / parallel_in_blocks_of on the internal
// (enkiTS) backend run every index exactly once, nothing else, and join before returning -
// for every schedule of the caller against the pool workers up to a deviation bound.
// The body writes PLAIN cells: the happens-before race detector turns a missing join, an
// index executed by two threads or an early return into a report on every schedule that
// contains the two accesses.
#include "mcsched/mcsched.h"

#include "rkcommon/tasking/parallel_for.h"
#include "rkcommon/tasking/parallel_foreach.h"
#include "rkcommon/tasking/tasking_system_init.h"

#include <array>
#include <atomic>
#include <cstring>
#include <string>
#include <vector>

using namespace rkcommon::tasking;

static const int GUARD = 4;

struct Cells
{
  int n;
  int *hits;  // [GUARD + n + GUARD], plain
  int *by;    // which modelled thread ran index i (plain)
  std::atomic<int> stray;
  std::atomic<int> work;
  explicit Cells(int n_) : n(n_ < 0 ? 0 : n_), stray(0), work(0)
  {
    hits = new int[n + 2 * GUARD]();
    by = new int[n + 1]();
  }
  std::string who() const
  {
    std::string s = "t";
    for (int i = 0; i < n; i++)
      s += std::to_string(by[i]);
    return s;
  }
  void hit(long i)
  {
    if (i < 0 || i >= n) {
      stray.fetch_add(1);
      return;
    }
    hits[GUARD + i]++;  // plain, non-atomic on purpose
    by[i] = mc_tid();
    for (long k = 0; k < i % 3; k++)  // uneven task cost, visible operations
      work.fetch_add(1);
  }
  void check(const char *what)
  {
    std::string obs;
    for (int i = 0; i < n + 2 * GUARD; i++)
      obs += std::to_string(hits[i]);
    MC_CHECK(stray.load() == 0, "parallel loop|body called with an index outside [0,n)", (std::string(what) + " " + obs).c_str());
    for (int i = 0; i < n + 2 * GUARD; i++) {
      int want = (i >= GUARD && i < GUARD + n) ? 1 : 0;
      MC_CHECK(hits[i] == want, "parallel loop|an index was not executed exactly once by the time the call returned", (std::string(what) + " " + obs).c_str());
    }
  }
};

template <typename INDEX_T>
static void pfor(int T, long n)
{
  initTaskingSystem(T);
  Cells c((int)n);
  parallel_for((INDEX_T)n, [&](INDEX_T i) { c.hit((long)i); });
  c.check("parallel_for");
  mc_eventf(c.who());
}

static void nested(int T, int outer, int inner)
{
  initTaskingSystem(T);
  Cells c(outer * inner);
  parallel_for(outer, [&](int o) { parallel_for(inner, [&, o](int i) { c.hit(o * inner + i); }); });
  c.check("nested parallel_for");
  mc_eventf("nested" + c.who());
}

static void foreach_vec(int T, int n)
{
  initTaskingSystem(T);
  std::vector<int> v(n, 0);
  std::atomic<int> w(0);
  parallel_foreach(v, [&](int &x) {
    x++;
    w.fetch_add(1);
  });
  for (int i = 0; i < n; i++)
    MC_CHECK(v[i] == 1, "parallel_foreach|an element was not visited exactly once", "vector");
  std::array<int, 3> a = {{0, 0, 0}};
  parallel_foreach(a.begin(), a.end(), [&](int &x) { x += 2; });
  for (int i = 0; i < 3; i++)
    MC_CHECK(a[i] == 2, "parallel_foreach|an element was not visited exactly once", "array iterators");
  mc_event("foreach");
}

template <int B>
static void blocks(int T, int n)
{
  initTaskingSystem(T);
  Cells c(n);
  std::atomic<int> bad(0);
  parallel_in_blocks_of<B>(n, [&](int b, int e) {
    if (e - b > B || e <= b || b % B != 0)
      bad.fetch_add(1);
    for (int i = b; i < e; i++)
      c.hit(i);
  });
  MC_CHECK(bad.load() == 0, "parallel_in_blocks_of|a block is empty, larger than the block size or misaligned", "blocks");
  c.check("parallel_in_blocks_of");
  mc_eventf("blocks" + c.who());
}

// two consecutive loops reuse the scheduler (pipes in a non-initial state)
static void twice(int T, int n)
{
  initTaskingSystem(T);
  for (int r = 0; r < 2; r++) {
    Cells c(n);
    parallel_for(n, [&](int i) { c.hit(i); });
    c.check("second parallel_for on the same pool");
  }
  mc_event("twice");
}

// parallel_for called while the caller's own pipe still holds an earlier schedule()d task: with a
// 1-slot pipe (hook H2) the very first partition of the loop then finds the pipe full
#include "rkcommon/tasking/schedule.h"
static void sched_then_pfor(int T, int n)
{
  initTaskingSystem(T);
  std::atomic<int> *ran = new std::atomic<int>(0);
  schedule([ran]() { ran->fetch_add(1); });
  Cells c(n);
  parallel_for(n, [&](int i) { c.hit(i); });
  c.check("parallel_for issued while the caller's pipe is occupied");
  for (int k = 0; k < 4 && ran->load() == 0; k++)
    mc_yield();
  mc_eventf("sp" + c.who() + (ran->load() ? "r" : "-"));
}

static void entry()
{
  // pf_T<t>_n<n> | pfu8_.. | nest_T<t>_<o>x<i> | each_T<t>_n<n> | blk_T<t>_n<n> | twice_T<t>_n<n>
  std::string s = mc_scenario_name();
  int T = atoi(s.c_str() + s.find("_T") + 2);
  size_t pn = s.find("_n");
  long n = pn == std::string::npos ? 0 : atol(s.c_str() + pn + 2);
  if (s.compare(0, 3, "pf_") == 0)
    pfor<int>(T, n);
  else if (s.compare(0, 5, "pfu8_") == 0)
    pfor<unsigned char>(T, n);
  else if (s.compare(0, 5, "pfsz_") == 0)
    pfor<size_t>(T, n);
  else if (s.compare(0, 5, "pfll_") == 0)
    pfor<long long>(T, n);
  else if (s.compare(0, 5, "nest_") == 0) {
    size_t x = s.find('x');
    nested(T, atoi(s.c_str() + s.rfind('_') + 1), atoi(s.c_str() + x + 1));
  } else if (s.compare(0, 5, "each_") == 0)
    foreach_vec(T, (int)n);
  else if (s.compare(0, 4, "blk_") == 0)
    blocks<2>(T, (int)n);
  else if (s.compare(0, 6, "twice_") == 0)
    twice(T, (int)n);
  else if (s.compare(0, 4, "spf_") == 0)
    sched_then_pfor(T, (int)n);
}

struct Reg
{
  Reg()
  {
    auto add = [](const std::string &name, int bq, int bt) { new McRegister(strdup(name.c_str()), entry, bq, bt, 4000); };
    auto N = [](long n) { return n < 0 ? "m" + std::to_string(-n) : std::to_string(n); };
    (void)N;
    for (int T = 1; T <= 3; T++) {
      for (int n = 0; n <= 6; n++) {
        if (T == 1 && n > 2)
          continue;
        if (T != 3 && n == 6)
          continue;
        int bq = T == 1 ? 1 : (T == 2 ? (n <= 3 ? 4 : 3) : (n <= 1 ? 3 : (n <= 3 ? 2 : (n == 6 ? 1 : -1))));
        int bt = T == 1 ? 2 : (T == 2 ? 4 : (n <= 2 ? 3 : 2));
        add("pf_T" + std::to_string(T) + "_n" + std::to_string(n), bq, bt);
      }
    }
    add("pf_T2_n-1", 3, 4);
    add("pfll_T2_n-1", 3, 4);
    add("pfu8_T2_n3", 3, 4);
    add("pfsz_T2_n3", 3, 4);
    add("nest_T2_2x2", 2, 3);
    add("nest_T2_2x3", -1, 3);
    add("nest_T3_2x2", 2, 2);
    add("each_T2_n3", 2, 3);
    add("blk_T2_n5", 3, 4);
    add("blk_T2_n4", -1, 4);
    add("twice_T2_n3", 2, 3);
    for (int n = 2; n <= 6; n++)
      add("spf_T2_n" + std::to_string(n), 2, 3);
    add("spf_T3_n6", 1, 2);
    add("spf_T3_n7", 1, 2);
  }
};
static Reg reg;
