// C02 (input x configuration part): bursts of 1..10^5 scheduled closures / async results on
// each real backend build, free-running under AddressSanitizer: exhaustive over the declared
// burst sizes, observational over the backend's schedules.  Every closure owns heap state.
#include "common/vreport.h"

#include "rkcommon/tasking/AsyncTask.h"
#include "rkcommon/tasking/async.h"
#include "rkcommon/tasking/schedule.h"
#include "rkcommon/tasking/tasking_system_init.h"

#include <atomic>
#include <chrono>
#include <memory>
#include <thread>

using namespace rkcommon::tasking;

#ifndef BACKEND
#define BACKEND "debug"
#endif

static bool wait_until(std::atomic<long> &c, long want, int seconds)
{
  auto until = std::chrono::steady_clock::now() + std::chrono::seconds(seconds);
  while (c.load() < want) {
    if (std::chrono::steady_clock::now() > until)
      return false;
    std::this_thread::sleep_for(std::chrono::microseconds(200));
  }
  return true;
}

static void burst_schedule(long n)
{
  std::unique_ptr<std::atomic<unsigned char>[]> runs(new std::atomic<unsigned char>[n]);
  for (long i = 0; i < n; i++)
    runs[i].store(0);
  std::atomic<long> done(0), bad(0);
  vr::CaseWatch watch(std::string(BACKEND) + "|schedule|burst", "schedule:" + std::to_string(n), 300);
  auto *r = runs.get();
  for (long i = 0; i < n; i++) {
    std::shared_ptr<std::vector<long>> heap = std::make_shared<std::vector<long>>(4, i);
    schedule([r, heap, i, &done, &bad]() {
      if ((*heap)[3] != i)
        bad.fetch_add(1);
      r[i].fetch_add(1);
      done.fetch_add(1);
    });
  }
  bool ok = wait_until(done, n, 60);
  std::this_thread::sleep_for(std::chrono::milliseconds(5));  // a second execution would show here
  long wrong = 0;
  for (long i = 0; i < n; i++)
    if (runs[i].load() != 1)
      wrong++;
  std::string rp = "schedule:" + std::to_string(n);
  vr::stat("states");
  vr::stat("transitions", n);
  vr::outcome(rp);
  vr::sample(std::string(BACKEND) + " schedule burst of " + std::to_string(n) + " -> " + std::to_string(done.load()) + " ran", "sch" + std::to_string(n));
  if (!ok || wrong || bad.load())
    vr::violation(std::string(BACKEND) + "|schedule|burst: a closure was not executed exactly once (eventually)", rp,
        "n=" + std::to_string(n) + " done=" + std::to_string(done.load()) + " wrong=" + std::to_string(wrong) + " corrupted=" + std::to_string(bad.load()));
  if (vr::replaying())
    printf("schedule burst %ld: done=%ld wrong=%ld\n", n, done.load(), wrong);
}

static void burst_async(long n)
{
  vr::CaseWatch watch(std::string(BACKEND) + "|async|burst", "async:" + std::to_string(n), 120);
  std::vector<std::future<std::string>> f;
  for (long i = 0; i < n; i++)
    f.push_back(async([i]() { return std::string(20, 'x') + std::to_string(i); }));
  long wrong = 0;
  for (long i = n - 1; i >= 0; i--)
    if (f[i].get() != std::string(20, 'x') + std::to_string(i))
      wrong++;
  std::string rp = "async:" + std::to_string(n);
  vr::stat("states");
  vr::stat("transitions", n);
  vr::outcome(rp);
  if (wrong)
    vr::violation(std::string(BACKEND) + "|async|burst: future.get() is not the function's value", rp, "wrong=" + std::to_string(wrong));
  if (vr::replaying())
    printf("async burst %ld: wrong=%ld\n", n, wrong);
}

static void burst_asynctask(long n)
{
  long wrong = 0;
  vr::CaseWatch watch(std::string(BACKEND) + "|AsyncTask|burst", "asynctask:" + std::to_string(n), 120);
  {
    std::vector<std::unique_ptr<AsyncTask<std::string>>> t;
    for (long i = 0; i < n; i++)
      t.emplace_back(new AsyncTask<std::string>([i]() { return std::string(20, 'y') + std::to_string(i); }));
    for (long i = 0; i < n; i++) {
      if (i % 3 == 0 && t[i]->finished() && t[i]->get() != std::string(20, 'y') + std::to_string(i))
        wrong++;
      if (i % 3 == 1 && t[i]->get() != std::string(20, 'y') + std::to_string(i))
        wrong++;
      // i % 3 == 2: destroyed without ever asking
    }
  }
  std::string rp = "asynctask:" + std::to_string(n);
  vr::stat("states");
  vr::stat("transitions", n);
  vr::outcome(rp);
  if (wrong)
    vr::violation(std::string(BACKEND) + "|AsyncTask|burst: get() is not the function's value", rp, "wrong=" + std::to_string(wrong));
  if (vr::replaying())
    printf("asynctask burst %ld: wrong=%ld\n", n, wrong);
}

int main(int argc, char **argv)
{
  vr::init(argc, argv);
  initTaskingSystem(4);
  if (vr::replaying()) {
    std::string r = vr::S().replay;
    long n = atol(r.c_str() + r.find(':') + 1);
    if (r.compare(0, 8, "schedule") == 0)
      burst_schedule(n);
    else if (r.compare(0, 9, "asynctask") == 0)
      burst_asynctask(n);
    else
      burst_async(n);
    vr::flush();
    return vr::S().viols.empty() ? 0 : 1;
  }
  const bool omp = std::string(BACKEND) == "openmp";  // one OS thread per task there
  const long sizes[] = {1, 2, 255, 256, 257, 1000, 100000};
  for (long n : sizes) {
    if (omp && n > 1000)
      continue;
    if (n > 1000 && !vr::thorough())
      continue;
    burst_schedule(n);
    if (n <= 1000) {
      burst_async(n);
      burst_asynctask(n > 257 ? 257 : n);
    }
  }
  vr::stat("traces", vr::S().stats["states"]);
  return vr::finish();
}
