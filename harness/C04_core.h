// C04: every vec_t operator is the component-wise lifting of its scalar definition.
// Shared machinery: value alphabets, shapes, component access that does not go through the
// vec_t API, the per-case context (counters, outcome digests, violation reports), the item registry.
#pragma once
#include "common/vreport.h"

#include "rkcommon/math/vec.h"

#include <cmath>
#include <csetjmp>
#include <csignal>
#include <cstdint>
#include <limits>
#include <set>
#include <sstream>
#include <string>
#include <type_traits>
#include <vector>

namespace c04 {

using rkcommon::math::vec_t;

// ------------------------------------------------------------------------------------ types
template <class T>
struct TI;
#define C04_TI(T_, nm)          \
  template <>                   \
  struct TI<T_>                 \
  {                             \
    static const char *name()   \
    {                           \
      return nm;                \
    }                           \
  };
C04_TI(uint8_t, "u8")
C04_TI(int8_t, "i8")
C04_TI(uint16_t, "u16")
C04_TI(int16_t, "i16")
C04_TI(uint32_t, "u32")
C04_TI(int32_t, "i32")
C04_TI(uint64_t, "u64")
C04_TI(int64_t, "i64")
C04_TI(float, "f32")
C04_TI(double, "f64")
#undef C04_TI

template <class T>
struct is_fp : std::is_floating_point<T>
{
};
template <class T>
struct is_si
{
  static const bool value = std::is_integral<T>::value && std::is_signed<T>::value;
};

// value alphabets.  set 0 = "arithmetic" (small magnitudes, signs mix, unsigned wrap points,
// -inf), set 1 = "extremes" (only used by families that cannot overflow).  quick uses the first
// four letters, thorough all six; the letters of a set are pairwise distinct.
template <class T>
inline typename std::enable_if<is_fp<T>::value, T>::type letter(int set, int k)
{
  const T inf = std::numeric_limits<T>::infinity();
  const T ar[6] = {T(0), T(1), T(-2), T(0.5), T(3), -inf};
  const T ex[6] = {-inf, T(-1), T(0), inf, std::numeric_limits<T>::max(), -std::numeric_limits<T>::min()};
  return set ? ex[k] : ar[k];
}
template <class T>
inline typename std::enable_if<is_si<T>::value, T>::type letter(int set, int k)
{
  const T mn = std::numeric_limits<T>::min(), mx = std::numeric_limits<T>::max();
  const T ar[6] = {T(0), T(1), T(-2), T(3), T(7), T(-5)};
  const T ex[6] = {mn, T(-1), T(0), mx, T(1), T(mn + 1)};
  return set ? ex[k] : ar[k];
}
template <class T>
inline typename std::enable_if<std::is_unsigned<T>::value, T>::type letter(int set, int k)
{
  const T mx = std::numeric_limits<T>::max();
  const T ar[6] = {T(0), T(1), mx, T(3), T(2), T(mx - 4)};
  const T ex[6] = {T(0), mx, T(1), T(mx - 1), T(mx / 2), T(mx / 2 + 1)};
  return set ? ex[k] : ar[k];
}

// ------------------------------------------------------------------------------------ shapes
enum
{
  S2 = 0,
  S3 = 1,
  S3A = 2,
  S4 = 3
};
template <class T, int S>
struct Sh;
template <class T>
struct Sh<T, S2>
{
  typedef vec_t<T, 2> V;
};
template <class T>
struct Sh<T, S3>
{
  typedef vec_t<T, 3> V;
};
template <class T>
struct Sh<T, S3A>
{
  typedef vec_t<T, 3, true> V;
};
template <class T>
struct Sh<T, S4>
{
  typedef vec_t<T, 4> V;
};
inline const char *shname(int s)
{
  static const char *n[] = {"vec2", "vec3", "vec3a", "vec4"};
  return n[s];
}

template <class V>
struct VT;
template <class T>
struct VT<vec_t<T, 2>>
{
  typedef T E;
  enum
  {
    N = 2,
    P = 0,
    S = S2
  };
  template <class U>
  struct re
  {
    typedef vec_t<U, 2> V;
  };
};
template <class T>
struct VT<vec_t<T, 3>>
{
  typedef T E;
  enum
  {
    N = 3,
    P = 0,
    S = S3
  };
  template <class U>
  struct re
  {
    typedef vec_t<U, 3> V;
  };
};
template <class T>
struct VT<vec_t<T, 3, true>>
{
  typedef T E;
  enum
  {
    N = 3,
    P = 1,
    S = S3A
  };
  template <class U>
  struct re
  {
    typedef vec_t<U, 3, true> V;
  };
};
template <class T>
struct VT<vec_t<T, 4>>
{
  typedef T E;
  enum
  {
    N = 4,
    P = 0,
    S = S4
  };
  template <class U>
  struct re
  {
    typedef vec_t<U, 4> V;
  };
};
// the unpadded vector of the same element type and size
template <class V>
struct Unpad
{
  typedef vec_t<typename VT<V>::E, VT<V>::N> V0;
};

// component access through the data members only (x,y,z,w order is the ground truth)
template <class T>
inline T &comp(vec_t<T, 2> &v, int i)
{
  return i == 0 ? v.x : v.y;
}
template <class T>
inline const T &comp(const vec_t<T, 2> &v, int i)
{
  return i == 0 ? v.x : v.y;
}
template <class T, bool A>
inline T &comp(vec_t<T, 3, A> &v, int i)
{
  return i == 0 ? v.x : i == 1 ? v.y : v.z;
}
template <class T, bool A>
inline const T &comp(const vec_t<T, 3, A> &v, int i)
{
  return i == 0 ? v.x : i == 1 ? v.y : v.z;
}
template <class T>
inline T &comp(vec_t<T, 4> &v, int i)
{
  return i == 0 ? v.x : i == 1 ? v.y : i == 2 ? v.z : v.w;
}
template <class T>
inline const T &comp(const vec_t<T, 4> &v, int i)
{
  return i == 0 ? v.x : i == 1 ? v.y : i == 2 ? v.z : v.w;
}
template <class T>
inline void setpad(vec_t<T, 3, true> &v)
{
  v.padding_ = T(99);
}
template <class V>
inline void setpad(V &)
{
}
// build a vector by storing into the members (no vec_t constructor involved)
template <class V>
inline V mk(const typename VT<V>::E *p)
{
  V v;
  for (int i = 0; i < VT<V>::N; i++)
    comp(v, i) = p[i];
  setpad(v);
  return v;
}

// ------------------------------------------------------------------------------------ comparing
template <class T>
inline typename std::enable_if<!is_fp<T>::value, bool>::type same(T a, T b)
{
  return a == b;
}
template <class T>
inline typename std::enable_if<is_fp<T>::value, bool>::type same(T a, T b)
{
  if (a != a || b != b)
    return a != a && b != b;  // any NaN equals any NaN
  return std::memcmp(&a, &b, sizeof(T)) == 0;  // signed zeros are distinguished
}
// got is within `ulps` units in the last place (of T, at magnitude mag >= |want|) of want
template <class T>
inline bool close(T got, long double want, long double mag, int ulps)
{
  if (want != want)
    return got != got;
  if (std::isinf(want))
    return (long double)got == want;
  if (got != got || std::isinf(got))
    return false;
  long double m = std::fabs(mag) > std::fabs(want) ? std::fabs(mag) : std::fabs(want);
  long double tol = (long double)ulps * (long double)std::numeric_limits<T>::epsilon() * m;
  long double d = (long double)got - want;
  return std::fabs(d) <= tol;
}
// is the floating value representable in the integral type after truncation (else the conversion is UB)
template <class I>
inline bool fits_int(long double v)
{
  if (v != v)
    return false;
  long double t = std::trunc(v);
  return t >= (long double)std::numeric_limits<I>::min() && t <= (long double)std::numeric_limits<I>::max();
}
// scalar conversion F -> I is defined?
template <class I, class F>
inline typename std::enable_if<is_fp<F>::value && std::is_integral<I>::value, bool>::type conv_ok(F v)
{
  return fits_int<I>((long double)v);
}
template <class I, class F>
inline typename std::enable_if<!(is_fp<F>::value && std::is_integral<I>::value), bool>::type conv_ok(F)
{
  return true;
}

// arithmetic in the promoted type P with the "no signed overflow" domain tracked
template <class P, bool SI = is_si<P>::value>
struct Chk
{
  P v;
  bool ok;
  Chk() : v(0), ok(true) {}
  Chk(P x) : v(x), ok(true) {}
};
template <class P>
inline Chk<P, true> operator+(Chk<P, true> a, Chk<P, true> b)
{
  Chk<P, true> r;
  r.ok = !__builtin_add_overflow(a.v, b.v, &r.v) && a.ok && b.ok;
  return r;
}
template <class P>
inline Chk<P, true> operator-(Chk<P, true> a, Chk<P, true> b)
{
  Chk<P, true> r;
  r.ok = !__builtin_sub_overflow(a.v, b.v, &r.v) && a.ok && b.ok;
  return r;
}
template <class P>
inline Chk<P, true> operator*(Chk<P, true> a, Chk<P, true> b)
{
  Chk<P, true> r;
  r.ok = !__builtin_mul_overflow(a.v, b.v, &r.v) && a.ok && b.ok;
  return r;
}
template <class P>
inline Chk<P, false> operator+(Chk<P, false> a, Chk<P, false> b)
{
  return Chk<P, false>(a.v + b.v);
}
template <class P>
inline Chk<P, false> operator-(Chk<P, false> a, Chk<P, false> b)
{
  return Chk<P, false>(a.v - b.v);
}
template <class P>
inline Chk<P, false> operator*(Chk<P, false> a, Chk<P, false> b)
{
  return Chk<P, false>(a.v * b.v);
}
// division/remainder domain: integral divisor non-zero and not min/-1
template <class P>
inline typename std::enable_if<std::is_integral<P>::value, bool>::type div_ok(P a, P b)
{
  if (b == 0)
    return false;
  if (is_si<P>::value && a == std::numeric_limits<P>::min() && b == P(-1))
    return false;
  return true;
}
template <class P>
inline typename std::enable_if<!std::is_integral<P>::value, bool>::type div_ok(P, P)
{
  return true;  // IEEE division is total
}

// ------------------------------------------------------------------------------------ context
struct Ctx
{
  int A = 4;  // alphabet size
  int set = 0;  // alphabet set
  bool verbose = false;
  std::string item;  // name of the running item
  uint64_t idx = 0;  // tuple index inside the item
  long long states = 0, trans = 0, excluded = 0;
  std::set<uint64_t> outs;
  uint64_t h = 0;
  const char *part = "";
  long double in[24];
  int nin = 0;
  bool any_in_case = false;

  void begin_case(uint64_t i)
  {
    idx = i;
    nin = 0;
    part = "";
    any_in_case = false;
    h = 1469598103934665603ull;
  }
  void end_case()
  {
    if (any_in_case) {
      states++;
      if (outs.size() < 192)
        outs.insert(h);
    }
  }
  void mix(uint64_t x)
  {
    h = (h ^ x) * 1099511628211ull;
    h ^= h >> 29;
  }
  std::string replay() const
  {
    return item + "@" + std::to_string(A) + "#" + std::to_string((unsigned long long)idx);
  }
  std::string inputs() const
  {
    std::string s = "in=(";
    char b[64];
    for (int i = 0; i < nin; i++) {
      snprintf(b, sizeof b, "%s%.21Lg", i ? "," : "", in[i]);
      s += b;
    }
    return s + ")";
  }
  // a domain exclusion (signed overflow, division by zero, undefined float->int conversion)
  void skip()
  {
    excluded++;
    if (verbose)
      printf("  %s: outside the domain (signed overflow / division by zero / undefined conversion)\n", part);
  }
  // one oracle comparison; what = component index or -1 for a scalar result
  void resx(int what, bool ok, long double got, long double want);
  void ress(bool ok, const std::string &got, const std::string &want);
  template <class T>
  void res(int what, T got, T want)
  {
    resx(what, same(got, want), (long double)got, (long double)want);
  }
  void resb(bool got, bool want)
  {
    resx(-1, got == want, got, want);
  }
};

inline void Ctx::resx(int what, bool ok, long double got, long double want)
{
  trans++;
  any_in_case = true;
  uint64_t g;
  double gd = (double)got;
  if (gd != gd)
    gd = std::numeric_limits<double>::quiet_NaN();
  std::memcpy(&g, &gd, 8);
  mix(g + (uint64_t)(what + 2) * 0x9e3779b97f4a7c15ull);
  if (ok && !verbose)
    return;
  char b[256];
  snprintf(b, sizeof b, " got %.21Lg want %.21Lg", got, want);
  std::string where = what < 0 ? std::string("result") : "component " + std::to_string(what);
  if (verbose)
    printf("  %s: %s %s%s  %s\n", part, where.c_str(), inputs().c_str(), b, ok ? "ok" : "VIOLATED");
  if (!ok)
    vr::violation(item + "|" + part + "|" + where + " differs from the scalar definition", replay(),
        item + " " + part + " " + inputs() + " " + where + b);
}
inline void Ctx::ress(bool ok, const std::string &got, const std::string &want)
{
  trans++;
  any_in_case = true;
  mix(vr::fnv(got));
  if (ok && !verbose)
    return;
  std::string d = " got '" + vr::clean(got) + "' want '" + vr::clean(want) + "'";
  if (verbose)
    printf("  %s: %s%s  %s\n", part, inputs().c_str(), d.c_str(), ok ? "ok" : "VIOLATED");
  if (!ok)
    vr::violation(item + "|" + part + "|text differs", replay(), item + " " + part + " " + inputs() + d);
}

// read n letters of type T for digits d[0..n) and log them as inputs
template <class T>
inline void load(Ctx &c, const int *d, int n, T *out)
{
  for (int i = 0; i < n; i++) {
    out[i] = letter<T>(c.set, d[i]);
    if (c.nin < 24)
      c.in[c.nin++] = (long double)out[i];
  }
}

// ------------------------------------------------------------------------------------ registry
struct Item
{
  std::string name;
  int K;  // digits per tuple
  int set;  // alphabet set
  void (*run)(Ctx &, uint64_t lo, uint64_t hi);
};
typedef std::vector<Item> Reg;

inline uint64_t ipow(uint64_t a, int k)
{
  uint64_t r = 1;
  while (k-- > 0)
    r *= a;
  return r;
}

// An integer division fault inside the code under test (SIGFPE) is reported for exactly the tuple
// that raised it and the enumeration continues (the handler jumps back into guarded()).
inline sigjmp_buf &fpe_jmp()
{
  static sigjmp_buf b;
  return b;
}
inline volatile int &fpe_armed()
{
  static volatile int a = 0;
  return a;
}
inline void fpe_handler(int)
{
  if (fpe_armed()) {
    fpe_armed() = 0;
    siglongjmp(fpe_jmp(), 1);
  }
  signal(SIGFPE, SIG_DFL);
  raise(SIGFPE);
}
inline void install_fpe_handler()
{
  struct sigaction sa;
  memset(&sa, 0, sizeof sa);
  sa.sa_handler = fpe_handler;
  sa.sa_flags = SA_NODEFER;
  sigaction(SIGFPE, &sa, nullptr);
}
template <class B>
__attribute__((noinline)) void guarded(const int *d, Ctx &c)
{
  if (sigsetjmp(fpe_jmp(), 0) == 0) {
    fpe_armed() = 1;
    B::check(d, c);
    fpe_armed() = 0;
  } else {
    c.trans++;
    c.any_in_case = true;
    if (c.verbose)
      printf("  %s: %s SIGFPE raised inside the operation  VIOLATED\n", c.part, c.inputs().c_str());
    vr::violation(c.item + "|" + c.part + "|SIGFPE (integer division fault) although every scalar operation of the definition is defined",
        c.replay(), c.item + " " + c.part + " " + c.inputs() + " raised SIGFPE");
  }
}

// B: struct with enum {K} and static void check(const int *digits, Ctx&)
template <class B>
void run_body(Ctx &c, uint64_t lo, uint64_t hi)
{
  int d[24];
  uint64_t t = lo;
  for (int i = 0; i < B::K; i++) {
    d[i] = (int)(t % c.A);
    t /= c.A;
  }
  for (uint64_t idx = lo; idx < hi; idx++) {
    c.begin_case(idx);
    guarded<B>(d, c);
    c.end_case();
    for (int i = 0; i < B::K; i++) {
      if (++d[i] < c.A)
        break;
      d[i] = 0;
    }
  }
}
template <class B>
inline void add(Reg &r, const std::string &name, int set)
{
  Item it;
  it.name = name + (set ? "/ext" : "");
  it.K = B::K;
  it.set = set;
  it.run = &run_body<B>;
  r.push_back(it);
}
template <class T>
inline std::string nm(const char *family, int shape)
{
  return std::string(family) + "/" + TI<T>::name() + "/" + shname(shape);
}

}  // namespace c04

// every translation unit C04_t_<group>_<type>.cpp defines one of these
#define C04_FOR_TYPES(X) \
  X(uint8_t, u8) X(int8_t, i8) X(uint16_t, u16) X(int16_t, i16) X(uint32_t, u32) X(int32_t, i32) X(uint64_t, u64) X(int64_t, i64) X(float, f32) X(double, f64)
