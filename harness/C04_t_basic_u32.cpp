// C04: instantiates the "basic" families for element type uint32_t (see C04_groups.h)
#include "C04_groups.h"
void c04_reg_basic_u32(c04::Reg &r)
{
  c04::reg_basic<uint32_t>(r);
}
