// C11 unit "owned": every history over OwnedArray<T> slots and their source buffers.
//
// The model of an OwnedArray is a plain vector of values of its own: built from a source it is
// independent of it afterwards (the source is written, replaced, destroyed and the array compared
// again); a copy is an array of its own (the original is destroyed, resized, re-assigned, written and
// the copy compared again, and vice versa).
#include "C11_common.h"

using namespace c11;

enum Code
{
  S_SET,
  S_POKE,
  S_KILL,
  A_POKE,
  O_DEF,
  O_VEC,
  O_ARR,
  O_PTR,
  O_NULL,
  O_ASSIGN_VEC,
  O_ASSIGN_ARR,
  O_RESET,
  O_RESET_PTR,
  O_RESET_NULL,
  O_RESIZE,
  O_RESIZE_ALIAS,    // resize(size+a, (*O)[b ? size-1 : 0]): the fill value lives inside the array
  O_RESET_OWN,       // O->reset(O->data()+a, size-a): the source range lives inside the array
  O_RESET_FROM_OTHER,  // O->reset(other->data()+1, othersize-1)
  O_PTR_FROM_OTHER,    // O = new OwnedArray(other->data()+1, othersize-1)
  O_COPY_CTOR,
  O_COPY_ASSIGN,
  O_SELF_ASSIGN,
  O_MOVE_CTOR,    // O = new OwnedArray(std::move(*other)): the source must stay an array of its own - unchanged (a copy) or empty
  O_MOVE_ASSIGN,  // *O = std::move(*other)
  O_WRITE,
  O_DESTROY
};

struct Op
{
  Code code;
  int slot, a, b;
  std::string name, cls;
};

static std::vector<Op> make_ops()
{
  std::vector<Op> o;
  auto add = [&](Code c, int slot, int a, int b, const std::string &n, const std::string &cls) {
    Op x;
    x.code = c;
    x.slot = slot;
    x.a = a;
    x.b = b;
    x.name = n;
    x.cls = cls;
    o.push_back(x);
  };
  const char *var[3] = {"(data,size)", "(data+1,size-1)", "(data,0)"};
  add(O_DEF, 0, 0, 0, "O0 = new OwnedArray()", "OwnedArray()");
  add(O_VEC, 0, 0, 0, "O0 = new OwnedArray(S0)", "OwnedArray(vector&)");
  add(O_VEC, 0, 1, 0, "O0 = new OwnedArray(S1)", "OwnedArray(vector&)");
  add(O_ARR, 0, 0, 0, "O0 = new OwnedArray(arr)", "OwnedArray(array&)");
  add(O_PTR, 0, 0, 0, std::string("O0 = new OwnedArray S0") + var[0], "OwnedArray(T*,size_t)");
  add(O_PTR, 0, 0, 1, std::string("O0 = new OwnedArray S0") + var[1], "OwnedArray(T*,size_t)");
  add(O_NULL, 0, 0, 0, "O0 = new OwnedArray(nullptr,0)", "OwnedArray(T*,size_t)");
  add(O_ASSIGN_VEC, 0, 0, 0, "*O0 = S0", "operator=(vector&)");
  add(O_ASSIGN_VEC, 0, 1, 0, "*O0 = S1", "operator=(vector&)");
  add(O_ASSIGN_ARR, 0, 0, 0, "*O0 = arr", "operator=(array&)");
  add(O_RESET, 0, 0, 0, "O0->reset()", "reset()");
  add(O_RESET_PTR, 0, 1, 1, std::string("O0->reset S1") + var[1], "reset(T*,size_t)");
  add(O_RESET_NULL, 0, 0, 0, "O0->reset(nullptr,0)", "reset(T*,size_t)");
  add(O_RESIZE, 0, 0, 0, "O0->resize(0,fresh)", "resize");
  add(O_RESIZE, 0, 1, 0, "O0->resize(1,fresh)", "resize");
  add(O_RESIZE, 0, 3, 0, "O0->resize(3,fresh)", "resize");
  add(O_RESIZE, 0, 9, 0, "O0->resize(9,fresh)", "resize");
  // arguments that live inside the array itself / inside the other array
  add(O_RESIZE_ALIAS, 0, 1, 0, "O0->resize(size+1, (*O0)[0])", "resize with a fill value inside the array");
  add(O_RESIZE_ALIAS, 0, 1, 1, "O0->resize(size+1, (*O0)[size-1])", "resize with a fill value inside the array");
  add(O_RESIZE_ALIAS, 0, 8, 1, "O0->resize(size+8, (*O0)[size-1])", "resize with a fill value inside the array");
  add(O_RESET_OWN, 0, 1, 0, "O0->reset(O0->data()+1, size-1)", "reset(T*,size_t) with a range inside the array");
  add(O_RESET_OWN, 0, 0, 0, "O0->reset(O0->data(), size)", "reset(T*,size_t) with a range inside the array");
  add(O_RESET_FROM_OTHER, 0, 1, 0, "O0->reset(O1->data()+1, O1 size-1)", "reset(T*,size_t) with a range inside another OwnedArray");
  add(O_PTR_FROM_OTHER, 1, 0, 0, "O1 = new OwnedArray(O0->data()+1, O0 size-1)", "OwnedArray(T*,size_t) with a range inside another OwnedArray");
  add(O_COPY_CTOR, 0, 1, 0, "O0 = new OwnedArray(*O1)", "copy constructor");
  add(O_COPY_ASSIGN, 0, 1, 0, "*O0 = *O1", "copy assignment");
  add(O_SELF_ASSIGN, 0, 0, 0, "*O0 = *O0", "copy assignment");
  add(O_MOVE_CTOR, 0, 1, 0, "O0 = new OwnedArray(std::move(*O1))", "construction from an rvalue OwnedArray");
  add(O_MOVE_ASSIGN, 0, 1, 0, "*O0 = std::move(*O1)", "assignment from an rvalue OwnedArray");
  add(O_WRITE, 0, 0, 0, "(*O0)[0] = fresh", "element write");
  add(O_DESTROY, 0, 0, 0, "delete O0", "destructor");
  // second slot
  add(O_VEC, 1, 0, 0, "O1 = new OwnedArray(S0)", "OwnedArray(vector&)");
  add(O_PTR, 1, 1, 1, std::string("O1 = new OwnedArray S1") + var[1], "OwnedArray(T*,size_t)");
  add(O_COPY_CTOR, 1, 0, 0, "O1 = new OwnedArray(*O0)", "copy constructor");
  add(O_COPY_ASSIGN, 1, 0, 0, "*O1 = *O0", "copy assignment");
  add(O_MOVE_ASSIGN, 1, 0, 0, "*O1 = std::move(*O0)", "assignment from an rvalue OwnedArray");
  add(O_ASSIGN_VEC, 1, 1, 0, "*O1 = S1", "operator=(vector&)");
  add(O_RESIZE, 1, 3, 0, "O1->resize(3,fresh)", "resize");
  add(O_RESIZE, 1, 9, 0, "O1->resize(9,fresh)", "resize");
  add(O_RESET, 1, 0, 0, "O1->reset()", "reset()");
  add(O_WRITE, 1, 0, 0, "(*O1)[0] = fresh", "element write");
  add(O_DESTROY, 1, 0, 0, "delete O1", "destructor");
  // sources
  add(S_SET, 0, 0, 0, "S0 := fresh buffer of 0", "source replaced");
  add(S_SET, 0, 4, 0, "S0 := fresh buffer of 4", "source replaced");
  add(S_POKE, 0, 0, 0, "S0.back() = fresh", "source written");
  add(S_KILL, 0, 0, 0, "delete S0", "source destroyed");
  add(S_POKE, 1, 0, 0, "S1.back() = fresh", "source written");
  add(S_KILL, 1, 0, 0, "delete S1", "source destroyed");
  add(A_POKE, 0, 0, 0, "arr[2] = fresh", "source written");
  return o;
}

static const std::vector<Op> &OPS()
{
  static std::vector<Op> o = make_ops();
  return o;
}

// roles (signature predicates): a statement about the history of the array, not about the implementation.
// They stay until the array is destroyed, re-constructed, assigned from a source or reset.
static const char *R_PLAIN = "no copy between OwnedArrays involved";
static const char *R_COPY = "is a copy of another OwnedArray";
static const char *R_SOURCE = "was copied to another OwnedArray";

struct MOwned
{
  bool live = false;
  std::vector<LL> c;
  const char *role = R_PLAIN;
  bool reset_like = false;
};

template <typename T>
struct World
{
  Sources<T> S;
  OwnedArray<T> *O[2];
  MOwned M[2];
  bool touched[2];

  World()
  {
    O[0] = O[1] = nullptr;
  }
  ~World()
  {
    delete O[0];
    delete O[1];
  }
  static const char *kind() { return "OwnedArray"; }
  static const std::vector<OpInfo> &ops()
  {
    static std::vector<OpInfo> v;
    if (v.empty())
      for (auto &o : OPS()) {
        OpInfo i;
        i.name = o.name;
        i.cls = o.cls;
        v.push_back(i);
      }
    return v;
  }

  bool ptr_variant(int k, int b, T *&p, size_t &off, size_t &n)
  {
    if (!S.alive[k])
      return false;
    size_t sz = S.size(k);
    if (b == 0) {
      off = 0;
      n = sz;
    } else if (b == 1) {
      if (sz < 1)
        return false;
      off = 1;
      n = sz - 1;
    } else {
      off = 0;
      n = 0;
    }
    p = S.data(k) + off;
    return true;
  }

  // slot s gets new contents from outside (constructor, assignment from a source, reset)
  void set_contents(int s, const std::vector<LL> &c)
  {
    M[s].live = true;
    M[s].c = c;
    M[s].role = R_PLAIN;
    M[s].reset_like = false;
  }
  std::vector<LL> src_range(int k, size_t off, size_t n) const { return std::vector<LL>(S.mv[k].begin() + off, S.mv[k].begin() + off + n); }

  bool apply(int opIndex)
  {
    const Op &op = OPS()[opIndex];
    const int s = op.slot;
    touched[0] = touched[1] = false;
    if (op.code >= O_DEF) {
      touched[s] = true;
      if (op.code == O_COPY_CTOR || op.code == O_COPY_ASSIGN || op.code == O_MOVE_CTOR || op.code == O_MOVE_ASSIGN)
        touched[op.a] = true;
      if (op.code == O_RESET_FROM_OTHER || op.code == O_PTR_FROM_OTHER)
        touched[1 - s] = true;
    }
    T *p = nullptr;
    size_t off = 0, n = 0;
    switch (op.code) {
    case S_SET:
      S.set(s, (size_t)op.a);
      return true;
    case S_POKE:
      if (!S.can_poke(s))
        return false;
      S.poke(s);
      return true;
    case S_KILL:
      if (!S.alive[s])
        return false;
      S.kill(s);
      return true;
    case A_POKE:
      S.poke_arr();
      return true;
    case O_DEF:
      delete O[s];
      O[s] = new OwnedArray<T>();
      set_contents(s, std::vector<LL>());
      M[s].reset_like = true;
      return true;
    case O_VEC:
      if (!S.alive[op.a])
        return false;
      delete O[s];
      O[s] = new OwnedArray<T>(*S.v[op.a]);
      set_contents(s, S.mv[op.a]);
      return true;
    case O_ARR:
      delete O[s];
      O[s] = new OwnedArray<T>(*S.arr);
      set_contents(s, S.marr);
      return true;
    case O_PTR:
      if (!ptr_variant(op.a, op.b, p, off, n))
        return false;
      delete O[s];
      O[s] = new OwnedArray<T>(p, n);
      set_contents(s, src_range(op.a, off, n));
      return true;
    case O_NULL:
      delete O[s];
      O[s] = new OwnedArray<T>((T *)nullptr, 0);
      set_contents(s, std::vector<LL>());
      return true;
    case O_ASSIGN_VEC:
      if (!M[s].live || !S.alive[op.a])
        return false;
      *O[s] = *S.v[op.a];
      set_contents(s, S.mv[op.a]);
      return true;
    case O_ASSIGN_ARR:
      if (!M[s].live)
        return false;
      *O[s] = *S.arr;
      set_contents(s, S.marr);
      return true;
    case O_RESET:
      if (!M[s].live)
        return false;
      O[s]->reset();
      set_contents(s, std::vector<LL>());
      M[s].reset_like = true;
      return true;
    case O_RESET_PTR:
      if (!M[s].live || !ptr_variant(op.a, op.b, p, off, n))
        return false;
      O[s]->reset(p, n);
      set_contents(s, src_range(op.a, off, n));
      return true;
    case O_RESET_NULL:
      if (!M[s].live)
        return false;
      O[s]->reset(nullptr, 0);
      set_contents(s, std::vector<LL>());
      return true;
    case O_RESIZE: {
      if (!M[s].live)
        return false;
      LL x = S.fresh();
      O[s]->resize((size_t)op.a, (T)x);
      M[s].c.resize((size_t)op.a, x);
      M[s].reset_like = false;
      return true;
    }
    case O_RESIZE_ALIAS: {
      // statement: size()/contents consistent with the last operation = the old elements followed by
      // copies of the value `val` had when resize was called; `val` is a const T& and nothing forbids
      // it to designate an element of the array (std::vector::resize supports exactly that)
      if (!M[s].live || M[s].c.empty())
        return false;
      const size_t n = M[s].c.size();
      const size_t idx = op.b ? n - 1 : 0;
      const LL x = M[s].c[idx];
      O[s]->resize(n + (size_t)op.a, (*O[s])[idx]);
      M[s].c.resize(n + (size_t)op.a, x);
      M[s].reset_like = false;
      return true;
    }
    case O_RESET_OWN: {
      // the array is rebuilt from a range of its own (valid, live) elements: it must end up holding a
      // copy of that range ("independent of the buffer it was built from" - here its own old buffer)
      if (!M[s].live || M[s].c.size() < (size_t)op.a + 1)
        return false;
      const size_t n = M[s].c.size() - (size_t)op.a;
      std::vector<LL> c(M[s].c.begin() + op.a, M[s].c.end());
      O[s]->reset(O[s]->data() + op.a, n);
      const char *role = M[s].role;
      set_contents(s, c);
      M[s].role = role;
      return true;
    }
    case O_RESET_FROM_OTHER: {
      const int o = 1 - s;
      if (!M[s].live || !M[o].live || M[o].c.empty())
        return false;
      std::vector<LL> c(M[o].c.begin() + 1, M[o].c.end());
      O[s]->reset(O[o]->data() + 1, c.size());
      set_contents(s, c);
      return true;
    }
    case O_PTR_FROM_OTHER: {
      const int o = 1 - s;
      if (!M[o].live || M[o].c.empty())
        return false;
      std::vector<LL> c(M[o].c.begin() + 1, M[o].c.end());
      OwnedArray<T> *nv = new OwnedArray<T>(O[o]->data() + 1, c.size());
      delete O[s];
      O[s] = nv;
      set_contents(s, c);
      return true;
    }
    case O_COPY_CTOR: {
      const int o = op.a;
      if (!M[o].live)
        return false;
      OwnedArray<T> *nv = new OwnedArray<T>(*O[o]);
      delete O[s];
      O[s] = nv;
      set_contents(s, M[o].c);
      M[s].role = R_COPY;
      if (M[o].role == R_PLAIN)
        M[o].role = R_SOURCE;
      return true;
    }
    case O_COPY_ASSIGN: {
      const int o = op.a;
      if (!M[s].live || !M[o].live)
        return false;
      *O[s] = *O[o];
      set_contents(s, M[o].c);
      M[s].role = R_COPY;
      if (M[o].role == R_PLAIN)
        M[o].role = R_SOURCE;
      return true;
    }
    case O_SELF_ASSIGN:
      if (!M[s].live)
        return false;
      *O[s] = *O[s];
      return true;
    case O_MOVE_CTOR:
    case O_MOVE_ASSIGN: {
      const int o = op.a;
      if (!M[o].live || (op.code == O_MOVE_ASSIGN && !M[s].live))
        return false;
      if (op.code == O_MOVE_CTOR) {
        OwnedArray<T> *nv = new OwnedArray<T>(std::move(*O[o]));
        delete O[s];
        O[s] = nv;
      } else
        *O[s] = std::move(*O[o]);
      set_contents(s, M[o].c);
      M[s].role = R_COPY;
      // the statement does not say what a moved-from array holds: unchanged (this tree copies) and empty are both
      // "a size() and data() consistent with the last operation"; anything else is judged against "unchanged"
      if (O[o]->size() == 0 && !M[o].c.empty())
        M[o].c.clear();
      if (M[o].role == R_PLAIN)
        M[o].role = R_SOURCE;
      return true;
    }
    case O_WRITE: {
      if (!M[s].live || M[s].c.empty())
        return false;
      LL x = S.fresh();
      (*O[s])[0] = (T)x;
      M[s].c[0] = x;
      return true;
    }
    case O_DESTROY:
      if (!M[s].live)
        return false;
      delete O[s];
      O[s] = nullptr;
      M[s] = MOwned();
      return true;
    }
    return false;
  }

  void check(Checker &c)
  {
    std::string why;
    if (!S.check(why))
      c.fail("OwnedArray", "sources", "a source buffer changed without a write to it", why);
    for (int s = 0; s < 2; s++) {
      c.mix(M[s].live);
      if (!M[s].live)
        continue;
      Expect<T> e;
      e.kind = "OwnedArray";
      e.name = s ? "O1" : "O0";
      e.role = M[s].role;
      e.n = M[s].c.size();
      e.want = M[s].c;
      e.must_be_null = M[s].reset_like;
      e.touched = touched[s];
      c.wrapper(*O[s], e);
    }
  }
};

int main(int argc, char **argv)
{
  return unit_main<World>("owned", argc, argv, 4, 5);
}
