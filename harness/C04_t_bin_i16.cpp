// C04: instantiates the "bin" families for element type int16_t (see C04_groups.h)
#include "C04_groups.h"
void c04_reg_bin_i16(c04::Reg &r)
{
  c04::reg_bin<int16_t>(r);
}
