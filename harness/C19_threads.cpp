// C19 (schedule part): time stamps created / renewed / copied concurrently are pairwise
// distinct, increasing per thread, and copies equal their source - on every schedule.
#include "mcsched/mcsched.h"

#include "rkcommon/utility/TimeStamp.h"

#include <set>
#include <string>
#include <thread>
#include <vector>

using rkcommon::utility::TimeStamp;

struct Out
{
  size_t fresh[6];
  int n;
  bool copy_ok;
};

static void worker(Out *o, int rounds)
{
  o->n = 0;
  o->copy_ok = true;
  TimeStamp a;
  o->fresh[o->n++] = (size_t)a;
  for (int r = 0; r < rounds; r++) {
    TimeStamp c(a);  // copy carries the source's value
    if ((size_t)c != (size_t)a)
      o->copy_ok = false;
    a.renew();
    o->fresh[o->n++] = (size_t)a;
    TimeStamp b;
    o->fresh[o->n++] = (size_t)b;
    TimeStamp d;
    d = b;  // assignment carries the source's value
    if ((size_t)d != (size_t)b)
      o->copy_ok = false;
  }
}

static void scenario(int nthreads, int rounds)
{
  std::vector<Out> out(nthreads + 1);
  std::vector<std::thread> th;
  for (int i = 0; i < nthreads; i++)
    th.emplace_back(worker, &out[i], rounds);
  worker(&out[nthreads], 1);  // the main thread takes stamps too
  for (auto &t : th)
    t.join();
  std::set<size_t> all;
  size_t total = 0;
  std::string obs;
  for (auto &o : out) {
    MC_CHECK(o.copy_ok, "TimeStamp|copy does not carry its source's value", "copy/assign");
    for (int i = 0; i < o.n; i++) {
      all.insert(o.fresh[i]);
      total++;
      obs += std::to_string(o.fresh[i]) + (i + 1 < o.n ? "<" : " ");
      if (i > 0)
        MC_CHECK(o.fresh[i] > o.fresh[i - 1], "TimeStamp|value not larger than an earlier value of the same thread", obs.c_str());
    }
  }
  MC_CHECK(all.size() == total, "TimeStamp|two fresh or renewed stamps carry the same value", obs.c_str());
  mc_eventf(obs);
}

MC_SCENARIO(stamps_t1, 5, 8) { scenario(1, 1); }
MC_SCENARIO(stamps_t2, 3, 5) { scenario(2, 1); }
MC_SCENARIO(stamps_t1_r2, 4, 6) { scenario(1, 2); }
MC_SCENARIO(stamps_t3, 2, 3) { scenario(3, 1); }
