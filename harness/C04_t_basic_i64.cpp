// C04: instantiates the "basic" families for element type int64_t (see C04_groups.h)
#include "C04_groups.h"
void c04_reg_basic_i64(c04::Reg &r)
{
  c04::reg_basic<int64_t>(r);
}
