// C12 (history part): one thread alternately producing and consuming - every burst length of
// assignments between two update() calls (1..600 and the 16/17-bit boundaries) and every batch
// size of push_backs between two consume() calls (0..600): the consumer obtains the last value /
// exactly the pushed elements, whatever the count.  Engine seqmc, plain enumeration.
#include <functional>
#include <stdexcept>
#include "common/vreport.h"

#include "rkcommon/containers/TransactionalBuffer.h"
#include "rkcommon/utility/TransactionalValue.h"

using rkcommon::containers::TransactionalBuffer;
using rkcommon::utility::TransactionalValue;

static void viol(const std::string &sig, const std::string &replay, const std::string &detail)
{
  vr::violation(sig, replay, detail);
  if (vr::replaying())
    printf("VIOLATED %s :: %s\n", sig.c_str(), detail.c_str());
}

template <typename T>
static T mk(long k);
template <>
int mk<int>(long k) { return (int)k; }
template <>
std::string mk<std::string>(long k) { return std::string(20, 'v') + std::to_string(k); }

template <typename T>
static void value_burst(const char *ty, long n, int rounds)
{
  TransactionalValue<T> tv(mk<T>(0));
  long last = 0;
  std::string rp = std::string("val:") + ty + ":" + std::to_string(n) + ":" + std::to_string(rounds);
  for (int r = 0; r < rounds; r++) {
    for (long k = 1; k <= n; k++)
      tv = mk<T>(last + k);
    last += n;
    bool u = tv.update();
    T got = tv.get();
    vr::stat("transitions", n + 2);
    if (!(u == (n > 0)) || !(got == mk<T>(last)))
      viol(std::string("TransactionalValue|after a burst of assignments update()/get() do not deliver the last value|burst ") +
              (n >= 65535 ? ">= 65535" : n >= 255 ? "255..65534" : "< 255"),
          rp, "burst " + std::to_string(n) + " round " + std::to_string(r) + ": update()=" + (u ? "true" : "false"));
    if (tv.update())
      viol("TransactionalValue|update() true with nothing new", rp, "second update() after burst " + std::to_string(n));
  }
  vr::stat("states");
  vr::outcome(std::string(ty) + (n == 0 ? "0" : "n"));
  if (vr::replaying())
    printf("value burst %s n=%ld rounds=%d done\n", ty, n, rounds);
}

template <typename T>
static void buffer_burst(const char *ty, long n)
{
  TransactionalBuffer<T> b;
  std::string rp = std::string("buf:") + ty + ":" + std::to_string(n);
  for (int r = 0; r < 2; r++) {
    for (long k = 0; k < n; k++) {
      if (k & 1) {
        T v = mk<T>(k);
        b.push_back(v);
      } else
        b.push_back(mk<T>(k));
    }
    bool okSize = b.size() == (size_t)n && b.empty() == (n == 0);
    std::vector<T> got = b.consume();
    bool ok = got.size() == (size_t)n && b.size() == 0 && b.empty();
    for (long k = 0; ok && k < n; k++)
      ok = got[k] == mk<T>(k);
    vr::stat("transitions", n + 4);
    if (!ok || !okSize)
      viol("TransactionalBuffer|a batch does not hold exactly the pushed elements in order (single thread)", rp, "batch of " + std::to_string(n) + " round " + std::to_string(r));
  }
  vr::stat("states");
  vr::outcome(std::string("b") + ty + (n == 0 ? "0" : "n"));
  if (vr::replaying())
    printf("buffer burst %s n=%ld done\n", ty, n);
}

// a payload whose assignment from one particular source throws (a validating assignment) and leaves it unchanged:
// op 'x' = "tv = Poison()" must change nothing - what was assigned before is still what update() delivers
struct Poison
{
};
struct Picky
{
  long v;
  Picky(long v_ = 0) : v(v_) {}
  Picky &operator=(const Poison &) { throw std::invalid_argument("rejected value"); }
  bool operator==(const Picky &o) const { return v == o.v; }
  // (comparable with the rejected source too: a tree that compares before it assigns must still compile)
  bool operator==(const Poison &) const { return false; }
  bool operator!=(const Picky &o) const { return v != o.v; }
  bool operator!=(const Poison &) const { return true; }
};
template <>
Picky mk<Picky>(long k) { return Picky(k); }
template <typename T>
static bool assign_poison(TransactionalValue<T> &) { return false; }
template <>
bool assign_poison<Picky>(TransactionalValue<Picky> &tv)
{
  try {
    tv = Poison();
  } catch (const std::invalid_argument &) {
    return true;
  }
  return false;
}

// every history of <= D operations over {assign 0/1/2, update()} on one thread: values repeat, so "the last value" is told apart from "a value that differs"
template <typename T>
static void value_history(const char *ty, const std::string &h)
{
  TransactionalValue<T> tv(mk<T>(0));
  long cur = 0, last = 0;
  bool pending = false;
  const std::string rp = std::string("hist:") + ty + ":" + h;
  vr::stat("states");
  vr::stat("transitions", (long long)h.size());
  for (size_t i = 0; i < h.size(); i++) {
    const char op = h[i];
    if (op == 'u') {
      const bool u = tv.update();
      const T got = tv.get();
      const char *bad = nullptr;
      if (!(got == mk<T>(pending ? last : cur)))
        bad = "TransactionalValue|update()/get() do not deliver the last value assigned|values repeat";
      else if (!pending && u)
        bad = "TransactionalValue|update() true with nothing new";
      else if (pending && last != cur && !u)
        bad = "TransactionalValue|update() false although it installed a newer value";
      if (vr::replaying())
        printf("  step %zu update() -> %s, get() is value %s; last assigned %ld, current before %ld%s\n", i, u ? "true" : "false",
            got == mk<T>(0) ? "0" : got == mk<T>(1) ? "1" : got == mk<T>(2) ? "2" : "?", last, cur, bad ? "  <-- VIOLATED" : "");
      if (bad) {
        viol(bad, rp, "history " + h + " step " + std::to_string(i));
        return;
      }
      if (pending)
        cur = last;
      pending = false;
    } else if (op == 'x') {
      if (!assign_poison(tv)) {
        viol("TransactionalValue|an assignment whose payload assignment throws does not propagate the exception", rp, "history " + h + " step " + std::to_string(i));
        return;
      }
      if (!(tv.get() == mk<T>(cur))) {
        viol("TransactionalValue|get() changes before update()", rp, "history " + h + " step " + std::to_string(i));
        return;
      }
      continue;  // nothing was assigned: pending / last stay as they were
    } else {
      last = op - '0';
      tv = mk<T>(last);
      pending = true;
      if (!(tv.get() == mk<T>(cur))) {
        viol("TransactionalValue|get() changes before update()", rp, "history " + h + " step " + std::to_string(i));
        return;
      }
    }
  }
  vr::outcome(std::string(ty) + h);
}
static void all_value_histories(int D)
{
  static const char OPS[] = "012u";  // operator=(const TransactionalValue&) cannot be instantiated on this tree (calls ref() on a const object)
  std::string h;
  long long n = 0;
  std::function<void()> rec = [&]() {
    if (!h.empty() && h.back() == 'u') {  // a history is checked when it ends in update(); its prefixes were checked before
      value_history<int>("int", h);
      value_history<std::string>("str", h);
      n++;
    }
    if ((int)h.size() == D)
      return;
    for (const char *o = OPS; *o; o++) {
      h.push_back(*o);
      rec();
      h.pop_back();
    }
  };
  rec();
  {
    // the same with the rejecting assignment in the alphabet, one level less deep, for the validating payload
    static const char OPSX[] = "012xu";
    std::string hx;
    std::function<void()> recx = [&]() {
      if (!hx.empty() && hx.back() == 'u' && hx.find('x') != std::string::npos) {
        value_history<Picky>("picky", hx);
        n++;
      }
      if ((int)hx.size() == D - 1)
        return;
      for (const char *o = OPSX; *o; o++) {
        hx.push_back(*o);
        recx();
        hx.pop_back();
      }
    };
    recx();
  }
  vr::sample("every history of <= " + std::to_string(D) + " operations over {=0, =1, =2, update()} ending in update(): " + std::to_string(n) +
      " histories x {int, string}, e.g. hist:int:10u (assign 1, assign 0 = the consumer's current value, update)");
}

int main(int argc, char **argv)
{
  vr::init(argc, argv);
  if (vr::replaying()) {
    std::vector<std::string> f;
    std::stringstream ss(vr::S().replay);
    std::string item;
    while (std::getline(ss, item, ':'))
      f.push_back(item);
    long n = atol(f[2].c_str());
    if (f[0] == "hist") {
      if (f[1] == "int")
        value_history<int>("int", f[2]);
      else if (f[1] == "picky")
        value_history<Picky>("picky", f[2]);
      else
        value_history<std::string>("str", f[2]);
    } else if (f[0] == "val") {
      int rounds = atoi(f[3].c_str());
      if (f[1] == "int")
        value_burst<int>("int", n, rounds);
      else
        value_burst<std::string>("str", n, rounds);
    } else {
      if (f[1] == "int")
        buffer_burst<int>("int", n);
      else
        buffer_burst<std::string>("str", n);
    }
    vr::flush();
    return vr::S().viols.empty() ? 0 : 1;
  }
  all_value_histories(vr::thorough() ? 9 : 8);
  for (long n = 0; n <= 600; n++) {
    value_burst<int>("int", n, 3);
    value_burst<std::string>("str", n, 2);
    buffer_burst<int>("int", n);
    buffer_burst<std::string>("str", n);
  }
  const long big[] = {1023, 1024, 1025, 32767, 32768, 65535, 65536, 65537, 131072, 196608};
  for (long n : big) {
    value_burst<int>("int", n, 2);
    if (vr::thorough() || n <= 65537)
      value_burst<std::string>("str", n, 1);
    buffer_burst<int>("int", n);
  }
  vr::sample("bursts of 0..600, 1023..1025, 32767/8, 65535..65537, 131072, 196608 assignments between two update() calls; batches of the same sizes between two consume() calls");
  vr::stat("traces", vr::S().stats["states"]);
  return vr::finish();
}
