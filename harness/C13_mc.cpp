// C13 (schedule part): on the internal backend the parallel_for body never runs on more than
// numTaskingThreads() threads at once - for every schedule up to a deviation bound.
#include "mcsched/mcsched.h"

#include "rkcommon/tasking/parallel_for.h"
#include "rkcommon/tasking/tasking_system_init.h"

#include <atomic>
#include <cstring>
#include <string>

using namespace rkcommon::tasking;

static void conc(int T, int n, bool nested)
{
  MC_CHECK(numTaskingThreads() == 0, "numTaskingThreads() != 0 before initialisation", "before init");
  initTaskingSystem(T);
  MC_CHECK(numTaskingThreads() == T, "initTaskingSystem(n>0) does not report n", "after init");
  std::atomic<int> inside(0), maxseen(0);
  auto body = [&](int) {
    int c = inside.fetch_add(1) + 1;
    MC_CHECK(c <= T, "parallel_for body ran on more threads at once than numTaskingThreads()", ("inside=" + std::to_string(c)).c_str());
    int m = maxseen.load();
    if (c > m)
      maxseen.store(c);
    mc_yield();  // invite the other threads in
    inside.fetch_sub(1);
  };
  if (nested)
    parallel_for(2, [&](int) { parallel_for(n, body); });
  else
    parallel_for(n, body);
  mc_eventf("max" + std::to_string(maxseen.load()));
}

// re-initialisation histories under the controlled scheduler: the old pool is shut down while
// its workers are anywhere in their loop; the new count is reported and respected
static void reinit(const char *sizes)
{
  MC_CHECK(numTaskingThreads() == 0, "numTaskingThreads() != 0 before initialisation", "before init");
  std::string obs;
  for (int k = 0; sizes[k]; k++) {
    const int T = sizes[k] - '0';
    initTaskingSystem(T);
    MC_CHECK(numTaskingThreads() == T, "initTaskingSystem(n>0) does not report n (after a previous initialisation)", obs.c_str());
    std::atomic<int> inside(0), calls(0);
    parallel_for(T + 1, [&](int) {
      int c = inside.fetch_add(1) + 1;
      MC_CHECK(c <= T, "parallel_for body ran on more threads at once than numTaskingThreads()", ("inside=" + std::to_string(c)).c_str());
      calls.fetch_add(1);
      mc_yield();
      inside.fetch_sub(1);
    });
    MC_CHECK(calls.load() == T + 1, "parallel_for after re-initialisation did not run every index once", obs.c_str());
    obs += std::to_string(T);
  }
  mc_eventf("reinit" + obs);
}

static void entry()
{
  if (strncmp(mc_scenario_name(), "reinit_", 7) == 0) {
    reinit(mc_scenario_name() + 7);
    return;
  }
  std::string s = mc_scenario_name();  // conc_T<t>_n<n> / nconc_T..
  int T = atoi(s.c_str() + s.find("_T") + 2);
  int n = atoi(s.c_str() + s.find("_n") + 2);
  conc(T, n, s[0] == 'n');
}
struct Reg
{
  Reg()
  {
    auto add = [](const std::string &name, int bq, int bt) { new McRegister(strdup(name.c_str()), entry, bq, bt, 6000); };
    add("conc_T1_n4", 1, 2);
    add("conc_T2_n4", 3, 4);
    add("conc_T2_n8", 3, 4);
    add("conc_T3_n6", 2, 3);
    add("conc_T3_n12", 1, 2);
    add("nconc_T2_n3", 2, 4);
    for (const char *seq : {"21", "12", "22", "23", "32", "212", "121", "232"})
      add(std::string("reinit_") + seq, strchr(seq, '3') ? 1 : 2, strchr(seq, '3') ? 2 : 3);
  }
};
static Reg reg;
