// C05 sets: instantiations (split over several translation units so that they compile in parallel)
#include "C05_sets.h"
void run_box3f(const std::string &n, int K, const std::string &k, const std::string &a, const std::string &b)
{
  run_cfg<vec3f>(n, K, k, a, b);
}
void run_box4f(const std::string &n, int K, const std::string &k, const std::string &a, const std::string &b)
{
  run_cfg<vec4f>(n, K, k, a, b);
}
