// C04: instantiates the "mix" families for element type double (see C04_groups.h)
#include "C04_groups.h"
void c04_reg_mix_f64(c04::Reg &r)
{
  c04::reg_mix<double>(r);
}
