// C08 (sequential part): reference counting destroys each object exactly once, at the last release.
// Engine seqmc: every history over a pool of 2 reference-counted objects (a Node:Base and a Derived:Base,
// both counting their destructor runs and both OWNING a member handle `next`; the Node also owns a
// member handle of the derived type, `IntrusivePtr<Derived> dnext`) and 3 handle slots
// (two IntrusivePtr<Base>, one IntrusivePtr<Derived>), replayed on fresh objects inside forked
// ASan+UBSan shards.  Reference model: per object the creator's explicit references plus the handle
// slots plus the member handles of live objects pointing at it; an object whose count reaches 0 dies
// and thereby releases its member (cascade).
#include <type_traits>
#include "C10_seqmc.h"

#include "rkcommon/memory/IntrusivePtr.h"
#include "rkcommon/memory/RefCount.h"

#include <functional>
#include <memory>

using rkcommon::memory::IntrusivePtr;
using rkcommon::memory::RefCountedObject;

struct Base : public RefCountedObject
{
  int *dtor_runs;
  int payload;
  explicit Base(int *d) : dtor_runs(d), payload(0x5a5a) {}
  ~Base() override { ++*dtor_runs; }
};
typedef IntrusivePtr<Base> BPtr;  // (IntrusivePtr<T> needs a complete T, so the links are handles to the base type)

struct Derived : public Base  // object 1
{
  int *derived_dtor_runs;
  int more;
  BPtr next;
  Derived(int *d, int *dd) : Base(d), derived_dtor_runs(dd), more(0x7b7b) {}
  ~Derived() override { ++*derived_dtor_runs; }
};
typedef rkcommon::memory::Ref<Derived> DPtr;  // the backward-compatible alias of RefCount.h
struct Node : public Base  // object 0: a list / scene-graph node, or a wrapper around a Derived payload
{
  BPtr next;
  DPtr dnext;  // a member handle of a DERIVED type: assigning it to a Base handle converts
  explicit Node(int *d) : Base(d) {}
};

struct PtrSys
{
  // object 0 is a Node, object 1 a Derived; slots 0,1 are BPtr, slot 2 is a DPtr
  struct Model
  {
    signed char alive[2] = {0, 0};
    signed char manual[2] = {0, 0};  // references held by the creator (1 after creation, changed by refInc/refDec)
    signed char mem[2] = {-1, -1};   // where the live object's member handle `next` points, -1 null
    signed char dmem = -1;           // where obj0's member handle `dnext` points: -1 null or 1
    signed char cons[3] = {0, 0, 0};
    signed char tgt[3] = {-1, -1, -1};  // -1 null
    int count(int k) const
    {
      int c = manual[k];
      for (int i = 0; i < 3; i++)
        if (cons[i] && tgt[i] == k)
          c++;
      for (int j = 0; j < 2; j++)
        if (alive[j] && mem[j] == k)
          c++;
      if (alive[0] && dmem == k)
        c++;
      return c;
    }
    // somebody other than a member handle owns k: k survives whatever a member assignment releases
    bool outside(int k) const
    {
      if (manual[k] > 0)
        return true;
      for (int i = 0; i < 3; i++)
        if (cons[i] && tgt[i] == k)
          return true;
      return false;
    }
  };
  enum Kind {
    NEW, DEC, INC,
    CT_DEFAULT, CT_RAW, CT_RAWNULL, CT_COPY, CT_MOVE, CT_CONV,
    AS_RAW, AS_NULL, AS_COPY, AS_MOVE, AS_CONV, DTOR,
    ADOPT,                              // Ref<T> h = new T; h->refDec();  (the handle becomes the only owner)
    SETMEM, SETMEM_RAW, SETMEM_NULL,    // obj_k.next = h_j / = raw m / = null
    AS_COPY_MEM, AS_RAW_MEM,            // h_i = h_j->next / h_i = h_j->next.ptr   (i == j: the list walk)
    CT_COPY_MEM, CT_MOVE_MEM,           // h_i(h_j->next) / h_i(std::move(h_j->next))
    SETDMEM, SETDMEM_NULL,              // obj0.dnext = h2 / = null
    AS_CONV_MEM, CT_CONV_MEM,           // h_i = h_j->dnext / h_i(h_j->dnext): Base handle from a Derived member handle
    CT_CONV_MOVE                        // h_i(std::move(h2)): Base handle from an RVALUE Derived handle
  };
  struct Op
  {
    Kind kind;
    int a, b;  // object / destination slot, source slot or object
    std::string name, cls;
  };
  std::vector<Op> ops;
  static std::string S(int i) { return std::to_string(i); }
  PtrSys()
  {
    // simplest first
    for (int k = 0; k < 2; k++)
      ops.push_back(Op{NEW, k, 0, "new" + S(k), "create object"});
    for (int i = 0; i < 3; i++)
      for (int k = (i == 2 ? 1 : 0); k < 2; k++)
        ops.push_back(Op{CT_RAW, i, k, "h" + S(i) + "(raw" + S(k) + ")", "construct from raw pointer"});
    for (int k = 0; k < 2; k++)
      ops.push_back(Op{DEC, k, 0, "dec" + S(k), "refDec by the creator"});
    for (int i = 0; i < 3; i++)
      ops.push_back(Op{DTOR, i, 0, "~h" + S(i), "destroy handle"});
    for (int i = 0; i < 2; i++)
      ops.push_back(Op{CT_COPY, i, 1 - i, "h" + S(i) + "(h" + S(1 - i) + ")", "copy-construct"});
    for (int i = 0; i < 2; i++)
      for (int j = 0; j < 2; j++)
        ops.push_back(Op{AS_COPY, i, j, "h" + S(i) + "=h" + S(j), i == j ? "copy-assign to itself" : "copy-assign"});
    for (int i = 0; i < 3; i++)
      for (int k = (i == 2 ? 1 : 0); k < 2; k++)
        ops.push_back(Op{AS_RAW, i, k, "h" + S(i) + "=raw" + S(k), "assign raw pointer"});
    for (int i = 0; i < 3; i++)
      ops.push_back(Op{AS_NULL, i, 0, "h" + S(i) + "=null", "assign null"});
    for (int i = 0; i < 2; i++)
      ops.push_back(Op{CT_MOVE, i, 1 - i, "h" + S(i) + "(mv-h" + S(1 - i) + ")", "move-construct"});
    for (int i = 0; i < 2; i++)
      for (int j = 0; j < 2; j++)
        ops.push_back(Op{AS_MOVE, i, j, "h" + S(i) + "=mv-h" + S(j), i == j ? "move-assign to itself" : "move-assign"});
    for (int i = 0; i < 2; i++) {
      ops.push_back(Op{CT_CONV, i, 2, "h" + S(i) + "(h2)", "converting construct Derived->Base"});
      ops.push_back(Op{CT_CONV_MOVE, i, 2, "h" + S(i) + "(mv-h2)", "converting construct Derived->Base from an rvalue"});
    }
    for (int i = 0; i < 2; i++)
      ops.push_back(Op{AS_CONV, i, 2, "h" + S(i) + "=h2", "assign converted Derived->Base handle"});
    for (int k = 0; k < 2; k++)
      ops.push_back(Op{INC, k, 0, "inc" + S(k), "refInc by the creator"});
    for (int i = 0; i < 3; i++)
      ops.push_back(Op{CT_DEFAULT, i, 0, "h" + S(i) + "()", "default-construct"});
    for (int i = 0; i < 3; i++)
      ops.push_back(Op{CT_RAWNULL, i, 0, "h" + S(i) + "(rawnull)", "construct from null raw pointer"});
    ops.push_back(Op{AS_COPY, 2, 2, "h2=h2", "copy-assign to itself"});
    // objects that own a handle
    for (int i = 0; i < 2; i++)
      for (int k = 0; k < 2; k++)
        ops.push_back(Op{ADOPT, i, k, "h" + S(i) + "(new" + S(k) + ")", "create object owned by a new handle only"});
    for (int k = 0; k < 2; k++)
      for (int j = 0; j < 2; j++)
        ops.push_back(Op{SETMEM, k, j, "m" + S(k) + "=h" + S(j), "copy-assign to member handle"});
    for (int k = 0; k < 2; k++)
      ops.push_back(Op{SETMEM_NULL, k, 0, "m" + S(k) + "=null", "assign null to member handle"});
    for (int i = 0; i < 2; i++)
      for (int j = 0; j < 2; j++)
        ops.push_back(Op{AS_COPY_MEM, i, j, "h" + S(i) + "=h" + S(j) + "->m", i == j ? "copy-assign from member handle of own pointee" : "copy-assign from member handle of another pointee"});
    for (int i = 0; i < 2; i++)
      for (int j = 0; j < 2; j++)
        ops.push_back(Op{AS_RAW_MEM, i, j, "h" + S(i) + "=h" + S(j) + "->m.ptr", i == j ? "assign raw pointer read from member of own pointee" : "assign raw pointer read from member of another pointee"});
    for (int i = 0; i < 2; i++)
      ops.push_back(Op{CT_COPY_MEM, i, 1 - i, "h" + S(i) + "(h" + S(1 - i) + "->m)", "copy-construct from member handle"});
    for (int i = 0; i < 2; i++)
      ops.push_back(Op{CT_MOVE_MEM, i, 1 - i, "h" + S(i) + "(mv-h" + S(1 - i) + "->m)", "move-construct from member handle"});
    // a member handle of the derived type (obj0.dnext, can only point at obj1)
    ops.push_back(Op{SETDMEM, 0, 2, "d0=h2", "copy-assign to Derived member handle"});
    ops.push_back(Op{SETDMEM_NULL, 0, 0, "d0=null", "assign null to Derived member handle"});
    for (int i = 0; i < 2; i++)
      for (int j = 0; j < 2; j++)
        ops.push_back(Op{AS_CONV_MEM, i, j, "h" + S(i) + "=h" + S(j) + "->d", i == j ? "assign converted Derived member handle of own pointee" : "assign converted Derived member handle of another pointee"});
    for (int i = 0; i < 2; i++)
      ops.push_back(Op{CT_CONV_MEM, i, 1 - i, "h" + S(i) + "(h" + S(1 - i) + "->d)", "converting construct from Derived member handle"});
  }
  const char *sysname() const { return "IntrusivePtr"; }
  const char *tag() const { return "ptr"; }
  Model initial() const { return Model(); }
  int nops() const { return (int)ops.size(); }
  const std::string &opname(int op) const { return ops[op].name; }
  const std::string &opclass(int op) const { return ops[op].cls; }

  static bool constructs_slot(Kind k)
  {
    return k == CT_DEFAULT || k == CT_RAW || k == CT_RAWNULL || k == CT_COPY || k == CT_MOVE || k == CT_CONV || k == ADOPT || k == CT_COPY_MEM || k == CT_MOVE_MEM || k == CT_CONV_MEM || k == CT_CONV_MOVE;
  }
  bool enabled(const Model &m, int op) const
  {
    const Op &o = ops[op];
    // Symmetry: h0 and h1 are two names for the same kind of slot, and an unconstructed slot carries no state.
    // While both are unconstructed only h0 may be constructed (every other history is a renaming of an enumerated one).
    if (constructs_slot(o.kind) && o.a == 1 && !m.cons[0])
      return false;
    switch (o.kind) {
    case NEW:
      return !m.alive[o.a];
    case DEC:
      return m.alive[o.a] && m.manual[o.a] > 0;  // the creator only releases references it holds
    case INC:
      return m.alive[o.a] && m.manual[o.a] < 2;
    case CT_DEFAULT:
    case CT_RAWNULL:
      return !m.cons[o.a];
    case CT_RAW:
      return !m.cons[o.a] && m.alive[o.b];
    case CT_COPY:
    case CT_MOVE:
    case CT_CONV:
    case CT_CONV_MOVE:
      return !m.cons[o.a] && m.cons[o.b];
    case AS_RAW:
      return m.cons[o.a] && m.alive[o.b];
    case AS_NULL:
    case DTOR:
      return m.cons[o.a];
    case AS_COPY:
    case AS_MOVE:
    case AS_CONV:
      return m.cons[o.a] && m.cons[o.b];
    case ADOPT:
      return !m.cons[o.a] && !m.alive[o.b];
    // A member handle is only assigned while somebody outside owns its object: otherwise the assignment could
    // release the very object the handle lives in (destination inside the released object: outside the statement).
    case SETMEM:
      return m.alive[o.a] && m.outside(o.a) && m.cons[o.b];
    case SETMEM_RAW:
      return m.alive[o.a] && m.outside(o.a) && m.alive[o.b];
    case SETMEM_NULL:
      return m.alive[o.a] && m.outside(o.a) && m.mem[o.a] >= 0;
    case AS_COPY_MEM:
    case AS_RAW_MEM:
      return m.cons[o.a] && m.cons[o.b] && m.tgt[o.b] >= 0;
    case CT_COPY_MEM:
    case CT_MOVE_MEM:
      return !m.cons[o.a] && m.cons[o.b] && m.tgt[o.b] >= 0;
    case SETDMEM:
      return m.alive[0] && m.outside(0) && m.cons[2];
    case SETDMEM_NULL:
      return m.alive[0] && m.outside(0) && m.dmem >= 0;
    case AS_CONV_MEM:
      return m.cons[o.a] && m.cons[o.b] && m.tgt[o.b] == 0;  // the pointee must be the Node
    case CT_CONV_MEM:
      return !m.cons[o.a] && m.cons[o.b] && m.tgt[o.b] == 0;
    }
    return false;
  }
  // objects whose count reached 0 die; a dying object releases its member, which may kill the next one
  static void settle(Model &m, bool died[2])
  {
    for (bool again = true; again;) {
      again = false;
      for (int k = 0; k < 2; k++)
        if (m.alive[k] && m.count(k) == 0) {
          m.alive[k] = 0;
          m.mem[k] = -1;
          if (k == 0)
            m.dmem = -1;
          m.manual[k] = 0;
          died[k] = true;
          again = true;
        }
    }
  }
  // reference model.  died[k] is set when object k loses its last reference in this step.
  void apply(Model &m, int op, bool died[2]) const
  {
    const Op &o = ops[op];
    switch (o.kind) {
    case NEW:
      m.alive[o.a] = 1;
      m.manual[o.a] = 1;
      m.mem[o.a] = -1;
      if (o.a == 0)
        m.dmem = -1;
      break;
    case DEC:
      m.manual[o.a]--;
      break;
    case INC:
      m.manual[o.a]++;
      break;
    case CT_DEFAULT:
    case CT_RAWNULL:
      m.cons[o.a] = 1;
      m.tgt[o.a] = -1;
      break;
    case CT_RAW:
      m.cons[o.a] = 1;
      m.tgt[o.a] = (signed char)o.b;
      break;
    case CT_COPY:
    case CT_CONV:
      m.cons[o.a] = 1;
      m.tgt[o.a] = m.tgt[o.b];
      break;
    case CT_MOVE:
    case CT_CONV_MOVE:
      m.cons[o.a] = 1;
      m.tgt[o.a] = m.tgt[o.b];
      m.tgt[o.b] = -1;
      break;
    case AS_RAW:
      m.tgt[o.a] = (signed char)o.b;
      break;
    case AS_NULL:
      m.tgt[o.a] = -1;
      break;
    case AS_COPY:
    case AS_CONV:
      m.tgt[o.a] = m.tgt[o.b];
      break;
    case AS_MOVE:
      if (o.a != o.b) {
        m.tgt[o.a] = m.tgt[o.b];
        m.tgt[o.b] = -1;
      } else {
        // moving a handle onto itself: the statement does not say whether it keeps its object; the
        // enumeration follows "it ends up null" (the run accepts either, see Run::step)
        m.tgt[o.a] = -1;
      }
      break;
    case DTOR:
      m.cons[o.a] = 0;
      m.tgt[o.a] = -1;
      break;
    case ADOPT:
      m.alive[o.b] = 1;
      m.manual[o.b] = 0;
      m.mem[o.b] = -1;
      if (o.b == 0)
        m.dmem = -1;
      m.cons[o.a] = 1;
      m.tgt[o.a] = (signed char)o.b;
      break;
    case SETMEM:
      m.mem[o.a] = m.tgt[o.b];
      break;
    case SETMEM_RAW:
      m.mem[o.a] = (signed char)o.b;
      break;
    case SETMEM_NULL:
      m.mem[o.a] = -1;
      break;
    case AS_COPY_MEM:
    case AS_RAW_MEM:
      m.tgt[o.a] = m.mem[m.tgt[o.b]];  // read before anything is released
      break;
    case CT_COPY_MEM:
      m.cons[o.a] = 1;
      m.tgt[o.a] = m.mem[m.tgt[o.b]];
      break;
    case CT_MOVE_MEM:
      m.cons[o.a] = 1;
      m.tgt[o.a] = m.mem[m.tgt[o.b]];
      m.mem[m.tgt[o.b]] = -1;
      break;
    case SETDMEM:
      m.dmem = m.tgt[2];
      break;
    case SETDMEM_NULL:
      m.dmem = -1;
      break;
    case AS_CONV_MEM:
      m.tgt[o.a] = m.dmem;  // read before anything is released
      break;
    case CT_CONV_MEM:
      m.cons[o.a] = 1;
      m.tgt[o.a] = m.dmem;
      break;
    }
    died[0] = died[1] = false;
    settle(m, died);
  }
  void advance(Model &m, int op) const
  {
    bool d[2];
    apply(m, op, d);
  }
  static std::string show(const Model &m)
  {
    std::string s;
    for (int k = 0; k < 2; k++)
      s += "obj" + S(k) + (m.alive[k] ? "(creator " + S(m.manual[k]) + ", count " + S(m.count(k)) + (m.mem[k] >= 0 ? ", next->obj" + S(m.mem[k]) : "") + (k == 0 && m.dmem >= 0 ? ", dnext->obj1" : "") + ") " : "(-) ");
    for (int i = 0; i < 3; i++)
      s += "h" + S(i) + (m.cons[i] ? (m.tgt[i] < 0 ? "=null" : "->obj" + S(m.tgt[i])) : "(-)") + (i < 2 ? " " : "");
    return s;
  }

  struct Run
  {
    const PtrSys &sys;
    sq::Ctx &ctx;
    Model model;
    Base *raw[2] = {nullptr, nullptr};  // valid while the model says the object is alive
    Derived *rawd = nullptr;
    BPtr *member[2] = {nullptr, nullptr};  // &raw[k]->next, valid while the model says the object is alive
    DPtr *dmember = nullptr;               // &obj0->dnext, likewise
    int base_dtor[2] = {0, 0}, derived_dtor = 0;
    BPtr *hb[2] = {nullptr, nullptr};
    DPtr *hd = nullptr;
    Run(const PtrSys &s, sq::Ctx &c) : sys(s), ctx(c) {}

    Base *want_ptr(int i) const { return model.tgt[i] < 0 ? nullptr : raw[model.tgt[i]]; }

    void create(int k)
    {
      base_dtor[k] = 0;
      if (k == 0) {
        Node *n = new Node(&base_dtor[0]);
        raw[0] = n;
        member[0] = &n->next;
        dmember = &n->dnext;
      } else {
        derived_dtor = 0;
        rawd = new Derived(&base_dtor[1], &derived_dtor);
        raw[1] = rawd;
        member[1] = &rawd->next;
      }
    }

    void exec(const Op &o, const Model &before)
    {
      switch (o.kind) {
      case NEW:
        create(o.a);
        break;
      case DEC:
        raw[o.a]->refDec();
        break;
      case INC:
        raw[o.a]->refInc();
        break;
      case CT_DEFAULT:
        if (o.a < 2)
          hb[o.a] = new BPtr();
        else
          hd = new DPtr();
        break;
      case CT_RAWNULL:
        if (o.a < 2)
          hb[o.a] = new BPtr((Base *)nullptr);
        else
          hd = new DPtr((Derived *)nullptr);
        break;
      case CT_RAW:
        if (o.a < 2)
          hb[o.a] = new BPtr(raw[o.b]);
        else
          hd = new DPtr(rawd);
        break;
      case CT_COPY:
        hb[o.a] = new BPtr(*hb[o.b]);
        break;
      case CT_MOVE:
        hb[o.a] = new BPtr(std::move(*hb[o.b]));
        break;
      case CT_CONV:
        hb[o.a] = new BPtr(*hd);
        break;
      case CT_CONV_MOVE:
        hb[o.a] = new BPtr(std::move(*hd));
        break;
      case AS_RAW:
        if (o.a < 2)
          *hb[o.a] = raw[o.b];
        else
          *hd = rawd;
        break;
      case AS_NULL:
        if (o.a < 2)
          *hb[o.a] = nullptr;
        else
          *hd = nullptr;
        break;
      case AS_COPY:
        if (o.a < 2)
          *hb[o.a] = *hb[o.b];
        else {
          DPtr &self = *hd;
          *hd = self;
        }
        break;
      case AS_MOVE: {
        BPtr &src = *hb[o.b];
        *hb[o.a] = std::move(src);
        break;
      }
      case AS_CONV:
        *hb[o.a] = *hd;  // through the converting constructor and the move assignment
        break;
      case DTOR:
        if (o.a < 2) {
          delete hb[o.a];
          hb[o.a] = nullptr;
        } else {
          delete hd;
          hd = nullptr;
        }
        break;
      case ADOPT:
        create(o.b);
        hb[o.a] = new BPtr(raw[o.b]);
        raw[o.b]->refDec();
        break;
      case SETMEM:
        *member[o.a] = *hb[o.b];
        break;
      case SETMEM_RAW:
        *member[o.a] = raw[o.b];
        break;
      case SETMEM_NULL:
        *member[o.a] = nullptr;
        break;
      case AS_COPY_MEM: {  // h_i = h_j->next
        const BPtr &src = *member[before.tgt[o.b]];
        *hb[o.a] = src;
        break;
      }
      case AS_RAW_MEM:  // h_i = h_j->next.ptr
        *hb[o.a] = member[before.tgt[o.b]]->ptr;
        break;
      case CT_COPY_MEM:
        hb[o.a] = new BPtr(*member[before.tgt[o.b]]);
        break;
      case CT_MOVE_MEM:
        hb[o.a] = new BPtr(std::move(*member[before.tgt[o.b]]));
        break;
      case SETDMEM:
        *dmember = *hd;
        break;
      case SETDMEM_NULL:
        *dmember = nullptr;
        break;
      case AS_CONV_MEM: {  // h_i = h_j->dnext with h_j -> obj0: Base handle assigned from a Derived handle
        const DPtr &src = *dmember;
        *hb[o.a] = src;
        break;
      }
      case CT_CONV_MEM:
        hb[o.a] = new BPtr(*dmember);
        break;
      }
    }

    void step_op(const Op &o, int op, bool fresh)
    {
      Model before = model;
      bool died[2];
      sys.apply(model, op, died);
      exec(o, before);
      // The statement does not say that a moved-from handle becomes null (the enumeration follows "null", which is
      // what the tree does).  A source that still points at its object is consistent as long as the count says
      // so: then the move behaved like a copy (onto itself: like nothing), and the history is cut here.
      {
        BPtr *src = nullptr;
        int srctgt = -1;
        if (o.kind == AS_MOVE || o.kind == CT_MOVE) {
          src = hb[o.b];
          srctgt = before.tgt[o.b];
        }
        bool dsrc_keeps = false;  // CT_CONV_MOVE: the source is the Derived handle (its own type, judged the same way)
        if (o.kind == CT_CONV_MOVE && before.tgt[2] >= 0 && hd->ptr != nullptr) {
          if (static_cast<Base *>(hd->ptr) != raw[before.tgt[2]]) {
            ctx.viol(o.cls + "|handle points at something it was never given", "after the move the source handle is neither null nor its old object");
            return;
          }
          dsrc_keeps = true;
        }
        if (dsrc_keeps) {
          model = before;
          model.cons[o.a] = 1;
          model.tgt[o.a] = before.tgt[2];
          died[0] = died[1] = false;
          settle(model, died);
          ctx.diverged = true;
        } else if (o.kind == CT_MOVE_MEM) {
          src = member[before.tgt[o.b]];
          srctgt = before.mem[before.tgt[o.b]];
        }
        // ... and a move ASSIGNMENT may equally well be a swap: the source then holds what the destination held
        // (nothing is released by the step; the counts must say exactly that).  Also consistent, also cut here.
        const int dsttgt = o.kind == AS_MOVE && o.a != o.b ? before.tgt[o.a] : -1;
        if (src && dsttgt >= 0 && dsttgt != srctgt && src->ptr == raw[dsttgt] && hb[o.a]->ptr == (srctgt >= 0 ? raw[srctgt] : nullptr)) {
          model = before;
          model.tgt[o.a] = (signed char)srctgt;
          model.tgt[o.b] = (signed char)dsttgt;
          died[0] = died[1] = false;
          settle(model, died);
          ctx.diverged = true;
        } else if (src && srctgt >= 0 && src->ptr != nullptr) {
          if (src->ptr != raw[srctgt]) {
            ctx.viol(o.cls + "|handle points at something it was never given", "after the move the source handle is neither null nor its old object");
            return;
          }
          model = before;
          if (o.kind != AS_MOVE)
            model.cons[o.a] = 1;
          model.tgt[o.a] = (signed char)srctgt;
          died[0] = died[1] = false;
          settle(model, died);
          ctx.diverged = true;
        }
      }
      // 1. destruction: exactly once, exactly at the step that released the last reference
      for (int k = 0; k < 2; k++) {
        int runs = base_dtor[k];
        bool was_alive = before.alive[k] || (o.kind == NEW && o.a == k) || (o.kind == ADOPT && o.b == k);
        if (!was_alive)
          continue;
        auto cnt = [&]() {
          return ", reference model: creator " + S(before.manual[k]) + " + handles " + S(before.count(k) - before.manual[k]) + " before the step, " + S(model.alive[k] ? model.count(k) : 0) + " after";
        };
        if (died[k]) {
          if (runs == 0) {
            ctx.viol(o.cls + "|object not destroyed by the operation that released the last reference", "object " + S(k) + " still not destroyed" + cnt());
            return;
          }
          if (runs != 1 || (k == 1 && derived_dtor != 1)) {
            ctx.viol(o.cls + "|destructor ran more than once or only in part", "object " + S(k) + ": ~Base ran " + S(runs) + "x" + (k == 1 ? ", ~Derived " + S(derived_dtor) + "x" : "") + cnt());
            return;
          }
        } else if (runs != 0 || (k == 1 && derived_dtor != 0)) {
          ctx.viol(o.cls + "|object destroyed while references remain", "object " + S(k) + " was destroyed" + cnt());
          return;
        }
      }
      // 2. counts
      for (int k = 0; k < 2; k++)
        if (model.alive[k]) {
          long long uc = raw[k]->useCount();
          if (uc != model.count(k)) {
            ctx.viol(o.cls + "|useCount() differs from creator references + live handles", "object " + S(k) + ": useCount() " + std::to_string(uc) + " want " + S(model.count(k)) + " (creator " + S(model.manual[k]) + " + handles " + S(model.count(k) - model.manual[k]) + "); before the step the model count was " + S(before.alive[k] ? before.count(k) : 0));
            return;
          }
          if (raw[k]->payload != 0x5a5a || (k == 1 && rawd->more != 0x7b7b)) {
            ctx.viol(o.cls + "|live object damaged", "object " + S(k));
            return;
          }
        }
      // 3. where the handles point
      for (int i = 0; i < 3; i++) {
        if (!model.cons[i])
          continue;
        Base *p = i < 2 ? hb[i]->ptr : static_cast<Base *>(hd->ptr);
        Base *arrow = i < 2 ? hb[i]->operator->() : static_cast<Base *>(hd->operator->());
        bool b = i < 2 ? (bool)*hb[i] : (bool)*hd;
        Base *w = want_ptr(i);
        if (p != w || arrow != w || b != (w != nullptr) || (w && (i < 2 ? &**hb[i] : static_cast<Base *>(&**hd)) != w)) {
          ctx.viol(o.cls + "|handle does not point at the object it was given", "handle " + S(i) + ": ptr/->/bool/* disagree with " + (w ? "object " + S(model.tgt[i]) : std::string("null")));
          return;
        }
      }
      for (int k = 0; k < 2; k++)
        if (model.alive[k]) {
          Base *w = model.mem[k] < 0 ? nullptr : raw[model.mem[k]];
          if (member[k]->ptr != w) {
            ctx.viol(o.cls + "|handle does not point at the object it was given", "member handle of object " + S(k) + " disagrees with " + (w ? "object " + S(model.mem[k]) : std::string("null")));
            return;
          }
        }
      if (model.alive[0] && dmember->ptr != (model.dmem < 0 ? nullptr : rawd)) {
        ctx.viol(o.cls + "|handle does not point at the object it was given", std::string("Derived member handle of object 0 disagrees with ") + (model.dmem < 0 ? "null" : "object 1"));
        return;
      }
      // 4. comparisons agree with pointer identity
      if (fresh) {
        for (int i = 0; i < 2; i++)
          for (int j = 0; j < 2; j++) {
            if (!model.cons[i] || !model.cons[j])
              continue;
            const BPtr &a = *hb[i], &b = *hb[j];
            Base *pa = want_ptr(i), *pb = want_ptr(j);
            bool eq = a == b, ne = a != b, lt = a < b, gt = b < a;
            if (eq != (pa == pb) || ne != (pa != pb) || lt != std::less<Base *>()(pa, pb) || gt != std::less<Base *>()(pb, pa)) {
              ctx.viol("compare|==, != or < disagree with pointer identity", "handles " + S(i) + "," + S(j) + ": == " + S(eq) + " != " + S(ne) + " < " + S(lt) + " > " + S(gt) + " while they " + (pa == pb ? "point at the same object / are both null" : "point at different objects"));
              return;
            }
          }
        if (model.cons[2]) {
          const DPtr &a = *hd;
          if (!(a == a) || (a != a) || (a < a)) {
            ctx.viol("compare|==, != or < disagree with pointer identity", "Derived handle compared with itself");
            return;
          }
        }
        uint64_t h = sq::mix(vr::fnv("ptr"), (uint64_t)op);
        for (int k = 0; k < 2; k++)
          h = sq::mix(h, model.alive[k] * 256 + model.manual[k] * 32 + (model.mem[k] + 1) * 4 + (died[k] ? 1 : 0));
        for (int i = 0; i < 3; i++)
          h = sq::mix(h, model.cons[i] * 8 + (model.tgt[i] + 1));
        h = sq::mix(h, model.dmem + 1);
        sq::outcomes().add(h);
      }
      if (ctx.verbose)
        printf("  %-16s %-50s -> %s%s%s\n", o.name.c_str(), o.cls.c_str(), show(model).c_str(), died[0] ? "  [obj0 destroyed here]" : "", died[1] ? "  [obj1 destroyed here]" : "");
    }
    void step(int op, bool fresh) { step_op(sys.ops[op], op, fresh); }

    int find_op(Kind kind, int a) const
    {
      for (int i = 0; i < sys.nops(); i++)
        if (sys.ops[i].kind == kind && sys.ops[i].a == a)
          return i;
      return -1;
    }
    // teardown = more checked steps.  The creator first takes a reference to every live object it holds none of
    // (so that cycles of member handles can be opened from outside), clears the member handles, destroys the
    // remaining handle slots and releases its references: every object must be destroyed exactly at its last release.
    void finish()
    {
      for (int k = 0; k < 2 && !ctx.failed; k++)
        if (model.alive[k] && model.manual[k] == 0)
          step(find_op(INC, k), false);
      for (int k = 0; k < 2 && !ctx.failed; k++)
        if (model.alive[k] && model.mem[k] >= 0)
          step(find_op(SETMEM_NULL, k), false);
      if (!ctx.failed && model.alive[0] && model.dmem >= 0)
        step(find_op(SETDMEM_NULL, 0), false);
      for (int i = 0; i < 3 && !ctx.failed; i++)
        if (model.cons[i])
          step(find_op(DTOR, i), false);
      for (int k = 0; k < 2 && !ctx.failed; k++)
        while (model.alive[k] && model.manual[k] > 0 && !ctx.failed)
          step(find_op(DEC, k), false);
      if (!ctx.failed && (model.alive[0] || model.alive[1]))
        ctx.viol("teardown|object alive after every reference was released", show(model));
    }
    std::string describe() const { return show(model); }
  };
};

static std::string arg_str(int argc, char **argv, const char *name, const std::string &dflt)
{
  for (int i = 1; i + 1 < argc; i++)
    if (std::string(argv[i]) == name)
      return argv[i + 1];
  return dflt;
}

// ---------------------------------------------------------------------------------------------------------
// comparisons between handles of DIFFERENT (related) pointee types.  They compile on every tree - through the
// typed operator== or, where that is missing, through operator bool() on both sides, which answers "both are
// non-null" - so they are part of "handles compare equal exactly when they point at the same object".  One pair
// has the reference-counted base as its second base class, so that the two typed pointers differ as addresses.
struct NamedPart
{
  virtual ~NamedPart() {}
  long pad[3] = {1, 2, 3};
};
struct TwoBases : NamedPart, rkcommon::memory::RefCountedObject
{
};
struct PlainBase : rkcommon::memory::RefCountedObject
{
  int b = 1;
};
struct PlainDerived : PlainBase
{
  int d = 2;
};
template <class D, class B>
static void mixed_compare(const char *what)
{
  D *o1 = new D, *o2 = new D;
  {
    IntrusivePtr<D> d1(o1), d2(o2), dn;
    IntrusivePtr<B> b1(d1), b2(d2), bn;
    const bool same = (b1 == d1) && (d1 == b1) && !(b1 != d1) && !(d1 != b1) && (bn == dn) && !(bn != dn);
    const bool diff = !(b1 == d2) && (b1 != d2) && !(d2 == b1) && (d2 != b1) && !(b1 == dn) && (dn != b1);
    vr::stat("states");
    vr::stat("transitions", 12);
    if (vr::replaying())
      printf("%s: same object compares equal: %s; different objects / null compare unequal: %s\n", what, same ? "yes" : "NO", diff ? "yes" : "NO");
    if (!same || !diff)
      vr::violation("IntrusivePtr|comparison of handles with different pointee types|" + std::string(!same ? "the same object compares unequal" : "different objects compare equal"),
          "mixedcmp:", std::string(what) + ": IntrusivePtr<Derived> against an IntrusivePtr<Base> " + (!same ? "converted from it" : "to another object"));
  }
  o1->refDec();
  o2->refDec();
}
static void mixed_compare_all()
{
  mixed_compare<PlainDerived, PlainBase>("single inheritance");
  mixed_compare<TwoBases, rkcommon::memory::RefCountedObject>("reference-counted base is the second base class");
}

int main(int argc, char **argv)
{
  vr::init(argc, argv);
  PtrSys sys;
  if (vr::replaying()) {
    sq::replay_symbolized(argv);
    std::string r = vr::S().replay;
    size_t c = r.find(':');
    if (r.compare(0, 9, "mixedcmp:") == 0) {
      mixed_compare_all();
      vr::flush();
      return vr::S().viols.empty() ? 0 : 1;
    }
    return sq::Explorer<PtrSys>(sys, 0).replay(c == std::string::npos ? "" : r.substr(c + 1));
  }
  const int depth = atoi(arg_str(argc, argv, "--depth", vr::thorough() ? "7" : "6").c_str());
  mixed_compare_all();
  sq::Explorer<PtrSys>(sys, depth, 128).explore();
  return vr::finish();
}
