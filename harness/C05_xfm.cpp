// C05 (part 2): xfmBounds of a box contains the image of every point of the box.
// Engine gridmc.  Affine maps: ALL 3x3 matrices with entries from a small dyadic set (rank 3 only) plus a translation;
// boxes: ALL non-empty (lower <= upper) boxes over a grid; points: ALL grid points of the box (corners, face/edge
// points, interior).  The image of a point is computed by the oracle in double (exact: every value is a small dyadic
// rational) from the map's columns, x*vx + y*vy + z*vz + p, and must lie inside the returned box (slack 2^-22 relative).
// Whether every face of the result is touched by a corner image (tightness) is measured and reported as a note, not
// demanded: the property only says "contains".
#include "C05_common.h"

#include "rkcommon/math/AffineSpace.h"

#include <array>
#include <cmath>

using namespace rkcommon;
using namespace rkcommon::math;
using c05::Counters;
using c05::num;

static const double EPS22 = 2.384185791015625e-07;  // 2^-22

struct Grid
{
  std::vector<double> gv;
  int K, NP;
  std::vector<std::array<double, 3>> P;
  struct Bx
  {
    double lo[3], hi[3];
    std::vector<int> pts;  // grid points inside (naive membership)
  };
  std::vector<Bx> B;
  void build(const std::vector<double> &g)
  {
    gv = g;
    K = (int)g.size();
    NP = K * K * K;
    for (int p = 0; p < NP; p++) {
      std::array<double, 3> c = {{gv[p % K], gv[(p / K) % K], gv[p / (K * K)]}};
      P.push_back(c);
    }
    for (int lx = 0; lx < K; lx++)
      for (int ux = lx; ux < K; ux++)
        for (int ly = 0; ly < K; ly++)
          for (int uy = ly; uy < K; uy++)
            for (int lz = 0; lz < K; lz++)
              for (int uz = lz; uz < K; uz++) {
                Bx b;
                b.lo[0] = gv[lx], b.lo[1] = gv[ly], b.lo[2] = gv[lz];
                b.hi[0] = gv[ux], b.hi[1] = gv[uy], b.hi[2] = gv[uz];
                for (int p = 0; p < NP; p++) {
                  bool in = true;
                  for (int i = 0; i < 3; i++)
                    in = in && b.lo[i] <= P[p][i] && P[p][i] <= b.hi[i];
                  if (in)
                    b.pts.push_back(p);
                }
                B.push_back(b);
              }
  }
};

static std::string v3s(const double *v)
{
  return "(" + num(v[0]) + "," + num(v[1]) + "," + num(v[2]) + ")";
}
static std::string csv3(const double *v)
{
  return num(v[0]) + "," + num(v[1]) + "," + num(v[2]);
}

struct Tally
{
  std::atomic<long long> not_tight, boxes, maps;
  Tally() : not_tight(0), boxes(0), maps(0) {}
};

// one affine map (columns vx,vy,vz = m[0..2], m[3..5], m[6..8]; translation t) against every box of the grid
// (or only box 'only' when >= 0)
template <typename VEC>
static void check_map(const char *tname, const Grid &G, const double *m, const double *t, int only, Counters &C, uint64_t &h, Tally &T)
{
  typedef AffineSpaceT<LinearSpace3<VEC>> Affine;
  typedef range_t<VEC> Box;
  const Affine A(VEC((float)m[0], (float)m[1], (float)m[2]), VEC((float)m[3], (float)m[4], (float)m[5]), VEC((float)m[6], (float)m[7], (float)m[8]),
      VEC((float)t[0], (float)t[1], (float)t[2]));
  // oracle images of every grid point
  std::vector<std::array<double, 3>> img(G.NP);
  for (int p = 0; p < G.NP; p++)
    for (int i = 0; i < 3; i++)
      img[p][i] = G.P[p][0] * m[i] + G.P[p][1] * m[3 + i] + G.P[p][2] * m[6 + i] + t[i];
  const std::string fn = std::string("xfmBounds(") + tname + ")";
  T.maps++;
  for (int ib = 0; ib < (int)G.B.size(); ib++) {
    if (only >= 0 && ib != only)
      continue;
    const Grid::Bx &b = G.B[ib];
    const Box in(VEC((float)b.lo[0], (float)b.lo[1], (float)b.lo[2]), VEC((float)b.hi[0], (float)b.hi[1], (float)b.hi[2]));
    const Box R = xfmBounds(A, in);
    const double rl[3] = {R.lower.x, R.lower.y, R.lower.z}, ru[3] = {R.upper.x, R.upper.y, R.upper.z};
    C.states++;
    C.trans += (long long)b.pts.size();
    h = (h * 1099511628211ull) ^ (uint64_t)(int64_t)(rl[0] * 4 + 64) ^ ((uint64_t)(int64_t)(ru[1] * 4 + 64) << 8) ^ ((uint64_t)(int64_t)(ru[2] * 4 + 64) << 16) ^
        ((uint64_t)(int64_t)(rl[2] * 4 + 64) << 24);
    auto spec = [&]() {
      return std::string("xfm ") + tname + " m=" + csv3(m) + "," + csv3(m + 3) + "," + csv3(m + 6) + " p=" + csv3(t) + " box=" + csv3(b.lo) + ":" + csv3(b.hi);
    };
    RP("map columns " + v3s(m) + v3s(m + 3) + v3s(m + 6) + " + " + v3s(t) + "; box [" + v3s(b.lo) + ".." + v3s(b.hi) + "] -> xfmBounds [" + v3s(rl) + ".." + v3s(ru) + "]");
    bool touched[3][2] = {{false, false}, {false, false}, {false, false}};
    for (int p : b.pts) {
      bool inside = true;
      int ncorner = 0;
      for (int i = 0; i < 3; i++) {
        const double v = img[p][i];
        const double tol = EPS22 * std::max(1.0, std::fabs(v));
        inside = inside && v >= rl[i] - tol && v <= ru[i] + tol;
        ncorner += (G.P[p][i] == b.lo[i] || G.P[p][i] == b.hi[i]);
      }
      if (ncorner == 3)
        for (int i = 0; i < 3; i++) {
          touched[i][0] = touched[i][0] || std::fabs(img[p][i] - rl[i]) <= EPS22 * std::max(1.0, std::fabs(rl[i]));
          touched[i][1] = touched[i][1] || std::fabs(img[p][i] - ru[i]) <= EPS22 * std::max(1.0, std::fabs(ru[i]));
        }
      if (c05::replaying_flag() && ncorner == 3)
        RP("  corner " + v3s(G.P[p].data()) + " -> " + v3s(img[p].data()) + (inside ? " inside" : " OUTSIDE"));
      if (!inside) {
        std::string which;
        if (ncorner == 3) {
          which = "corner (";
          for (int i = 0; i < 3; i++)
            which += std::string(i ? "," : "") + (b.lo[i] == b.hi[i] ? "flat" : G.P[p][i] == b.lo[i] ? "lower" : "upper");
          which += ")";
        } else
          which = ncorner == 0 ? "interior grid point" : "grid point on a face or edge";
        int cc = ncorner == 0 ? 0 : 1;
        if (ncorner == 3) {
          cc = 4;
          for (int i = 0, f = 1; i < 3; i++, f *= 3)
            cc += f * (b.lo[i] == b.hi[i] ? 0 : G.P[p][i] == b.lo[i] ? 1 : 2);
        }
        VIOL(C, cc, fn + "|image of a point of the box lies outside the result|" + which, spec(),
            "box [" + v3s(b.lo) + ".." + v3s(b.hi) + "] point " + v3s(G.P[p].data()) + " -> " + v3s(img[p].data()) + " result [" + v3s(rl) + ".." + v3s(ru) + "]");
        break;
      }
    }
    bool tight = true;
    for (int i = 0; i < 3; i++)
      tight = tight && touched[i][0] && touched[i][1];
    T.boxes++;
    if (!tight) {
      if (T.not_tight++ == 0)
        vr::note(fn + ": result not tight (a face is not touched by any corner image) - measured only, not demanded; first case: " + spec());
      RP("  result is NOT tight");
    }
  }
}

static double det3(const double *m)
{
  return m[0] * (m[4] * m[8] - m[5] * m[7]) - m[3] * (m[1] * m[8] - m[2] * m[7]) + m[6] * (m[1] * m[5] - m[2] * m[4]);
}

template <typename VEC>
static void sweep(const char *tname, const std::vector<double> &ev, const Grid &G, const double *t, const char *label = nullptr)
{
  if (!label)
    label = tname;
  const int E = (int)ev.size();
  long long nm = 1;
  for (int i = 0; i < 9; i++)
    nm *= E;
  Tally T;
  std::atomic<long long> singular(0);
  const uint64_t seed = vr::fnv(std::string(label));
  c05::parallel_items((nm + 255) / 256, 1, [&](long long blk, Counters &C) {
    uint64_t h = seed + blk;
    for (long long code = blk * 256; code < std::min(nm, blk * 256 + 256); code++) {
      double m[9];
      long long r = code;
      for (int i = 0; i < 9; i++) {
        m[i] = ev[r % E];
        r /= E;
      }
      if (det3(m) == 0) {
        singular++;
        continue;
      }
      check_map<VEC>(tname, G, m, t, -1, C, h, T);
    }
    vr::outcome(h);
  }, label);
  vr::stat(std::string("maps_") + label, T.maps);
  vr::stat(std::string("singular_skipped_") + label, singular);
  vr::stat(std::string("boxes_not_tight_") + label, T.not_tight);
  vr::sample(std::string("xfmBounds(") + tname + "): " + std::to_string((long long)T.maps) + " rank-3 maps with entries from {" + num(ev.front()) + ".." + num(ev.back()) + "} (" + std::to_string(E) +
          " values), translation " + v3s(t) + ", x " + std::to_string(G.B.size()) + " boxes, every grid point of each box",
      label);
}

int main(int argc, char **argv)
{
  c05::init(argc, argv);
  const double half[] = {-1, -0.5, 0, 0.5, 1}, unit[] = {-1, 0, 1};
  Grid fine, coarse;
  fine.build(std::vector<double>(half, half + 5));
  coarse.build(std::vector<double>(unit, unit + 3));
  if (vr::replaying()) {
    // "xfm <3f|3fa> m=<9 numbers, columns> p=<3> box=<lo>:<hi>"
    printf("replaying case %s\n", vr::S().replay.c_str());
    std::vector<std::string> t = c05::split_ws(vr::S().replay);
    if (t.size() != 5 || t[2].compare(0, 2, "m=") || t[3].compare(0, 2, "p=") || t[4].compare(0, 4, "box=")) {
      printf("cannot parse replay spec\n");
      return 2;
    }
    std::vector<double> m = c05::parse_nums(t[2].substr(2)), p = c05::parse_nums(t[3].substr(2));
    const std::string bx = t[4].substr(4);
    std::vector<double> lo = c05::parse_nums(bx.substr(0, bx.find(':'))), hi = c05::parse_nums(bx.substr(bx.find(':') + 1));
    int ib = -1;
    for (int i = 0; i < (int)fine.B.size(); i++)
      if (std::equal(lo.begin(), lo.end(), fine.B[i].lo) && std::equal(hi.begin(), hi.end(), fine.B[i].hi))
        ib = i;
    if (m.size() != 9 || p.size() != 3 || ib < 0) {
      printf("cannot parse replay spec (box not on the grid?)\n");
      return 2;
    }
    Counters C;
    uint64_t h = 0;
    Tally T;
    if (t[1] == "3fa")
      check_map<vec3fa>("3fa", fine, m.data(), p.data(), ib, C, h, T);
    else
      check_map<vec3f>("3f", fine, m.data(), p.data(), ib, C, h, T);
    printf("  %lld inputs, %lld oracle comparisons, %lld violations\n", C.states, C.trans, C.bad);
    vr::flush();
    return vr::S().viols.empty() ? 0 : 1;
  }
  const double t0[3] = {0, 0, 0}, t1[3] = {1, -2, 0.5};
  const double e4[] = {-1, 0, 0.5, 2}, e5[] = {-1, 0, 0.5, 1, 2};
  const std::vector<double> E4(e4, e4 + 4), E5(e5, e5 + 5);
  if (!vr::thorough()) {
    sweep<vec3f>("3f", E4, coarse, t1);
    sweep<vec3fa>("3fa", E4, coarse, t0);
  } else {
    sweep<vec3f>("3f", E5, coarse, t1);
    sweep<vec3f>("3f", E4, fine, t1, "3f-fine");
    sweep<vec3fa>("3fa", E5, coarse, t0);
  }
  vr::stat("traces", vr::S().stats["states"]);
  return vr::finish();
}
