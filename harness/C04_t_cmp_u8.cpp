// C04: instantiates the "cmp" families for element type uint8_t (see C04_groups.h)
#include "C04_groups.h"
void c04_reg_cmp_u8(c04::Reg &r)
{
  c04::reg_cmp<uint8_t>(r);
}
