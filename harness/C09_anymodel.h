// Reference model of three Any slots and the operation alphabet (nothing rkcommon-specific).
//
// Mutators (a = slot):
//   ne a        construct an empty Any in the lowest absent slot
//   ni a k      construct from int ival(k), k in {0,1}     ns a k   from std::string sval(k) (short / heap-long)
//   nt a        construct from Tracked(101)
//   cp a j      copy-construct from slot j (engaged or empty)
//   aa a j      assign Any from slot j (j == a: self-assignment)
//   ai a k / as a k / at a     assign an int / std::string / Tracked value
//   mg a        get<T>() = other value (T = the stored type; engaged slots only): mutates in place
//   cr a j / ar a j   take T &r = j.get<T>(), copy-construct a from j / assign a = j, then write r = other value:
//               the copy must keep the old value (a reference taken BEFORE the copy was made)
//   de a        destroy
// Observers (final position only):
//   eq a j      a == j and a != j, all ordered pairs, j == a included
//   ts a        toString()
// After every operation, on every slot: valid(), is<T>() and get<T>() (const and non-const) for
// T in {int, std::string, Tracked, char}.
#pragma once
#include "C09_common.h"

namespace c09 {

enum { TAG_NONE = 0, TAG_INT = 1, TAG_STR = 2, TAG_TRK = 3 };

struct ASlot
{
  bool present = false;
  int tag = TAG_NONE;
  int k = 0;  // value index within the tag's value table (2 = the value written by mg)
};
struct AModel
{
  ASlot s[3];
};

inline bool any_observer(const Op &o)
{
  return is(o, "eq") || is(o, "ts");
}

inline void any_enabled(const AModel &m, bool observers, std::vector<Op> &out)
{
  out.clear();
  int t = -1;
  for (int i = 2; i >= 0; i--)
    if (!m.s[i].present)
      t = i;
  if (t >= 0) {
    out.push_back(mk("ne", t));
    out.push_back(mk("ni", t, 0));
    out.push_back(mk("ni", t, 1));
    out.push_back(mk("ns", t, 0));
    out.push_back(mk("ns", t, 1));
    out.push_back(mk("nt", t));
    for (int j = 0; j < 3; j++)
      if (m.s[j].present)
        out.push_back(mk("cp", t, j));
    for (int j = 0; j < 3; j++)
      if (m.s[j].present && m.s[j].tag != TAG_NONE)
        out.push_back(mk("cr", t, j));
  }
  for (int i = 0; i < 3; i++) {
    if (!m.s[i].present)
      continue;
    for (int j = 0; j < 3; j++)
      if (m.s[j].present)
        out.push_back(mk("aa", i, j));
    for (int j = 0; j < 3; j++)
      if (j != i && m.s[j].present && m.s[j].tag != TAG_NONE)
        out.push_back(mk("ar", i, j));
    out.push_back(mk("ai", i, 0));
    out.push_back(mk("ai", i, 1));
    out.push_back(mk("as", i, 0));
    out.push_back(mk("as", i, 1));
    out.push_back(mk("at", i));
    if (m.s[i].tag != TAG_NONE)
      out.push_back(mk("mg", i));
    out.push_back(mk("de", i));
  }
  if (!observers)
    return;
  for (int i = 0; i < 3; i++) {
    if (!m.s[i].present)
      continue;
    for (int j = 0; j < 3; j++)
      if (m.s[j].present)
        out.push_back(mk("eq", i, j));
    out.push_back(mk("ts", i));
  }
}

inline bool any_op_enabled(const AModel &m, const Op &o)
{
  std::vector<Op> e;
  any_enabled(m, true, e);
  for (auto &x : e)
    if (is(x, o.kind) && x.a == o.a && x.b == o.b)
      return true;
  return false;
}

inline void any_model_apply(AModel &m, const Op &o)
{
  ASlot &d = m.s[o.a];
  if (is(o, "ne")) {
    d.present = true;
    d.tag = TAG_NONE;
    d.k = 0;
  } else if (is(o, "ni") || is(o, "ai")) {
    d.present = true;
    d.tag = TAG_INT;
    d.k = o.b;
  } else if (is(o, "ns") || is(o, "as")) {
    d.present = true;
    d.tag = TAG_STR;
    d.k = o.b;
  } else if (is(o, "nt") || is(o, "at")) {
    d.present = true;
    d.tag = TAG_TRK;
    d.k = 0;
  } else if (is(o, "cp") || is(o, "aa")) {
    ASlot src = m.s[o.b];
    d.present = true;
    d.tag = src.tag;
    d.k = src.k;
  } else if (is(o, "cr") || is(o, "ar")) {
    ASlot src = m.s[o.b];
    d.present = true;
    d.tag = src.tag;
    d.k = src.k;
    m.s[o.b].k = 2;
  } else if (is(o, "mg")) {
    d.k = 2;
  } else if (is(o, "de")) {
    d = ASlot();
  }
}

inline std::string any_op_class(const AModel &m, const Op &o)
{
  static const char *tn[] = {"empty", "int", "string", "Tracked"};
  auto st = [&](int i) { return std::string(tn[m.s[i].tag]); };
  auto ee = [&](int i) { return std::string(m.s[i].tag ? "engaged" : "empty"); };
  if (is(o, "ne")) return "construct-empty";
  if (is(o, "ni")) return "construct-from-int";
  if (is(o, "ns")) return "construct-from-string";
  if (is(o, "nt")) return "construct-from-Tracked";
  if (is(o, "cp")) return "copy-construct(from " + st(o.b) + ")";
  if (is(o, "aa")) return "assign-Any(" + ee(o.a) + " <- " + (o.a == o.b ? "itself" : st(o.b)) + ")";
  if (is(o, "cr")) return "copy-construct(from " + st(o.b) + "), then write through a reference into the source taken before";
  if (is(o, "ar")) return "assign-Any(" + ee(o.a) + " <- " + st(o.b) + "), then write through a reference into the source taken before";
  if (is(o, "ai")) return "assign-int(" + ee(o.a) + ")";
  if (is(o, "as")) return "assign-string(" + ee(o.a) + ")";
  if (is(o, "at")) return "assign-Tracked(" + ee(o.a) + ")";
  if (is(o, "mg")) return "assign-through-get<T>(" + st(o.a) + ")";
  if (is(o, "de")) return "destroy(" + st(o.a) + ")";
  if (is(o, "eq")) return "operator==/!=(" + ee(o.a) + ", " + (o.a == o.b ? "itself" : ee(o.b)) + ")";
  if (is(o, "ts")) return "toString(" + ee(o.a) + ")";
  return o.kind;
}

}  // namespace c09
