// C04: instantiates the "bin" families for element type int32_t (see C04_groups.h)
#include "C04_groups.h"
void c04_reg_bin_i32(c04::Reg &r)
{
  c04::reg_bin<int32_t>(r);
}
