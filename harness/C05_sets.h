// C05 (part 1): ranges and boxes behave as closed axis-aligned sets.
// Engine gridmc.  Coordinates come from a small grid G; boxes are ALL (lower <= upper) pairs over G^N plus the
// default-constructed empty box; points are ALL of G^N.  The oracle is point membership, computed naively from
// the raw coordinates and kept as bit sets over G^N:
//   contains(p)            <=>  lower_i <= p_i <= upper_i for every i
//   intersectionOf(a,b)    contains p <=> both contain p; empty() <=> no common grid point <=> disjoint <=> !touchingOrOverlapping
//   a.extend(b)            = the hull of the union of the two point sets (smallest box), the empty box is the identity
//   clamp(p)               = the contained grid point nearest to p (brute force over the point set)
//   size/center/area/volume/operator*/operator+  = their definitions evaluated in double on the raw coordinates
// Boxes with upper < lower other than the default-constructed empty box are outside the domain (recorded decision),
// therefore scale factors are non-negative.
#pragma once
#include "C05_common.h"

#include "rkcommon/math/box.h"

#include <array>
#include <cmath>

using namespace rkcommon;
using namespace rkcommon::math;
using c05::Counters;
using c05::num;

struct M128
{
  uint64_t a, b;
  M128() : a(0), b(0) {}
  void set(int i)
  {
    if (i < 64)
      a |= 1ull << i;
    else
      b |= 1ull << (i - 64);
  }
  bool test(int i) const
  {
    return i < 64 ? (a >> i) & 1 : (b >> (i - 64)) & 1;
  }
  bool any() const
  {
    return a | b;
  }
  int count() const
  {
    return __builtin_popcountll(a) + __builtin_popcountll(b);
  }
  M128 operator&(const M128 &o) const
  {
    M128 r;
    r.a = a & o.a;
    r.b = b & o.b;
    return r;
  }
  M128 operator|(const M128 &o) const
  {
    M128 r;
    r.a = a | o.a;
    r.b = b | o.b;
    return r;
  }
  bool operator==(const M128 &o) const
  {
    return a == o.a && b == o.b;
  }
  bool operator!=(const M128 &o) const
  {
    return !(*this == o);
  }
};

// ------------------------------------------------------------------ element access for scalars and vec_t
template <typename V>
struct VT;
template <>
struct VT<int>
{
  typedef int S;
  enum { N = 1 };
  static S get(const int &v, int)
  {
    return v;
  }
  static int make(const double *c)
  {
    return (int)c[0];
  }
};
template <>
struct VT<float>
{
  typedef float S;
  enum { N = 1 };
  static S get(const float &v, int)
  {
    return v;
  }
  static float make(const double *c)
  {
    return (float)c[0];
  }
};
template <>
struct VT<double>
{
  typedef double S;
  enum { N = 1 };
  static S get(const double &v, int)
  {
    return v;
  }
  static double make(const double *c)
  {
    return c[0];
  }
};
template <typename T, int N_, bool A>
struct VT<vec_t<T, N_, A>>
{
  typedef T S;
  typedef vec_t<T, N_, A> V;
  enum { N = N_ };
  static S get(const V &v, int i)
  {
    return v[i];
  }
  static V make(const double *c)
  {
    V v;
    for (int i = 0; i < N_; i++)
      v[i] = (T)c[i];
    return v;
  }
};

template <int N>
struct NTag
{
};

template <typename V>
static std::string vstr(const V &v)
{
  std::string o = "(";
  for (int i = 0; i < (int)VT<V>::N; i++)
    o += (i ? "," : "") + num((double)VT<V>::get(v, i));
  return o + ")";
}
template <typename V>
static std::string bstr(const range_t<V> &b)
{
  return "[" + vstr(b.lower) + ".." + vstr(b.upper) + "]";
}

// ------------------------------------------------------------------ one configuration: element type, dimension, grid
template <typename V>
struct Cfg
{
  typedef VT<V> Tr;
  typedef typename Tr::S S;
  enum { N = Tr::N };
  typedef range_t<V> Box;
  std::string name;
  std::vector<double> gv;  // grid values, increasing
  std::vector<double> sv;  // non-negative scale factors
  int K, NP;
  std::vector<V> P;
  std::vector<std::array<int, 4>> pi;
  std::vector<Box> B;  // B[0] = default-constructed (empty) box
  std::vector<std::array<int, 4>> bl, bu;
  std::vector<M128> M;
  M128 slab[4][5];
  std::vector<int> boxid;
  std::vector<std::array<double, 4>> scales;

  double pc(int p, int i) const
  {
    return gv[pi[p][i]];
  }
  int key(const int *l, const int *u) const
  {
    int k = 0;
    for (int i = N - 1; i >= 0; i--)
      k = k * (K * K) + l[i] * K + u[i];
    return k;
  }
  void build(const std::string &nm, const std::vector<double> &g, const std::vector<double> &s)
  {
    name = nm;
    gv = g;
    sv = s;
    K = (int)g.size();
    NP = 1;
    for (int i = 0; i < N; i++)
      NP *= K;
    for (int p = 0; p < NP; p++) {
      std::array<int, 4> d = {{0, 0, 0, 0}};
      double c[4];
      int r = p;
      for (int i = 0; i < N; i++) {
        d[i] = r % K;
        r /= K;
        c[i] = gv[d[i]];
      }
      pi.push_back(d);
      P.push_back(Tr::make(c));
      for (int i = 0; i < N; i++)
        slab[i][d[i]].set(p);
    }
    int kk = 1;
    for (int i = 0; i < N; i++)
      kk *= K * K;
    boxid.assign(kk, -1);
    B.push_back(Box());
    std::array<int, 4> none = {{-1, -1, -1, -1}};
    bl.push_back(none);
    bu.push_back(none);
    M.push_back(M128());
    for (int code = 0; code < kk; code++) {
      std::array<int, 4> l = {{0, 0, 0, 0}}, u = {{0, 0, 0, 0}};
      int r = code;
      bool ok = true;
      for (int i = 0; i < N; i++) {
        const int lu = r % (K * K);
        r /= K * K;
        l[i] = lu / K;
        u[i] = lu % K;
        ok = ok && l[i] <= u[i];
      }
      if (!ok)
        continue;
      double cl[4], cu[4];
      for (int i = 0; i < N; i++) {
        cl[i] = gv[l[i]];
        cu[i] = gv[u[i]];
      }
      boxid[key(l.data(), u.data())] = (int)B.size();
      B.push_back(Box(Tr::make(cl), Tr::make(cu)));
      bl.push_back(l);
      bu.push_back(u);
      // the oracle: naive point membership on the raw coordinates
      M128 m;
      for (int p = 0; p < NP; p++) {
        bool in = true;
        for (int i = 0; i < N; i++)
          in = in && cl[i] <= pc(p, i) && pc(p, i) <= cu[i];
        if (in)
          m.set(p);
      }
      M.push_back(m);
    }
    // scale vectors: all of sv^N
    int ns = 1;
    for (int i = 0; i < N; i++)
      ns *= (int)sv.size();
    for (int code = 0; code < ns; code++) {
      std::array<double, 4> sc = {{0, 0, 0, 0}};
      int r = code;
      for (int i = 0; i < N; i++) {
        sc[i] = sv[r % sv.size()];
        r /= (int)sv.size();
      }
      scales.push_back(sc);
    }
  }
  std::string btok(int ib) const  // replay token of a box
  {
    if (ib == 0)
      return "empty";
    std::string o;
    for (int i = 0; i < N; i++)
      o += (i ? "," : "") + num(gv[bl[ib][i]]);
    o += ":";
    for (int i = 0; i < N; i++)
      o += (i ? "," : "") + num(gv[bu[ib][i]]);
    return o;
  }
  int find_box(const std::string &tok) const
  {
    for (int ib = 0; ib < (int)B.size(); ib++)
      if (btok(ib) == tok)
        return ib;
    return -1;
  }
  M128 libmask(const Box &r) const
  {
    M128 m;
    for (int p = 0; p < NP; p++)
      if (r.contains(P[p]))
        m.set(p);
    return m;
  }
  // hull of a non-empty point set: index of the grid box spanned by its extreme coordinates
  int hull(const M128 &U) const
  {
    int l[4], u[4];
    for (int i = 0; i < N; i++) {
      l[i] = 0;
      while (!(U & slab[i][l[i]]).any())
        l[i]++;
      u[i] = K - 1;
      while (!(U & slab[i][u[i]]).any())
        u[i]--;
    }
    return boxid[key(l, u)];
  }
  int relcode(int ia, int ib) const
  {
    static const char *names[] = {"an operand is the empty box", "disjoint boxes", "nested boxes", "touching boxes", "boxes overlapping in every axis", "boxes overlapping, degenerate in some axis"};
    const char *r = relation(ia, ib);
    for (int i = 0; i < 6; i++)
      if (std::string(r) == names[i])
        return i;
    return 7;
  }
  const char *relation(int ia, int ib) const
  {
    if (ia == 0 || ib == 0)
      return "an operand is the empty box";
    const M128 W = M[ia] & M[ib];
    if (!W.any())
      return "disjoint boxes";
    if (W == M[ia] || W == M[ib])
      return "nested boxes";
    for (int i = 0; i < N; i++) {
      const int lo = std::max(bl[ia][i], bl[ib][i]), hi = std::min(bu[ia][i], bu[ib][i]);
      if (lo == hi && bl[ia][i] < bu[ia][i] && bl[ib][i] < bu[ib][i])
        return "touching boxes";
    }
    bool all = true;
    for (int i = 0; i < N; i++)
      all = all && std::max(bl[ia][i], bl[ib][i]) < std::min(bu[ia][i], bu[ib][i]);
    return all ? "boxes overlapping in every axis" : "boxes overlapping, degenerate in some axis";
  }
};

template <typename V>
static bool same(const V &a, const V &b)
{
  for (int i = 0; i < (int)VT<V>::N; i++)
    if (!(VT<V>::get(a, i) == VT<V>::get(b, i)))
      return false;
  return true;
}

// ------------------------------------------------------------------ pair checks (free functions exist for N >= 2 only)
template <typename V>
static std::string pair_spec(const Cfg<V> &c, int ia, int ib)
{
  return "pair " + c.name + " " + c.btok(ia) + " " + c.btok(ib);
}

template <typename V>
static void pair_touch_real(const Cfg<V> &c, int ia, int ib, bool want_common, Counters &C, uint64_t &h)
{
  const bool t = touchingOrOverlapping(c.B[ia], c.B[ib]);
  C.trans++;
  h = h * 31 + t;
  RP("touchingOrOverlapping = " + std::to_string(t) + " want " + std::to_string(want_common));
  if (t != want_common)
    VIOL(C, c.relcode(ia, ib), c.name + " touchingOrOverlapping|differs from 'a common point exists'|" + c.relation(ia, ib), pair_spec(c, ia, ib),
        bstr(c.B[ia]) + " vs " + bstr(c.B[ib]) + ": got " + (t ? "true" : "false") + " want " + (want_common ? "true" : "false"));
}
template <typename V, int N>
static void pair_touch(const Cfg<V> &, int, int, bool, Counters &, uint64_t &, NTag<N>)
{
}
template <typename V>
static void pair_touch(const Cfg<V> &c, int ia, int ib, bool w, Counters &C, uint64_t &h, NTag<2>)
{
  pair_touch_real(c, ia, ib, w, C, h);
}
template <typename V>
static void pair_touch(const Cfg<V> &c, int ia, int ib, bool w, Counters &C, uint64_t &h, NTag<3>)
{
  pair_touch_real(c, ia, ib, w, C, h);
}

template <typename V>
static void pair_free(const Cfg<V> &, int, int, Counters &, uint64_t &, NTag<1>)
{
}
template <typename V, int N>
static void pair_free(const Cfg<V> &c, int ia, int ib, Counters &C, uint64_t &h, NTag<N>)
{
  typedef typename Cfg<V>::Box Box;
  const Box &a = c.B[ia], &b = c.B[ib];
  const M128 W = c.M[ia] & c.M[ib];
  const bool common = W.any();
  const Box I = intersectionOf(a, b);
  const M128 LI = c.libmask(I);
  C.trans += c.NP + 3;
  h = (h * 1099511628211ull) ^ LI.a ^ (LI.b << 1);
  RP("intersectionOf = " + bstr(I) + " holds " + std::to_string(LI.count()) + " grid points, want " + std::to_string(W.count()));
  if (LI != W) {
    int p = 0;
    while (LI.test(p) == W.test(p))
      p++;
    VIOL(C, c.relcode(ia, ib), c.name + " intersectionOf|does not contain exactly the common points|" + c.relation(ia, ib), pair_spec(c, ia, ib),
        bstr(a) + " and " + bstr(b) + " -> " + bstr(I) + ": point " + vstr(c.P[p]) + (LI.test(p) ? " is contained but not common" : " is common but not contained"));
  }
  const bool ie = I.empty();
  RP("intersectionOf(...).empty() = " + std::to_string(ie) + " want " + std::to_string(!common));
  if (ie != !common)
    VIOL(C, c.relcode(ia, ib), c.name + " intersectionOf(...).empty()|differs from 'no common point'|" + c.relation(ia, ib), pair_spec(c, ia, ib),
        bstr(a) + " and " + bstr(b) + " -> " + bstr(I) + ": empty() = " + (ie ? "true" : "false") + ", common grid points: " + std::to_string(W.count()));
  const bool dj = disjoint(a, b);
  RP("disjoint = " + std::to_string(dj) + " want " + std::to_string(!common));
  if (dj != !common)
    VIOL(C, c.relcode(ia, ib), c.name + " disjoint|differs from 'no common point'|" + c.relation(ia, ib), pair_spec(c, ia, ib),
        bstr(a) + " vs " + bstr(b) + ": got " + (dj ? "true" : "false") + ", common grid points: " + std::to_string(W.count()));
  h = h * 31 + ie * 2 + dj;
  pair_touch(c, ia, ib, common, C, h, NTag<N>());
}

template <typename V>
static void check_pair(const Cfg<V> &c, int ia, int ib, Counters &C, uint64_t &h)
{
  typedef typename Cfg<V>::Box Box;
  const Box &a = c.B[ia], &b = c.B[ib];
  C.states++;
  RP("a = " + (ia ? bstr(a) : "empty " + bstr(a)) + "  b = " + (ib ? bstr(b) : "empty " + bstr(b)));
  // extend(box): the hull of the union; the empty box is the identity
  {
    Box E = a;
    E.extend(b);
    const M128 U = c.M[ia] | c.M[ib];
    C.trans += 2;
    if (!U.any()) {
      RP("a.extend(b) = " + bstr(E) + " empty() = " + std::to_string(E.empty()) + " want empty");
      if (!E.empty() || c.libmask(E).any())
        VIOL(C, c.relcode(ia, ib), c.name + " extend(box)|empty extended by empty is not empty|" + c.relation(ia, ib), pair_spec(c, ia, ib), "got " + bstr(E));
    } else {
      const int hb = c.hull(U);
      const Box &Hb = c.B[hb];
      RP("a.extend(b) = " + bstr(E) + " want " + bstr(Hb));
      h = h * 31 + hb;
      if (!(same(E.lower, Hb.lower) && same(E.upper, Hb.upper))) {
        const M128 LE = c.libmask(E);
        const bool covers = (LE & U) == U;
        VIOL(C, c.relcode(ia, ib) + 8 * covers, c.name + " extend(box)|" + (covers ? "result is not the smallest box containing both|" : "result does not contain both operands|") + c.relation(ia, ib),
            pair_spec(c, ia, ib), bstr(a) + " extend " + bstr(b) + " = " + bstr(E) + " want " + bstr(Hb));
      } else if (c.libmask(E) != c.M[hb]) {
        VIOL(C, c.relcode(ia, ib), c.name + " extend(box)|result does not contain exactly the hull's points|" + c.relation(ia, ib), pair_spec(c, ia, ib),
            bstr(a) + " extend " + bstr(b) + " = " + bstr(E));
      }
      C.trans += c.NP;
    }
  }
  // == and != : the same box
  {
    const bool eq = a == b, ne = a != b;
    C.trans += 2;
    if (eq != (ia == ib) || ne != (ia != ib))
      VIOL(C, c.relcode(ia, ib), c.name + " operator==/!=|differs from 'same bounds'|" + c.relation(ia, ib), pair_spec(c, ia, ib),
          bstr(a) + " vs " + bstr(b) + ": == gives " + (eq ? "true" : "false") + ", != gives " + (ne ? "true" : "false"));
  }
  pair_free(c, ia, ib, C, h, NTag<Cfg<V>::N>());
}

// ------------------------------------------------------------------ single-box checks
template <typename V>
static void measures(const Cfg<V> &, int, const std::string &, Counters &, uint64_t &, NTag<1>)
{
}
template <typename V>
static void measures(const Cfg<V> &c, int ia, const std::string &spec, Counters &C, uint64_t &h, NTag<4>)
{
  // free center() only
  const V ctr = center(c.B[ia]);
  C.trans++;
  if (!same(ctr, c.B[ia].center()))
    VIOL(C, 0, c.name + " center(box)|differs from box.center()|any", spec, bstr(c.B[ia]) + " got " + vstr(ctr));
}
template <typename V>
static void measures(const Cfg<V> &c, int ia, const std::string &spec, Counters &C, uint64_t &h, NTag<2>)
{
  const V ctr = center(c.B[ia]);
  C.trans += 2;
  if (!same(ctr, c.B[ia].center()))
    VIOL(C, 0, c.name + " center(box)|differs from box.center()|any", spec, bstr(c.B[ia]) + " got " + vstr(ctr));
  const double sx = c.gv[c.bu[ia][0]] - c.gv[c.bl[ia][0]], sy = c.gv[c.bu[ia][1]] - c.gv[c.bl[ia][1]];
  const double got = (double)area(c.B[ia]);
  RP("area = " + num(got) + " want " + num(sx * sy));
  h = h * 31 + (uint64_t)(got * 16);
  if (got != sx * sy)
    VIOL(C, sx * sy == 0, c.name + " area|differs from width*height|" + (sx * sy == 0 ? "degenerate box" : "box with interior"), spec,
        bstr(c.B[ia]) + " got " + num(got) + " want " + num(sx * sy));
}
template <typename V>
static void measures(const Cfg<V> &c, int ia, const std::string &spec, Counters &C, uint64_t &h, NTag<3>)
{
  const V ctr = center(c.B[ia]);
  C.trans += 3;
  if (!same(ctr, c.B[ia].center()))
    VIOL(C, 0, c.name + " center(box)|differs from box.center()|any", spec, bstr(c.B[ia]) + " got " + vstr(ctr));
  const double sx = c.gv[c.bu[ia][0]] - c.gv[c.bl[ia][0]], sy = c.gv[c.bu[ia][1]] - c.gv[c.bl[ia][1]], sz = c.gv[c.bu[ia][2]] - c.gv[c.bl[ia][2]];
  const double wa = 2 * (sx * sy + sx * sz + sy * sz), wv = sx * sy * sz;
  const double ga = (double)area(c.B[ia]), gvv = (double)volume(c.B[ia]);
  RP("area = " + num(ga) + " want " + num(wa) + "; volume = " + num(gvv) + " want " + num(wv));
  h = h * 31 + (uint64_t)(ga * 16) * 4096 + (uint64_t)(gvv * 16);
  const char *cls = wv == 0 ? "degenerate box" : (sx == sy && sy == sz) ? "cube" : "box with different edge lengths";
  if (ga != wa)
    VIOL(C, (wv == 0) + 2 * (sx == sy && sy == sz), c.name + " area|differs from 2(xy+xz+yz)|" + cls, spec, bstr(c.B[ia]) + " got " + num(ga) + " want " + num(wa));
  if (gvv != wv)
    VIOL(C, (wv == 0) + 2 * (sx == sy && sy == sz), c.name + " volume|differs from x*y*z|" + cls, spec, bstr(c.B[ia]) + " got " + num(gvv) + " want " + num(wv));
}

template <typename V>
static void check_box(const Cfg<V> &c, int ia, Counters &C, uint64_t &h)
{
  typedef typename Cfg<V>::Box Box;
  typedef VT<V> Tr;
  const int N = Cfg<V>::N;
  const Box &a = c.B[ia];
  const std::string spec = "box " + c.name + " " + c.btok(ia);
  const bool isint = std::is_integral<typename Tr::S>::value;
  C.states++;
  // contains / empty
  {
    const M128 L = c.libmask(a);
    C.trans += c.NP + 1;
    h = (h * 1099511628211ull) ^ L.a ^ (L.b << 1);
    RP("box " + bstr(a) + " contains " + std::to_string(L.count()) + " grid points, want " + std::to_string(c.M[ia].count()) + "; empty() = " + std::to_string(a.empty()));
    if (L != c.M[ia]) {
      int p = 0;
      while (L.test(p) == c.M[ia].test(p))
        p++;
      bool onface = false;
      for (int i = 0; ia && i < N; i++)
        onface = onface || c.pi[p][i] == c.bl[ia][i] || c.pi[p][i] == c.bu[ia][i];
      VIOL(C, ia == 0 ? 0 : onface ? 1 : 2, c.name + " contains|differs from lower<=p<=upper in every component|" + (ia == 0 ? "empty box" : onface ? "point with a coordinate on a face" : "point off the faces"), spec,
          bstr(a) + " contains" + vstr(c.P[p]) + " = " + (L.test(p) ? "true" : "false"));
    }
    if (a.empty() != (ia == 0))
      VIOL(C, ia == 0, c.name + " empty|" + (ia == 0 ? "default-constructed box is not empty|" : "box with lower<=upper reported empty|") + "any", spec, bstr(a));
  }
  // extend(point)
  for (int p = 0; p < c.NP; p++) {
    Box E = a;
    E.extend(c.P[p]);
    M128 U = c.M[ia];
    U.set(p);
    const int hb = c.hull(U);
    C.states++;
    C.trans++;
    if (!(same(E.lower, c.B[hb].lower) && same(E.upper, c.B[hb].upper)))
      VIOL(C, ia == 0 ? 0 : c.M[ia].test(p) ? 1 : 2, c.name + " extend(point)|result is not the smallest box containing the box and the point|" + (ia == 0 ? "empty box" : c.M[ia].test(p) ? "point inside" : "point outside"), spec,
          bstr(a) + " extend " + vstr(c.P[p]) + " = " + bstr(E) + " want " + bstr(c.B[hb]));
  }
  if (ia == 0)
    return;
  // size / center / area / volume
  {
    const V sz = a.size(), ct = a.center();
    C.trans += 2 * N;
    for (int i = 0; i < N; i++) {
      const double lo = c.gv[c.bl[ia][i]], hi = c.gv[c.bu[ia][i]];
      const double gs = (double)Tr::get(sz, i), gc = (double)Tr::get(ct, i), half = (lo + hi) / 2;
      h = h * 31 + (uint64_t)(int64_t)(gs * 4) * 64 + (uint64_t)(int64_t)(gc * 4 + 32);
      if (gs != hi - lo)
        VIOL(C, 0, c.name + " size|differs from upper-lower|any", spec, bstr(a) + " size " + vstr(sz));
      const bool ok = isint ? (gc == std::floor(half) || gc == std::ceil(half)) : gc == half;
      if (!ok)
        VIOL(C, half == std::floor(half), c.name + " center|differs from (lower+upper)/2|" + (half == std::floor(half) ? "integral midpoint" : "fractional midpoint"), spec,
            bstr(a) + " center " + vstr(ct) + " want component " + std::to_string(i) + " = " + num(half));
    }
    RP("size = " + vstr(sz) + " center = " + vstr(ct));
    measures(c, ia, spec, C, h, NTag<Cfg<V>::N>());
  }
  // clamp: the contained point nearest to p (brute force over the box's point set)
  for (int p = 0; p < c.NP; p++) {
    const V got = a.clamp(c.P[p]);
    int best = -1;
    double bd = 0;
    for (int q = 0; q < c.NP; q++) {
      if (!c.M[ia].test(q))
        continue;
      double d = 0;
      for (int i = 0; i < N; i++)
        d += (c.pc(q, i) - c.pc(p, i)) * (c.pc(q, i) - c.pc(p, i));
      if (best < 0 || d < bd) {
        best = q;
        bd = d;
      }
    }
    C.states++;
    C.trans++;
    h = h * 31 + best;
    if (!same(got, c.P[best]))
      VIOL(C, c.M[ia].test(p), c.name + " clamp|result is not the nearest contained point|" + (c.M[ia].test(p) ? "point inside" : "point outside"), spec,
          bstr(a) + " clamp" + vstr(c.P[p]) + " = " + vstr(got) + " want " + vstr(c.P[best]));
  }
  // scaling by a non-negative factor per dimension, both operand orders
  for (size_t si = 0; si < c.scales.size(); si++) {
    double sc[4], wl[4], wu[4];
    bool pos = true;
    for (int i = 0; i < N; i++) {
      sc[i] = c.scales[si][i];
      pos = pos && sc[i] > 0;
      wl[i] = c.gv[c.bl[ia][i]] * sc[i];
      wu[i] = c.gv[c.bu[ia][i]] * sc[i];
    }
    const V s = Tr::make(sc), wlo = Tr::make(wl), wup = Tr::make(wu);
    // the empty box scaled by positive factors stays empty (checked once per scale vector, with the first non-empty box: box 0 is the empty box and returned above)
    if (ia == 1 && pos && std::is_floating_point<typename Tr::S>::value)  // (integer boxes: the empty box is [MAX,MIN] and scaling it overflows - not defined)
      for (int order = 0; order < 2; order++) {
        const Box e;
        const Box R = order == 0 ? e * s : s * e;
        C.states++;
        C.trans += c.NP;
        for (int p = 0; p < c.NP; p++)
          if (R.contains(c.P[p])) {
            VIOL(C, 4, c.name + (order == 0 ? " box*scale" : " scale*box") + "|the empty box scaled by positive factors contains a point|an operand is the empty box", spec,
                "empty * " + vstr(s) + " = " + bstr(R) + " contains " + vstr(c.P[p]));
            break;
          }
      }
    for (int order = 0; order < 2; order++) {
      const Box R = order == 0 ? a * s : s * a;
      C.states++;
      C.trans += 1 + c.NP;
      const char *fn = order == 0 ? " box*scale" : " scale*box";
      if (!(same(R.lower, wlo) && same(R.upper, wup)))
        VIOL(C, pos, c.name + fn + "|bounds differ from lower*s, upper*s|" + (pos ? "positive factors" : "a factor is zero"), spec,
            bstr(a) + " * " + vstr(s) + " = " + bstr(R) + " want " + bstr(Box(wlo, wup)));
      for (int p = 0; p < c.NP; p++) {
        double ic[4];
        for (int i = 0; i < N; i++)
          ic[i] = c.pc(p, i) * sc[i];
        const bool in = R.contains(Tr::make(ic));
        if (c.M[ia].test(p) ? !in : (pos && in)) {
          VIOL(C, pos + 2 * c.M[ia].test(p), c.name + fn + (c.M[ia].test(p) ? "|image of a contained point is not contained|" : "|image of an outside point is contained|") + (pos ? "positive factors" : "a factor is zero"), spec,
              bstr(a) + " * " + vstr(s) + " = " + bstr(R) + ", point " + vstr(c.P[p]));
          break;
        }
      }
    }
  }
  // translation by every grid vector, both operand orders
  for (int t = 0; t < c.NP; t++) {
    double wl[4], wu[4];
    for (int i = 0; i < N; i++) {
      wl[i] = c.gv[c.bl[ia][i]] + c.pc(t, i);
      wu[i] = c.gv[c.bu[ia][i]] + c.pc(t, i);
    }
    const V wlo = Tr::make(wl), wup = Tr::make(wu);
    for (int order = 0; order < 2; order++) {
      const Box R = order == 0 ? a + c.P[t] : c.P[t] + a;
      C.states++;
      C.trans += 1 + c.NP;
      const char *fn = order == 0 ? " box+translation" : " translation+box";
      if (!(same(R.lower, wlo) && same(R.upper, wup)))
        VIOL(C, 0, c.name + fn + "|bounds differ from lower+t, upper+t|any", spec, bstr(a) + " + " + vstr(c.P[t]) + " = " + bstr(R) + " want " + bstr(Box(wlo, wup)));
      for (int p = 0; p < c.NP; p++) {
        double ic[4];
        for (int i = 0; i < N; i++)
          ic[i] = c.pc(p, i) + c.pc(t, i);
        if (R.contains(Tr::make(ic)) != c.M[ia].test(p)) {
          VIOL(C, 0, c.name + fn + "|p+t is contained differs from p was contained|any", spec, bstr(a) + " + " + vstr(c.P[t]) + " = " + bstr(R) + ", point " + vstr(c.P[p]));
          break;
        }
      }
    }
  }
}

// ------------------------------------------------------------------ driver per configuration
static std::vector<double> grid_of(bool isint, int K)
{
  std::vector<double> g;
  const int r = K / 2;
  for (int i = -r; i <= r; i++)
    g.push_back(isint ? (double)i : 0.5 * i);
  return g;
}

template <typename V>
static void run_cfg(const std::string &name, int K, const std::string &only_kind, const std::string &ta, const std::string &tb)
{
  const bool isint = std::is_integral<typename VT<V>::S>::value;
  Cfg<V> *cp = new Cfg<V>();
  Cfg<V> &c = *cp;
  std::vector<double> sv;
  sv.push_back(0);
  if (!isint)
    sv.push_back(0.5);
  sv.push_back(1);
  sv.push_back(2);
  c.build(name, grid_of(isint, K), sv);
  if (vr::replaying()) {
    Counters C;
    uint64_t h = 0;
    const int ia = c.find_box(ta), ib = only_kind == "pair" ? c.find_box(tb) : 0;
    if (ia < 0 || ib < 0) {
      printf("unknown box token '%s' / '%s' for %s\n", ta.c_str(), tb.c_str(), name.c_str());
      return;
    }
    if (only_kind == "pair")
      check_pair(c, ia, ib, C, h);
    else
      check_box(c, ia, C, h);
    printf("  %lld inputs, %lld oracle comparisons, %lld violations\n", C.states, C.trans, C.bad);
    return;
  }
  const int NB = (int)c.B.size();
  const uint64_t seed = vr::fnv(name);
  c05::parallel_items(NB, 1, [&](long long ia, Counters &C) {
    uint64_t h = seed;
    check_box(c, (int)ia, C, h);
    for (int ib = 0; ib < NB; ib++)
      check_pair(c, (int)ia, ib, C, h);
    vr::outcome(h);
  }, name.c_str());
  vr::stat("boxes_" + name, NB);
  vr::sample(name + ": " + std::to_string(NB) + " boxes (incl. the empty box) x " + std::to_string(NB) + " boxes x " + std::to_string(c.NP) + " points over {" + num(c.gv.front()) + ".." +
          num(c.gv.back()) + "}, e.g. " + bstr(c.B[NB / 2]) + " vs " + bstr(c.B[NB - 2]) + " is '" + c.relation(NB / 2, NB - 2) + "'",
      name);
  delete cp;
}

