// C04: instantiates the "conv" families for element type int64_t (see C04_groups.h)
#include "C04_groups.h"
void c04_reg_conv_i64(c04::Reg &r)
{
  c04::reg_conv<int64_t>(r);
}
