// C04: instantiates the "mix" families for element type int32_t (see C04_groups.h)
#include "C04_groups.h"
void c04_reg_mix_i32(c04::Reg &r)
{
  c04::reg_mix<int32_t>(r);
}
