// C06 shared harness plumbing: per-thread reporter, case descriptions (replay strings), conversions
// between rkcommon values and the long double reference types, tolerance.
#pragma once
#include "common/vreport.h"
#include "C06_ref.h"

#include "rkcommon/math/AffineSpace.h"
#include "rkcommon/math/LinearSpace.h"
#include "rkcommon/math/Quaternion.h"

#include <atomic>
#include <limits>
#include <thread>
#include <unordered_set>

using namespace rkcommon::math;

// ---------------------------------------------------------------- a concrete input, printable as a replay string
struct Case
{
  const char *kind;
  const char *type;
  int n;
  LD v[24];
  std::string str() const
  {
    std::string s = std::string(kind) + ":" + type + ":";
    char b[64];
    for (int i = 0; i < n; i++) {
      snprintf(b, sizeof b, "%s%.21Lg", i ? "," : "", v[i]);
      s += b;
    }
    return s;
  }
};
inline Case mkcase(const char *kind, const char *type)
{
  Case c;
  c.kind = kind, c.type = type, c.n = 0;
  return c;
}
inline Case &operator<<(Case &c, LD x)
{
  if (c.n < 24)
    c.v[c.n++] = x;
  return c;
}

inline std::string &global_worst()
{
  static std::string s;
  return s;
}
// ---------------------------------------------------------------- per-thread reporter
struct Rep
{
  long long states = 0, comps = 0, bad = 0;
  double worst = 0;  // max over comparisons of error / tolerance
  std::string worst_at;
  bool verbose = false;
  std::map<std::string, long long> extra;
  std::map<std::string, int> seen;
  std::map<std::pair<const void *, std::pair<const void *, const void *>>, int> site;
  std::unordered_set<uint64_t> outs;

  void count(const std::string &k, long long n = 1) { extra[k] += n; }
  void outcome(uint64_t h)
  {
    if (outs.size() < 120000)
      outs.insert(h);
  }

  // got/want: n numbers; violation when any |got-want| > tol (or is NaN)
  bool cmp(const Case &c, const char *what, const char *cls, const LD *got, const LD *want, int n, LD tol)
  {
    comps++;
    LD we = 0;
    bool isbad = false;
    for (int i = 0; i < n; i++) {
      LD e = fabsl(got[i] - want[i]);
      if (!(e <= tol))
        isbad = true;
      if (e > we || e != e)
        we = e;
    }
    if (tol > 0 && we == we) {
      double r = (double)(we / tol);
      if (r > worst) {
        worst = r;
        worst_at = std::string(c.type) + " " + what + " at " + c.str();
      }
    }
    if (isbad && !verbose) {
      // after the first few reports of one call site only count (keeps a badly broken tree enumerable)
      if (site[std::make_pair((const void *)c.type, std::make_pair((const void *)what, (const void *)cls))]++ >= 6) {
        bad++;
        return false;
      }
    }
    if (isbad || verbose) {
      std::string d = std::string(c.type) + " " + what + ": got (";
      char b[64];
      for (int i = 0; i < n; i++) {
        snprintf(b, sizeof b, "%s%.9Lg", i ? " " : "", got[i]);
        d += b;
      }
      d += ") want (";
      for (int i = 0; i < n; i++) {
        snprintf(b, sizeof b, "%s%.9Lg", i ? " " : "", want[i]);
        d += b;
      }
      snprintf(b, sizeof b, ") err %.3Lg tol %.3Lg", we, tol);
      d += b;
      if (verbose)
        printf("%s %s\n", isbad ? "VIOLATED" : "ok      ", d.c_str());
      if (isbad) {
        bad++;
        std::string sig = std::string(c.type) + "|" + what + (cls && *cls ? std::string("|") + cls : std::string());
        if (seen[sig]++ < 6)
          vr::violation(sig, c.str(), d);
      }
    }
    return !isbad;
  }
  bool cmpV(const Case &c, const char *what, const char *cls, const ref::V &got, const ref::V &want, int n, LD tol)
  {
    return cmp(c, what, cls, got.v, want.v, n, tol);
  }
  bool cmpM(const Case &c, const char *what, const char *cls, const ref::M &got, const ref::M &want, LD tol)
  {
    LD g[9], w[9];
    int k = 0;
    for (int r = 0; r < want.n; r++)
      for (int cc = 0; cc < want.n; cc++, k++)
        g[k] = got.a[r][cc], w[k] = want.a[r][cc];
    return cmp(c, what, cls, g, w, k, tol);
  }
  bool cmpS(const Case &c, const char *what, const char *cls, LD got, LD want, LD tol)
  {
    return cmp(c, what, cls, &got, &want, 1, tol);
  }
  // a predicate that is not a numeric comparison (sign / orientation)
  bool holds(const Case &c, const char *what, const char *cls, bool ok, const std::string &detail)
  {
    comps++;
    if (verbose)
      printf("%s %s %s: %s\n", ok ? "ok      " : "VIOLATED", c.type, what, detail.c_str());
    if (!ok) {
      bad++;
      std::string sig = std::string(c.type) + "|" + what + (cls && *cls ? std::string("|") + cls : std::string());
      if (seen[sig]++ < 6)
        vr::violation(sig, c.str(), std::string(c.type) + " " + what + ": " + detail);
    }
    return ok;
  }

  void merge_into_global()
  {
    vr::stat("states", states);
    vr::stat("transitions", comps);
    vr::stat("violating_comparisons", bad);
    vr::stat("max_err_permille_of_tolerance", (long long)(worst * 1000.0 + 0.5));
    {
      static std::mutex m;
      static double gworst = 0;
      std::lock_guard<std::mutex> g(m);
      if (worst > gworst) {
        gworst = worst;
        global_worst() = worst_at;
      }
    }
    for (auto &kv : extra)
      vr::stat(kv.first, kv.second);
    for (auto h : outs)
      vr::outcome(h);
  }
};

// ---------------------------------------------------------------- sharding over threads
// body(rep, begin, end) for consecutive blocks of [0,total); returns false if the deadline stopped it
template <class F>
inline bool par_blocks(long long total, long long block, bool verbose, const F &body)
{
  int nt = (int)std::thread::hardware_concurrency();
  if (nt < 1)
    nt = 1;
  if (nt > 16)
    nt = 16;
  if (total <= block)
    nt = 1;
  std::atomic<long long> next(0);
  std::atomic<bool> stopped(false);
  std::vector<Rep> reps(nt);
  std::vector<std::thread> th;
  auto work = [&](int t) {
    reps[t].verbose = verbose;
    for (;;) {
      if (vr::deadline_passed()) {
        stopped = true;
        return;
      }
      long long b = next.fetch_add(block);
      if (b >= total)
        return;
      body(reps[t], b, std::min(total, b + block));
    }
  };
  if (nt == 1)
    work(0);
  else {
    for (int t = 0; t < nt; t++)
      th.emplace_back(work, t);
    for (auto &x : th)
      x.join();
  }
  for (auto &r : reps)
    r.merge_into_global();
  return !stopped;
}

// ---------------------------------------------------------------- scalar type facts
template <class S>
struct Eps
{
  static LD eps() { return (LD)std::numeric_limits<S>::epsilon(); }
  // rkcommon's float rcp/rsqrt are Newton-refined hardware approximations (contract 2^-20 relative)
  static LD approx() { return std::is_same<S, float>::value ? ldexpl(1.0L, -20) : 0.0L; }
};
// tolerance 32 * kappa * eps * scale (+ 2^-20 * scale where the approximate rcp/rsqrt enters)
template <class S>
inline LD tolr(LD kappa, LD scale, bool approx = false)
{
  if (!(scale >= 1))
    scale = 1;
  if (!(kappa >= 1))
    kappa = 1;
  return 32 * kappa * Eps<S>::eps() * scale + (approx ? Eps<S>::approx() * scale : 0.0L);
}

// xfmPoint / xfmVector / xfmNormal (and the affine xfmPoint behind applyA) are defined through madd(),
// and the only scalar madd is float madd(float,float,float): for a double instantiation these functions
// are single-precision by definition (an observation, see DESIGN 9.4), everything else is double-precision.
template <class S>
inline LD tolx(LD kappa, LD scale, bool approx = false)
{
  return tolr<float>(kappa, scale, approx && std::is_same<S, float>::value);
}

// ---------------------------------------------------------------- rkcommon <-> reference conversions
inline ref::V rv(const vec2f &a) { return ref::vec(a.x, a.y, 0); }
inline ref::V rv(const vec3f &a) { return ref::vec(a.x, a.y, a.z); }
inline ref::V rv(const vec3fa &a) { return ref::vec(a.x, a.y, a.z); }
inline ref::V rv(const vec3d &a) { return ref::vec(a.x, a.y, a.z); }
inline ref::M rm(const LinearSpace2f &m)
{
  ref::M o = ref::zero(2);
  o.a[0][0] = m.vx.x, o.a[1][0] = m.vx.y;
  o.a[0][1] = m.vy.x, o.a[1][1] = m.vy.y;
  return o;
}
template <class V3>
inline ref::M rm(const LinearSpace3<V3> &m)
{
  return ref::from_cols(rv(m.vx), rv(m.vy), rv(m.vz));
}
template <class S>
inline ref::Q rq(const QuaternionT<S> &q)
{
  return ref::quat(q.r, q.i, q.j, q.k);
}

template <class VT>
struct Mk;
template <>
struct Mk<vec2f>
{
  static vec2f v(const ref::V &a) { return vec2f((float)a.v[0], (float)a.v[1]); }
};
template <>
struct Mk<vec3f>
{
  static vec3f v(const ref::V &a) { return vec3f((float)a.v[0], (float)a.v[1], (float)a.v[2]); }
};
template <>
struct Mk<vec3fa>
{
  static vec3fa v(const ref::V &a) { return vec3fa((float)a.v[0], (float)a.v[1], (float)a.v[2]); }
};
template <>
struct Mk<vec3d>
{
  static vec3d v(const ref::V &a) { return vec3d((double)a.v[0], (double)a.v[1], (double)a.v[2]); }
};
// matrices are built from their column vectors (the documented storage)
inline LinearSpace2f mkL(LinearSpace2f *, const ref::M &A)
{
  return LinearSpace2f(Mk<vec2f>::v(ref::col(A, 0)), Mk<vec2f>::v(ref::col(A, 1)));
}
template <class V3>
inline LinearSpace3<V3> mkL(LinearSpace3<V3> *, const ref::M &A)
{
  return LinearSpace3<V3>(Mk<V3>::v(ref::col(A, 0)), Mk<V3>::v(ref::col(A, 1)), Mk<V3>::v(ref::col(A, 2)));
}
template <class L>
inline L mk(const ref::M &A)
{
  return mkL((L *)nullptr, A);
}
// the value a T really holds after rounding x
template <class S>
inline LD rnd(LD x)
{
  return (LD)(S)x;
}
inline ref::V rndf(const ref::V &a) { return ref::vec(rnd<float>(a.v[0]), rnd<float>(a.v[1]), rnd<float>(a.v[2])); }
template <class S>
inline ref::V rndv(const ref::V &a)
{
  return ref::vec(rnd<S>(a.v[0]), rnd<S>(a.v[1]), rnd<S>(a.v[2]));
}
template <class S>
inline ref::M rndm(const ref::M &A)
{
  ref::M o = A;
  for (int r = 0; r < 3; r++)
    for (int c = 0; c < 3; c++)
      o.a[r][c] = rnd<S>(A.a[r][c]);
  return o;
}

template <class L>
struct Nm;
template <>
struct Nm<LinearSpace2f>
{
  static int dim() { return 2; }
  static const char *lin() { return "LinearSpace2f"; }
  static const char *aff() { return "AffineSpace2f"; }
};
template <>
struct Nm<LinearSpace3f>
{
  static int dim() { return 3; }
  static const char *lin() { return "LinearSpace3f"; }
  static const char *aff() { return "AffineSpace3f"; }
  static const char *vec() { return "vec3f"; }
};
template <>
struct Nm<LinearSpace3fa>
{
  static int dim() { return 3; }
  static const char *lin() { return "LinearSpace3fa"; }
  static const char *aff() { return "AffineSpace3fa"; }
  static const char *vec() { return "vec3fa"; }
};
typedef LinearSpace3<vec3d> LinearSpace3d;  // no alias in the library; double instantiation of the same templates
template <>
struct Nm<LinearSpace3d>
{
  static int dim() { return 3; }
  static const char *lin() { return "LinearSpace3d"; }
  static const char *aff() { return "AffineSpace3d"; }
  static const char *vec() { return "vec3d"; }
};
template <class S>
struct QNm;
template <>
struct QNm<float>
{
  static const char *q() { return "quatf"; }
};
template <>
struct QNm<double>
{
  static const char *q() { return "quatd"; }
};

template <class T>
inline uint64_t hbits(const T &x, uint64_t h = 1469598103934665603ull)
{
  return vr::fnv(&x, sizeof x, h);
}

// applying an affine map to a point: xfmPoint in 3D; there is no 2D xfmPoint, so l*p + p there
inline vec2f applyA(const AffineSpace2f &a, const vec2f &p) { return a.l * p + a.p; }
inline vec3f applyA(const AffineSpace3f &a, const vec3f &p) { return xfmPoint(a, p); }
inline vec3fa applyA(const AffineSpace3fa &a, const vec3fa &p) { return xfmPoint(a, p); }
inline vec3d applyA(const AffineSpaceT<LinearSpace3d> &a, const vec3d &p) { return xfmPoint(a, p); }
