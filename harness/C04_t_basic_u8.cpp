// C04: instantiates the "basic" families for element type uint8_t (see C04_groups.h)
#include "C04_groups.h"
void c04_reg_basic_u8(c04::Reg &r)
{
  c04::reg_basic<uint8_t>(r);
}
