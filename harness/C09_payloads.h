// Payload descriptions for the Optional explorer.  val(0), val(1): the two values histories
// construct/assign/emplace; val(2): the value written through operator* / given to value_or;
// val(3): what the converting paths produce from Optional<U>(uval()).
#pragma once
#include "C09_tracked.h"
#include <string>

namespace c09 {

static const char *LONGSTR = "a-heap-allocated-string-value-of-more-than-32-characters";
static const char *LONGCONV = "converted-from-const-char*-and-longer-than-the-sso-buffer";

struct PInt
{
  typedef int T;
  typedef short U;
  static const char *name() { return "int"; }
  static T val(int k)
  {
    static const int v[] = {11, -22, 33, 7};
    return v[k];
  }
  static U uval() { return 7; }
  static bool same(const T &t, int k) { return t == val(k); }
  static std::string show(const T &t) { return std::to_string(t); }
};

struct PDouble
{
  typedef double T;
  typedef float U;
  static const char *name() { return "double"; }
  static T val(int k)
  {
    static const double v[] = {1.25, -2.5, 3.75, 0.5};
    return v[k];
  }
  static U uval() { return 0.5f; }
  static bool same(const T &t, int k) { return t == val(k); }
  static std::string show(const T &t) { return std::to_string(t); }
};

struct PString
{
  typedef std::string T;
  typedef const char *U;
  static const char *name() { return "string"; }
  static T val(int k)
  {
    switch (k) {
    case 0: return "a";  // fits the small-string buffer
    case 1: return LONGSTR;
    case 2: return "zz";
    default: return LONGCONV;
    }
  }
  static U uval() { return LONGCONV; }
  static bool same(const T &t, int k) { return t == val(k); }
  static std::string show(const T &t) { return "'" + (t.size() > 12 ? t.substr(0, 12) + "..." : t) + "'"; }
};

struct PTracked
{
  typedef Tracked T;
  typedef int U;
  static const char *name() { return "Tracked"; }
  static long long raw(int k)
  {
    static const long long v[] = {101, 202, 303, 77};
    return v[k];
  }
  static T val(int k) { return Tracked((int)raw(k)); }
  static U uval() { return 77; }
  static bool same(const T &t, int k) { return t.read() == raw(k); }
  static std::string show(const T &t) { return "Tracked(" + std::to_string(t.read()) + ")"; }
};

template <int N>
struct PAligned
{
  typedef TrackedA<N> T;
  typedef int U;
  static const char *name() { return N == 32 ? "Align32" : "Align64"; }
  static T val(int k) { return T((int)PTracked::raw(k)); }
  static U uval() { return 77; }
  static bool same(const T &t, int k) { return t.read() == PTracked::raw(k); }
  static std::string show(const T &t) { return std::string(name()) + "(" + std::to_string(t.read()) + ")"; }
};
static_assert(alignof(TrackedA<32>) == 32 && alignof(TrackedA<64>) == 64, "over-aligned payloads");

}  // namespace c09
