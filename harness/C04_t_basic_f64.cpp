// C04: instantiates the "basic" families for element type double (see C04_groups.h)
#include "C04_groups.h"
void c04_reg_basic_f64(c04::Reg &r)
{
  c04::reg_basic<double>(r);
}
