// Entry points of the per-payload explorer instantiations (C09_opt_<payload>.cpp).
#pragma once
#include "C09_common.h"

namespace c09 {

struct PayloadEntry
{
  const char *name;
  void (*explore)(int depth, int ls);
  int (*replay)(const std::vector<Op> &);
  void (*statics)();
};

PayloadEntry entry_int();
PayloadEntry entry_string();
PayloadEntry entry_tracked();
PayloadEntry entry_doubleoff();
PayloadEntry entry_trackedoff();
PayloadEntry entry_a32();
PayloadEntry entry_a64();
PayloadEntry entry_a32off();
PayloadEntry entry_a64off();
PayloadEntry entry_a32arr();
PayloadEntry entry_a64arr();

}  // namespace c09
