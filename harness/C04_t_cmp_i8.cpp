// C04: instantiates the "cmp" families for element type int8_t (see C04_groups.h)
#include "C04_groups.h"
void c04_reg_cmp_i8(c04::Reg &r)
{
  c04::reg_cmp<int8_t>(r);
}
