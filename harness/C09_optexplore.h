// Depth-first enumeration of every history over the alphabet of C09_optmodel.h, in forked
// shards.  A case's index is its path in the model's operation tree (radix 128), so after a
// crash the restarted shard finds its place by arithmetic alone: subtrees before the crashed
// history are skipped, the crashed history's own subtree is pruned (every extension replays
// the same crashing prefix), everything after it is executed.
#pragma once
#include "C09_optrun.h"
#include "C09_optexplore_decl.h"

namespace c09 {

static const int RADIX = 128;
static const int MAXD = 6;

inline long long pw(int level)  // weight of the ordinal chosen at `level` (1-based)
{
  long long p = 1;
  for (int i = level; i < MAXD; i++)
    p *= RADIX;
  return p;
}

template <typename P, int OFFSET>
struct Explorer
{
  Runner<P, OFFSET> R;
  int depth = 0;
  long long resume = -1;
  std::vector<Op> hist;
  std::set<unsigned> sampled;
  bool stop = false;
  long long since_poll = 0;
  int root_only = -1;  // phase 1: only this child of the root
  const std::vector<std::pair<std::vector<Op>, long long>> *pre = nullptr;
  char *okflags = nullptr;

  void mark_sound(long long idx)
  {
    size_t lo = 0, hi = pre->size();
    while (lo < hi) {
      size_t mid = (lo + hi) / 2;
      if ((*pre)[mid].second < idx)
        lo = mid + 1;
      else
        hi = mid;
    }
    if (lo < pre->size() && (*pre)[lo].second == idx)
      okflags[lo] = 1;
  }

  static std::string pname()
  {
    return std::string(P::name()) + (OFFSET == 1 ? "@off" : OFFSET == 2 ? "@arr" : "");
  }

  bool exec_case(long long idx, const Model &before, bool count)
  {
    const Op &last = hist.back();
    std::string cls = op_class(before, last);
    std::string replay = hist_text(pname(), hist);
    // When the wrapper's alignment is statically too small every payload access is misaligned: one class for all those sanitizer aborts instead of one per operation.
    const bool under = alignof(typename Exec<P, OFFSET>::Opt) < alignof(typename P::T);
    vr::begin_case(idx, R.tag() + "|" + (under ? std::string("payload accessed in under-aligned storage") : cls), replay);
    Result r = R.run(hist, false);
    if (count) {
      Counters &c = counters();
      c.states++;
      c.transitions += r.ops;
      c.len[hist.size() < 8 ? hist.size() : 7]++;
      vr::outcome(vr::fnv(last.kind, 2, r.digest));
      unsigned key = (unsigned)(last.kind[0] * 256 + last.kind[1]) * 2 + (r.failed ? 1 : 0);
      if (sampled.insert(key).second)
        vr::sample(replay + (r.failed ? "  -> VIOLATION" : "  -> as the model"), pname() + last.kind + (r.failed ? "!" : ""));
      if (r.failed) {
        c.violating++;
        report(r.sig, replay, r.detail + " [history " + replay + "]");
      }
    }
    return !r.failed;
  }

  void dfs(const Model &m, int level, long long base)
  {
    if (level >= depth)
      return;
    std::vector<Op> ops;
    enabled_ops(m, true, ops);
    const long long w = pw(level + 1);
    for (size_t c = 0; c < ops.size(); c++) {
      const long long idx = base + (long long)(c + 1) * w;
      if (level == 0 && root_only >= 0 && (int)c != root_only)
        continue;
      if (resume >= idx + w)
        continue;  // finished before the restart
      if (stop)
        return;
      if (++since_poll >= 2048) {
        since_poll = 0;
        if (vr::deadline_passed()) {
          stop = true;
          vr::capped(pname() + ": deadline passed inside a shard, remaining histories of the shard not explored");
          return;
        }
      }
      hist.push_back(ops[c]);
      bool ok;
      if (resume >= idx)
        ok = resume != idx;  // == : this is the history that crashed; > : it was fine, go on below it
      else
        ok = exec_case(idx, m, true);
      if (ok && !is_observer(ops[c]) && okflags && level + 1 == depth)
        mark_sound(idx);
      if (ok && !is_observer(ops[c])) {
        Model m2 = m;
        model_apply(m2, ops[c]);
        dfs(m2, level + 1, idx);
      }
      hist.pop_back();
    }
  }

  // all mutator paths of exactly `len` operations in the model's tree, with their indices
  void prefixes(const Model &m, int level, long long base, int len, std::vector<std::pair<std::vector<Op>, long long>> &out)
  {
    if (level == len) {
      out.push_back(std::make_pair(hist, base));
      return;
    }
    std::vector<Op> ops;
    enabled_ops(m, true, ops);
    for (size_t c = 0; c < ops.size(); c++) {
      if (is_observer(ops[c]))
        continue;
      Model m2 = m;
      model_apply(m2, ops[c]);
      hist.push_back(ops[c]);
      prefixes(m2, level + 1, base + (long long)(c + 1) * pw(level + 1), len, out);
      hist.pop_back();
    }
  }

  // Phase 1: every history of length <= ls (sharded by first operation); it records which
  // mutator histories of length exactly ls are sound.  Phase 2: one shard per sound prefix
  // explores everything below it.  Prefixes that failed or crashed have no subtree.
  static void explore(int depth, int ls)
  {
    // Declared pruning: if the wrapper is statically under-aligned, every payload access at the
    // least aligned address the holder's alignof permits (see Exec::mem) is misaligned and aborts; the static check already reports the defect, so
    // this configuration is only confirmed on all histories of depth <= 2 (each abort costs a
    // fork).  With a suitably aligned Optional the full depth is explored like everywhere else.
    if (alignof(typename Exec<P, OFFSET>::Opt) < alignof(typename P::T)) {
      vr::note(pname() + ": alignof(Optional<T>) < alignof(T), exploring the struct/array holder to depth 2 only (declared)");
      depth = 2;
    }
    if (ls >= depth)
      ls = depth - 1;
    std::vector<std::pair<std::vector<Op>, long long>> pre;
    std::vector<Op> first;
    {
      Explorer e;
      e.prefixes(Model(), 0, 0, ls, pre);
      enabled_ops(Model(), true, first);
    }
    char *okflags = (char *)mmap(nullptr, pre.size() + 1, PROT_READ | PROT_WRITE, MAP_SHARED | MAP_ANONYMOUS, -1, 0);
    memset(okflags, 0, pre.size() + 1);
    run_sharded_2level((int)first.size(), [&](int shard, long long resume_after) {
      partial_enter(shard, resume_after);
      Explorer e;
      e.resume = resume_after;
      e.depth = ls;
      e.root_only = shard;
      e.pre = &pre;
      e.okflags = okflags;
      e.dfs(Model(), 0, 0);
      counters_flush();
    });
    std::vector<int> sound;
    for (size_t i = 0; i < pre.size(); i++)
      if (okflags[i])
        sound.push_back((int)i);
    munmap(okflags, pre.size() + 1);
    vr::stat("shards", (long long)first.size() + (long long)sound.size());
    vr::stat("prefixes_sound", (long long)sound.size());
    vr::stat("prefixes_pruned", (long long)(pre.size() - sound.size()));
    run_sharded_2level((int)sound.size(), [&](int shard, long long resume_after) {
      partial_enter(1000 + shard, resume_after);
      if (vr::deadline_passed()) {
        vr::capped(pname() + ": deadline passed before prefix shard " + std::to_string(shard));
        return;
      }
      Explorer e;
      e.resume = resume_after;
      e.depth = depth;
      e.hist = pre[sound[shard]].first;
      Model m;
      for (size_t i = 0; i < e.hist.size(); i++)
        model_apply(m, e.hist[i]);
      e.dfs(m, ls, pre[sound[shard]].second);
      counters_flush();
    });
  }

  static int replay(const std::vector<Op> &hist)
  {
    Model m;
    for (auto &o : hist) {
      if (!op_enabled(m, o)) {
        printf("operation %s is not applicable in this state\n", op_text(o).c_str());
        return 2;
      }
      model_apply(m, o);
    }
    Explorer e;
    printf("replaying on %s (sizeof %zu alignof %zu; payload alignof %zu):\n", e.R.tag().c_str(),
        sizeof(typename Exec<P, OFFSET>::Opt), alignof(typename Exec<P, OFFSET>::Opt), alignof(typename P::T));
    fflush(stdout);
    Result r = e.R.run(hist, true);
    if (r.failed) {
      report(r.sig, hist_text(pname(), hist), r.detail);
      return 1;
    }
    printf("history behaves as the model (got == want after every operation)\n");
    return 0;
  }

  static void statics()
  {
    typedef typename Exec<P, OFFSET>::Opt Opt;
    vr::stat("states");
    vr::stat("transitions");
    vr::stat("traces");
    char b[200];
    snprintf(b, sizeof b, "alignof(Optional<%s>) = %zu, alignof(%s) = %zu", P::name(), alignof(Opt), P::name(), alignof(typename P::T));
    vr::outcome(std::string(b));
    if (vr::replaying())
      printf("%s\n", b);
    if (alignof(Opt) < alignof(typename P::T))
      report(std::string("Optional<") + P::name() + ">|static|alignof(Optional<T>) < alignof(T): storage not suitably aligned for the payload",
          std::string("align:") + P::name(), b);
  }

  static PayloadEntry entry(const char *name)
  {
    PayloadEntry e = {name, &Explorer::explore, &Explorer::replay, &Explorer::statics};
    return e;
  }
};

}  // namespace c09
