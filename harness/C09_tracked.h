// Instrumented payload: a registry of the addresses that currently hold a live Tracked.
// Every payload operation first consults the registry; an operation on storage that holds no
// live object is recorded as the history's failure and does NOT touch the memory (so the
// defect is observed without depending on what the garbage bytes happen to do).
#pragma once
#include "C09_common.h"

namespace c09 {

struct Registry
{
  enum { MAX = 64 };
  const void *live[MAX];
  int n = 0;
  long long constructed = 0, destroyed = 0;
  int find(const void *p) const
  {
    for (int i = 0; i < n; i++)
      if (live[i] == p)
        return i;
    return -1;
  }
  void clear()
  {
    n = 0;
    constructed = destroyed = 0;
  }
};
inline Registry &reg()
{
  static Registry r;
  return r;
}

inline std::string addr(const void *p)
{
  char b[32];
  snprintf(b, sizeof b, "%p", p);
  return b;
}

struct Tracked
{
  long long val;  // alignof 8

  static const long long DEAD = -999;

  void born(const char *how)
  {
    Registry &r = reg();
    if (r.find(this) >= 0) {
      fail_set("lifetime|construction on storage that already holds a live object", std::string(how) + " at " + addr(this));
      return;
    }
    if (r.n < Registry::MAX)
      r.live[r.n++] = this;
    r.constructed++;
  }
  bool alive(const char *how) const
  {
    if (reg().find(this) >= 0)
      return true;
    fail_set(how, "object at " + addr(this) + " is not live");
    return false;
  }

  Tracked()
  {
    born("default construction");
    val = 0;
  }
  Tracked(int v)  // converting constructor (Optional<int> -> Optional<Tracked>)
  {
    born("construction from int");
    val = v;
  }
  Tracked(const Tracked &o)
  {
    born("copy construction");
    val = o.alive("lifetime|copy construction from storage that holds no live object") ? o.val : DEAD;
  }
  Tracked(Tracked &&o)
  {
    born("move construction");
    val = o.alive("lifetime|move construction from storage that holds no live object") ? o.val : DEAD;
  }
  Tracked &operator=(const Tracked &o)
  {
    bool src = o.alive("lifetime|assignment from storage that holds no live object");
    if (alive("lifetime|assignment to storage that holds no live object"))
      val = src ? o.val : DEAD;
    return *this;
  }
  Tracked &operator=(Tracked &&o)
  {
    bool src = o.alive("lifetime|assignment from storage that holds no live object");
    if (alive("lifetime|assignment to storage that holds no live object"))
      val = src ? o.val : DEAD;
    return *this;
  }
  ~Tracked()
  {
    Registry &r = reg();
    int i = r.find(this);
    if (i < 0) {
      fail_set("lifetime|destruction of storage that holds no live object", "destructor at " + addr(this));
      return;
    }
    r.live[i] = r.live[--r.n];
    r.destroyed++;
  }
  long long read() const
  {
    return alive("lifetime|read of storage that holds no live object") ? val : DEAD;
  }
};

inline bool operator==(const Tracked &a, const Tracked &b)
{
  return a.read() == b.read();
}
inline bool operator!=(const Tracked &a, const Tracked &b)
{
  return a.read() != b.read();
}
inline bool operator<(const Tracked &a, const Tracked &b)
{
  return a.read() < b.read();
}
inline bool operator<=(const Tracked &a, const Tracked &b)
{
  return a.read() <= b.read();
}
inline bool operator>(const Tracked &a, const Tracked &b)
{
  return a.read() > b.read();
}
inline bool operator>=(const Tracked &a, const Tracked &b)
{
  return a.read() >= b.read();
}
// Over-aligned instrumented payload: the same registry, alignof and sizeof N (32, 64: more than
// malloc / operator new guarantee).  Every payload operation is Tracked's.
template <int N>
struct alignas(N) TrackedA : Tracked
{
  TrackedA() {}
  TrackedA(int v) : Tracked(v) {}
};

// converting comparisons Optional<Tracked> vs Optional<int>
inline bool operator==(const Tracked &a, int b) { return a.read() == b; }
inline bool operator!=(const Tracked &a, int b) { return a.read() != b; }
inline bool operator<(const Tracked &a, int b) { return a.read() < b; }
inline bool operator<=(const Tracked &a, int b) { return a.read() <= b; }
inline bool operator>(const Tracked &a, int b) { return a.read() > b; }
inline bool operator>=(const Tracked &a, int b) { return a.read() >= b; }

}  // namespace c09
