// C06 reference algebra: 2x2 / 3x3 matrices, vectors and quaternions in long double, written
// from the textbook definitions (Laplace expansion, cofactors, Gauss-Jordan elimination, Hamilton's
// rules, rotations assembled from an orthonormal frame).  Nothing here includes or mirrors rkcommon.
#pragma once
#include <cmath>

typedef long double LD;

namespace ref {

static const LD PI = 3.14159265358979323846264338327950288L;

struct V
{
  LD v[3];
};
struct M
{
  int n;
  LD a[3][3];  // a[row][col]
};
struct Q
{
  LD r, i, j, k;
};

inline V vec(LD x, LD y, LD z = 0)
{
  V o;
  o.v[0] = x, o.v[1] = y, o.v[2] = z;
  return o;
}
inline V add(const V &a, const V &b) { return vec(a.v[0] + b.v[0], a.v[1] + b.v[1], a.v[2] + b.v[2]); }
inline V sub(const V &a, const V &b) { return vec(a.v[0] - b.v[0], a.v[1] - b.v[1], a.v[2] - b.v[2]); }
inline V mul(LD s, const V &a) { return vec(s * a.v[0], s * a.v[1], s * a.v[2]); }
inline LD dot(const V &a, const V &b) { return a.v[0] * b.v[0] + a.v[1] * b.v[1] + a.v[2] * b.v[2]; }
inline LD norm(const V &a) { return sqrtl(dot(a, a)); }
inline V unit(const V &a) { return mul(1.0L / norm(a), a); }
// right-handed cross product: e_x x e_y = e_z
inline V cross(const V &a, const V &b)
{
  return vec(a.v[1] * b.v[2] - a.v[2] * b.v[1], a.v[2] * b.v[0] - a.v[0] * b.v[2], a.v[0] * b.v[1] - a.v[1] * b.v[0]);
}

inline M zero(int n)
{
  M o;
  o.n = n;
  for (int r = 0; r < 3; r++)
    for (int c = 0; c < 3; c++)
      o.a[r][c] = 0;
  return o;
}
inline M ident(int n)
{
  M o = zero(n);
  for (int r = 0; r < n; r++)
    o.a[r][r] = 1;
  return o;
}
inline M from_cols(const V &c0, const V &c1, const V &c2)
{
  M o = zero(3);
  for (int r = 0; r < 3; r++)
    o.a[r][0] = c0.v[r], o.a[r][1] = c1.v[r], o.a[r][2] = c2.v[r];
  return o;
}
inline V col(const M &A, int c) { return vec(A.a[0][c], A.a[1][c], A.a[2][c]); }
inline V row(const M &A, int r) { return vec(A.a[r][0], A.a[r][1], A.a[r][2]); }
inline M mul(const M &A, const M &B)
{
  M o = zero(A.n);
  for (int r = 0; r < A.n; r++)
    for (int c = 0; c < A.n; c++)
      for (int k = 0; k < A.n; k++)
        o.a[r][c] += A.a[r][k] * B.a[k][c];
  return o;
}
inline V app(const M &A, const V &x)
{
  V o = vec(0, 0, 0);
  for (int r = 0; r < A.n; r++)
    for (int c = 0; c < A.n; c++)
      o.v[r] += A.a[r][c] * x.v[c];
  return o;
}
inline M transp(const M &A)
{
  M o = zero(A.n);
  for (int r = 0; r < A.n; r++)
    for (int c = 0; c < A.n; c++)
      o.a[c][r] = A.a[r][c];
  return o;
}
inline M absm(const M &A)
{
  M o = A;
  for (int r = 0; r < 3; r++)
    for (int c = 0; c < 3; c++)
      o.a[r][c] = fabsl(A.a[r][c]);
  return o;
}
inline LD fro(const M &A)
{
  LD s = 0;
  for (int r = 0; r < A.n; r++)
    for (int c = 0; c < A.n; c++)
      s += A.a[r][c] * A.a[r][c];
  return sqrtl(s);
}
// determinant of A with row r and column c struck out
inline LD minor_(const M &A, int r, int c)
{
  LD m[2][2];
  int rr = 0;
  for (int i = 0; i < A.n; i++) {
    if (i == r)
      continue;
    int cc = 0;
    for (int j = 0; j < A.n; j++) {
      if (j == c)
        continue;
      m[rr][cc++] = A.a[i][j];
    }
    rr++;
  }
  return A.n == 2 ? m[0][0] : m[0][0] * m[1][1] - m[0][1] * m[1][0];
}
// Laplace expansion along the first row
inline LD det(const M &A)
{
  LD d = 0;
  for (int c = 0; c < A.n; c++)
    d += ((c & 1) ? -1 : 1) * A.a[0][c] * minor_(A, 0, c);
  return d;
}
// the same expansion with every sign positive on |A|: an upper bound for the sum of the magnitudes
// of the terms of a determinant evaluation (running error scale)
inline LD perm_abs(const M &A)
{
  M B = absm(A);
  LD d = 0;
  for (int c = 0; c < B.n; c++) {
    LD m[2][2];
    int rr = 0;
    for (int i = 1; i < B.n; i++) {
      int cc = 0;
      for (int j = 0; j < B.n; j++)
        if (j != c)
          m[rr][cc++] = B.a[i][j];
      rr++;
    }
    d += B.a[0][c] * (B.n == 2 ? m[0][0] : m[0][0] * m[1][1] + m[0][1] * m[1][0]);
  }
  return d;
}
// classical adjoint (adjugate): transposed cofactor matrix
inline M adjugate(const M &A)
{
  M o = zero(A.n);
  for (int r = 0; r < A.n; r++)
    for (int c = 0; c < A.n; c++)
      o.a[r][c] = (((r + c) & 1) ? -1 : 1) * minor_(A, c, r);
  return o;
}
// Gauss-Jordan elimination with partial pivoting; false if a pivot is exactly zero
inline bool inverse(const M &A, M &X)
{
  const int n = A.n;
  LD w[3][6];
  for (int r = 0; r < n; r++)
    for (int c = 0; c < n; c++)
      w[r][c] = A.a[r][c], w[r][n + c] = (r == c) ? 1 : 0;
  for (int p = 0; p < n; p++) {
    int best = p;
    for (int r = p + 1; r < n; r++)
      if (fabsl(w[r][p]) > fabsl(w[best][p]))
        best = r;
    if (w[best][p] == 0)
      return false;
    if (best != p)
      for (int c = 0; c < 2 * n; c++) {
        LD t = w[p][c];
        w[p][c] = w[best][c];
        w[best][c] = t;
      }
    LD ip = 1.0L / w[p][p];
    for (int c = 0; c < 2 * n; c++)
      w[p][c] *= ip;
    for (int r = 0; r < n; r++)
      if (r != p && w[r][p] != 0) {
        LD f = w[r][p];
        for (int c = 0; c < 2 * n; c++)
          w[r][c] -= f * w[p][c];
      }
  }
  X = zero(n);
  for (int r = 0; r < n; r++)
    for (int c = 0; c < n; c++)
      X.a[r][c] = w[r][n + c];
  return true;
}
// 2-norm condition number sigma_max / sigma_min from the eigenvalues of A^T A (closed forms for
// symmetric 2x2 / 3x3 matrices)
inline LD cond2(const M &A)
{
  M S = mul(transp(A), A);
  LD lmax, lmin;
  if (A.n == 2) {
    LD h = (S.a[0][0] + S.a[1][1]) / 2, d = (S.a[0][0] - S.a[1][1]) / 2;
    LD q = sqrtl(d * d + S.a[0][1] * S.a[0][1]);
    lmax = h + q;
    lmin = h - q;
  } else {
    LD p1 = S.a[0][1] * S.a[0][1] + S.a[0][2] * S.a[0][2] + S.a[1][2] * S.a[1][2];
    if (p1 == 0) {
      lmax = fmaxl(S.a[0][0], fmaxl(S.a[1][1], S.a[2][2]));
      lmin = fminl(S.a[0][0], fminl(S.a[1][1], S.a[2][2]));
    } else {
      LD q = (S.a[0][0] + S.a[1][1] + S.a[2][2]) / 3;
      LD p2 = (S.a[0][0] - q) * (S.a[0][0] - q) + (S.a[1][1] - q) * (S.a[1][1] - q) + (S.a[2][2] - q) * (S.a[2][2] - q) + 2 * p1;
      LD p = sqrtl(p2 / 6);
      M B = S;
      for (int r = 0; r < 3; r++)
        for (int c = 0; c < 3; c++)
          B.a[r][c] = (S.a[r][c] - (r == c ? q : 0)) / p;
      LD rr = det(B) / 2;
      LD phi = rr <= -1 ? PI / 3 : rr >= 1 ? 0 : acosl(rr) / 3;
      lmax = q + 2 * p * cosl(phi);
      lmin = q + 2 * p * cosl(phi + 2 * PI / 3);
    }
  }
  if (!(lmin > 0))
    return INFINITY;
  return sqrtl(lmax / lmin);
}

// ---------------------------------------------------------------- quaternions (Hamilton)
inline Q quat(LD r, LD i, LD j, LD k)
{
  Q q;
  q.r = r, q.i = i, q.j = j, q.k = k;
  return q;
}
// i^2 = j^2 = k^2 = ijk = -1: ij = k, jk = i, ki = j, ji = -k, kj = -i, ik = -j
inline Q qmul(const Q &a, const Q &b)
{
  Q o = quat(0, 0, 0, 0);
  const LD A[4] = {a.r, a.i, a.j, a.k}, B[4] = {b.r, b.i, b.j, b.k};
  // table[x][y] = (sign, unit index) of unit_x * unit_y, units 0=1, 1=i, 2=j, 3=k
  static const int unit[4][4] = {{0, 1, 2, 3}, {1, 0, 3, 2}, {2, 3, 0, 1}, {3, 2, 1, 0}};
  static const int sign[4][4] = {{1, 1, 1, 1}, {1, -1, 1, -1}, {1, -1, -1, 1}, {1, 1, -1, -1}};
  LD O[4] = {0, 0, 0, 0};
  for (int x = 0; x < 4; x++)
    for (int y = 0; y < 4; y++)
      O[unit[x][y]] += sign[x][y] * A[x] * B[y];
  o.r = O[0], o.i = O[1], o.j = O[2], o.k = O[3];
  return o;
}
inline Q qconj(const Q &a) { return quat(a.r, -a.i, -a.j, -a.k); }
inline LD qdot(const Q &a, const Q &b) { return a.r * b.r + a.i * b.i + a.j * b.j + a.k * b.k; }
inline Q qneg(const Q &a) { return quat(-a.r, -a.i, -a.j, -a.k); }
// v -> q v q*  (a rotation when |q| = 1)
inline V qrot(const Q &q, const V &x)
{
  Q p = qmul(qmul(q, quat(0, x.v[0], x.v[1], x.v[2])), qconj(q));
  return vec(p.i, p.j, p.k);
}
inline M qmat(const Q &q)
{
  return from_cols(qrot(q, vec(1, 0, 0)), qrot(q, vec(0, 1, 0)), qrot(q, vec(0, 0, 1)));
}
inline Q axis_angle_quat(const V &u, LD theta)
{
  LD s = sinl(theta / 2);
  return quat(cosl(theta / 2), s * u.v[0], s * u.v[1], s * u.v[2]);
}

// some unit vector perpendicular to the unit vector u
inline V perp(const V &u)
{
  int m = 0;
  for (int i = 1; i < 3; i++)
    if (fabsl(u.v[i]) < fabsl(u.v[m]))
      m = i;
  V e = vec(m == 0, m == 1, m == 2);
  return unit(sub(e, mul(dot(e, u), u)));
}
// right-handed rotation by theta about the unit axis u, assembled from the frame (w1, w2 = u x w1, u):
// u -> u, w1 -> cos w1 + sin w2, w2 -> -sin w1 + cos w2
inline M axis_angle(const V &u, LD theta)
{
  V w1 = perp(u), w2 = cross(u, w1);
  LD c = cosl(theta), s = sinl(theta);
  V img_u = u, img_w1 = add(mul(c, w1), mul(s, w2)), img_w2 = add(mul(-s, w1), mul(c, w2));
  M o = zero(3);
  for (int r = 0; r < 3; r++)
    for (int cidx = 0; cidx < 3; cidx++)
      o.a[r][cidx] = img_u.v[r] * u.v[cidx] + img_w1.v[r] * w1.v[cidx] + img_w2.v[r] * w2.v[cidx];
  return o;
}
inline M rot2(LD theta)
{
  M o = zero(2);
  o.a[0][0] = cosl(theta), o.a[0][1] = -sinl(theta);
  o.a[1][0] = sinl(theta), o.a[1][1] = cosl(theta);
  return o;
}

}  // namespace ref
