// C20 helpers shared by the images and trace units: run one writer call in a forked child (the
// tracing API has process-wide state, and a sanitizer abort must cost exactly one case and must
// not lose what the shard has already observed), scratch directory handling.
#pragma once
#include "common/vreport.h"

#include <dirent.h>
#include <sys/stat.h>

namespace c20 {

inline bool read_file(const std::string &path, std::string &out)
{
  out.clear();
  FILE *f = fopen(path.c_str(), "rb");
  if (!f)
    return false;
  char b[65536];
  size_t n;
  while ((n = fread(b, 1, sizeof b, f)) > 0)
    out.append(b, n);
  fclose(f);
  return true;
}

// Runs body() in a forked child whose stderr goes to errfile.  Returns "" when the child exited
// normally with status 0, otherwise the classified way it died ("asan:heap-buffer-overflow", ...).
// first_line receives the sanitizer's headline.
inline std::string run_forked(const std::function<void()> &body, const std::string &errfile, std::string *first_line = nullptr)
{
  fflush(stdout);
  pid_t pid = fork();
  if (pid < 0) {
    perror("fork");
    exit(3);
  }
  if (pid == 0) {
    int efd = open(errfile.c_str(), O_WRONLY | O_CREAT | O_TRUNC, 0600);
    if (efd >= 0) {
      dup2(efd, 2);
      close(efd);
    }
    vr::my_slot() = nullptr;
    body();
    _exit(0);
  }
  int status = 0;
  while (waitpid(pid, &status, 0) < 0) {
  }
  if (WIFEXITED(status) && WEXITSTATUS(status) == 0)
    return "";
  std::string err;
  read_file(errfile, err);
  if (first_line) {
    size_t p = err.find("ERROR");
    if (p == std::string::npos)
      p = err.find("runtime error");
    if (p == std::string::npos)
      p = 0;
    *first_line = err.substr(p, err.find('\n', p) - p);
    if (first_line->size() > 200)
      first_line->resize(200);
  }
  if (getenv("C20_DEBUG_DEATH") && err.find(getenv("C20_DEBUG_DEATH")) != std::string::npos)
    printf("---- child stderr ----\n%s\n----\n", err.c_str());
  return vr::classify_death(status, err);
}

inline void rm_dir(const std::string &dir)
{
  DIR *d = opendir(dir.c_str());
  if (d) {
    struct dirent *e;
    while ((e = readdir(d)))
      if (strcmp(e->d_name, ".") && strcmp(e->d_name, ".."))
        unlink((dir + "/" + e->d_name).c_str());
    closedir(d);
  }
  rmdir(dir.c_str());
}

inline std::string make_dir()
{
  std::string dir = "/dev/shm/verif-" + std::to_string((int)getpid());
  mkdir(dir.c_str(), 0700);
  return dir;
}

}  // namespace c20
