// C20 (trace): saveLog writes a well-formed JSON array that contains, for every recording
// thread, every recorded begin/end/marker/counter event in recording order with begin/end pairs
// properly nested, whatever the number of events or threads.
// Engine seqmc: every well-nested event word up to a length per thread, chunk-edge lengths of
// periodic patterns, 0..8 real threads (joined before saveLog), processName null / non-null,
// the TraceRecorder class API and the process-global API.  Every history runs in a forked child
// (the global recorder is process-wide state); the file is parsed here by a strict RFC 8259
// parser and compared with the recorded sequences.
#include "C20_fork.h"

#include "rkcommon/tracing/Tracing.h"

#include <pthread.h>
#include <sstream>
#include <thread>

using namespace rkcommon;

static void viol(const std::string &sig, const std::string &replay, const std::string &detail)
{
  vr::violation(sig, replay, detail);
  if (vr::replaying())
    printf("VIOLATED %s :: %s\n", sig.c_str(), detail.c_str());
}

// ======================================================================== strict JSON
struct JV
{
  enum T
  {
    NUL,
    BOOL,
    NUM,
    STR,
    ARR,
    OBJ
  } t;
  bool b;
  std::string s;  // string value, or the exact number text
  std::vector<JV> arr;
  std::vector<std::pair<std::string, JV>> obj;
  JV() : t(NUL), b(false) {}
  const JV *get(const char *k) const
  {
    for (auto &kv : obj)
      if (kv.first == k)
        return &kv.second;
    return nullptr;
  }
};

struct JParser
{
  const char *p, *e, *b;
  std::string err;
  int depth;
  JParser(const std::string &s) : p(s.data()), e(s.data() + s.size()), b(s.data()), depth(0) {}
  bool fail(const std::string &m)
  {
    if (err.empty())
      err = m + " at byte " + std::to_string(p - b);
    return false;
  }
  void ws()
  {
    while (p < e && (*p == ' ' || *p == '\t' || *p == '\n' || *p == '\r'))
      p++;
  }
  bool lit(const char *w)
  {
    size_t n = strlen(w);
    if ((size_t)(e - p) < n || memcmp(p, w, n) != 0)
      return fail("invalid literal");
    p += n;
    return true;
  }
  bool string(std::string &out)
  {
    if (p >= e || *p != '"')
      return fail("expected '\"'");
    p++;
    out.clear();
    while (true) {
      if (p >= e)
        return fail("unterminated string");
      unsigned char c = (unsigned char)*p;
      if (c == '"') {
        p++;
        return true;
      }
      if (c < 0x20)
        return fail("control character in string");
      if (c == '\\') {
        p++;
        if (p >= e)
          return fail("unterminated escape");
        char x = *p++;
        switch (x) {
        case '"': out += '"'; break;
        case '\\': out += '\\'; break;
        case '/': out += '/'; break;
        case 'b': out += '\b'; break;
        case 'f': out += '\f'; break;
        case 'n': out += '\n'; break;
        case 'r': out += '\r'; break;
        case 't': out += '\t'; break;
        case 'u': {
          if (e - p < 4)
            return fail("short \\u escape");
          unsigned v = 0;
          for (int i = 0; i < 4; i++) {
            char h = *p++;
            if (!isxdigit((unsigned char)h))
              return fail("bad \\u escape");
            v = v * 16 + (h <= '9' ? h - '0' : (h | 32) - 'a' + 10);
          }
          out += v < 128 ? (char)v : '?';
          break;
        }
        default:
          p--;
          return fail("invalid escape");
        }
      } else {
        out += (char)c;
        p++;
      }
    }
  }
  bool number(std::string &out)
  {
    const char *s = p;
    if (p < e && *p == '-')
      p++;
    if (p >= e)
      return fail("number expected");
    if (*p == '0')
      p++;
    else if (*p >= '1' && *p <= '9')
      while (p < e && isdigit((unsigned char)*p))
        p++;
    else
      return fail("invalid number");
    if (p < e && *p == '.') {
      p++;
      if (p >= e || !isdigit((unsigned char)*p))
        return fail("digit expected after '.'");
      while (p < e && isdigit((unsigned char)*p))
        p++;
    }
    if (p < e && (*p == 'e' || *p == 'E')) {
      p++;
      if (p < e && (*p == '+' || *p == '-'))
        p++;
      if (p >= e || !isdigit((unsigned char)*p))
        return fail("digit expected in exponent");
      while (p < e && isdigit((unsigned char)*p))
        p++;
    }
    out.assign(s, p - s);
    return true;
  }
  bool value(JV &v)
  {
    ws();
    if (p >= e)
      return fail("value expected, found end of file");
    if (++depth > 64)
      return fail("nesting too deep");
    bool ok = true;
    switch (*p) {
    case '{': {
      v.t = JV::OBJ;
      p++;
      ws();
      if (p < e && *p == '}') {
        p++;
        break;
      }
      while (ok) {
        ws();
        std::string k;
        if (!string(k)) {
          ok = false;
          break;
        }
        ws();
        if (p >= e || *p != ':') {
          ok = fail("expected ':'");
          break;
        }
        p++;
        v.obj.push_back(std::make_pair(k, JV()));
        if (!value(v.obj.back().second)) {
          ok = false;
          break;
        }
        ws();
        if (p < e && *p == ',') {
          p++;
          continue;
        }
        if (p < e && *p == '}') {
          p++;
          break;
        }
        ok = fail("expected ',' or '}'");
      }
      break;
    }
    case '[': {
      v.t = JV::ARR;
      p++;
      ws();
      if (p < e && *p == ']') {
        p++;
        break;
      }
      while (ok) {
        v.arr.push_back(JV());
        if (!value(v.arr.back())) {
          ok = false;
          break;
        }
        ws();
        if (p < e && *p == ',') {
          p++;
          continue;
        }
        if (p < e && *p == ']') {
          p++;
          break;
        }
        ok = fail("expected ',' or ']'");
      }
      break;
    }
    case '"':
      v.t = JV::STR;
      ok = string(v.s);
      break;
    case 't':
      v.t = JV::BOOL;
      v.b = true;
      ok = lit("true");
      break;
    case 'f':
      v.t = JV::BOOL;
      ok = lit("false");
      break;
    case 'n':
      v.t = JV::NUL;
      ok = lit("null");
      break;
    default:
      if (*p == '-' || isdigit((unsigned char)*p)) {
        v.t = JV::NUM;
        ok = number(v.s);
      } else
        ok = fail(std::string("unexpected character '") + vr::clean(std::string(1, *p)) + "'");
    }
    depth--;
    return ok;
  }
  // The document must be one array; each element is handed to f and dropped (logs are large).
  bool top_array(const std::function<void(const JV &)> &f)
  {
    ws();
    if (p >= e)
      return fail("empty file");
    if (*p != '[')
      return fail(std::string("document does not start with '[' but with '") + vr::clean(std::string(1, *p)) + "'");
    p++;
    ws();
    if (p < e && *p == ']') {
      p++;
    } else {
      while (true) {
        JV v;
        if (!value(v))
          return false;
        f(v);
        ws();
        if (p < e && *p == ',') {
          p++;
          continue;
        }
        if (p < e && *p == ']') {
          p++;
          break;
        }
        return fail("expected ',' or ']' in the top-level array");
      }
    }
    ws();
    if (p != e)
      return fail("bytes after the end of the array");
    return true;
  }
};

// ======================================================================== recorded events
struct Ev
{
  char kind;         // 'B' 'E' 'M' 'C'
  const char *name;  // static literal (the recorder caches names by pointer)
  const char *cat;   // may be null
  uint64_t value;    // counters
};

static const char *const NAMES[8] = {"n0", "n1", "n2", "n3", "n4", "n5", "n6", "n7"};
static const char *const CATS[2] = {"catA", "catB"};

// per-thread specification: an explicit word over {B,E,M,C} ("-" = no event), or "L<len>.<depth>.<lead>":
// <lead> markers followed by the periodic pattern (B^depth M C E^depth)* cut at <len> events in total
static bool spec_to_word(const std::string &spec, std::string &word)
{
  word.clear();
  if (spec == "-")
    return true;
  if (spec[0] == 'L') {
    long len = 0;
    int d = 0, lead = 0;
    if (sscanf(spec.c_str(), "L%ld.%d.%d", &len, &d, &lead) != 3 || len < 0 || d < 0 || lead < 0)
      return false;
    word.reserve(len);
    for (int i = 0; i < lead && (long)word.size() < len; i++)
      word += 'M';
    while ((long)word.size() < len) {
      for (int i = 0; i < d && (long)word.size() < len; i++)
        word += 'B';
      if ((long)word.size() < len)
        word += 'M';
      if ((long)word.size() < len)
        word += 'C';
      for (int i = 0; i < d && (long)word.size() < len; i++)
        word += 'E';
    }
    return true;
  }
  int depth = 0;
  for (char c : spec) {
    if (c == 'B')
      depth++;
    else if (c == 'E') {
      if (--depth < 0)
        return false;
    } else if (c != 'M' && c != 'C')
      return false;
  }
  word = spec;
  return true;
}

static void word_to_events(const std::string &word, int thread, std::vector<Ev> &evs)
{
  evs.resize(word.size());
  for (size_t j = 0; j < word.size(); j++) {
    Ev &e = evs[j];
    e.kind = word[j];
    e.name = word[j] == 'E' ? nullptr : NAMES[(j + thread) % 8];
    e.cat = (word[j] == 'B' || word[j] == 'M') ? ((j + thread) % 3 == 0 ? nullptr : CATS[(j + thread) % 2]) : nullptr;
    e.value = word[j] == 'C' ? ((j % 5 == 4) ? ~(uint64_t)0 - j : (uint64_t)thread * 1000000u + j) : 0;
  }
}

struct History
{
  char api;  // 'L' = TraceRecorder object + ThreadEventList methods, 'G' = global functions
  bool pname, named;
  bool seq;  // threads run one after another (start, record, join, next): ids of finished threads get reused
  std::vector<std::string> specs;  // one per thread
  History() : api('L'), pname(false), named(false), seq(false) {}
  std::string text() const
  {
    std::string s = std::string(seq ? "ts:" : "tr:") + api + ":" + (pname ? "1" : "0") + ":" + (named ? "1" : "0") + ":";
    for (size_t i = 0; i < specs.size(); i++)
      s += (i ? "/" : "") + specs[i];
    return s;
  }
};

static bool parse_history(const std::string &r, History &h)
{
  if (r.size() < 9 || (r.compare(0, 3, "tr:") != 0 && r.compare(0, 3, "ts:") != 0))
    return false;
  h.seq = r[1] == 's';
  h.api = r[3];
  h.pname = r[5] == '1';
  h.named = r[7] == '1';
  std::string rest = r.substr(9);
  h.specs.clear();
  if (rest.empty())
    return true;
  std::stringstream ss(rest);
  std::string item;
  while (std::getline(ss, item, '/'))
    h.specs.push_back(item);
  return h.api == 'L' || h.api == 'G';
}

// ------------------------------------------------------------------------ the recording side (child process)
static std::string this_thread_id_text()
{
  std::ostringstream os;
  os << std::this_thread::get_id();
  return os.str();
}

static void record_L(tracing::TraceRecorder &rec, int k, bool named, const std::vector<Ev> &evs, std::string &idtext)
{
  idtext = this_thread_id_text();
  std::shared_ptr<tracing::ThreadEventList> l = rec.getThreadTraceList(std::this_thread::get_id());
  if (named)
    l->threadName = "T" + std::to_string(k);
  for (const Ev &e : evs) {
    switch (e.kind) {
    case 'B': l->beginEvent(e.name, e.cat); break;
    case 'E': l->endEvent(); break;
    case 'M': l->setMarker(e.name, e.cat); break;
    case 'C': l->setCounter(e.name, e.value); break;
    }
  }
}

static void record_G(int k, bool named, const std::vector<Ev> &evs, std::string &idtext)
{
  idtext = this_thread_id_text();
  if (named)
    tracing::setThreadName(("T" + std::to_string(k)).c_str());
  for (const Ev &e : evs) {
    switch (e.kind) {
    case 'B': tracing::beginEvent(e.name, e.cat); break;
    case 'E': tracing::endEvent(); break;
    case 'M': tracing::setMarker(e.name, e.cat); break;
    case 'C': tracing::setCounter(e.name, e.value); break;
    }
  }
}

// runs in the forked child: thread 0 is the calling thread, the others are std::threads joined
// before saveLog; writes the log and a side file with the thread ids as the writer prints them
static void child_record(const History &h, const std::vector<std::vector<Ev>> &evs, const std::string &file)
{
  const int T = (int)h.specs.size();
  std::vector<std::string> ids(T);
  {  // thread creation is the dominant cost of a short history: small stacks for the recording threads
    pthread_attr_t at;
    pthread_attr_init(&at);
    pthread_attr_setstacksize(&at, 512 << 10);
    pthread_setattr_default_np(&at);
    pthread_attr_destroy(&at);
  }
  tracing::TraceRecorder rec;
  std::vector<std::thread> th;
  if (h.seq) {
    // every recording thread is a std::thread that is joined before the next one starts
    for (int k = 0; k < T; k++) {
      std::thread t([&, k]() {
        if (h.api == 'L')
          record_L(rec, k, h.named, evs[k], ids[k]);
        else
          record_G(k, h.named, evs[k], ids[k]);
      });
      t.join();
    }
  }
  for (int k = 1; k < T && !h.seq; k++) {
    if (h.api == 'L')
      th.emplace_back([&, k]() { record_L(rec, k, h.named, evs[k], ids[k]); });
    else
      th.emplace_back([&, k]() { record_G(k, h.named, evs[k], ids[k]); });
  }
  if (T > 0 && !h.seq) {
    if (h.api == 'L')
      record_L(rec, 0, h.named, evs[0], ids[0]);
    else
      record_G(0, h.named, evs[0], ids[0]);
  }
  for (auto &t : th)
    t.join();
  const char *pn = h.pname ? "proc" : nullptr;
  if (h.api == 'L')
    rec.saveLog(file.c_str(), pn);
  else
    tracing::saveLog(file.c_str(), pn);
  FILE *f = fopen((file + ".ids").c_str(), "w");
  if (f) {
    for (auto &s : ids)
      fprintf(f, "%s\n", s.c_str());
    fclose(f);
  }
}

// ------------------------------------------------------------------------ the judging side
static std::string history_class(const History &h, size_t registered, size_t total_events)
{
  std::string c = registered == 0 ? "no thread registered" : total_events == 0 ? "threads registered, no events" : "with events";
  return c + (h.pname ? ", processName given" : ", processName null");
}

static const char *pos_class(size_t i)
{
  return (i % 8192) == 0 && i > 0 ? "first event of a later chunk" : (i % 8192) == 8191 ? "last event of a chunk" : "inside a chunk";
}

struct OutEv
{
  std::string ph, name, cat, value;
  bool has_cat, has_value;
};

static std::string ev_text(const Ev &e)
{
  std::string s(1, e.kind == 'M' ? 'i' : e.kind);
  if (e.name)
    s += std::string(" ") + e.name;
  if (e.cat)
    s += std::string(" cat=") + e.cat;
  if (e.kind == 'C')
    s += " value=" + std::to_string(e.value);
  return s;
}
static std::string out_text(const OutEv &o)
{
  return o.ph + " " + o.name + (o.has_cat ? " cat=" + o.cat : "") + (o.has_value ? " value=" + o.value : "");
}

static void run_history(const History &h, const std::string &replay, const std::string &file)
{
  const int T = (int)h.specs.size();
  std::vector<std::vector<Ev>> evs(T);
  size_t total = 0, registered = 0;
  for (int k = 0; k < T; k++) {
    std::string w;
    if (!spec_to_word(h.specs[k], w)) {
      printf("malformed thread specification '%s'\n", h.specs[k].c_str());
      return;
    }
    word_to_events(w, k, evs[k]);
    total += evs[k].size();
    // L: every thread asks for its list; G: a thread registers with its first call
    if (h.api == 'L' || h.named || !evs[k].empty())
      registered++;
  }
  unlink(file.c_str());
  unlink((file + ".ids").c_str());
  std::string headline;
  std::string died = c20::run_forked([&]() { child_record(h, evs, file); }, file + ".err", &headline);
  vr::stat("states");
  vr::stat("traces");
  vr::stat("transitions", (long long)total + 1);
  vr::stat("max_events_in_one_log", (long long)total);
  const std::string cls = history_class(h, registered, total);
  if (!died.empty()) {
    vr::stat("crashed_cases");
    vr::outcome("died:" + died);
    viol("saveLog/record|process died: " + died + "|" + cls, replay, "the recording process died: " + died + " :: " + headline);
    return;
  }
  std::string text, idtext;
  if (!c20::read_file(file, text)) {
    viol("saveLog|no file written|" + cls, replay, "no log file");
    return;
  }
  c20::read_file(file + ".ids", idtext);
  std::vector<std::string> ids;
  {
    std::stringstream ss(idtext);
    std::string line;
    while (std::getline(ss, line))
      ids.push_back(line);
  }
  ids.resize(T);
  vr::stat("max_log_bytes", (long long)text.size());

  // parse; group by tid
  std::map<long, std::string> tid_name;        // from thread_name metadata
  std::map<long, std::vector<OutEv>> by_tid;   // recorded-looking events
  long long builtin = 0, meta = 0, elements = 0;
  bool saw_process_name = false;
  std::string shape_err;
  JParser jp(text);
  bool ok = jp.top_array([&](const JV &v) {
    elements++;
    if (v.t != JV::OBJ) {
      if (shape_err.empty())
        shape_err = "array element " + std::to_string(elements - 1) + " is not an object";
      return;
    }
    const JV *ph = v.get("ph"), *tid = v.get("tid"), *name = v.get("name"), *cat = v.get("cat"), *args = v.get("args");
    if (!ph || ph->t != JV::STR || !tid || tid->t != JV::NUM || !name || name->t != JV::STR) {
      if (shape_err.empty())
        shape_err = "array element " + std::to_string(elements - 1) + " lacks a string ph / numeric tid / string name";
      return;
    }
    long t = atol(tid->s.c_str());
    if (ph->s == "M") {
      meta++;
      const JV *an = args && args->t == JV::OBJ ? args->get("name") : nullptr;
      if (name->s == "process_name")
        saw_process_name = true;
      else if (name->s == "thread_name" && an && an->t == JV::STR)
        tid_name[t] = an->s;
      return;
    }
    if (ph->s == "C" && name->s == "cpuUtilization" && cat && cat->t == JV::STR && cat->s == "builtin") {
      builtin++;  // counter the writer adds by itself
      return;
    }
    OutEv o;
    o.ph = ph->s;
    o.name = name->s;
    o.has_cat = cat && cat->t == JV::STR;
    if (o.has_cat)
      o.cat = cat->s;
    const JV *val = args && args->t == JV::OBJ ? args->get("value") : nullptr;
    o.has_value = val && val->t == JV::NUM;
    if (o.has_value)
      o.value = val->s;
    by_tid[t].push_back(o);
  });
  uint64_t oh = vr::fnv(ok ? "ok" : jp.err);
  oh = vr::fnv(&elements, sizeof elements, oh);
  if (vr::replaying()) {
    printf("log: %zu bytes, starts '%s'%s\n", text.size(), vr::clean(text.substr(0, 70)).c_str(), text.size() > 70 ? "..." : "");
    printf("strict JSON parse: %s ; %lld array elements (%lld metadata, %lld built-in counters)\n", ok ? "ok" : jp.err.c_str(), elements, meta, builtin);
  }
  if (!ok) {
    vr::outcome(oh);
    std::string shown = text.size() <= 60 ? text : text.substr(0, 30) + " ... " + text.substr(text.size() - 30);
    viol("saveLog|output is not a well-formed JSON array|" + cls, replay, jp.err + "; " + std::to_string(text.size()) + " bytes: '" + vr::clean(shown) + "'");
    return;
  }
  if (!shape_err.empty()) {
    vr::outcome(oh);
    viol("saveLog|array element is not an event object|" + cls, replay, shape_err);
    return;
  }
  // Map every recording thread to its output tid.  The log knows threads by std::thread::id: when a
  // later thread got the id of a finished one (sequential histories) the two are one thread as far
  // as the log is concerned, and the id must carry the concatenation of their events.
  bool bad = false;
  std::set<long> used;
  std::vector<std::vector<int>> groups;
  {
    std::map<std::string, size_t> by_id;
    for (int k = 0; k < T; k++) {
      std::string key = ids[k].empty() ? "#" + std::to_string(k) : ids[k];
      auto it = by_id.find(key);
      if (it == by_id.end()) {
        by_id[key] = groups.size();
        groups.push_back(std::vector<int>(1, k));
      } else
        groups[it->second].push_back(k);
    }
  }
  for (const std::vector<int> &g : groups) {
    const int k = g[0];
    const bool shared = g.size() > 1;
    if (shared)
      vr::stat("thread_id_reused_groups");
    std::vector<Ev> want;
    std::set<std::string> want_names;
    std::string members;
    for (int m : g) {
      want.insert(want.end(), evs[m].begin(), evs[m].end());
      want_names.insert(h.named ? "T" + std::to_string(m) : ids[m]);
      members += (members.empty() ? "" : "+") + std::to_string(m);
    }
    const std::string idcls = shared ? "|thread id reused by a later thread" : "";
    long tid = -1;
    int hits = 0;
    for (auto &kv : tid_name)
      if (want_names.count(kv.second)) {
        tid = kv.first;
        hits++;
      }
    if (vr::replaying())
      printf("thread %s (id '%s'): recorded %zu events; output tid %ld has %zu\n", members.c_str(), ids[k].c_str(), want.size(), tid,
          tid >= 0 ? by_tid[tid].size() : (size_t)0);
    if (hits == 0) {
      if (!want.empty()) {
        viol("saveLog|a recording thread is missing from the log|" + cls + idcls, replay,
            "thread " + members + " (id '" + ids[k] + "') recorded " + std::to_string(want.size()) + " events, no thread_name entry for it");
        bad = true;
      }
      continue;
    }
    if (hits > 1) {
      viol("saveLog|a thread appears under two ids|" + cls + idcls, replay, "thread " + members);
      bad = true;
      continue;
    }
    used.insert(tid);
    const std::vector<OutEv> &got = by_tid[tid];
    size_t n = std::min(got.size(), want.size()), i = 0;
    int depth = 0;
    for (; i < n; i++) {
      const Ev &e = want[i];
      const OutEv &o = got[i];
      const std::string wph(1, e.kind == 'M' ? 'i' : e.kind);
      bool same = o.ph == wph && o.name == (e.name ? e.name : "");
      if (same && e.cat)
        same = o.has_cat && o.cat == e.cat;
      if (same && e.kind == 'C')
        same = o.has_value && o.value == std::to_string(e.value);
      if (!same)
        break;
      if (o.ph == "B")
        depth++;
      if (o.ph == "E" && --depth < 0)
        break;
    }
    oh = vr::fnv(&i, sizeof i, oh);
    if (i < n || got.size() != want.size()) {
      std::string what = i < n ? "an event differs from what was recorded" : got.size() < want.size() ? "recorded events are missing" : "events that were not recorded";
      std::string det = "thread " + members + " of " + std::to_string(T) + ": recorded " + std::to_string(want.size()) + " events, log has " + std::to_string(got.size())
          + "; first difference at index " + std::to_string(i) + ": got " + (i < got.size() ? "'" + out_text(got[i]) + "'" : "<nothing>") + " want "
          + (i < want.size() ? "'" + ev_text(want[i]) + "'" : "<nothing>");
      viol(std::string("saveLog|") + what + "|" + pos_class(i) + idcls, replay, det);
      bad = true;
    }
  }
  for (auto &kv : by_tid)
    if (!used.count(kv.first) && !kv.second.empty()) {
      viol("saveLog|events under a thread id that no recording thread has|" + cls, replay, "tid " + std::to_string(kv.first) + " carries " + std::to_string(kv.second.size()) + " events");
      bad = true;
    }
  if (h.pname && !saw_process_name) {
    // not demanded by the statement; reported as a note only
    vr::stat("process_name_missing");
  }
  vr::outcome(oh);
  if (vr::replaying())
    printf("%s\n", bad ? "VIOLATION" : "ok: every recorded event of every thread is in the log, in order, properly nested");
  unlink(file.c_str());
  unlink((file + ".ids").c_str());
}

// ======================================================================== the declared space
static void all_words(int maxlen, std::vector<std::string> &out)
{
  std::string w;
  std::function<void(int)> rec = [&](int depth) {
    out.push_back(w.empty() ? "-" : w);
    if ((int)w.size() == maxlen)
      return;
    const char alpha[] = "BEMC";
    for (int a = 0; a < 4; a++) {
      if (alpha[a] == 'E' && depth == 0)
        continue;
      w.push_back(alpha[a]);
      rec(depth + (alpha[a] == 'B') - (alpha[a] == 'E'));
      w.pop_back();
    }
  };
  rec(0);
}

static const long LENS[6] = {0, 1, 8191, 8192, 8193, 16385};

static std::string g_part = "all";

static void build_cases(std::vector<History> &cases)
{
  const bool th = vr::thorough();
  const char apis[2] = {'L', 'G'};
  // (0) nothing was ever recorded
  for (int a = 0; a < 2; a++)
    for (int p = 0; p < 2; p++) {
      History h;
      h.api = apis[a];
      h.pname = p;
      h.named = false;
      cases.push_back(h);
    }
  // (1) short words: thread k of T records word (i + k*stride) mod N
  std::vector<std::string> words;
  all_words(th ? 6 : 5, words);
  const size_t N = words.size();
  size_t stride = 101;
  while (N % stride == 0)
    stride += 2;
  for (size_t i = 0; i < N && g_part != "long"; i++)
    for (int T = 1; T <= 8; T++) {
      if (!th && !(T == 1 || T == 2 || T == 8))
        continue;
      for (int a = 0; a < 2; a++)
        for (int p = 0; p < 2; p++)
          for (int nm = 0; nm < 2; nm++) {
            // quick, and thorough with 3 or more threads: thread naming alternates instead of being crossed
            if ((!th || T >= 3) && nm != (int)((i + a + p) & 1))
              continue;
            if (th && T >= 3 && p != (int)((i + a + T) & 1))  // thorough, 3 or more threads: processName alternates too
              continue;
            History h;
            h.api = apis[a];
            h.pname = p;
            h.named = nm;
            for (int k = 0; k < T; k++)
              h.specs.push_back(words[(i + k * stride) % N]);
            cases.push_back(h);
          }
    }
  // (1s) sequential threads: T threads run one after another, thread k records word (i + k*stride) mod Ns
  //      over all words of length <= 4 (thorough 5); plus pairs whose concatenation crosses a chunk edge
  {
    std::vector<std::string> sw;
    all_words(th ? 5 : 4, sw);
    const size_t Ns = sw.size();
    size_t st = 37;
    while (Ns % st == 0)
      st += 2;
    for (size_t i = 0; i < Ns && g_part != "long"; i++)
      for (int T = 2; T <= (th ? 4 : 3); T++)
        for (int a = 0; a < 2; a++)
          for (int nm = 0; nm < 2; nm++) {
            History h;
            h.seq = true;
            h.api = apis[a];
            h.pname = (i + T + a) & 1;
            h.named = nm;
            for (int k = 0; k < T; k++)
              h.specs.push_back(sw[(i + k * st) % Ns]);
            cases.push_back(h);
          }
    static const char *const EDGE[4][3] = {{"L8191.1.0", "L2.0.0", "BE"}, {"L8192.2.1", "M", "L8193.0.0"}, {"C", "L8192.0.0", "-"}, {"L8190.3.0", "BBEE", "MC"}};
    for (int e = 0; e < 4 && g_part != "short"; e++)
      for (int a = 0; a < 2; a++)
        for (int nm = 0; nm < 2; nm++) {
          History h;
          h.seq = true;
          h.api = apis[a];
          h.pname = (e + a) & 1;
          h.named = nm;
          for (int k = 0; k < 3; k++)
            h.specs.push_back(EDGE[e][k]);
          cases.push_back(h);
        }
  }
  // (2) chunk edges: periodic patterns of the lengths around the 8192-event chunk size
  for (int li = 0; li < 6 && g_part != "short"; li++)
    for (int d = 0; d <= 4; d++) {
      const int period = 2 * d + 2;
      for (int T = 1; T <= 8; T++) {
        if (!th && !(T == 1 || T == 2 || T == 8))
          continue;
        // every phase of the pattern against the chunk size for 1 and 2 threads (thorough), phase 0 otherwise
        const int leads = (th && T <= 2) ? period : 1;
        for (int o = 0; o < leads; o++)
          for (int a = 0; a < 2; a++)
            for (int p = 0; p < 2; p++)
              for (int nm = 0; nm < 2; nm++) {
                if ((!th || T >= 3) && nm != ((li + d + a + p) & 1))
                  continue;
                if ((th ? T >= 3 : T == 8) && p != ((li + d + a + T) & 1))  // many threads: processName alternates too
                  continue;
                History h;
                h.api = apis[a];
                h.pname = p;
                h.named = nm;
                for (int k = 0; k < T; k++) {
                  int dk = (d + k) % 5, pk = 2 * dk + 2;
                  char b[64];
                  snprintf(b, sizeof b, "L%ld.%d.%d", LENS[(li + k) % 6], dk, (o + k) % pk);
                  h.specs.push_back(b);
                }
                cases.push_back(h);
              }
      }
    }
}

int main(int argc, char **argv)
{
  vr::init(argc, argv);
  std::string dir = c20::make_dir();
  for (int i = 1; i + 1 < argc; i++)
    if (std::string(argv[i]) == "--part")
      g_part = argv[i + 1];
  if (vr::replaying()) {
    History h;
    if (!parse_history(vr::S().replay, h)) {
      printf("malformed replay string\n");
      c20::rm_dir(dir);
      return 2;
    }
    if (getenv("C20_BENCH")) {
      int n = atoi(getenv("C20_BENCH"));
      vr::S().replay.clear();
      double t0 = vr::now_s();
      for (int i = 0; i < n; i++)
        run_history(h, "bench", dir + "/replay.json");
      printf("%d runs: %.3f ms each\n", n, 1e3 * (vr::now_s() - t0) / n);
      c20::rm_dir(dir);
      return 0;
    }
    run_history(h, vr::S().replay, dir + "/replay.json");
    c20::rm_dir(dir);
    vr::flush();
    return vr::S().viols.empty() ? 0 : 1;
  }
  std::vector<History> cases;
  build_cases(cases);
  // a few cases written out: the first 2-thread history of each (API, kind of word) with some content
  std::set<size_t> sample_idx;
  {
    std::set<std::string> seen;
    for (size_t i = 0; i < cases.size(); i++) {
      const History &h = cases[i];
      if (h.specs.size() != 2 || h.specs[0].size() < 5 || h.specs[1].size() < 4)
        continue;
      std::string key = std::string(1, h.api) + (h.specs[0][0] == 'L' ? "L" : "w");
      if (h.specs[0][0] == 'L' && h.specs[0].compare(0, 3, "L81") != 0)
        continue;
      if (seen.insert(key).second)
        sample_idx.insert(i);
    }
  }
  const int nshards = 64;
  // long logs last: order is fixed, shard = index mod nshards
  vr::run_sharded(nshards, [&](int shard, long long resume_after) {
    std::string file = dir + "/trace-" + std::to_string(shard) + ".json";
    bool stopped = false;
    for (size_t i = shard; i < cases.size(); i += nshards) {
      if ((long long)i <= resume_after)
        continue;
      if (vr::deadline_passed()) {
        stopped = true;
        break;
      }
      std::string r = cases[i].text();
      vr::begin_case((long long)i, "trace history|harness parser", r);
      run_history(cases[i], r, file);
      if (sample_idx.count(i))
        vr::sample(r);
    }
    if (stopped)
      vr::capped("trace shard " + std::to_string(shard) + " stopped at the deadline");
  });
  c20::rm_dir(dir);
  vr::note("cases: " + std::to_string(cases.size()) + " histories; each runs in a forked child; thread 0 records on the child's main thread, the others on std::threads joined before saveLog");
  return vr::finish();
}
