// C09 shared pieces: violation helper, per-history error slot, partial-report flushing when a
// forked shard dies (so a crash loses exactly one history and not the shard's counts), heap
// balance, and the history text format.
#pragma once
#include "common/vreport.h"

#include <sanitizer/common_interface_defs.h>
#include <sanitizer/allocator_interface.h>
#include <sys/stat.h>
#include <dirent.h>
#include <string>
#include <vector>

namespace c09 {

// ---------------------------------------------------------------- one operation of a history
struct Op
{
  char kind[3];  // two-letter mnemonic
  int a, b;      // arguments (slot, slot/value/source state), -1 = unused
};

inline std::string op_text(const Op &o)
{
  std::string s = o.kind;
  if (o.a >= 0)
    s += "." + std::to_string(o.a);
  if (o.b >= 0)
    s += "." + std::to_string(o.b);
  return s;
}

inline std::string hist_text(const std::string &payload, const std::vector<Op> &h)
{
  std::string s = payload + ":";
  for (size_t i = 0; i < h.size(); i++)
    s += (i ? ";" : "") + op_text(h[i]);
  return s;
}

inline bool parse_hist(const std::string &r, std::string &payload, std::vector<Op> &h)
{
  size_t c = r.find(':');
  if (c == std::string::npos)
    return false;
  payload = r.substr(0, c);
  std::stringstream ss(r.substr(c + 1));
  std::string item;
  while (std::getline(ss, item, ';')) {
    if (item.size() < 2)
      return false;
    Op o;
    o.kind[0] = item[0];
    o.kind[1] = item[1];
    o.kind[2] = 0;
    o.a = o.b = -1;
    size_t p = 2;
    if (p < item.size() && item[p] == '.') {
      o.a = atoi(item.c_str() + p + 1);
      p = item.find('.', p + 1);
      if (p != std::string::npos)
        o.b = atoi(item.c_str() + p + 1);
    }
    h.push_back(o);
  }
  return true;
}

inline bool is(const Op &o, const char *k)
{
  return o.kind[0] == k[0] && o.kind[1] == k[1];
}

inline Op mk(const char *k, int a = -1, int b = -1)
{
  Op o;
  o.kind[0] = k[0];
  o.kind[1] = k[1];
  o.kind[2] = 0;
  o.a = a;
  o.b = b;
  return o;
}

// ---------------------------------------------------------------- per-history failure slot
// The first failure of the history being executed.  A failed history is a leaf: it is not
// extended and its objects are abandoned (not destroyed), so one defect yields one signature.
struct Fail
{
  bool set = false;
  char what[200];
  char detail[400];
};
inline Fail &fail()
{
  static Fail f;
  return f;
}
inline void fail_reset()
{
  fail().set = false;
}
inline void fail_set(const char *what, const std::string &detail)
{
  Fail &f = fail();
  if (f.set)
    return;
  f.set = true;
  snprintf(f.what, sizeof f.what, "%s", what);
  snprintf(f.detail, sizeof f.detail, "%s", detail.c_str());
}

inline void report(const std::string &sig, const std::string &replay, const std::string &detail)
{
  vr::violation(sig, replay, detail);
  if (vr::replaying())
    printf("VIOLATED %s :: %s\n", sig.c_str(), detail.c_str());
}

// ---------------------------------------------------------------- cheap per-shard counters
struct Counters
{
  long long states = 0, transitions = 0, violating = 0, len[8] = {0, 0, 0, 0, 0, 0, 0, 0};
};
inline Counters &counters()
{
  static Counters c;
  return c;
}
inline void counters_flush()
{
  Counters &c = counters();
  if (c.states) {
    vr::stat("states", c.states);
    vr::stat("traces", c.states);
    vr::stat("transitions", c.transitions);
  }
  if (c.violating)
    vr::stat("violating_histories", c.violating);
  for (int i = 0; i < 8; i++)
    if (c.len[i])
      vr::stat("histories_len" + std::to_string(i), c.len[i]);
  c = Counters();
}

// ---------------------------------------------------------------- partial reports of dying shards
// vr::run_sharded merges a child's report only when the child ends normally.  A sanitizer abort
// goes through the sanitizer's Die(), which calls this callback first: the child's counts,
// outcomes and violations so far are written to a file the parent merges afterwards.
inline std::string &partial_dir()
{
  static std::string d;
  return d;
}
inline int &partial_shard()
{
  static int s = -1;
  return s;
}
inline long long &partial_resume()
{
  static long long r = -1;
  return r;
}
inline void write_partial()
{
  if (partial_dir().empty() || partial_shard() < 0)
    return;
  char p[256];
  // unique per (shard, restart): the resume index strictly increases with every restart (pids can repeat)
  snprintf(p, sizeof p, "%s/part-%d-%lld", partial_dir().c_str(), partial_shard(), partial_resume());
  FILE *f = fopen(p, "w");
  if (!f)
    return;
  counters_flush();
  for (auto h : vr::S().outcomes)
    fprintf(f, "@OUT %llx\n", (unsigned long long)h);
  for (auto &kv : vr::S().stats)
    fprintf(f, "@STAT %s %lld\n", kv.first.c_str(), kv.second);
  for (auto &s : vr::S().samples)
    fprintf(f, "@SAMPLE %s\n", s.c_str());
  for (auto &kv : vr::S().viols) {
    // one line per occurrence so the parent's counts stay right
    long long n = vr::S().viol_counts[kv.first];
    for (long long i = 0; i < n && i < 100000; i++)
      fprintf(f, "@VIOL %s\t%s\t%s\n", vr::clean(kv.first).c_str(), kv.second.first.c_str(), kv.second.second.c_str());
  }
  fclose(f);
}
inline void on_sigabrt(int)
{
  write_partial();
  _exit(88);
}
// parent, before run_sharded
inline void partial_setup()
{
  char d[128];
  snprintf(d, sizeof d, "/dev/shm/verif-%d", (int)getpid());
  mkdir(d, 0700);
  partial_dir() = d;
  __sanitizer_set_death_callback(write_partial);
  signal(SIGABRT, on_sigabrt);  // std::terminate / glibc abort do not go through Die()
}
// child, first thing in a shard body
inline void partial_enter(int shard, long long resume_after)
{
  partial_shard() = shard;
  partial_resume() = resume_after;
}
// parent, after run_sharded
inline void partial_merge()
{
  if (partial_dir().empty())
    return;
  DIR *d = opendir(partial_dir().c_str());
  if (d) {
    while (struct dirent *e = readdir(d)) {
      if (strncmp(e->d_name, "part-", 5) != 0)
        continue;
      std::string p = partial_dir() + "/" + e->d_name, buf;
      FILE *f = fopen(p.c_str(), "r");
      if (f) {
        char b[65536];
        size_t k;
        while ((k = fread(b, 1, sizeof b, f)) > 0)
          buf.append(b, k);
        fclose(f);
      }
      vr::merge_child_output(buf);
      unlink(p.c_str());
    }
    closedir(d);
  }
}
inline void partial_cleanup()
{
  if (!partial_dir().empty())
    rmdir(partial_dir().c_str());
}

// Exploration runs with symbolize=0 (a symbolised report costs ~200 ms per crashed history); a
// replay wants the symbolised report, so it re-executes itself once with symbolize=1.
inline void reexec_symbolized(char **argv)
{
  if (getenv("C09_REEXEC"))
    return;
  const char *a = getenv("ASAN_OPTIONS");
  std::string o = a ? a : "";
  size_t p = o.find("symbolize=0");
  if (p == std::string::npos)
    return;
  o.replace(p, 11, "symbolize=1");
  setenv("ASAN_OPTIONS", o.c_str(), 1);
  setenv("C09_REEXEC", "1", 1);
  execv("/proc/self/exe", argv);
}

// Two-level sharding: vr::run_sharded handles a dead child (waitpid, read the report, fork the
// restart) serially in the parent, ~3 ms per crashed history.  With tens of thousands of
// crashing histories that serial part dominates, so 16 supervisor processes (which never touch
// rkcommon and never die) each run vr::run_sharded over their share of the shards.
inline void run_sharded_2level(int n, const std::function<void(int, long long)> &body, int nsuper = 16)
{
  if (n <= 0)
    return;
  if (nsuper > n)
    nsuper = n;
  vr::run_sharded(nsuper, [&](int sup, long long) {
    std::vector<int> mine;
    for (int i = sup; i < n; i += nsuper)
      mine.push_back(i);
    vr::run_sharded((int)mine.size(), [&](int k, long long resume_after) { body(mine[k], resume_after); }, 1);
  }, nsuper);
}

inline size_t heap_now()
{
  return __sanitizer_get_current_allocated_bytes();
}

}  // namespace c09
