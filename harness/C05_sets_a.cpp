// C05 sets: instantiations (split over several translation units so that they compile in parallel)
#include "C05_sets.h"
void run_range1i(const std::string &n, int K, const std::string &k, const std::string &a, const std::string &b)
{
  run_cfg<int>(n, K, k, a, b);
}
void run_range1f(const std::string &n, int K, const std::string &k, const std::string &a, const std::string &b)
{
  run_cfg<float>(n, K, k, a, b);
}
void run_range1d(const std::string &n, int K, const std::string &k, const std::string &a, const std::string &b)
{
  run_cfg<double>(n, K, k, a, b);
}
void run_box2i(const std::string &n, int K, const std::string &k, const std::string &a, const std::string &b)
{
  run_cfg<vec2i>(n, K, k, a, b);
}
void run_box2f(const std::string &n, int K, const std::string &k, const std::string &a, const std::string &b)
{
  run_cfg<vec2f>(n, K, k, a, b);
}
void run_box2d(const std::string &n, int K, const std::string &k, const std::string &a, const std::string &b)
{
  run_cfg<vec2d>(n, K, k, a, b);
}
void run_box4i(const std::string &n, int K, const std::string &k, const std::string &a, const std::string &b)
{
  run_cfg<vec4i>(n, K, k, a, b);
}
