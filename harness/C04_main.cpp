// C04: every vec_t operator is the component-wise lifting of its scalar definition.
// Engine gridmc.  Items (family x element type(s) x shape(s)) are registered by the translation
// units C04_t_<group>_<type>.cpp; every item enumerates all |A|^K operand tuples.
// Replay syntax:  <item name>@<alphabet size>#<tuple index>
#include "C04_core.h"

#include <algorithm>

using namespace c04;

#define X(T_, n_)                  \
  void c04_reg_basic_##n_(Reg &);  \
  void c04_reg_bin_##n_(Reg &);    \
  void c04_reg_mix_##n_(Reg &);    \
  void c04_reg_cmp_##n_(Reg &);    \
  void c04_reg_conv_##n_(Reg &);
C04_FOR_TYPES(X)
#undef X

struct Chunk
{
  int item;
  uint64_t lo, hi;
};

static void run_chunk(const Item &it, int A, uint64_t lo, uint64_t hi, bool verbose)
{
  Ctx c;
  c.A = A;
  c.set = it.set;
  c.verbose = verbose;
  c.item = it.name;
  it.run(c, lo, hi);
  vr::stat("states", c.states);
  vr::stat("traces", c.states);
  vr::stat("transitions", c.trans);
  vr::stat("excluded_parts", c.excluded);
  const uint64_t hn = vr::fnv(it.name);
  for (uint64_t h : c.outs)
    vr::outcome(h ^ hn);
}

int main(int argc, char **argv)
{
  vr::init(argc, argv);
  install_fpe_handler();
  Reg reg;
#define X(T_, n_)           \
  c04_reg_basic_##n_(reg);  \
  c04_reg_bin_##n_(reg);    \
  c04_reg_mix_##n_(reg);    \
  c04_reg_cmp_##n_(reg);    \
  c04_reg_conv_##n_(reg);
  C04_FOR_TYPES(X)
#undef X
  std::string only;  // --items PREFIX: restrict to items whose name starts with PREFIX (debugging aid)
  for (int i = 1; i + 1 < argc; i++)
    if (std::string(argv[i]) == "--items")
      only = argv[i + 1];

  if (vr::replaying()) {
    const std::string r = vr::S().replay;
    size_t at = r.rfind('@'), hs = r.rfind('#');
    if (at == std::string::npos || hs == std::string::npos || hs < at) {
      printf("bad replay string '%s' (want <item>@<A>#<index>)\n", r.c_str());
      return 2;
    }
    const std::string name = r.substr(0, at);
    const int A = atoi(r.substr(at + 1, hs - at - 1).c_str());
    const uint64_t idx = strtoull(r.c_str() + hs + 1, nullptr, 10);
    for (auto &it : reg)
      if (it.name == name) {
        if (A < 1 || A > 6 || idx >= ipow(A, it.K)) {
          printf("replay index out of range\n");
          return 2;
        }
        printf("replay %s: alphabet size %d, set %s, tuple %llu of %llu\n", name.c_str(), A, it.set ? "extremes" : "arithmetic",
            (unsigned long long)idx, (unsigned long long)ipow(A, it.K));
        run_chunk(it, A, idx, idx + 1, true);
        vr::flush();
        return vr::S().viols.empty() ? 0 : 1;
      }
    printf("no item named '%s'\n", name.c_str());
    return 2;
  }

  const int A = vr::thorough() ? 6 : 4;
  std::vector<Chunk> chunks;
  const uint64_t CH = 1u << 17;
  long long nitems = 0;
  for (size_t i = 0; i < reg.size(); i++) {
    if (!only.empty() && reg[i].name.compare(0, only.size(), only) != 0)
      continue;
    nitems++;
    const uint64_t n = ipow(A, reg[i].K);
    for (uint64_t lo = 0; lo < n; lo += CH)
      chunks.push_back(Chunk{(int)i, lo, std::min(n, lo + CH)});
  }
  // big chunks first, dealt round-robin over the shards
  std::stable_sort(chunks.begin(), chunks.end(), [](const Chunk &a, const Chunk &b) { return a.hi - a.lo > b.hi - b.lo; });
  const int NS = 64;
  vr::run_sharded(NS, [&](int shard, long long resume_after) {
    bool capped = false;
    for (size_t k = shard; k < chunks.size(); k += NS) {
      if ((long long)k <= resume_after)
        continue;
      if (vr::deadline_passed()) {
        if (!capped)
          vr::capped("shard " + std::to_string(shard) + ": deadline reached before chunk " + std::to_string(k) + " of " + std::to_string(chunks.size()));
        capped = true;
        break;
      }
      const Item &it = reg[chunks[k].item];
      vr::begin_case((long long)k, it.name + "|crash inside a chunk of tuples",
          it.name + "@" + std::to_string(A) + "#" + std::to_string(chunks[k].lo));
      run_chunk(it, A, chunks[k].lo, chunks[k].hi, false);
    }
  });
  vr::stat("items", nitems);
  vr::stat("chunks", (long long)chunks.size());
  vr::sample("alphabets (first " + std::to_string(A) + " letters): signed {0,1,-2,3,7,-5} / ext {min,-1,0,max,1,min+1}; unsigned {0,1,max,3,2,max-4} / ext {0,max,1,max-1,max/2,max/2+1}; float {0,1,-2,0.5,3,-inf} / ext {-inf,-1,0,inf,MAX,-MIN}");
  for (size_t i = 0; i < reg.size(); i += std::max<size_t>(1, reg.size() / 9))
    vr::sample("item " + reg[i].name + ": all " + std::to_string(A) + "^" + std::to_string(reg[i].K) + " operand tuples");
  return vr::finish();
}
