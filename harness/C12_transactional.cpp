// C12: cross-thread hand-off containers lose, duplicate and race on nothing.
// Engine mcsched: every schedule of producers vs. consumer up to a deviation bound; the
// happens-before race detector of the engine decides "no C++ data race".
#include "mcsched/mcsched.h"

#include "rkcommon/containers/TransactionalBuffer.h"
#include "rkcommon/utility/TransactionalValue.h"

#include <string>
#include <thread>
#include <vector>

using rkcommon::containers::TransactionalBuffer;
using rkcommon::utility::TransactionalValue;

template <typename T>
struct Make;
template <>
struct Make<int>
{
  static int v(int producer, int k) { return producer * 10 + k; }
  static int id(int x) { return x; }
};
template <>
struct Make<std::string>
{
  // heap-owning values (longer than the small-string buffer)
  static std::string v(int producer, int k) { return std::string(24, 'a' + producer) + std::to_string(producer * 10 + k); }
  static int id(const std::string &s) { return atoi(s.c_str() + 24); }
};

template <typename T, int P, int K>
static void buffer_scenario()
{
  TransactionalBuffer<T> buf;
  // harness-side bookkeeping for the linearizability interval of size()/empty():
  // started counts push_back calls that may already have taken effect, done those that certainly have
  std::atomic<int> started(0), done(0);
  std::vector<std::thread> th;
  for (int p = 0; p < P; p++)
    th.emplace_back([&buf, &started, &done, p]() {
      for (int k = 0; k < K; k++) {
        started.fetch_add(1);
        if (k & 1) {
          T v = Make<T>::v(p, k);
          buf.push_back(v);  // const& overload
        } else
          buf.push_back(Make<T>::v(p, k));  // && overload
        done.fetch_add(1);
      }
    });
  std::vector<T> b1 = buf.consume();
  int lo = done.load();
  size_t s = buf.size();
  int hi = started.load();
  int lo2 = done.load();
  bool e = buf.empty();
  int hi2 = started.load();
  std::vector<T> b2 = buf.consume();
  for (auto &t : th)
    t.join();
  // quiescent: size()/empty() must be exact
  size_t s3 = buf.size();
  bool e3 = buf.empty();
  std::vector<T> b3 = buf.consume();
  MC_CHECK(s3 == b3.size() && e3 == b3.empty(), "TransactionalBuffer|size()/empty() disagree with the content while no producer is running",
      ("size " + std::to_string(s3) + " empty " + std::to_string(e3) + " consumed " + std::to_string(b3.size())).c_str());
  MC_CHECK(buf.empty() && buf.size() == 0, "TransactionalBuffer|not empty after the final consume", "size()/empty() after consuming everything");
  // every push that had returned before size() was called is counted, none that had not yet begun after it returned
  MC_CHECK((long)s >= (long)lo - (long)b1.size() && (long)s <= (long)hi - (long)b1.size(), "TransactionalBuffer|size() outside the interval allowed by the pushes around the call",
      ("size " + std::to_string(s) + " completed-before " + std::to_string(lo) + " started-after " + std::to_string(hi) + " consumed " + std::to_string(b1.size())).c_str());
  MC_CHECK(!(e && lo2 - (int)b1.size() > 0) && !(!e && hi2 - (int)b1.size() <= 0), "TransactionalBuffer|empty() contradicts the pushes around the call",
      ("empty " + std::to_string(e) + " completed-before " + std::to_string(lo2) + " started-after " + std::to_string(hi2)).c_str());
  // oracle: union of batches == everything pushed, once each, per-producer order kept
  std::vector<int> all;
  for (auto &x : b1)
    all.push_back(Make<T>::id(x));
  for (auto &x : b2)
    all.push_back(Make<T>::id(x));
  for (auto &x : b3)
    all.push_back(Make<T>::id(x));
  std::string obs = "b" + std::to_string(b1.size()) + "," + std::to_string(b2.size()) + "," + std::to_string(b3.size()) + " s" + std::to_string(s) + (e ? " e" : " n");
  MC_CHECK((int)all.size() == P * K, "TransactionalBuffer|element lost or duplicated", obs.c_str());
  std::vector<int> next(P, 0);
  for (int id : all) {
    int p = id / 10, k = id % 10;
    MC_CHECK(p >= 0 && p < P && k == next[p], "TransactionalBuffer|element lost, duplicated or out of producer order", obs.c_str());
    next[p]++;
  }
  // size()/empty() are linearizable: between two consumes the buffer only grows
  MC_CHECK(s <= b2.size(), "TransactionalBuffer|size() larger than what could be consumed next", obs.c_str());
  MC_CHECK(!e || s == 0, "TransactionalBuffer|empty() after size() saw elements", obs.c_str());
  MC_CHECK(e || b2.size() >= 1, "TransactionalBuffer|not empty() but nothing to consume", obs.c_str());
  std::string order;
  for (int id : all)
    order += std::to_string(id) + ".";
  mc_eventf(obs + " " + order);
}

template <typename T>
struct Val;
template <>
struct Val<int>
{
  static int v(int k) { return k; }
  static int id(int x) { return x; }
};
template <>
struct Val<std::string>
{
  static std::string v(int k) { return std::string(24, 'v') + std::to_string(k); }
  static int id(const std::string &s) { return s.size() < 25 ? -1 : atoi(s.c_str() + 24); }
};

template <typename T, int N>
static void value_scenario()
{
  TransactionalValue<T> tv(Val<T>::v(0));
  std::thread prod([&tv]() {
    for (int k = 1; k <= N; k++)
      tv = Val<T>::v(k);
  });
  int prev = Val<T>::id(tv.get());
  MC_CHECK(prev == 0, "TransactionalValue|initial value wrong", "get() before any update");
  std::string obs;
  for (int i = 0; i < 3; i++) {
    bool u = tv.update();
    int cur = Val<T>::id(tv.get());
    obs += (u ? "U" : "-") + std::to_string(cur);
    MC_CHECK(cur >= 0 && cur <= N, "TransactionalValue|saw a value that was never assigned", obs.c_str());
    MC_CHECK(cur >= prev, "TransactionalValue|values seen out of assignment order", obs.c_str());
    MC_CHECK(u == (cur != prev), "TransactionalValue|update() result does not match whether a newer value was installed", obs.c_str());
    prev = cur;
  }
  prod.join();
  bool u = tv.update();
  int cur = Val<T>::id(tv.get());
  obs += (u ? " U" : " -") + std::to_string(cur);
  MC_CHECK(cur == N, "TransactionalValue|last assigned value not obtained after the producer stopped", obs.c_str());
  MC_CHECK(u == (cur != prev), "TransactionalValue|update() result does not match whether a newer value was installed", obs.c_str());
  MC_CHECK(!tv.update(), "TransactionalValue|update() true with nothing new", obs.c_str());
  mc_eventf(obs);
}

MC_SCENARIO(buf_int_p1, 7, 10) { buffer_scenario<int, 1, 2>(); }
MC_SCENARIO(buf_int_p2, 4, 6) { buffer_scenario<int, 2, 2>(); }
MC_SCENARIO(buf_int_p3, 3, 4) { buffer_scenario<int, 3, 2>(); }
MC_SCENARIO(buf_str_p2, 4, 5) { buffer_scenario<std::string, 2, 2>(); }
MC_SCENARIO(buf_str_p1k3, 6, 8) { buffer_scenario<std::string, 1, 3>(); }
MC_SCENARIO(val_int, 7, 10) { value_scenario<int, 2>(); }
MC_SCENARIO(val_str, 7, 9) { value_scenario<std::string, 2>(); }
MC_SCENARIO(val_int_n3, 6, 9) { value_scenario<int, 3>(); }
