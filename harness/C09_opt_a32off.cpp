// C09: Optional explorer instantiated for one over-aligned payload / layout (own translation unit).
#include "C09_optexplore.h"
namespace c09 {
PayloadEntry entry_a32off()
{
  return Explorer<PAligned<32>, 1>::entry("Align32@off");  // must equal Explorer::pname()
}
}  // namespace c09
