// C05 sets: instantiations (split over several translation units so that they compile in parallel)
#include "C05_sets.h"
void run_box3i(const std::string &n, int K, const std::string &k, const std::string &a, const std::string &b)
{
  run_cfg<vec3i>(n, K, k, a, b);
}
void run_box3d(const std::string &n, int K, const std::string &k, const std::string &a, const std::string &b)
{
  run_cfg<vec3d>(n, K, k, a, b);
}
