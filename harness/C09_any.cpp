// C09 (Any part): every operation history of bounded depth over three rkcommon::utility::Any
// slots holding int / std::string / Tracked, against a {type tag, value} model under ASan+UBSan.
// Engine seqmc.  Replay syntax:  any:<op>;<op>;...   (alphabet in C09_anymodel.h)
#include "C09_anyexec.h"
#include <map>
#include "C09_optexplore.h"  // pw(), RADIX

using namespace c09;

Result AnyRunner::run(const std::vector<Op> &hist, bool verb)
{
  Result r;
  char cls[160] = "";
  verbose = verb;
  digest = 1469598103934665603ull;
  fail_reset();
  reg().clear();
  m = AModel();
  h[0] = h[1] = h[2] = nullptr;
  const size_t heap0 = heap_now();
  for (size_t n = 0; n < hist.size(); n++) {
    const Op &o = hist[n];
    snprintf(cls, sizeof cls, "%s", any_op_class(m, o).c_str());
    if (verbose)
      printf("  %-8s %s\n", op_text(o).c_str(), cls);
    try {
      apply(o);
    } catch (...) {
      fail_set("unexpected exception", "");
    }
    r.ops++;
    any_model_apply(m, o);
    // The complete probe (valid/is<T>/get<T> const and non-const for four types on every slot)
    // runs after the history's last operation.  Every proper prefix is itself an enumerated
    // history and was probed completely at its own end (failed histories are never extended).
    if (!fail().set && (n + 1 == hist.size() || verbose))
      check_all();
    if (fail().set)
      break;
  }
  if (!fail().set) {
    for (int i = 0; i < 3; i++)
      if (h[i]) {
        h[i]->~Any();
        free(h[i]);
        h[i] = nullptr;
      }
    if (reg().n > 0)
      fail_set("lifetime|payload objects still alive after every wrapper was destroyed", std::to_string(reg().n) + " alive");
    else if (reg().constructed != reg().destroyed)
      fail_set("lifetime|constructions and destructions do not balance", "");
    else if (heap_now() != heap0)
      fail_set("heap|bytes still allocated after every wrapper was destroyed", std::to_string((long long)heap_now() - (long long)heap0) + " bytes");
    if (fail().set)
      snprintf(cls, sizeof cls, "%s", ("teardown after " + std::string(cls)).c_str());
  }
  r.digest = digest;
  if (fail().set) {
    r.failed = true;
    r.sig = std::string("Any|") + cls + "|" + fail().what;
    r.detail = fail().detail;
  }
  return r;
}

struct AnyExplorer
{
  AnyRunner R;
  int depth = 0;
  long long resume = -1;
  std::vector<Op> hist;
  std::set<unsigned> sampled;
  bool stop = false;
  long long since_poll = 0;
  int root_only = -1;
  const std::vector<std::pair<std::vector<Op>, long long>> *pre = nullptr;
  char *okflags = nullptr;

  void mark_sound(long long idx)
  {
    for (size_t i = 0; i < pre->size(); i++)
      if ((*pre)[i].second == idx)
        okflags[i] = 1;
  }

  bool exec_case(long long idx, const AModel &before)
  {
    const Op &last = hist.back();
    std::string replay = hist_text("any", hist);
    vr::begin_case(idx, "Any|" + any_op_class(before, last), replay);
    Result r = R.run(hist, false);
    if (true) {
      Counters &c = counters();
      c.states++;
      c.transitions += r.ops;
      c.len[hist.size() < 8 ? hist.size() : 7]++;
      vr::outcome(vr::fnv(last.kind, 2, r.digest));
      unsigned key = (unsigned)(last.kind[0] * 256 + last.kind[1]) * 2 + (r.failed ? 1 : 0);
      if (sampled.insert(key).second)
        vr::sample(replay + (r.failed ? "  -> VIOLATION" : "  -> as the model"), std::string("any") + last.kind + (r.failed ? "!" : ""));
      if (r.failed) {
        c.violating++;
        report(r.sig, replay, r.detail + " [history " + replay + "]");
      }
    }
    return !r.failed;
  }

  void dfs(const AModel &m, int level, long long base)
  {
    if (level >= depth)
      return;
    std::vector<Op> ops;
    any_enabled(m, true, ops);
    const long long w = pw(level + 1);
    for (size_t c = 0; c < ops.size(); c++) {
      const long long idx = base + (long long)(c + 1) * w;
      if (level == 0 && root_only >= 0 && (int)c != root_only)
        continue;
      if (resume >= idx + w)
        continue;
      if (stop)
        return;
      if (++since_poll >= 2048) {
        since_poll = 0;
        if (vr::deadline_passed()) {
          stop = true;
          vr::capped(std::string("any") + ": deadline passed inside a shard, remaining histories of the shard not explored");
          return;
        }
      }
      hist.push_back(ops[c]);
      bool ok = resume >= idx ? resume != idx : exec_case(idx, m);
      if (ok && !any_observer(ops[c]) && okflags && level + 1 == depth)
        mark_sound(idx);
      if (ok && !any_observer(ops[c])) {
        AModel m2 = m;
        any_model_apply(m2, ops[c]);
        dfs(m2, level + 1, idx);
      }
      hist.pop_back();
    }
  }

  void prefixes(const AModel &m, int level, long long base, int len, std::vector<std::pair<std::vector<Op>, long long>> &out)
  {
    if (level == len) {
      out.push_back(std::make_pair(hist, base));
      return;
    }
    std::vector<Op> ops;
    any_enabled(m, true, ops);
    for (size_t c = 0; c < ops.size(); c++) {
      if (any_observer(ops[c]))
        continue;
      AModel m2 = m;
      any_model_apply(m2, ops[c]);
      hist.push_back(ops[c]);
      prefixes(m2, level + 1, base + (long long)(c + 1) * pw(level + 1), len, out);
      hist.pop_back();
    }
  }
};

static void explore(int depth, int ls)
{
  std::vector<std::pair<std::vector<Op>, long long>> pre;
  std::vector<Op> first;
  {
    AnyExplorer e;
    e.prefixes(AModel(), 0, 0, ls, pre);
    any_enabled(AModel(), true, first);
  }
  char *okflags = (char *)mmap(nullptr, pre.size() + 1, PROT_READ | PROT_WRITE, MAP_SHARED | MAP_ANONYMOUS, -1, 0);
  memset(okflags, 0, pre.size() + 1);
  run_sharded_2level((int)first.size(), [&](int shard, long long resume_after) {
    partial_enter(shard, resume_after);
    AnyExplorer e;
    e.resume = resume_after;
    e.depth = ls;
    e.root_only = shard;
    e.pre = &pre;
    e.okflags = okflags;
    e.dfs(AModel(), 0, 0);
    counters_flush();
  });
  std::vector<int> sound;
  for (size_t i = 0; i < pre.size(); i++)
    if (okflags[i])
      sound.push_back((int)i);
  vr::stat("shards", (long long)(first.size() + sound.size()));
  vr::stat("prefixes_sound", (long long)sound.size());
  vr::stat("prefixes_pruned", (long long)(pre.size() - sound.size()));
  run_sharded_2level((int)sound.size(), [&](int shard, long long resume_after) {
    partial_enter(1000 + shard, resume_after);
    if (vr::deadline_passed()) {
      vr::capped("any: deadline passed before prefix shard " + std::to_string(shard));
      return;
    }
    AnyExplorer e;
    e.resume = resume_after;
    e.depth = depth;
    e.hist = pre[sound[shard]].first;
    AModel m;
    for (auto &o : e.hist)
      any_model_apply(m, o);
    e.dfs(m, ls, pre[sound[shard]].second);
    counters_flush();
  });
}

// payloads whose type name is long (190 characters demangled): printing and the wrong-type message build that name
typedef std::map<std::string, std::vector<std::string>> LongNamed;
static const int NLONG = 4;
static int longname_case(int k)
{
  std::string what, bad;
  LongNamed v;
  v["k"].push_back("x");
  try {
    switch (k) {
    case 0: { what = "toString() of an Any holding map<string,vector<string>>"; Any a(v); std::string s = a.toString(); if (s.empty()) bad = "empty text"; break; }
    case 1: { what = "get<int>() on an Any holding map<string,vector<string>>"; Any a(v); bool threw = false; try { (void)a.get<int>(); } catch (const std::runtime_error &) { threw = true; } if (!threw) bad = "did not throw std::runtime_error"; break; }
    case 2: { what = "get<map<string,vector<string>>>() on an Any holding int"; Any a(5); bool threw = false; try { (void)a.get<LongNamed>(); } catch (const std::runtime_error &) { threw = true; } if (!threw) bad = "did not throw std::runtime_error"; break; }
    default: { what = "get<T>(), copy, ==, toString() twice on map<string,vector<string>>"; Any a(v), b(a); if (!(a == b) || a != b) bad = "a copy compares unequal"; if (a.get<LongNamed>() != v) bad = "stored value differs"; (void)a.toString(); (void)b.toString(); break; }
    }
  } catch (const std::exception &e) {
    bad = std::string("unexpected exception: ") + e.what();
  }
  vr::stat("states");
  vr::stat("traces");
  vr::stat("transitions");
  vr::outcome("longname:" + std::to_string(k) + ":" + bad);
  if (vr::replaying())
    printf("%s: %s\n", what.c_str(), bad.empty() ? "ok" : bad.c_str());
  if (!bad.empty()) {
    report("Any|payload with a long type name|" + bad.substr(0, bad.find(':')), "longname:" + std::to_string(k), what + ": " + bad);
    return 1;
  }
  return 0;
}
static void longname_all()
{
  vr::run_sharded(1, [&](int, long long resume_after) {
    partial_enter(3000000, resume_after);
    for (int k = 0; k < NLONG; k++) {
      if (k <= resume_after)
        continue;
      vr::begin_case(k, "Any|payload with a long type name", "longname:" + std::to_string(k));
      longname_case(k);
    }
  });
}

int main(int argc, char **argv)
{
  vr::init(argc, argv);
  int depth = vr::thorough() ? 5 : 4;
  for (int i = 1; i < argc; i++)
    if (!strcmp(argv[i], "--depth") && i + 1 < argc)
      depth = atoi(argv[++i]);
  if (vr::replaying()) {
    reexec_symbolized(argv);
    if (vr::S().replay.compare(0, 9, "longname:") == 0) {
      int rc = longname_case(atoi(vr::S().replay.c_str() + 9));
      vr::flush();
      fflush(stdout);
      _exit(rc);
    }
    std::string payload;
    std::vector<Op> h;
    if (!parse_hist(vr::S().replay, payload, h) || payload != "any") {
      printf("cannot parse replay '%s'\n", vr::S().replay.c_str());
      return 2;
    }
    AModel m;
    for (auto &o : h) {
      if (!any_op_enabled(m, o)) {
        printf("operation %s is not applicable in this state\n", op_text(o).c_str());
        return 2;
      }
      any_model_apply(m, o);
    }
    printf("replaying on rkcommon::utility::Any:\n");
    fflush(stdout);
    AnyRunner R;
    Result r = R.run(h, true);
    if (r.failed)
      report(r.sig, vr::S().replay, r.detail);
    else
      printf("history behaves as the model (got == want after every operation)\n");
    vr::flush();
    fflush(stdout);
    _exit(r.failed ? 1 : 0);
  }
  partial_setup();
  longname_all();
  explore(depth, depth >= 5 ? 3 : 2);
  partial_merge();
  partial_cleanup();
  return vr::finish();
}
