// C05 (part 3): the interval returned by intersectRayBox covers exactly the ray parameters whose points lie inside the
// box (within rounding).
// Engine gridmc.  Origins: ALL points of a grid; directions: ALL non-zero vectors over {-1,-1/2,0,1/2,1}^N; boxes: ALL
// non-empty (lower <= upper) boxes over the grid (flat ones included); tRange: the default argument and explicit ranges.
// Two independent oracles, both exact (every input is a small dyadic rational, every quotient is by +-1/2 or +-1, so
// double arithmetic is exact rational arithmetic here):
//  (1) the slab interval: per axis [(lo-o)/d, (hi-o)/d] (sorted) for d != 0; for d == 0 no constraint if the origin
//      coordinate is inside the slab, empty otherwise; intersected over the axes and with tRange.  The result must agree
//      with it within relative tolerance 2^-18 (float: intersectRayBox multiplies by the approximate rcp) / 2^-45 (double).
//      A ray PARALLEL to an axis whose origin coordinate lies EXACTLY on that slab's lower or upper plane is a tie that
//      rounding decides (recorded decision: rcp_safe(+-0) may have either sign): for such rays the result only has to lie
//      between the interval that counts the tie as outside and the one that counts it as inside.
//  (2) point membership: for t = k/4 the point o + t*d (exact) strictly inside the box and t strictly inside tRange
//      => t is covered; point strictly outside the box or t strictly outside tRange => t is not covered.
#include "C05_common.h"

#include "rkcommon/math/box.h"

#include <array>
#include <cmath>

using namespace rkcommon;
using namespace rkcommon::math;
using c05::Counters;
using c05::num;

template <int N>
struct Space
{
  std::vector<double> gv, dv;
  std::vector<std::array<double, 3>> O, D;
  struct Bx
  {
    double lo[3], hi[3];
  };
  std::vector<Bx> B;
  void build(const std::vector<double> &og, const std::vector<double> &bg, const std::vector<double> &dg)
  {
    gv = bg;
    dv = dg;
    auto all = [](const std::vector<double> &g, std::vector<std::array<double, 3>> &out, bool skipzero) {
      int n = 1;
      for (int i = 0; i < N; i++)
        n *= (int)g.size();
      for (int c = 0; c < n; c++) {
        std::array<double, 3> v = {{0, 0, 0}};
        int r = c;
        bool nz = false;
        for (int i = 0; i < N; i++) {
          v[i] = g[r % g.size()];
          r /= (int)g.size();
          nz = nz || v[i] != 0;
        }
        if (nz || !skipzero)
          out.push_back(v);
      }
    };
    all(og, O, false);
    all(dg, D, true);
    const int K = (int)bg.size();
    int n = 1;
    for (int i = 0; i < N; i++)
      n *= K * K;
    for (int c = 0; c < n; c++) {
      Bx b;
      int r = c;
      bool ok = true;
      for (int i = 0; i < N; i++) {
        const int l = (r % (K * K)) / K, u = (r % (K * K)) % K;
        r /= K * K;
        b.lo[i] = bg[l];
        b.hi[i] = bg[u];
        ok = ok && l <= u;
      }
      if (ok)
        B.push_back(b);
    }
  }
};

struct TR
{
  bool dflt;
  double a, b;
};

template <int N>
static std::string vs(const double *v)
{
  std::string o = "(";
  for (int i = 0; i < N; i++)
    o += (i ? "," : "") + num(v[i]);
  return o + ")";
}
template <int N>
static std::string csv(const double *v)
{
  std::string o;
  for (int i = 0; i < N; i++)
    o += (i ? "," : "") + num(v[i]);
  return o;
}

template <typename T, int N>
static vec_t<T, N> mk(const double *c)
{
  vec_t<T, N> v;
  for (int i = 0; i < N; i++)
    v[i] = (T)c[i];
  return v;
}

struct Graze
{
  std::atomic<long long> n, differs;
  Graze() : n(0), differs(0) {}
};

template <typename T, int N>
static void check_ray(const char *tname, const double *o, const double *d, const double *lo, const double *hi, const TR &tr, Counters &C, uint64_t &h, Graze &G, int kmax = 22)
{
  typedef vec_t<T, N> V;
  const double rel = sizeof(T) == 4 ? ldexp(1.0, -18) : ldexp(1.0, -45);
  const range_t<V> box(mk<T, N>(lo), mk<T, N>(hi));
  const range_t<T> R = tr.dflt ? intersectRayBox(mk<T, N>(o), mk<T, N>(d), box) : intersectRayBox(mk<T, N>(o), mk<T, N>(d), box, range_t<T>((T)tr.a, (T)tr.b));
  const double r0 = (double)R.lower, r1 = (double)R.upper;
  const bool rne = r0 <= r1;
  const double ta = tr.dflt ? 0.0 : tr.a, tb = tr.dflt ? INFINITY : tr.b;
  // oracle (1): exact slab intervals; 'in' counts ties (parallel, origin on a slab plane) as inside, 'out' as outside
  double in0 = ta, in1 = tb, out0 = ta, out1 = tb;
  bool tie = false, parallel = false, flat = false;
  int where = 0;  // 0 inside (strictly), 1 on the boundary, 2 outside
  for (int i = 0; i < N; i++) {
    flat = flat || lo[i] == hi[i];
    if (o[i] < lo[i] || o[i] > hi[i])
      where = 2;
    else if ((o[i] == lo[i] || o[i] == hi[i]) && where == 0)
      where = 1;
    if (d[i] != 0) {
      const double a = (lo[i] - o[i]) / d[i], b = (hi[i] - o[i]) / d[i];
      const double mn = std::min(a, b), mx = std::max(a, b);
      in0 = std::max(in0, mn), in1 = std::min(in1, mx);
      out0 = std::max(out0, mn), out1 = std::min(out1, mx);
    } else {
      parallel = true;
      if (o[i] < lo[i] || o[i] > hi[i]) {
        in0 = out0 = INFINITY;
        in1 = out1 = -INFINITY;
      } else if (o[i] == lo[i] || o[i] == hi[i]) {
        tie = true;
        out0 = INFINITY;
        out1 = -INFINITY;
      }
    }
  }
  C.states++;
  C.trans += 2;
  h = (h * 1099511628211ull) ^ (uint64_t)(rne ? (int64_t)(std::max(-1e6, std::min(1e6, r0)) * 8) * 64 + (int64_t)(std::max(-1e6, std::min(1e6, r1)) * 8) : -1);
  auto tol = [&](double v) { return rel * std::max(1.0, std::fabs(v)); };
  auto spec = [&]() {
    return std::string("ray ") + tname + " o=" + csv<N>(o) + " d=" + csv<N>(d) + " box=" + csv<N>(lo) + ":" + csv<N>(hi) + " t=" + (tr.dflt ? std::string("default") : num(tr.a) + "," + num(tr.b));
  };
  auto cls = [&]() {
    return std::string(parallel ? "axis-parallel direction" : "general direction") + ", " + (where == 0 ? "origin strictly inside" : where == 1 ? "origin on the boundary" : "origin outside");
  };
  const int kc = parallel + 2 * where;
  auto ivs = [](double a, double b) { return a <= b ? "[" + num(a) + "," + num(b) + "]" : std::string("empty (") + num(a) + " > " + num(b) + ")"; };
  const std::string fn = std::string("intersectRayBox<") + tname + ">";
  RP("org " + vs<N>(o) + " dir " + vs<N>(d) + " box [" + vs<N>(lo) + ".." + vs<N>(hi) + "] tRange " + (tr.dflt ? "default" : ivs(tr.a, tr.b)) + " -> " + ivs(r0, r1) + "; exact " + ivs(in0, in1) +
      (tie ? " (tie: parallel ray in a slab plane; counted as outside: " + ivs(out0, out1) + ")" : ""));
  // R within 'in' (+tol)
  if (rne) {
    const bool ok = in0 <= in1 + tol(in1) && r0 >= in0 - tol(in0) && r1 <= in1 + tol(in1);
    if (!ok)
      VIOL(C, kc + 8 * (in0 <= in1), fn + (in0 <= in1 ? "|interval covers parameters outside the exact slab interval|" : "|non-empty interval although the ray misses the box|") + cls(), spec(),
          "got " + ivs(r0, r1) + " exact " + ivs(in0, in1));
  }
  // 'out' within R (+tol)
  if (out0 <= out1) {
    const bool ok = r0 <= out0 + tol(out0) && r1 >= out1 - tol(out1);
    if (!ok)
      VIOL(C, kc + 8 * rne, fn + (rne ? "|interval misses parameters of the exact slab interval|" : "|empty interval although the ray hits the box|") + cls(), spec(), "got " + ivs(r0, r1) + " exact " + ivs(out0, out1));
  }
  if (tie) {
    G.n++;
    const bool same = (in0 <= in1) ? (rne && std::fabs(r0 - in0) <= tol(in0) && std::fabs(r1 - in1) <= tol(in1)) : !rne;
    if (!same && G.differs++ == 0)
      vr::note(fn + ": for a ray parallel to an axis with its origin exactly in a slab plane the result differs from the closed-set interval (tie, not demanded); first case: " + spec() + " got " +
          ivs(r0, r1) + " closed-set " + ivs(in0, in1));
  }
  // oracle (2): point membership at t = k/4
  for (int k = 0; k <= kmax; k++) {
    const double t = 0.25 * k;
    bool sin = true, sout = false;
    for (int i = 0; i < N; i++) {
      const double p = o[i] + t * d[i];
      sin = sin && lo[i] < p && p < hi[i];
      sout = sout || p < lo[i] || p > hi[i];
    }
    const bool tin = ta < t && t < tb, tout = t < ta || t > tb;
    C.trans++;
    if (sin && tin) {
      if (!(rne && r0 - tol(r0) <= t && t <= r1 + tol(r1)))
        VIOL(C, kc, fn + "|a parameter whose point is strictly inside the box is not covered|" + cls(), spec(), "t = " + num(t) + " got " + ivs(r0, r1));
    } else if (sout || tout) {
      if (rne && r0 + tol(r0) <= t && t <= r1 - tol(r1))
        VIOL(C, kc + 8 * sout, fn + (sout ? "|a parameter whose point is strictly outside the box is covered|" : "|a parameter outside tRange is covered|") + cls(), spec(), "t = " + num(t) + " got " + ivs(r0, r1));
    }
  }
}

template <typename T, int N>
static void sweep(const char *tname, const Space<N> &S, const std::vector<TR> &trs)
{
  Graze G;
  const long long no = (long long)S.O.size(), nd = (long long)S.D.size();
  const uint64_t seed = vr::fnv(std::string(tname));
  // sample parameters t = k/4 up to past the latest possible exit: (max |hi - o|) / min |d| = (max|b| + max|o|) / (1/2)
  double mo = 0;
  for (auto &o : S.O)
    for (int i = 0; i < N; i++)
      mo = std::max(mo, std::fabs(o[i]));
  const int kmax = (int)((S.gv.back() + mo) * 8) + 2;
  c05::parallel_items(no * nd, 4, [&](long long item, Counters &C) {
    uint64_t h = seed;
    const double *o = S.O[item / nd].data(), *d = S.D[item % nd].data();
    for (size_t ib = 0; ib < S.B.size(); ib++)
      for (size_t it = 0; it < trs.size(); it++)
        check_ray<T, N>(tname, o, d, S.B[ib].lo, S.B[ib].hi, trs[it], C, h, G, kmax);
    vr::outcome(h);
  }, tname);
  vr::stat(std::string("ties_") + tname, G.n);
  vr::stat(std::string("ties_differing_from_closed_set_") + tname, G.differs);
  vr::sample(std::string("intersectRayBox<") + tname + ">: " + std::to_string(no) + " origins x " + std::to_string(nd) + " directions x " + std::to_string(S.B.size()) + " boxes x " +
          std::to_string(trs.size()) + " tRanges, e.g. org " + vs<N>(S.O[1].data()) + " dir " + vs<N>(S.D[nd - 1].data()),
      tname);
}

int main(int argc, char **argv)
{
  c05::init(argc, argv);
  const double g5[] = {-1, -0.5, 0, 0.5, 1}, g7[] = {-1.5, -1, -0.5, 0, 0.5, 1, 1.5};
  const std::vector<double> G5(g5, g5 + 5), G7(g7, g7 + 7);
  std::vector<TR> trs;
  const TR t0 = {true, 0, 0}, t1 = {false, 0.25, 1.5}, t2 = {false, 1, 3}, t3 = {false, 0, INFINITY}, t4 = {false, 0.5, 0.5};
  trs.push_back(t0);
  trs.push_back(t1);
  trs.push_back(t2);
  if (vr::replaying()) {
    // "ray <f2|f3|d2|d3> o=.. d=.. box=lo:hi t=default|a,b"
    printf("replaying case %s\n", vr::S().replay.c_str());
    std::vector<std::string> t = c05::split_ws(vr::S().replay);
    if (t.size() != 6) {
      printf("cannot parse replay spec\n");
      return 2;
    }
    std::vector<double> o = c05::parse_nums(t[2].substr(2)), d = c05::parse_nums(t[3].substr(2));
    const std::string bx = t[4].substr(4);
    std::vector<double> lo = c05::parse_nums(bx.substr(0, bx.find(':'))), hi = c05::parse_nums(bx.substr(bx.find(':') + 1));
    TR tr = t0;
    if (t[5] != "t=default") {
      std::vector<double> ab = c05::parse_nums(t[5].substr(2));
      tr.dflt = false;
      tr.a = ab[0];
      tr.b = ab[1];
    }
    o.resize(3), d.resize(3), lo.resize(3), hi.resize(3);
    Counters C;
    uint64_t h = 0;
    Graze G;
    if (t[1] == "f2")
      check_ray<float, 2>("f2", o.data(), d.data(), lo.data(), hi.data(), tr, C, h, G);
    else if (t[1] == "f3")
      check_ray<float, 3>("f3", o.data(), d.data(), lo.data(), hi.data(), tr, C, h, G);
    else if (t[1] == "d2")
      check_ray<double, 2>("d2", o.data(), d.data(), lo.data(), hi.data(), tr, C, h, G);
    else if (t[1] == "d3")
      check_ray<double, 3>("d3", o.data(), d.data(), lo.data(), hi.data(), tr, C, h, G);
    printf("  %lld inputs, %lld oracle comparisons, %lld violations\n", C.states, C.trans, C.bad);
    vr::flush();
    return vr::S().viols.empty() ? 0 : 1;
  }
  {
    Space<2> s2;
    s2.build(G7, G5, G5);
    std::vector<TR> all = trs;
    all.push_back(t3);
    all.push_back(t4);
    sweep<float, 2>("f2", s2, all);
    sweep<double, 2>("d2", s2, all);
  }
  {
    Space<3> s3;
    s3.build(vr::thorough() ? G7 : G5, G5, G5);
    std::vector<TR> all = trs;
    if (vr::thorough())
      all.push_back(t4);
    else
      all.pop_back();  // quick: default and [0.25,1.5]
    sweep<float, 3>("f3", s3, all);
    if (vr::thorough()) {
      Space<3> s3d;
      s3d.build(G5, G5, G5);
      sweep<double, 3>("d3", s3d, trs);
    } else {
      Space<3> s3d;
      const double g3[] = {-1, 0, 1};
      s3d.build(G5, std::vector<double>(g3, g3 + 3), G5);
      sweep<double, 3>("d3", s3d, trs);
    }
  }
  vr::stat("traces", vr::S().stats["states"]);
  return vr::finish();
}
