// C04: instantiates the "bin" families for element type uint8_t (see C04_groups.h)
#include "C04_groups.h"
void c04_reg_bin_u8(c04::Reg &r)
{
  c04::reg_bin<uint8_t>(r);
}
