// C07 helpers shared by the 2^32 sweep and the grid harness: float bit patterns, the
// value-ordered enumeration of all floats, input equivalence classes, ulp sizes.
#pragma once
#include <cfloat>
#include <cmath>
#include <cstdint>
#include <cstdio>
#include <cstdlib>
#include <cstring>
#include <sstream>
#include <string>
#include <vector>

namespace c07 {

inline float f_of(uint32_t b)
{
  float f;
  memcpy(&f, &b, 4);
  return f;
}
inline uint32_t bits_of(float f)
{
  uint32_t b;
  memcpy(&b, &f, 4);
  return b;
}
inline double d_of(uint64_t b)
{
  double d;
  memcpy(&d, &b, 8);
  return d;
}
inline uint64_t bits_of(double d)
{
  uint64_t b;
  memcpy(&b, &d, 8);
  return b;
}

// key 0 .. 2^32-1 enumerates every float bit pattern in non-decreasing value order:
// -NaNs, -inf, ..., -denormals, -0, +0, +denormals, ..., +inf, +NaNs
inline uint32_t key_to_bits(uint32_t key)
{
  return (key & 0x80000000u) ? (key ^ 0x80000000u) : ~key;
}
inline uint32_t bits_to_key(uint32_t b)
{
  return (b & 0x80000000u) ? ~b : (b ^ 0x80000000u);
}
static const uint32_t KEY_NEG_INF = 0x007fffffu;  // keys below are negative NaNs
static const uint32_t KEY_POS_INF = 0xff800000u;  // keys above are positive NaNs

// equivalence class of a float input (used in signatures; never the concrete value)
enum FClass
{
  FC_NAN = 0,
  FC_NINF,
  FC_NHUGE,   // -[2^126, inf)
  FC_NLARGE,  // -[2^64, 2^126)
  FC_NMID,    // -[2^-64, 2^64)
  FC_NSMALL,  // -[2^-126, 2^-64)
  FC_NDEN,
  FC_NZERO,
  FC_PZERO,
  FC_PDEN,
  FC_PSMALL,
  FC_PMID,
  FC_PLARGE,
  FC_PHUGE,
  FC_PINF,
  FC_COUNT
};
inline int fclass_of_bits(uint32_t b)
{
  const uint32_t e = (b >> 23) & 0xff, m = b & 0x7fffff;
  const bool neg = b >> 31;
  if (e == 0xff)
    return m ? FC_NAN : (neg ? FC_NINF : FC_PINF);
  if (e == 0)
    return m ? (neg ? FC_NDEN : FC_PDEN) : (neg ? FC_NZERO : FC_PZERO);
  // value in [2^(e-127), 2^(e-126))
  const int ex = (int)e - 127;
  if (ex >= 126)
    return neg ? FC_NHUGE : FC_PHUGE;
  if (ex >= 64)
    return neg ? FC_NLARGE : FC_PLARGE;
  if (ex >= -64)
    return neg ? FC_NMID : FC_PMID;
  return neg ? FC_NSMALL : FC_PSMALL;
}
inline const char *fclass_name(int c)
{
  static const char *n[] = {"NaN", "-inf", "negative with |x| in [2^126,inf)", "negative with |x| in [2^64,2^126)",
      "negative with |x| in [2^-64,2^64)", "negative with |x| in [2^-126,2^-64)", "negative denormal", "-0", "+0",
      "positive denormal", "positive in [2^-126,2^-64)", "positive in [2^-64,2^64)", "positive in [2^64,2^126)",
      "positive in [2^126,inf)", "+inf"};
  return (c >= 0 && c < FC_COUNT) ? n[c] : "?";
}

inline std::string hex32(uint32_t b)
{
  char s[16];
  snprintf(s, sizeof s, "0x%08x", b);
  return s;
}
inline std::string hex64(uint64_t b)
{
  char s[24];
  snprintf(s, sizeof s, "0x%016llx", (unsigned long long)b);
  return s;
}
inline std::string fstr(float f)
{
  char s[96];
  snprintf(s, sizeof s, "%.9g (%a, bits 0x%08x)", (double)f, (double)f, bits_of(f));
  return s;
}
inline std::string dstr(double d)
{
  char s[112];
  snprintf(s, sizeof s, "%.17g (%a)", d, d);
  return s;
}
inline std::string ldstr(long double d)
{
  char s[112];
  snprintf(s, sizeof s, "%.21Lg", d);
  return s;
}

// spacing of the float / double grid at magnitude m ("one rounding step" at m)
inline double ulp_float_at(double m)
{
  m = fabs(m);
  if (!(m >= (double)FLT_MIN))
    return ldexp(1.0, -149);
  if (std::isinf(m))
    return ldexp(1.0, 104);
  return ldexp(1.0, ilogb(m) - 23);
}
inline long double ulp_double_at(long double m)
{
  m = fabsl(m);
  if (!(m >= (long double)DBL_MIN))
    return ldexpl(1.0L, -1074);
  if (std::isinf(m))
    return ldexpl(1.0L, 971);
  return ldexpl(1.0L, ilogbl(m) - 52);
}

inline std::vector<std::string> split_commas(const std::string &s)
{
  std::vector<std::string> v;
  std::stringstream ss(s);
  std::string item;
  while (std::getline(ss, item, ','))
    v.push_back(item);
  return v;
}
inline uint64_t parse_u64(const std::string &s)
{
  return strtoull(s.c_str(), nullptr, 0);
}
inline long long parse_i64(const std::string &s)
{
  return strtoll(s.c_str(), nullptr, 0);
}

}  // namespace c07
