// C04: instantiates the "bin" families for element type int8_t (see C04_groups.h)
#include "C04_groups.h"
void c04_reg_bin_i8(c04::Reg &r)
{
  c04::reg_bin<int8_t>(r);
}
