// C04: instantiates the "conv" families for element type uint32_t (see C04_groups.h)
#include "C04_groups.h"
void c04_reg_conv_u32(c04::Reg &r)
{
  c04::reg_conv<uint32_t>(r);
}
