// C11 unit "views": every history over ArrayView<T> slots and their source buffers.
//
// State = the history.  Two view slots (heap objects), two source vectors that the history may
// replace by a fresh buffer / poke / destroy, one std::array.  After the last operation of every
// history every live view is compared with the model: size(), data() (must be exactly the source
// pointer), at() throws exactly at >= size, iteration, every element (ASan is asked first whether the
// range is addressable).  A view whose source buffer has been replaced or destroyed is not read -
// doing that would be the harness's fault - only its size()/at() behaviour is checked.
#include "C11_common.h"

using namespace c11;

enum Code
{
  S_SET,
  S_POKE,
  S_KILL,
  A_POKE,
  V_DEF,
  V_VEC,
  V_ARR,
  V_PTR,
  V_MAKE,
  V_NULL,
  V_RESET,
  V_RESET_PTR,
  V_RESET_NULL,
  V_RESET_SUB,       // V->reset(V->data()+1, size-1): onto a sub-range of what it already views
  V_PTR_FROM_VIEW,   // V = new ArrayView(other->data()+1, othersize-1)
  V_ASSIGN_VEC,
  V_ASSIGN_ARR,
  V_COPY_CTOR,
  V_COPY_ASSIGN,
  V_WRITE,
  V_DESTROY
};

struct Op
{
  Code code;
  int slot;  // view slot, or source index for S_*
  int a;     // source index / size
  int b;     // pointer variant: 0 (data,size) 1 (data+1,size-1) 2 (data,0)
  std::string name;
  std::string cls;  // name without slot numbers: crash signature context
};

static std::vector<Op> make_ops()
{
  std::vector<Op> o;
  auto add = [&](Code c, int slot, int a, int b, const std::string &n, const std::string &cls) {
    Op x;
    x.code = c;
    x.slot = slot;
    x.a = a;
    x.b = b;
    x.name = n;
    x.cls = cls;
    o.push_back(x);
  };
  const char *var[3] = {"(data,size)", "(data+1,size-1)", "(data,0)"};
  // simplest first
  add(V_DEF, 0, 0, 0, "V0 = new ArrayView()", "ArrayView()");
  add(V_VEC, 0, 0, 0, "V0 = new ArrayView(S0)", "ArrayView(vector&)");
  add(V_VEC, 0, 1, 0, "V0 = new ArrayView(S1)", "ArrayView(vector&)");
  add(V_ARR, 0, 0, 0, "V0 = new ArrayView(arr)", "ArrayView(array&)");
  for (int b = 0; b < 3; b++)
    add(V_PTR, 0, 0, b, std::string("V0 = new ArrayView S0") + var[b], "ArrayView(T*,size_t)");
  add(V_MAKE, 0, 1, 0, "V0 = new ArrayView(make_ArrayView S1(data,size))", "make_ArrayView");
  add(V_NULL, 0, 0, 0, "V0 = new ArrayView(nullptr,0)", "ArrayView(T*,size_t)");
  add(V_RESET, 0, 0, 0, "V0->reset()", "reset()");
  for (int b = 0; b < 2; b++)
    add(V_RESET_PTR, 0, 1, b, std::string("V0->reset S1") + var[b], "reset(T*,size_t)");
  add(V_RESET_NULL, 0, 0, 0, "V0->reset(nullptr,0)", "reset(T*,size_t)");
  add(V_RESET_SUB, 0, 0, 0, "V0->reset(V0->data()+1, size-1)", "reset(T*,size_t) onto a sub-range of the viewed data");
  add(V_ASSIGN_VEC, 0, 0, 0, "*V0 = S0", "operator=(vector&)");
  add(V_ASSIGN_VEC, 0, 1, 0, "*V0 = S1", "operator=(vector&)");
  add(V_ASSIGN_ARR, 0, 0, 0, "*V0 = arr", "operator=(array&)");
  add(V_COPY_CTOR, 0, 1, 0, "V0 = new ArrayView(*V1)", "copy constructor");
  add(V_COPY_ASSIGN, 0, 1, 0, "*V0 = *V1", "copy assignment");
  add(V_WRITE, 0, 0, 0, "(*V0)[0] = fresh", "write through view");
  add(V_DESTROY, 0, 0, 0, "delete V0", "destructor");
  // second slot: what is needed for interactions
  add(V_VEC, 1, 0, 0, "V1 = new ArrayView(S0)", "ArrayView(vector&)");
  add(V_PTR, 1, 1, 1, std::string("V1 = new ArrayView S1") + var[1], "ArrayView(T*,size_t)");
  add(V_PTR_FROM_VIEW, 1, 0, 0, "V1 = new ArrayView(V0->data()+1, V0 size-1)", "ArrayView(T*,size_t) onto a sub-range of another view");
  add(V_COPY_CTOR, 1, 0, 0, "V1 = new ArrayView(*V0)", "copy constructor");
  add(V_COPY_ASSIGN, 1, 0, 0, "*V1 = *V0", "copy assignment");
  add(V_WRITE, 1, 0, 0, "(*V1)[0] = fresh", "write through view");
  add(V_DESTROY, 1, 0, 0, "delete V1", "destructor");
  // sources
  add(S_SET, 0, 0, 0, "S0 := fresh buffer of 0", "source replaced");
  add(S_SET, 0, 4, 0, "S0 := fresh buffer of 4", "source replaced");
  add(S_POKE, 0, 0, 0, "S0.back() = fresh", "source written");
  add(S_KILL, 0, 0, 0, "delete S0", "source destroyed");
  add(S_SET, 1, 3, 0, "S1 := fresh buffer of 3", "source replaced");
  add(S_POKE, 1, 0, 0, "S1.back() = fresh", "source written");
  add(S_KILL, 1, 0, 0, "delete S1", "source destroyed");
  add(A_POKE, 0, 0, 0, "arr[2] = fresh", "source written");
  return o;
}

static const std::vector<Op> &OPS()
{
  static std::vector<Op> o = make_ops();
  return o;
}

// model of one view
struct MView
{
  bool live = false;
  int kind = 0;  // 0 empty, 1 vector source, 2 array
  int src = 0, gen = 0;
  size_t off = 0, n = 0;
  bool reset_like = false;  // default constructed / reset(): data() must be null
  const char *how = "";     // how the view got its value: goes into the signature
};

template <typename T>
struct World
{
  Sources<T> S;
  ArrayView<T> *V[2];
  MView M[2];
  bool touched[2];

  World()
  {
    V[0] = V[1] = nullptr;
  }
  ~World()
  {
    delete V[0];
    delete V[1];
  }

  bool ptr_variant(int k, int b, T *&p, size_t &off, size_t &n)
  {
    if (!S.alive[k])
      return false;
    size_t sz = S.size(k);
    if (b == 0) {
      off = 0;
      n = sz;
    } else if (b == 1) {
      if (sz < 1)
        return false;
      off = 1;
      n = sz - 1;
    } else {
      off = 0;
      n = 0;
    }
    p = S.data(k) + off;
    return true;
  }

  void m_vec(MView &m, int k, size_t off, size_t n, const char *how)
  {
    m.live = true;
    m.kind = n ? 1 : 0;
    m.src = k;
    m.gen = S.gen[k];
    m.off = off;
    m.n = n;
    m.reset_like = false;
    m.how = how;
  }
  void m_arr(MView &m, const char *how)
  {
    m.live = true;
    m.kind = 2;
    m.off = 0;
    m.n = 3;
    m.reset_like = false;
    m.how = how;
  }
  void m_empty(MView &m, const char *how, bool reset_like)
  {
    m.live = true;
    m.kind = 0;
    m.n = 0;
    m.off = 0;
    m.reset_like = reset_like;
    m.how = how;
  }
  bool readable(const MView &m) const
  {
    if (m.kind == 1)
      return S.alive[m.src] && S.gen[m.src] == m.gen;
    return true;
  }

  // returns false if the operation is not enabled in this state
  static const char *kind() { return "ArrayView"; }
  static const std::vector<OpInfo> &ops()
  {
    static std::vector<OpInfo> v;
    if (v.empty())
      for (auto &o : OPS()) {
        OpInfo i;
        i.name = o.name;
        i.cls = o.cls;
        v.push_back(i);
      }
    return v;
  }

  bool apply(int opIndex)
  {
    const Op &op = OPS()[opIndex];
    const int s = op.slot;
    touched[0] = touched[1] = false;
    if (op.code >= V_DEF) {
      touched[s] = true;
      if (op.code == V_COPY_CTOR || op.code == V_COPY_ASSIGN || op.code == V_PTR_FROM_VIEW)
        touched[op.a] = true;
    }
    T *p = nullptr;
    size_t off = 0, n = 0;
    switch (op.code) {
    case S_SET:
      S.set(s, (size_t)op.a);
      return true;
    case S_POKE:
      if (!S.can_poke(s))
        return false;
      S.poke(s);
      return true;
    case S_KILL:
      if (!S.alive[s])
        return false;
      S.kill(s);
      return true;
    case A_POKE:
      S.poke_arr();
      return true;
    case V_DEF:
      delete V[s];
      V[s] = new ArrayView<T>();
      m_empty(M[s], "default constructed", true);
      return true;
    case V_VEC:
      if (!S.alive[op.a])
        return false;
      delete V[s];
      V[s] = new ArrayView<T>(*S.v[op.a]);
      m_vec(M[s], op.a, 0, S.size(op.a), "from vector&");
      return true;
    case V_ARR:
      delete V[s];
      V[s] = new ArrayView<T>(*S.arr);
      m_arr(M[s], "from array&");
      return true;
    case V_PTR:
      if (!ptr_variant(op.a, op.b, p, off, n))
        return false;
      delete V[s];
      V[s] = new ArrayView<T>(p, n);
      m_vec(M[s], op.a, off, n, "from pointer");
      return true;
    case V_MAKE:
      if (!ptr_variant(op.a, op.b, p, off, n))
        return false;
      delete V[s];
      V[s] = new ArrayView<T>(make_ArrayView(p, n));
      m_vec(M[s], op.a, off, n, "from pointer");
      return true;
    case V_NULL:
      delete V[s];
      V[s] = new ArrayView<T>((T *)nullptr, 0);
      m_empty(M[s], "from (nullptr,0)", true);
      return true;
    case V_RESET:
      if (!M[s].live)
        return false;
      V[s]->reset();
      m_empty(M[s], "reset()", true);
      return true;
    case V_RESET_PTR:
      if (!M[s].live || !ptr_variant(op.a, op.b, p, off, n))
        return false;
      V[s]->reset(p, n);
      m_vec(M[s], op.a, off, n, "reset(pointer)");
      return true;
    case V_RESET_NULL:
      if (!M[s].live)
        return false;
      V[s]->reset(nullptr, 0);
      m_empty(M[s], "reset(nullptr,0)", true);
      return true;
    case V_RESET_SUB: {
      MView &m = M[s];
      if (!m.live || m.n == 0 || !readable(m))
        return false;
      V[s]->reset(V[s]->data() + 1, m.n - 1);
      m.off += 1;
      m.n -= 1;
      if (m.n == 0)
        m.kind = 0;
      m.reset_like = false;
      m.how = "reset(pointer)";
      return true;
    }
    case V_PTR_FROM_VIEW: {
      const MView &o = M[op.a];
      if (!o.live || o.n == 0 || !readable(o))
        return false;
      ArrayView<T> *nv = new ArrayView<T>(V[op.a]->data() + 1, o.n - 1);
      delete V[s];
      V[s] = nv;
      M[s] = o;
      M[s].off += 1;
      M[s].n -= 1;
      if (M[s].n == 0)
        M[s].kind = 0;
      M[s].reset_like = false;
      M[s].how = "from pointer";
      return true;
    }
    case V_ASSIGN_VEC:
      if (!M[s].live || !S.alive[op.a])
        return false;
      *V[s] = *S.v[op.a];
      m_vec(M[s], op.a, 0, S.size(op.a), "assigned vector&");
      return true;
    case V_ASSIGN_ARR:
      if (!M[s].live)
        return false;
      *V[s] = *S.arr;
      m_arr(M[s], "assigned array&");
      return true;
    case V_COPY_CTOR: {
      if (!M[op.a].live)
        return false;
      ArrayView<T> *nv = new ArrayView<T>(*V[op.a]);
      delete V[s];
      V[s] = nv;
      M[s] = M[op.a];
      M[s].how = "copy of a view";
      return true;
    }
    case V_COPY_ASSIGN:
      if (!M[s].live || !M[op.a].live)
        return false;
      *V[s] = *V[op.a];
      M[s] = M[op.a];
      M[s].how = "copy of a view";
      return true;
    case V_WRITE: {
      if (!M[s].live || M[s].n == 0 || !readable(M[s]))
        return false;
      LL x = S.fresh();
      (*V[s])[0] = (T)x;
      if (M[s].kind == 1)
        S.mv[M[s].src][M[s].off] = x;
      else
        S.marr[M[s].off] = x;
      return true;
    }
    case V_DESTROY:
      if (!M[s].live)
        return false;
      delete V[s];
      V[s] = nullptr;
      M[s] = MView();
      return true;
    }
    return false;
  }

  void check(Checker &c)
  {
    std::string why;
    if (!S.check(why))
      c.fail("ArrayView", "sources", "a source buffer changed without a write", why);
    for (int s = 0; s < 2; s++) {
      c.mix(M[s].live);
      if (!M[s].live)
        continue;
      Expect<T> e;
      e.kind = "ArrayView";
      e.name = s ? "V1" : "V0";
      e.role = M[s].how;
      e.n = M[s].n;
      e.readable = readable(M[s]);
      e.touched = touched[s];
      e.must_be_null = M[s].reset_like;
      if (e.readable && M[s].n) {
        if (M[s].kind == 1) {
          e.alias = S.data(M[s].src) + M[s].off;
          e.want.assign(S.mv[M[s].src].begin() + M[s].off, S.mv[M[s].src].begin() + M[s].off + M[s].n);
        } else {
          e.alias = S.arr->data() + M[s].off;
          e.want.assign(S.marr.begin() + M[s].off, S.marr.begin() + M[s].off + M[s].n);
        }
      }
      c.wrapper(*V[s], e);
    }
  }
};

int main(int argc, char **argv)
{
  return unit_main<World>("views", argc, argv, 4, 5);
}
