// C15 unit "roundtrip": every sequence of typed values written through a BufferWriter and read back
// through a BufferReader, and every truncation point of each such stream.
//
// (i)  WriteSizeCalculator fed the same sequence predicts buffer->size(); reading the values back in
//      order yields equal values; end() is false before each read and true after the last; the cursor
//      ends at the buffer size.
// (ii) For every proper prefix length p of the stream: a BufferReader over a heap block of exactly p
//      bytes reads the values that lie completely inside the prefix correctly and throws
//      (std::exception) at the first value that does not; ASan watches the block's redzones.
//
// An array wrapper (OwnedArray, FixedArray, ArrayView, FixedArrayView) is read back the way the
// library's AbstractArray<T> overload documents the wire format: element count as size_t, then the raw
// elements (the library has no operator>> for the wrapper types).
#include "C11_C15_seq.h"

#include "rkcommon/common.h"
#include "rkcommon/networking/DataStreaming.h"

#include <cstring>
#include <memory>

using namespace rkcommon;
using namespace rkcommon::utility;
using namespace rkcommon::networking;

struct Pod
{
  int a;
  float b;
  char c;
};

static const char *LONG40 = "0123456789abcdefghijklmnopqrstuvwxyzABCD";

enum Val
{
  V_I8,
  V_I32,
  V_F64,
  V_POD,
  V_STR0,
  V_STR1,
  V_STR40,
  V_STRNUL,  // a string with an embedded '\0': size() bytes travel, not strlen()
  V_CSTR,
  V_VINT0,
  V_VINT3,
  V_VSTR,
  V_VCSTR,  // vector<const char*>: each element goes through the const char* overload, i.e. is a string on the wire
  V_VVINT,
  V_BASE_OWNED,  // OwnedArray<int> written through a const AbstractArray<int>&
  V_OWNED,
  V_OWNED0,
  V_FIXED,
  V_VIEW,
  V_FVIEW,
  NVAL
};

static const char *VNAME[NVAL] = {"int8", "int32", "double", "Pod{int,float,char}", "string\"\"", "string\"a\"", "string(40)", "string\"a\\0b\"", "const char*\"xyz\"", "vector<int>{}", "vector<int>{1,2,3}",
    "vector<string>{\"\",\"xy\"}", "vector<const char*>{\"\",\"pq\"}", "vector<vector<int>>{{},{1},{2,3}}", "(const AbstractArray<int>&)OwnedArray<int>{4}", "OwnedArray<int>{4}", "OwnedArray<int>{}", "FixedArray<uint8_t>{3}",
    "ArrayView<double>{2}", "FixedArrayView<uint8_t>{2 of 3}"};
// class of the value for signatures
static const char *VCLS[NVAL] = {"POD", "POD", "POD", "POD", "std::string", "std::string", "std::string", "std::string with an embedded NUL", "const char*", "std::vector", "std::vector", "std::vector<std::string>", "std::vector<const char*>", "nested std::vector",
    "AbstractArray& (base reference)", "OwnedArray", "OwnedArray", "FixedArray", "ArrayView", "FixedArrayView"};

// the values, built once
struct Values
{
  int8_t i8 = -7;
  int32_t i32 = 0x12345678;
  double f64 = -2.5e100;
  Pod pod;
  std::string s0, s1 = "a", s40 = LONG40, snul = std::string("a\0b", 3);
  std::vector<int> vi0, vi3;
  std::vector<std::string> vs;
  std::vector<const char *> vcs;
  std::vector<std::vector<int>> vvi;
  std::vector<int> owned_src;
  std::vector<uint8_t> fixed_src;
  std::vector<double> view_src;
  OwnedArray<int> owned, owned0;
  FixedArray<uint8_t> fixed;
  ArrayView<double> view;
  std::shared_ptr<FixedArray<uint8_t>> fixed_sp;
  FixedArrayView<uint8_t> fview;

  static std::vector<int> mk_owned() { return std::vector<int>{11, -12, 13, 1 << 30}; }
  static std::vector<uint8_t> mk_fixed() { return std::vector<uint8_t>{0, 255, 7}; }

  Values()
      : vi3{1, 2, 3}, vs{"", "xy"}, vcs{"", "pq"}, vvi{{}, {1}, {2, 3}}, owned_src(mk_owned()), fixed_src(mk_fixed()), view_src{1.5, -0.0}, owned(owned_src), fixed(fixed_src), view(view_src),
        fixed_sp(std::make_shared<FixedArray<uint8_t>>(fixed_src)), fview(fixed_sp, 1, 2)
  {
    pod.a = -99;
    pod.b = 0.25f;
    pod.c = 'q';
  }
};

static Values &VALS()
{
  static Values *v = new Values();
  return *v;
}

static void write_value(WriteStream &w, int v)
{
  Values &V = VALS();
  switch (v) {
  case V_I8: w << V.i8; break;
  case V_I32: w << V.i32; break;
  case V_F64: w << V.f64; break;
  case V_POD: w << V.pod; break;
  case V_STR0: w << V.s0; break;
  case V_STR1: w << V.s1; break;
  case V_STR40: w << V.s40; break;
  case V_STRNUL: w << V.snul; break;
  case V_CSTR: w << "xyz"; break;
  case V_VINT0: w << V.vi0; break;
  case V_VINT3: w << V.vi3; break;
  case V_VSTR: w << V.vs; break;
  case V_VCSTR: w << V.vcs; break;
  case V_VVINT: w << V.vvi; break;
  case V_BASE_OWNED: w << static_cast<const AbstractArray<int> &>(V.owned); break;
  case V_OWNED: w << V.owned; break;
  case V_OWNED0: w << V.owned0; break;
  case V_FIXED: w << V.fixed; break;
  case V_VIEW: w << V.view; break;
  case V_FVIEW: w << V.fview; break;
  }
}

// read an array the way AbstractArray's operator<< writes it; "" if equal to want
template <typename T>
static std::string read_array(BufferReader &r, const T *want, size_t n)
{
  size_t got_n = 0;
  r >> got_n;
  if (got_n != n)
    return "element count read back is " + std::to_string(got_n) + " want " + std::to_string(n);
  std::unique_ptr<T[]> dst(new T[n ? n : 1]);
  r.read(dst.get(), n * sizeof(T));
  if (n && memcmp(dst.get(), want, n * sizeof(T)) != 0)
    return "elements read back differ";
  return "";
}

// reads value v from r; returns "" if it equals what was written, else a description (exceptions propagate)
static std::string read_value(BufferReader &r, int v)
{
  Values &V = VALS();
  switch (v) {
  case V_I8: {
    int8_t x = 0;
    r >> x;
    return x == V.i8 ? "" : "int8 differs";
  }
  case V_I32: {
    int32_t x = 0;
    r >> x;
    return x == V.i32 ? "" : "int32 differs";
  }
  case V_F64: {
    double x = 0;
    r >> x;
    return memcmp(&x, &V.f64, 8) == 0 ? "" : "double differs";
  }
  case V_POD: {
    Pod x;
    x.a = 0;
    x.b = 0;
    x.c = 0;
    r >> x;
    return (x.a == V.pod.a && x.b == V.pod.b && x.c == V.pod.c) ? "" : "Pod differs";
  }
  case V_STR0:
  case V_STR1:
  case V_STR40:
  case V_STRNUL:
  case V_CSTR: {
    std::string x = "junk";
    r >> x;
    const std::string want = v == V_STR0 ? V.s0 : v == V_STR1 ? V.s1 : v == V_STR40 ? V.s40 : v == V_STRNUL ? V.snul : std::string("xyz");
    return x == want ? "" : "string read back as '" + x + "' want '" + want + "'";
  }
  case V_VINT0:
  case V_VINT3: {
    std::vector<int> x{9, 9};
    r >> x;
    return x == (v == V_VINT0 ? V.vi0 : V.vi3) ? "" : "vector<int> differs (size " + std::to_string(x.size()) + ")";
  }
  case V_VSTR: {
    std::vector<std::string> x;
    r >> x;
    return x == V.vs ? "" : "vector<string> differs (size " + std::to_string(x.size()) + ")";
  }
  case V_VCSTR: {
    std::vector<std::string> x;
    r >> x;
    return x == std::vector<std::string>{"", "pq"} ? "" : "vector<const char*> read back as vector<string> differs (size " + std::to_string(x.size()) + ")";
  }
  case V_VVINT: {
    std::vector<std::vector<int>> x;
    r >> x;
    return x == V.vvi ? "" : "vector<vector<int>> differs (size " + std::to_string(x.size()) + ")";
  }
  case V_BASE_OWNED:
  case V_OWNED: return read_array<int>(r, V.owned_src.data(), 4);
  case V_OWNED0: return read_array<int>(r, nullptr, 0);
  case V_FIXED: return read_array<uint8_t>(r, V.fixed_src.data(), 3);
  case V_VIEW: return read_array<double>(r, V.view_src.data(), 2);
  case V_FVIEW: return read_array<uint8_t>(r, V.fixed_src.data() + 1, 2);
  }
  return "?";
}

static std::string seq_text(const std::vector<int> &h)
{
  std::string s;
  for (size_t i = 0; i < h.size(); i++)
    s += (i ? ", " : "") + std::string(VNAME[h[i]]);
  return "[" + s + "]";
}

static int run_sequence(const std::vector<int> &h, const std::string &replay, bool verbose)
{
  sq::stat("states");
  sq::stat("traces");
  sq::stat("max_depth", (long long)h.size());
  const std::string last = h.empty() ? "empty sequence" : VCLS[h.back()];
  // ---- write
  BufferWriter bw;
  WriteSizeCalculator calc;
  std::vector<size_t> ends;  // stream length after each value
  for (int v : h) {
    write_value(bw, v);
    write_value(calc, v);
    ends.push_back(bw.buffer->size());
    sq::stat("transitions", 2);
  }
  const size_t L = bw.buffer->size();
  if (verbose) {
    printf("sequence %s\n  bytes written %zu, WriteSizeCalculator %zu; per value:", seq_text(h).c_str(), L, calc.writtenSize);
    for (size_t i = 0; i < h.size(); i++)
      printf(" %zu", ends[i] - (i ? ends[i - 1] : 0));
    printf("\n");
  }
  bool bad = false;
  if (calc.writtenSize != L) {
    bad = true;
    sq::viol("WriteSizeCalculator|predicted size differs from BufferWriter|" + last, replay, seq_text(h) + ": predicted " + std::to_string(calc.writtenSize) + " written " + std::to_string(L));
  }
  uint64_t digest = vr::fnv(&L, sizeof L);
  // ---- (i) read back
  {
    std::shared_ptr<AbstractArray<uint8_t>> buf = bw.buffer;
    BufferReader r(buf);
    for (size_t i = 0; i < h.size() && !bad; i++) {
      sq::stat("transitions");
      if (r.end()) {
        bad = true;
        sq::viol(std::string("BufferReader::end|true before the last value was read|") + VCLS[h[i]], replay, seq_text(h) + ": end() before value " + std::to_string(i) + " cursor " + std::to_string(r.cursor) + " of " + std::to_string(L));
        break;
      }
      std::string why;
      try {
        why = read_value(r, h[i]);
      } catch (const std::exception &e) {
        why = std::string("reading threw: ") + e.what();
      }
      if (verbose)
        printf("  read back value %zu (%s): %s; cursor %zu\n", i, VNAME[h[i]], why.empty() ? "equal" : why.c_str(), r.cursor);
      if (!why.empty()) {
        bad = true;
        sq::viol(std::string("operator<< / read back|value does not round-trip|") + VCLS[h[i]], replay, seq_text(h) + ": value " + std::to_string(i) + " (" + VNAME[h[i]] + "): " + why + "; it occupies "
                + std::to_string(ends[i] - (i ? ends[i - 1] : 0)) + " bytes in the stream");
        break;
      }
      if (r.cursor != ends[i]) {
        bad = true;
        sq::viol(std::string("BufferReader|cursor after a value differs from the bytes written for it|") + VCLS[h[i]], replay, seq_text(h) + ": cursor " + std::to_string(r.cursor) + " want " + std::to_string(ends[i]));
        break;
      }
    }
    if (!bad && (!r.end() || r.cursor != L)) {
      bad = true;
      sq::viol("BufferReader::end|false after the last value was read|" + last, replay, seq_text(h) + ": cursor " + std::to_string(r.cursor) + " of " + std::to_string(L));
    }
  }
  sq::outcome(digest);
  if (bad)
    return sq::H_VIOL;
  if (h.size() >= 2 && vr::S().samples.size() < 6 && (h[0] * 5 + h[1]) % 13 == 4)
    sq::sample(replay + " = " + seq_text(h) + ": " + std::to_string(L) + " bytes, round trip ok, " + std::to_string(L) + " truncation points");
  // ---- (i') the same sequence through the other WriteStream, a FixedBufferWriter of exactly the
  // predicted size (compute the size, allocate, write): nothing may be rejected, and what
  // getWrittenView() shows reads back equal.  A failure here is reported but does not end the sequence.
  {
    FixedBufferWriter fw(L);
    std::string why;
    size_t i = 0;
    try {
      for (; i < h.size(); i++) {
        sq::stat("transitions");
        write_value(fw, h[i]);
      }
    } catch (const std::exception &e) {
      why = std::string("write of value ") + std::to_string(i) + " (" + VNAME[h[i]] + ") at cursor " + std::to_string(fw.cursor) + " threw: " + e.what();
    }
    if (why.empty() && !h.empty()) {
      if (fw.cursor != L || fw.available() != 0)
        why = "cursor " + std::to_string(fw.cursor) + " available " + std::to_string(fw.available()) + " after writing " + std::to_string(L) + " bytes";
      else {
        std::shared_ptr<AbstractArray<uint8_t>> wv = fw.getWrittenView();
        if (wv->size() != L || (L && memcmp(wv->begin(), bw.buffer->begin(), L) != 0))
          why = "getWrittenView() differs from what BufferWriter produced";
      }
    }
    if (verbose)
      printf("  FixedBufferWriter(%zu): %s\n", L, why.empty() ? "accepted everything, same bytes" : why.c_str());
    if (!why.empty())
      sq::viol(std::string("FixedBufferWriter as WriteStream|a sequence of exactly the predicted size is not accepted|") + (i + 1 >= h.size() ? "last value ends at the capacity" : "inner value"), replay,
          seq_text(h) + " into FixedBufferWriter(" + std::to_string(L) + "): " + why);
  }
  // ---- (ii) every truncation point
  for (size_t p = 0; p < L; p++) {
    sq::stat("truncations");
    std::shared_ptr<AbstractArray<uint8_t>> cut = std::make_shared<FixedArray<uint8_t>>(bw.buffer->begin(), p);  // new uint8_t[p], exactly
    BufferReader r(cut);
    size_t first_cut = 0;  // first value not completely inside the prefix
    while (first_cut < h.size() && ends[first_cut] <= p)
      first_cut++;
    bool threw = false;
    std::string why;
    size_t i = 0;
    for (; i < h.size(); i++) {
      sq::stat("transitions");
      try {
        why = read_value(r, h[i]);
      } catch (const std::exception &) {
        threw = true;
        break;
      }
      if (!why.empty())
        break;
    }
    bool ok = threw && i == first_cut;
    if (verbose)
      printf("  prefix %3zu: value %zu is cut; reader %s at value %zu%s\n", p, first_cut, threw ? "threw" : why.empty() ? "read everything" : "returned a wrong value", i, ok ? "" : "   <-- WRONG");
    if (!ok) {
      std::string what = !threw ? (why.empty() ? "no exception although the stream is truncated" : "wrong value instead of an exception") : (i < first_cut ? "exception for a value that lies inside the prefix" : "values past the cut were read");
      sq::viol(std::string("BufferReader on a truncated stream|") + what + "|" + VCLS[h[std::min(i, h.size() - 1)]], replay + "@" + std::to_string(p),
          seq_text(h) + " truncated to " + std::to_string(p) + " of " + std::to_string(L) + " bytes: " + what + " (value " + std::to_string(i) + ", first cut value " + std::to_string(first_cut) + ") " + why);
      return sq::H_VIOL;
    }
  }
  return sq::H_OK;
}

int main(int argc, char **argv)
{
  vr::init(argc, argv);
  VALS();
  if (vr::replaying()) {
    std::string r = vr::S().replay;
    size_t c = r.find(':'), at = r.find('@');
    std::vector<int> h = sq::parse_ops(r.substr(c + 1, at == std::string::npos ? std::string::npos : at - c - 1));
    for (int x : h)
      if (x < 0 || x >= NVAL) {
        printf("bad value index %d\n", x);
        return 2;
      }
    int res = run_sequence(h, r.substr(0, at), true);
    printf("result: %s\n", res == sq::H_OK ? "ok" : "VIOLATION");
    vr::flush();
    return vr::S().viols.empty() ? 0 : 1;
  }
  sq::make_scratch();
  const int depth = vr::thorough() ? 4 : 3;
  sq::explore_tree(
      "seq", NVAL, depth, 64, [](const std::vector<int> &h, const std::string &rp) { return run_sequence(h, rp, false); },
      [](const std::vector<int> &h) { return std::string("stream round trip|crash|") + (h.empty() ? "empty sequence" : VCLS[h.back()]); });
  sq::remove_scratch();
  vr::note("value alphabet of " + std::to_string(NVAL) + ", sequences of length <= " + std::to_string(depth) + "; a sequence that fails the round trip is not extended and its truncations are not run");
  return vr::finish();
}
